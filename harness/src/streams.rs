//! Designed case streams for the evaluator-level properties (C01-B/C02 random, C05, C09, C10, C11).
use crate::codec::*;
use crate::evalrun::*;
use crate::gen::*;
use crate::pool::*;
use crate::rng::Rng;
use crate::rs::RsCase;
use reval::expr::Expr;
use reval::value::Value;

// ------------------------------------------------------------------ C05: lazy / strict, logging functions

pub fn lazy_env() -> EnvSpec {
    EnvSpec {
        syms: vec![],
        fns: vec![
            FnSpec::new("t", false, FnKind::Const(Value::Bool(true))),
            FnSpec::new("f", false, FnKind::Const(Value::Bool(false))),
            FnSpec::new("n", false, FnKind::Const(Value::None)),
            FnSpec::new("v", false, FnKind::Id),
            FnSpec::new("boom", false, FnKind::Fail),
            // a cacheable function around non-cacheable calls: memoising a call must not memoise its argument's calls
            FnSpec::new("memo", true, FnKind::Id),
            // a cacheable function that fails: it must be invoked once per call (failures are not remembered, nor retried)
            FnSpec::new("cboom", true, FnKind::Fail),
        ],
    }
}

#[derive(Clone, Debug)]
pub enum Shape {
    Leaf(usize),
    Node(&'static str, Vec<Shape>),
}

pub const LEAF_FNS: [&str; 5] = ["t", "f", "n", "v", "boom"];
/// leaf kind 9: a call of the cacheable failing function
/// leaf kinds: 0..=4 calls of the logging functions above; 5 literal `true`; 6 literal `false`; 7 `i1 / i0` (an error
/// that is not a call); 8 literal `none` — a fast path keyed on the *syntactic form* of an operand shows only on these
/// 10 a reference that does not resolve, 11 a reference that does (a list), 12 a symbol that does not resolve: operands that
/// are bare names — what a borrowed / in-place fast path keys on
pub const N_LEAF: usize = 13;
/// `callx` = a call of a function that is not registered (its argument must still be evaluated first)
/// `callc` = a call of the cacheable `memo`; `dup` = the same sub-expression written twice (`[e, e]`: identical text,
/// identical arguments — every call in it must still be evaluated once per occurrence)
pub const LAZY_OPS: [(&str, usize); 19] = [
    ("if", 3), ("and", 2), ("or", 2), ("eq", 2), ("neq", 2), ("add", 2), ("contains", 2), ("gt", 2), ("vec", 2),
    ("map", 2), ("call", 1), ("idx0", 1), ("not", 1), ("some", 1), ("bitand", 2), ("idxk", 1), ("callx", 1),
    ("callc", 1), ("dup", 1),
];

pub fn build_shape(s: &Shape, site: &mut i128) -> Expr {
    match s {
        Shape::Leaf(k) => match *k {
            5 => lit(Value::Bool(true)),
            6 => lit(Value::Bool(false)),
            7 => mk_bin("div", lit(Value::Int(1)), lit(Value::Int(0))),
            8 => lit(Value::None),
            10 => reff("nope"),
            11 => reff("x"),
            12 => Expr::Symbol("nosym".into()),
            9 => {
                *site += 1;
                call("cboom", lit(Value::Int(*site)))
            }
            _ => {
                *site += 1;
                call(LEAF_FNS[*k], lit(Value::Int(*site)))
            }
        },
        Shape::Node(op, ch) => {
            // map entries: keys in *reverse* construction order, so evaluation order (key order) != construction order
            if *op == "map" {
                let b = build_shape(&ch[0], site);
                let a = build_shape(&ch[1], site);
                return emap(vec![("b", b), ("a", a)]);
            }
            let mut es: Vec<Expr> = ch.iter().map(|c| build_shape(c, site)).collect();
            match *op {
                "if" => {
                    let e = es.pop().unwrap();
                    let t = es.pop().unwrap();
                    let c = es.pop().unwrap();
                    iff(c, t, e)
                }
                "vec" => Expr::Vec(es),
                "call" => call("v", es.pop().unwrap()),
                "callx" => call("missing", es.pop().unwrap()),
                "callc" => call("memo", es.pop().unwrap()),
                "dup" => {
                    let e = es.pop().unwrap();
                    Expr::Vec(vec![e.clone(), e])
                }
                "idx0" => idxn(es.pop().unwrap(), 0),
                "idxk" => idxk(es.pop().unwrap(), "a"),
                "not" | "some" => mk_un(op, es.pop().unwrap()),
                _ => {
                    let r = es.pop().unwrap();
                    let l = es.pop().unwrap();
                    mk_bin(op, l, r)
                }
            }
        }
    }
}

fn tuples(n: usize, k: usize) -> Vec<Vec<usize>> {
    let mut out = vec![vec![]];
    for _ in 0..k {
        let mut next = vec![];
        for t in &out {
            for i in 0..n {
                let mut u = t.clone();
                u.push(i);
                next.push(u);
            }
        }
        out = next;
    }
    out
}

pub fn lazy_cases(rng: &mut Rng, thorough: bool) -> Vec<RsCase> {
    let env = lazy_env();
    let mut shapes: Vec<Shape> = vec![];
    // depth 1: every operator over every tuple of leaf kinds (exhaustive)
    for (op, ar) in LAZY_OPS {
        for t in tuples(N_LEAF, ar) {
            shapes.push(Shape::Node(op, t.into_iter().map(Shape::Leaf).collect()));
        }
    }
    let d1 = shapes.clone();
    // depth 2: every operator over children drawn from depth-1 shapes and leaves:
    // exhaustive over (op, child position, child operator) with the other children leaves of each kind t/f
    for (op, ar) in LAZY_OPS {
        for pos in 0..ar {
            for (cop, car) in LAZY_OPS {
                for ct in tuples(N_LEAF, car) {
                    // restrict the inner tuple to the boolean-ish kinds to bound the count unless thorough
                    if !thorough && ct.iter().any(|k| *k == 3 || *k == 8 || *k == 9 || *k == 11 || *k == 12) {
                        continue;
                    }
                    for others in tuples(5, ar - 1) {
                        let mut ch = vec![];
                        let mut oi = 0;
                        for p in 0..ar {
                            if p == pos {
                                ch.push(Shape::Node(cop, ct.iter().map(|k| Shape::Leaf(*k)).collect()));
                            } else {
                                // other children: t, f, boom, literal true, literal false
                                ch.push(Shape::Leaf([0usize, 1, 4, 5, 6][others[oi]]));
                                oi += 1;
                            }
                        }
                        shapes.push(Shape::Node(op, ch));
                    }
                }
            }
        }
    }
    // depth 3: random
    let n3 = if thorough { 40000 } else { 4000 };
    for _ in 0..n3 {
        let (op, ar) = *rng.pick(&LAZY_OPS);
        let ch = (0..ar)
            .map(|_| {
                if rng.chance(1, 3) {
                    Shape::Leaf(rng.below(N_LEAF))
                } else {
                    let (cop, car) = *rng.pick(&LAZY_OPS);
                    Shape::Node(cop, (0..car).map(|_| if rng.chance(1, 2) { Shape::Leaf(rng.below(N_LEAF)) } else { rng.pick(&d1).clone() }).collect())
                }
            })
            .collect();
        shapes.push(Shape::Node(op, ch));
    }
    // long chains: `l1 op l2 op … op ln` (left-nested, as the parser builds them) of 10 / 33 / 40 / 70 links, one operator
    // or two alternating ones, the deciding / failing leaf early, in the middle or at the end
    for n in [10usize, 33, 40, 70] {
        for (o1, o2) in [("and", "and"), ("or", "or"), ("and", "or"), ("or", "and"), ("add", "add"), ("eq", "and")] {
            for special_at in [0usize, 1, n / 2, n - 2, n - 1] {
                // (fill 3 = a call returning its Int argument: the chain's applications succeed up to the special operand, where an
                //  application — not an operand — fails: a Bool / None literal under `+`)
                for (fill, special) in [(0usize, 1usize), (1, 0), (0, 4), (1, 4), (0, 6), (1, 5), (0, 9), (0, 7), (3, 5), (3, 8), (3, 4), (3, 7), (3, 0)] {
                    if fill == 3 && !(o1 == "add" && o2 == "add") {
                        continue;
                    }
                    let mut acc = Shape::Leaf(if special_at == 0 { special } else { fill });
                    for i in 1..n {
                        let leaf = Shape::Leaf(if i == special_at { special } else { fill });
                        acc = Shape::Node(if i % 2 == 1 { o1 } else { o2 }, vec![acc, leaf]);
                    }
                    shapes.push(acc);
                }
            }
        }
    }
    shapes
        .into_iter()
        .map(|s| {
            let mut site = 0;
            let e = build_shape(&s, &mut site);
            let tag = match &s {
                Shape::Node(op, _) => op.to_string(),
                _ => "leaf".into(),
            };
            RsCase { tag, rules: vec![e], facts: map(&[("x", Value::Vec(vec![Value::Bool(true), Value::Int(1)]))]), env: env.clone(), evals: 1 }
        })
        .collect()
}

// ------------------------------------------------------------------ C11: cache histories

pub fn similar_args() -> Vec<Value> {
    vec![
        Value::Int(1), s("1"), s("i1"), Value::Vec(vec![Value::Int(1)]), Value::Float(1.0), d(1, 0), d(10, 1), d(100, 2),
        Value::Float(0.0), Value::Float(-0.0), Value::None, map(&[("a", Value::Int(1))]), Value::Float(f64::NAN),
        Value::Bool(true), s("Int(1)"), Value::Vec(vec![]), d(0, 0), d(0, 1),
        // arguments that differ structurally but coincide under looser renderings (unquoted map keys, joined items)
        map(&[("a", Value::Int(1)), ("b", Value::Int(2))]), map(&[("a: i1, b", Value::Int(2))]), map(&[("a\": Int(1), \"b", Value::Int(2))]),
        Value::Vec(vec![s("a"), s("b")]), Value::Vec(vec![s("a\", \"b")]), Value::Vec(vec![s("a, b")]), s("a\"b"), s("a\\\"b"),
        // arguments that coincide under a lossy projection a hand-written key might take: whole seconds of instants / spans
        // whose nanosecond, microsecond or millisecond count does not fit 64 bits, the numeric value of a decimal, a float's
        // value as an integer, a list's length, a string's prefix
        crate::pool::dt(253402300799, 0), crate::pool::dt(253402300799, 999_000_000), crate::pool::dt(10413792000, 1), crate::pool::dt(10413792000, 2),
        crate::pool::dt(-14830000000, 250_000_000), crate::pool::dt(-14830000000, 750_000_000), crate::pool::dt(1438226773, 0), crate::pool::dt(1438226773, 1),
        crate::pool::dur(12096000000, 0), crate::pool::dur(12096000000, 1_000_000), crate::pool::dur(9223372036, 854_775_807), crate::pool::dur(9223372036, 854_775_808),
        crate::pool::dur(1, 0), crate::pool::dur(1, 1), Value::Float(1.5), Value::Float(1.0000000000000002), Value::Int(i64::MAX as i128), Value::Int(i64::MAX as i128 + 1), Value::Int(-1), Value::Int((1i128 << 64) - 1),
        Value::Vec(vec![Value::Vec(vec![Value::Int(1)])]), Value::Vec(vec![Value::Int(1), Value::None]), s("1 "), s(" 1"), s("\u{661}"),
        // arguments whose flattened contents coincide: only where an inner list / map / string ends differs (a digest or a
        // rendering without length prefixes or delimiters confuses them)
        Value::Vec(vec![Value::Vec(vec![Value::Int(1), Value::Int(2)])]), Value::Vec(vec![Value::Vec(vec![Value::Int(1)]), Value::Int(2)]), Value::Vec(vec![Value::Int(1), Value::Int(2)]),
        Value::Vec(vec![Value::Vec(vec![Value::Vec(vec![])])]), Value::Vec(vec![Value::Vec(vec![]), Value::Vec(vec![])]), Value::Vec(vec![Value::Vec(vec![]), Value::Vec(vec![Value::Vec(vec![])])]),
        Value::Vec(vec![s("ab"), s("c")]), Value::Vec(vec![s("a"), s("bc")]), Value::Vec(vec![s("abc")]), Value::Vec(vec![s(""), s("abc")]),
        map(&[("a", map(&[("b", Value::Int(1))]))]), map(&[("a", map(&[])), ("b", Value::Int(1))]), map(&[("ab", Value::Int(1))]), map(&[("a", s("b")), ("", Value::Int(1))]),
    ]
}

pub fn cache_cases(rng: &mut Rng, thorough: bool) -> Vec<RsCase> {
    let args = similar_args();
    let mut out = vec![];
    let fnames = ["g", "h", "k"];
    let mk_env = |cacheable: [bool; 3], kinds: [usize; 3], fails: &[Vec<usize>; 3]| EnvSpec {
        syms: vec![],
        fns: (0..3)
            .map(|i| {
                let mut f = FnSpec::new(fnames[i], cacheable[i], [FnKind::Id, FnKind::Count, FnKind::Wrap][kinds[i]].clone());
                f.fail_idx = fails[i].clone();
                f
            })
            .collect(),
    };
    // (0) constructors whose entries are computed from the input and from calls on it, on a ruleset that has evaluated another
    //     input before (rs.rs evaluates a decoy input first): nothing of that earlier evaluation may be observed
    for cacheable in [true, false] {
        let rules = vec![
            Expr::Vec(vec![mk_bin("add", call("h", reff("x")), lit(Value::Int(1))), reff("x")]),
            emap(vec![("a", mk_bin("mult", reff("x"), lit(Value::Int(2)))), ("b", call("h", Expr::Vec(vec![reff("x")])))]),
            Expr::Vec(vec![lit(Value::Int(0)), mk_bin("sub", reff("x"), lit(Value::Int(1)))]),
            mk_bin("add", reff("x"), lit(Value::Int(1))),
        ];
        out.push(RsCase { tag: "constructors-over-input".into(), rules, facts: map(&[("x", Value::Int(5))]), env: mk_env([cacheable, cacheable, false], [0, 0, 0], &[vec![], vec![], vec![]]), evals: 2 });
    }
    // (a) designed: one cacheable counting function, every pair of arguments (same / similar), twice each, 3 evaluations
    for a in &args {
        for b in &args {
            let calls = vec![call("g", lit(a.clone())), call("g", lit(b.clone())), call("g", lit(a.clone())), call("h", lit(a.clone()))];
            out.push(RsCase {
                tag: "pair".into(),
                rules: vec![Expr::Vec(calls[..2].to_vec()), Expr::Vec(calls[2..].to_vec())],
                facts: Value::None,
                env: mk_env([true, true, false], [1, 1, 1], &[vec![], vec![], vec![]]),
                evals: 3,
            });
        }
    }
    // (b) every pattern of failing invocations (subsets of the first 5 invocation indices) over fixed call sequences
    let seqs: Vec<Vec<(usize, usize)>> = vec![
        vec![(0, 0), (0, 0), (0, 0), (0, 0), (0, 0)],
        vec![(0, 0), (1, 0), (0, 0), (1, 0), (0, 1)],
        vec![(0, 0), (0, 1), (0, 0), (0, 1), (0, 0)],
        vec![(2, 0), (2, 0), (0, 0), (2, 0), (0, 0)],
    ];
    for seq in &seqs {
        for mask in 0..32u32 {
            let fails: Vec<usize> = (0..5).filter(|i| mask & (1 << i) != 0).collect();
            for split in [1usize, 2, 5] {
                let calls: Vec<Expr> = seq.iter().map(|(f, a)| call(fnames[*f], lit(args[*a].clone()))).collect();
                let rules: Vec<Expr> = calls.chunks(split).map(|c| Expr::Vec(c.to_vec())).collect();
                out.push(RsCase {
                    tag: "failpattern".into(),
                    rules,
                    facts: Value::None,
                    env: mk_env([true, true, false], [2, 2, 2], &[fails.clone(), fails.clone(), fails.clone()]),
                    evals: 2,
                });
            }
        }
    }
    // (b2) scale: many distinct arguments (each called twice, interleaved), large arguments, many rules sharing one cache
    for n in [40usize, 200, 1000] {
        let arg = |i: usize| Value::Int((i * 7919 % n) as i128);
        let mut calls: Vec<Expr> = vec![];
        for i in 0..n {
            calls.push(call("g", lit(arg(i))));
        }
        for i in (0..n).rev() {
            calls.push(call("g", lit(arg(i))));
            if i % 5 == 0 {
                calls.push(call("h", lit(arg(i))));
            }
        }
        out.push(RsCase { tag: format!("many-args n{}", n), rules: vec![Expr::Vec(calls.clone())], facts: Value::None, env: mk_env([true, true, false], [1, 1, 1], &[vec![], vec![], vec![]]), evals: 2 });
        // one call per rule: the cache is shared by all rules of the evaluation
        out.push(RsCase { tag: format!("many-rules n{}", n), rules: calls.iter().take(400).cloned().collect(), facts: Value::None, env: mk_env([true, true, false], [1, 1, 1], &[vec![7, 8, 30], vec![], vec![]]), evals: 2 });
    }
    {
        // large, nearly equal arguments (they differ in the last element / a deep element only)
        let big = |last: i128| Value::Vec((0..300).map(|i| if i == 299 { Value::Int(last) } else { Value::Int(i) }).collect());
        let bigs = |last: &str| Value::String(format!("{}{}", "é日".repeat(150), last));
        let calls = vec![call("g", lit(big(1))), call("g", lit(big(2))), call("g", lit(big(1))), call("g", lit(bigs("a"))), call("g", lit(bigs("b"))), call("g", lit(bigs("a")))];
        out.push(RsCase { tag: "large-args".into(), rules: vec![Expr::Vec(calls)], facts: Value::None, env: mk_env([true, true, false], [1, 1, 1], &[vec![], vec![], vec![]]), evals: 2 });
        // … and large arguments of equal length that differ at ONE position only — the first, a middle or the last element /
        // character — at several sizes, as the argument itself and inside a list / map: a key that abridges, samples or
        // digests its argument separates none of these
        for len in [40usize, 130, 200, 600, 1200, 5000] {
            let mut calls = vec![];
            for pos in [0usize, 1, len / 3, len / 2, len - 17, len - 2, len - 1] {
                let st = |c: char| Value::String((0..len).map(|i| if i == pos { c } else { (b'a' + (i % 23) as u8) as char }).collect());
                let ve = |x: i128| Value::Vec((0..len.min(600)).map(|i| if i == pos.min(len.min(600) - 1) { Value::Int(x) } else { Value::Int(i as i128) }).collect());
                for (a, b) in [(st('X'), st('Y')), (ve(-1), ve(-2)), (Value::Vec(vec![st('X')]), Value::Vec(vec![st('Y')])), (crate::pool::map(&[("doc", st('X'))]), crate::pool::map(&[("doc", st('Y'))]))] {
                    calls.push(call("g", lit(a.clone())));
                    calls.push(call("g", lit(b)));
                    calls.push(call("g", lit(a)));
                }
            }
            out.push(RsCase { tag: format!("large-args-one-difference len{}", len), rules: vec![Expr::Vec(calls)], facts: Value::None, env: mk_env([true, true, false], [1, 1, 1], &[vec![], vec![], vec![]]), evals: 1 });
        }
    }
    // (b3) a failing call under every built-in, under access steps and in the operand positions of the lazy operators: the
    //      failure of a user function surfaces (naming the function) through whatever surrounds the call
    {
        let mut rules = vec![];
        let boom = || call("k", lit(Value::Int(1)));
        for u in UN_OPS {
            rules.push(mk_un(u, boom()));
            rules.push(mk_un(u, idxk(boom(), "name")));
            rules.push(mk_un(u, idxn(idxk(boom(), "tags"), 0)));
        }
        for b in BIN_OPS.iter().chain(LAZY_BIN.iter()) {
            rules.push(mk_bin(b, boom(), lit(Value::None)));
            rules.push(mk_bin(b, lit(Value::Bool(true)), boom()));
            rules.push(mk_bin(b, lit(Value::Bool(false)), idxk(boom(), "a")));
        }
        rules.push(iff(mk_un("some", idxk(boom(), "name")), lit(Value::Int(1)), lit(Value::Int(2))));
        rules.push(iff(boom(), lit(Value::Int(1)), lit(Value::Int(2))));
        rules.push(Expr::Vec(vec![lit(Value::Int(1)), boom()]));
        rules.push(emap(vec![("a", boom())]));
        rules.push(call("g", boom()));
        rules.push(call("g", Expr::Vec(vec![idxk(boom(), "a")])));
        out.push(RsCase { tag: "failure-wrappers".into(), rules, facts: Value::None, env: EnvSpec { syms: vec![], fns: vec![FnSpec::new("g", true, FnKind::Id), FnSpec::new("k", false, FnKind::Fail)] }, evals: 1 });
    }
    // (c) random histories
    let n = if thorough { 30000 } else { 3000 };
    for _ in 0..n {
        let cacheable = [rng.chance(3, 4), rng.chance(1, 2), rng.chance(1, 4)];
        let kinds = [rng.below(3), rng.below(3), rng.below(3)];
        let fails = [
            (0..6).filter(|_| rng.chance(1, 5)).collect::<Vec<_>>(),
            (0..6).filter(|_| rng.chance(1, 6)).collect::<Vec<_>>(),
            vec![],
        ];
        let ncalls = 1 + rng.below(6);
        let small: Vec<&Value> = (0..3).map(|_| &args[rng.below(args.len())]).collect();
        let mut calls = vec![];
        for _ in 0..ncalls {
            let f = fnames[rng.below(3)];
            let a = small[rng.below(3)].clone();
            // sometimes nested: g(h(a))
            if rng.chance(1, 5) {
                calls.push(call(f, call(fnames[rng.below(3)], lit(a))));
            } else {
                calls.push(call(f, lit(a)));
            }
        }
        let nrules = 1 + rng.below(3);
        let per = (calls.len() + nrules - 1) / nrules;
        let rules: Vec<Expr> = calls.chunks(per.max(1)).map(|c| if c.len() == 1 && rng.chance(1, 2) { c[0].clone() } else { Expr::Vec(c.to_vec()) }).collect();
        out.push(RsCase { tag: "random".into(), rules, facts: Value::None, env: mk_env(cacheable, kinds, &fails), evals: 1 + rng.below(3) });
    }
    out
}

// ------------------------------------------------------------------ C09: one outcome per rule

pub fn rule_kinds() -> Vec<(&'static str, Expr)> {
    vec![
        ("ok-lit", mk_bin("add", lit(Value::Int(1)), lit(Value::Int(1)))),
        ("ok-ref", reff("x")),
        ("ok-fn", call("g", reff("x"))),
        ("ok-sym", Expr::Symbol("s".into())),
        ("err-type", mk_bin("add", lit(Value::Int(1)), lit(s("a")))),
        ("err-div0", mk_bin("div", lit(Value::Int(1)), lit(Value::Int(0)))),
        ("err-ref", reff("nope")),
        ("err-fn", call("nofn", lit(Value::Int(1)))),
        ("err-sym", Expr::Symbol("nosym".into())),
        ("err-userfn", call("boom", lit(Value::Int(1)))),
        ("err-cast", mk_un("toint", lit(s("x")))),
        ("err-oob", mk_un("week", lit(Value::Int(1 << 70)))),
        ("ok-count", call("c", lit(Value::Int(1)))),
        // arguments that are `==` but not the same value (scale of a decimal, sign of zero): a rule's outcome must not
        // depend on another rule having called the same cacheable function with the look-alike first
        ("ok-fn-d1.0", call("g", lit(d(10, 1)))),
        ("ok-fn-d1.00", call("g", lit(d(100, 2)))),
        ("ok-fn-+0", call("g", lit(Value::Float(0.0)))),
        ("ok-fn--0", call("g", lit(Value::Float(-0.0)))),
        // list / map constructors whose entries are computed from the input (a ruleset is evaluated on many inputs: what a
        // rule yields for one input is not what it yields for the next)
        ("ok-list-of-input", Expr::Vec(vec![mk_bin("sub", reff("x"), lit(Value::Int(1))), mk_bin("add", reff("x"), lit(Value::Int(1)))])),
        ("ok-map-of-input", emap(vec![("total", mk_bin("mult", reff("x"), lit(Value::Int(2)))), ("unit", lit(s("EUR")))])),
        ("ok-list-of-fn", Expr::Vec(vec![lit(Value::Int(0)), mk_bin("add", call("g", reff("x")), lit(Value::Int(1)))])),
    ]
}

pub fn rules_env() -> EnvSpec {
    EnvSpec {
        syms: vec![("s".into(), Value::Int(7))],
        fns: vec![
            FnSpec::new("g", true, FnKind::Id),
            FnSpec::new("boom", true, FnKind::Fail),
            FnSpec::new("c", true, FnKind::Wrap),
        ],
    }
}

pub fn rules_cases(rng: &mut Rng, thorough: bool) -> Vec<RsCase> {
    let kinds = rule_kinds();
    let env = rules_env();
    let facts = map(&[("x", Value::Int(5))]);
    let mut out = vec![];
    let maxn = if thorough { 4 } else { 3 };
    for n in 0..=maxn {
        for t in tuples(kinds.len(), n) {
            let rules: Vec<Expr> = t.iter().map(|i| kinds[*i].1.clone()).collect();
            let tag = t.iter().map(|i| kinds[*i].0).collect::<Vec<_>>().join(",");
            out.push(RsCase { tag: format!("n{} {}", n, tag), rules, facts: facts.clone(), env: env.clone(), evals: 1 });
        }
    }
    // long rulesets: many failing rules (of one kind, and of every kind in turn) before and between succeeding ones —
    // whatever accumulates per failing rule must not reach the rules that follow
    let nested = |inner: Expr, depth: usize| (0..depth).fold(inner, |e, _| mk_un("not", e));
    for n in [40usize, 70, 130, 300] {
        for (name, k) in kinds.iter().filter(|(name, _)| name.starts_with("err-")) {
            let mut rules: Vec<Expr> = (0..n).map(|_| k.clone()).collect();
            rules.push(kinds[0].1.clone());
            rules.push(kinds[2].1.clone());
            out.push(RsCase { tag: format!("n{} long {}", n, name), rules, facts: facts.clone(), env: env.clone(), evals: 1 });
        }
        let mut mixed: Vec<Expr> = (0..n).map(|i| kinds[i % kinds.len()].1.clone()).collect();
        mixed.push(kinds[0].1.clone());
        out.push(RsCase { tag: format!("n{} long mixed", n), rules: mixed, facts: facts.clone(), env: env.clone(), evals: 2 });
    }
    for depth in [5usize, 15, 30] {
        let mut rules: Vec<Expr> = (0..8).map(|_| nested(reff("nope"), depth)).collect();
        rules.push(nested(lit(Value::Bool(true)), depth));
        rules.push(mk_bin("mult", reff("x"), lit(Value::Int(2))));
        out.push(RsCase { tag: format!("deep-failing depth {}", depth), rules, facts: facts.clone(), env: env.clone(), evals: 1 });
    }
    // a few larger ones and non-map inputs
    for _ in 0..(if thorough { 3000 } else { 500 }) {
        let n = 4 + rng.below(4);
        let rules: Vec<Expr> = (0..n).map(|_| kinds[rng.below(kinds.len())].1.clone()).collect();
        let f = match rng.below(4) {
            0 => Value::None,
            1 => Value::Int(3),
            _ => facts.clone(),
        };
        out.push(RsCase { tag: format!("n{} random", n), rules, facts: f, env: env.clone(), evals: 1 + rng.below(2) });
    }
    out
}

// ------------------------------------------------------------------ C10: names and paths

pub fn resolve_cases(rng: &mut Rng, thorough: bool) -> Vec<RsCase> {
    let inner = map(&[("a", Value::Vec(vec![Value::Int(10), Value::None, map(&[("a", s("deep"))])])), ("A", Value::Int(11)), ("", Value::Int(12)), ("ab", Value::Int(13))]);
    let facts_pool: Vec<Value> = vec![
        map(&[("a", inner.clone()), ("A", Value::Int(1)), ("facts", Value::Int(2)), ("ab", Value::Vec(vec![Value::Int(3), Value::Int(4)])), ("b", Value::None), ("", Value::Int(5))]),
        map(&[("a", Value::Vec(vec![inner.clone(), Value::Int(6)])), ("aa", Value::Int(7))]),
        // top-level fields whose NAME contains a dot, next to the data a path of that spelling would reach
        map(&[("a", inner.clone()), ("a.A", Value::Int(70)), ("a.a", Value::Int(71)), ("ab.0", Value::Int(72)), ("ab", Value::Vec(vec![Value::Int(3), Value::Int(4)])), ("zz.a", Value::Int(73)), ("a.", Value::Int(74)), (".a", Value::Int(75))]),
        Value::Vec(vec![Value::Int(1), Value::Int(2)]),
        Value::None,
        Value::Int(9),
        map(&[]),
    ];
    #[derive(Clone)]
    enum Step {
        K(&'static str),
        N(usize),
    }
    let steps: Vec<Step> = vec![Step::K("a"), Step::K("A"), Step::K("b"), Step::K("facts"), Step::K("ab"), Step::K("aa"), Step::K("zz"), Step::N(0), Step::N(1), Step::N(2), Step::N(3)];
    let bases: Vec<Expr> = vec![reff("a"), reff("A"), reff("facts"), reff("ab"), reff("b"), reff("aa"), reff("zz"), reff("Facts"), Expr::Symbol("a".into()), Expr::Symbol("A".into()), Expr::Symbol("zz".into()),
        reff("a.A"), reff("a.a"), reff("ab.0"), reff("zz.a"), reff("a."), reff(".a"), reff("facts.a"), Expr::Symbol("a.A".into()), Expr::Symbol("a.0".into())];
    let sym_tables: Vec<Vec<(String, Value)>> = vec![
        vec![],
        vec![("a".into(), inner.clone()), ("a.A".into(), Value::Int(80))],
        vec![("a".into(), Value::Int(1)), ("A".into(), Value::Int(2)), ("a".into(), Value::Vec(vec![Value::Int(3)]))],
    ];
    let mut out = vec![];
    // field names that look like positions (all digits, leading zeros, signs): a field step is a field step whatever its name
    // looks like, a position step a position step — maps with such keys next to lists, through both kinds of step
    {
        let digits = map(&[("0", Value::Int(100)), ("1", Value::Int(101)), ("01", Value::Int(102)), ("2024", Value::Int(103)), ("-1", Value::Int(104)), ("+1", Value::Int(105)), ("1e0", Value::Int(106)), ("l", Value::Vec(vec![Value::Int(200), Value::Int(201)])), ("m", map(&[("0", Value::Int(300)), ("1", Value::Int(301))]))]);
        let mut rules = vec![];
        for base in [reff("facts"), reff("l"), reff("m"), idxk(reff("facts"), "m"), idxk(reff("facts"), "l")] {
            for k in ["0", "1", "01", "2024", "2022", "-1", "+1", "1e0", "00", " 1"] {
                rules.push(idxk(base.clone(), k));
                rules.push(idxk(idxk(base.clone(), k), "0"));
            }
            for n in [0usize, 1, 2, 2024] {
                rules.push(idxn(base.clone(), n));
            }
        }
        for k in ["0", "1", "2024"] {
            rules.push(reff(k));
            rules.push(Expr::Symbol(k.into()));
        }
        out.push(RsCase { tag: "digit-names".into(), rules: rules.clone(), facts: digits.clone(), env: EnvSpec { syms: vec![("0".into(), Value::Int(400)), ("2024".into(), Value::Int(401))], fns: vec![] }, evals: 1 });
        out.push(RsCase { tag: "digit-names".into(), rules, facts: Value::Vec(vec![Value::Int(500), Value::Int(501)]), env: EnvSpec { syms: vec![], fns: vec![] }, evals: 1 });
    }
    let maxlen = if thorough { 3 } else { 2 };
    for (fi, facts) in facts_pool.iter().enumerate() {
        for (si, syms) in sym_tables.iter().enumerate() {
            if si > 0 && fi > 2 {
                continue;
            }
            for b in &bases {
                if si > 0 && !matches!(b, Expr::Symbol(_)) {
                    continue;
                }
                for len in 0..=maxlen {
                    for t in tuples(steps.len(), len) {
                        let mut e = b.clone();
                        for i in &t {
                            e = match &steps[*i] {
                                Step::K(k) => idxk(e, k),
                                Step::N(n) => idxn(e, *n),
                            };
                        }
                        out.push(RsCase { tag: format!("len{}", len), rules: vec![e], facts: facts.clone(), env: EnvSpec { syms: syms.clone(), fns: vec![] }, evals: 1 });
                    }
                }
            }
        }
    }
    // longer random paths and unknown functions
    for _ in 0..(if thorough { 20000 } else { 3000 }) {
        let facts = facts_pool[rng.below(3)].clone();
        let mut e = bases[rng.below(bases.len())].clone();
        for _ in 0..(3 + rng.below(3)) {
            e = match &steps[rng.below(steps.len())] {
                Step::K(k) => idxk(e, k),
                Step::N(n) => idxn(e, *n),
            };
        }
        if rng.chance(1, 10) {
            e = call(*rng.pick(&["nofn", "Nofn", ""]), e);
        }
        out.push(RsCase { tag: "random".into(), rules: vec![e], facts, env: EnvSpec { syms: sym_tables[rng.below(3)].clone(), fns: vec![] }, evals: 1 });
    }
    out
}

// ------------------------------------------------------------------ random deep expressions (C01-B / C02 / C04 deep None)

pub fn random_cases(rng: &mut Rng, n: usize, full_pool: bool) -> Vec<RsCase> {
    let pool = boundary_pool(full_pool);
    let mut out = vec![];
    for _ in 0..n {
        let (facts, fields) = random_facts(rng, &pool);
        let facts = match rng.below(12) {
            0 => Value::None,
            1 => Value::Int(1),
            _ => facts,
        };
        let env = EnvSpec {
            syms: vec![("k".into(), pool[rng.below(pool.len())].clone())],
            fns: vec![FnSpec::new("g", true, FnKind::Id), FnSpec::new("w", false, FnKind::Wrap), FnSpec::new("boom", true, FnKind::Fail)],
        };
        let depth = 1 + rng.below(6);
        let want = *rng.pick(&[T::Int, T::Float, T::Dec, T::Bool, T::Str, T::Dt, T::Dur, T::Vec, T::Map, T::Any]);
        let mut g = ExprGen { rng, pool: pool.clone(), fields, fns: vec!["g".into(), "w".into(), "boom".into(), "nofn".into()], syms: vec!["k".into(), "nosym".into()] };
        let nrules = 1 + g.rng.below(2);
        let rules: Vec<Expr> = (0..nrules).map(|_| g.gen(depth, want)).collect();
        out.push(RsCase { tag: format!("depth{}", rules.iter().map(expr_depth).max().unwrap_or(0)), rules, facts, env, evals: 1 });
    }
    out
}

pub fn enc_case_key(c: &RsCase) -> String {
    format!("{}|{}|{}", c.rules.iter().map(enc_expr).collect::<Vec<_>>().join(";"), enc_value(&c.facts), c.env.enc())
}

// ------------------------------------------------------------------ C04: a None arising deep inside

/// returns cases whose single rule has a known expected outcome by the property's own rule;
/// the expectation is stored in the tag: "expect:(ok (none))" etc.
pub fn deep_none_cases(rng: &mut Rng, n: usize) -> Vec<RsCase> {
    let pool = boundary_pool(false);
    let facts = map(&[("a", map(&[("b", Value::Int(1))])), ("l", Value::Vec(vec![Value::Int(1)])), ("nothing", Value::None)]);
    let sources: Vec<Expr> = vec![
        idxk(reff("a"), "missing"),
        idxn(reff("l"), 5),
        idxk(idxk(reff("a"), "missing"), "deeper"),
        idxn(idxk(reff("a"), "missing"), 0),
        reff("nothing"),
        lit(Value::None),
        idxk(reff("nothing"), "x"),
        idxk(reff("facts"), "missing"),
        idxk(idxk(reff("facts"), "nothing"), "x"),
    ];
    // the same through the explicit `facts` root when the input itself is None (`evaluate(&None::<T>)`, `evaluate(&())`)
    let sources_none_root: Vec<Expr> = vec![reff("facts"), idxk(reff("facts"), "age"), idxk(idxk(reff("facts"), "a"), "b"), idxn(reff("facts"), 0), idxk(idxn(reff("facts"), 1), "k")];
    let prop_bin = ["mult", "div", "rem", "add", "sub", "bitand", "bitor", "bitxor"];
    let prop_un = ["not", "neg", "toint", "tofloat", "todec", "datetime", "duration", "upper", "lower", "trim", "round", "floor", "fract", "year", "month", "week", "day", "hour", "minute", "second"];
    let mut out = vec![];
    for _ in 0..n {
        let none_root = rng.chance(1, 6);
        let mut e = if none_root { sources_none_root[rng.below(sources_none_root.len())].clone() } else { sources[rng.below(sources.len())].clone() };
        let depth = if none_root { rng.below(3) } else { 1 + rng.below(5) };
        for _ in 0..depth {
            let other = lit(pool[rng.below(pool.len())].clone());
            e = match rng.below(4) {
                0 => mk_un(prop_un[rng.below(prop_un.len())], e),
                1 => mk_bin(prop_bin[rng.below(prop_bin.len())], e, other),
                2 => mk_bin(prop_bin[rng.below(prop_bin.len())], other, e),
                _ => {
                    if rng.chance(1, 2) {
                        idxk(e, "k")
                    } else {
                        idxn(e, rng.below(3))
                    }
                }
            };
        }
        let other = lit(pool[rng.below(pool.len())].clone());
        let (e, expect) = match rng.below(9) {
            0 => (e, "(ok (none))"),
            1 => (mk_bin(*rng.pick(&["gt", "gte", "lt", "lte"]), e, other), "(ok (bool 0))"),
            2 => (mk_bin(*rng.pick(&["gt", "gte", "lt", "lte"]), other, e), "(ok (bool 0))"),
            3 => (mk_bin("eq", e, other), "(ok (bool 0))"),
            4 => (mk_bin("neq", e, other), "(ok (bool 1))"),
            5 => (mk_un("isnone", e), "(ok (bool 1))"),
            6 => (mk_un("some", e), "(ok (bool 0))"),
            7 => (mk_bin("contains", e, other), "(ok (bool 0))"),
            _ => (iff(e, lit(Value::Int(1)), lit(Value::Int(2))), "(err type)"),
        };
        out.push(RsCase { tag: format!("expect:{}", expect), rules: vec![e], facts: if none_root { Value::None } else { facts.clone() }, env: EnvSpec::default(), evals: 1 });
    }
    out
}

// ------------------------------------------------------------------ C01 / C02: long operator chains over values

/// left-nested chains `v1 op v2 op … op vn` of 10 / 33 / 40 / 70 / 150 operands for every binary operator (one operator, or
/// two of the same family alternating), over small well-typed operands with one special operand (None, a type error,
/// zero, an extreme) at the start, in the middle or at the end; and long lists / maps / access paths
/// both operands of a binary operator resolve to ONE stored value (the same field, the same symbol, the field reached in
/// two ways): an identity shortcut (pointer equality, "x op x" folding) is right only where the operator is reflexive
pub fn same_operand_cases(full: bool) -> Vec<RsCase> {
    let mut out = vec![];
    for v in boundary_pool(full) {
        let facts = map(&[("a", v.clone()), ("b", v.clone()), ("w", Value::Vec(vec![v.clone(), v.clone()]))]);
        let env = EnvSpec { syms: vec![("s".into(), v.clone())], fns: vec![FnSpec::new("g", true, FnKind::Id)] };
        let mut rules = vec![];
        for op in BIN_OPS.iter().chain(LAZY_BIN.iter()) {
            rules.push(mk_bin(op, reff("a"), reff("a")));
            rules.push(mk_bin(op, idxk(reff("facts"), "a"), reff("a")));
            rules.push(mk_bin(op, reff("a"), reff("b")));
            rules.push(mk_bin(op, Expr::Symbol("s".into()), Expr::Symbol("s".into())));
            rules.push(mk_bin(op, idxn(reff("w"), 0), idxn(reff("w"), 0)));
            rules.push(mk_bin(op, call("g", reff("a")), call("g", reff("a"))));
        }
        rules.push(iff(mk_bin("eq", reff("a"), reff("a")), lit(Value::Int(1)), lit(Value::Int(2))));
        rules.push(mk_bin("contains", Expr::Vec(vec![reff("a")]), reff("a")));
        out.push(RsCase { tag: "same-operand".into(), rules, facts, env, evals: 1 });
    }
    out
}

/// two operators stacked: every unary operator over every unary operator, every binary operator over a unary one (either
/// side) and every unary operator over a binary one, over the coercion pool — a rewrite that cancels, merges or reorders
/// two adjacent operators (`!!x`, `--x`, `!(a < b)`, `-(a - b)`) must keep every type error of the inner application
pub fn composition_cases() -> Vec<RsCase> {
    let env = EnvSpec { syms: vec![], fns: vec![] };
    let mut out = vec![];
    let others = [Value::Int(1), s("1"), Value::Bool(true), Value::None, Value::Float(1.0)];
    for v in coercion_pool() {
        let mut towers = vec![];
        for o1 in UN_OPS {
            for o2 in UN_OPS {
                towers.push(mk_un(o1, mk_un(o2, lit(v.clone()))));
            }
        }
        out.push(RsCase { tag: "compose un-un".into(), rules: towers, facts: Value::None, env: env.clone(), evals: 1 });
        for w in &others {
            let mut rules = vec![];
            for b in BIN_OPS.iter().chain(LAZY_BIN.iter()) {
                for u in UN_OPS {
                    rules.push(mk_bin(b, mk_un(u, lit(v.clone())), lit(w.clone())));
                    rules.push(mk_bin(b, lit(w.clone()), mk_un(u, lit(v.clone()))));
                    rules.push(mk_un(u, mk_bin(b, lit(v.clone()), lit(w.clone()))));
                }
            }
            out.push(RsCase { tag: "compose un-bin".into(), rules, facts: Value::None, env: env.clone(), evals: 1 });
        }
    }
    out
}

/// names (of fields, symbols, functions, map keys) that are long and not ASCII, resolving and not resolving: whatever
/// reports, abridges or indexes a name must cut on character boundaries and must not confuse names that share a prefix
pub fn long_name_cases() -> Vec<RsCase> {
    let mut out = vec![];
    for unit in ["\u{e9}", "\u{65e5}\u{672c}\u{8a9e}", "\u{1f600}", "n\u{e9}\u{65e5}\u{1f600}"] {
        for target in [30usize, 62, 126, 254, 510, 1022, 4094] {
            for off in 0..4usize {
                let name = format!("{}{}", "a".repeat(off), unit.repeat(target / unit.len() + 2));
                let other = format!("{}x", name);
                let rules = vec![
                    reff(&name), Expr::Symbol(name.clone()), call(&name, lit(Value::Int(1))), idxk(reff("facts"), &name), idxk(reff("m"), &name),
                    reff(&other), Expr::Symbol(other.clone()), call(&other, lit(Value::Int(1))), idxk(reff("m"), &other),
                    mk_bin("contains", reff("m"), lit(Value::String(name.clone()))), mk_un("toint", lit(Value::String(name.clone()))),
                ];
                // nothing resolves
                out.push(RsCase { tag: "long-names unknown".into(), rules: rules.clone(), facts: map(&[("m", map(&[]))]), env: EnvSpec { syms: vec![], fns: vec![] }, evals: 1 });
                // `name` resolves everywhere, `other` (one character longer) nowhere
                let facts = Value::Map([(name.clone(), Value::Int(7)), ("m".to_string(), Value::Map([(name.clone(), Value::Int(8))].into_iter().collect()))].into_iter().collect());
                out.push(RsCase { tag: "long-names known".into(), rules, facts, env: EnvSpec { syms: vec![(name.clone(), Value::Int(9))], fns: if crate::builder::well_formed(&name) { vec![FnSpec::new(&name, true, FnKind::Id)] } else { vec![] } }, evals: 1 });
            }
        }
    }
    out
}

pub fn chain_cases() -> Vec<RsCase> {
    let env = EnvSpec { syms: vec![], fns: vec![] };
    let mut out = vec![];
    let fam: Vec<(&str, &str, Vec<Value>, Vec<Value>)> = vec![
        ("and", "or", vec![Value::Bool(true), Value::Bool(false)], vec![Value::None, Value::Int(1)]),
        // chains in which nothing short-circuits before the special operand
        ("and", "and", vec![Value::Bool(true)], vec![Value::None, Value::Int(7), s("yes"), Value::Bool(false)]),
        ("or", "or", vec![Value::Bool(false)], vec![Value::None, Value::Float(2.5), s("yes"), Value::Bool(true)]),
        ("mult", "mult", vec![Value::Int(1)], vec![Value::Float(2.5), Value::None, d(21, 2), s("x")]),
        ("add", "sub", vec![Value::Int(0)], vec![Value::Float(2.5), s("x"), d(5, 0)]),
        ("or", "and", vec![Value::Bool(false), Value::Bool(true)], vec![Value::None, s("x")]),
        ("add", "sub", vec![Value::Int(3), Value::Int(-7)], vec![Value::None, Value::Int(i128::MAX), s("x"), Value::Float(1.0)]),
        ("mult", "div", vec![Value::Int(2), Value::Int(3)], vec![Value::Int(0), Value::None, Value::Int(i128::MAX)]),
        ("rem", "mult", vec![Value::Int(1000003), Value::Int(97)], vec![Value::Int(0), Value::None]),
        ("bitand", "bitxor", vec![Value::Int(0xff0f), Value::Int(0x0ff3)], vec![Value::None, Value::Bool(true)]),
        ("bitor", "bitand", vec![Value::Int(1), Value::Int(6)], vec![Value::None]),
        ("add", "add", vec![d(15, 1), d(-25, 2)], vec![Value::None, Value::Int(1)]),
        ("add", "add", vec![Value::Float(0.1), Value::Float(0.2)], vec![Value::Float(f64::NAN), Value::None]),
        ("eq", "neq", vec![Value::Bool(true), Value::Bool(false)], vec![Value::None, Value::Int(0)]),
        ("lt", "eq", vec![Value::Int(1), Value::Bool(true)], vec![Value::None]),
    ];
    for n in [10usize, 33, 40, 70, 150] {
        for (o1, o2, fill, specials) in &fam {
            let mut positions = vec![usize::MAX, 0, 1, n / 2, n - 2, n - 1];
            positions.dedup();
            for special_at in positions {
                for sp in specials {
                    for alt in [false, true] {
                        let leaf = |i: usize| if i == special_at { lit(sp.clone()) } else { lit(fill[i % fill.len()].clone()) };
                        let mut acc = leaf(0);
                        for i in 1..n {
                            let op = if alt && i % 2 == 0 { o2 } else { o1 };
                            acc = mk_bin(op, acc, leaf(i));
                        }
                        out.push(RsCase { tag: format!("chain {} {} n{}", o1, o2, n), rules: vec![acc], facts: Value::None, env: env.clone(), evals: 1 });
                        if special_at == usize::MAX {
                            break;
                        }
                    }
                    if special_at == usize::MAX {
                        break;
                    }
                }
            }
        }
        // random boolean chains: random operator (and / or) and random operand at every link
        let mut x: u64 = 0x9e3779b97f4a7c15 ^ (n as u64);
        let mut next = || {
            x ^= x << 13;
            x ^= x >> 7;
            x ^= x << 17;
            x
        };
        for _ in 0..40 {
            let mut acc = lit(Value::Bool(next() % 2 == 0));
            for _ in 1..n {
                let op = if next() % 2 == 0 { "and" } else { "or" };
                acc = mk_bin(op, acc, lit(Value::Bool(next() % 2 == 0)));
            }
            out.push(RsCase { tag: format!("chain random-logic n{}", n), rules: vec![acc], facts: Value::None, env: env.clone(), evals: 1 });
        }
        // long lists, maps, access paths and unary towers
        let items: Vec<Expr> = (0..n as i128).map(|i| mk_bin("add", lit(Value::Int(i)), lit(Value::Int(1)))).collect();
        out.push(RsCase { tag: format!("list n{}", n), rules: vec![Expr::Vec(items.clone()), idxn(Expr::Vec(items.clone()), n - 1), idxn(Expr::Vec(items.clone()), n)], facts: Value::None, env: env.clone(), evals: 1 });
        let entries: Vec<(String, Expr)> = (0..n).map(|i| (format!("k{:03}", (i * 7 + 3) % n), lit(Value::Int(i as i128)))).collect();
        out.push(RsCase { tag: format!("map n{}", n), rules: vec![Expr::Map(entries.iter().cloned().collect()), mk_bin("contains", Expr::Map(entries.iter().cloned().collect()), lit(s("k001")))], facts: Value::None, env: env.clone(), evals: 1 });
        let mut nested = Value::Int(42);
        for i in 0..n.min(60) {
            nested = if i % 2 == 0 { crate::pool::map(&[("a", nested)]) } else { Value::Vec(vec![Value::None, nested]) };
        }
        let mut path = reff("facts");
        for i in (0..n.min(60)).rev() {
            path = if i % 2 == 0 { idxk(path, "a") } else { idxn(path, 1) };
        }
        out.push(RsCase { tag: format!("path n{}", n), rules: vec![path.clone(), idxk(path, "zz")], facts: nested, env: env.clone(), evals: 1 });
        let tower = (0..n.min(60)).fold(lit(Value::Int(5)), |e, i| mk_un(if i % 2 == 0 { "neg" } else { "some" }, e));
        out.push(RsCase { tag: format!("tower n{}", n), rules: vec![tower], facts: Value::None, env: env.clone(), evals: 1 });
    }
    out
}

// ------------------------------------------------------------------ C09: every operator at its extremes, as one rule among others

/// the extremes of every type (a subset of the boundary pool, so the model's answer for every cell is the one C02 checks)
pub fn extreme_pool() -> Vec<Value> {
    use rust_decimal::prelude::ToPrimitive;
    let keep = |v: &Value| -> bool {
        match v {
            Value::Int(i) => [0, 1, -1, 7].contains(i) || i.unsigned_abs() >= 1u128 << 63,
            Value::Float(f) => !f.is_finite() || [0.0, 1.5, f64::MAX, 5e-324, 1.7014118346046925e38].contains(f),
            Value::Decimal(d) => d.mantissa().unsigned_abs() >= 1u128 << 90 || d.is_zero() || d.to_f64() == Some(1.5) || d.scale() == 28,
            Value::String(s) => ["", "a", "1", "170141183460469231731687303715884105728", "1e5"].contains(&s.as_str()) || s.len() == 300,
            Value::Bool(_) | Value::None => true,
            Value::DateTime(t) => t.timestamp() == 0 || t.timestamp().abs() > 8_000_000_000_000,
            Value::Duration(d) => d.num_seconds() == 0 || d.num_seconds() == 1 || d.num_seconds().abs() >= 9223372036854775,
            Value::Vec(v) => v.len() <= 1,
            Value::Map(m) => m.len() <= 1,
        }
    };
    crate::pool::boundary_pool(false).into_iter().filter(keep).collect()
}

/// every operator cell over the extremes of every type (all ordered pairs, mixed types included) as a rule of a ruleset of 40
/// such rules between two succeeding ones: a cell that takes the whole evaluation down (instead of yielding its own error
/// outcome) takes the other 41 outcomes with it
pub fn cells_as_rules_cases() -> Vec<RsCase> {
    let env = rules_env();
    let facts = map(&[("x", Value::Int(5))]);
    let cells = crate::cells::cells_over(&extreme_pool());
    let mut out = vec![];
    for chunk in cells.chunks(40) {
        let mut rules: Vec<Expr> = vec![call("g", reff("x"))];
        rules.extend(chunk.iter().map(|c| c.expr.clone()));
        rules.push(mk_bin("add", reff("x"), lit(Value::Int(1))));
        out.push(RsCase { tag: format!("cells-as-rules {}", chunk[0].op), rules, facts: facts.clone(), env: env.clone(), evals: 1 });
    }
    out
}

// ------------------------------------------------------------------ C04: a None that comes from the input

#[derive(serde::Serialize)]
pub struct NoneInner {
    pub nothing: Option<String>,
    pub v: i64,
}
/// an input whose absent data is Rust's: `Option::None` fields (top level and nested), a unit field, a `None` list item
#[derive(serde::Serialize)]
pub struct NoneFacts {
    pub nothing: Option<i64>,
    pub unit: (),
    pub inner: NoneInner,
    pub list: Vec<Option<i64>>,
    pub n: i64,
}
pub fn none_facts() -> (NoneFacts, Value) {
    (
        NoneFacts { nothing: None, unit: (), inner: NoneInner { nothing: None, v: 1 }, list: vec![None, Some(1)], n: 5 },
        map(&[("nothing", Value::None), ("unit", Value::None), ("inner", map(&[("nothing", Value::None), ("v", Value::Int(1))])), ("list", Value::Vec(vec![Value::None, Value::Int(1)])), ("n", Value::Int(5))]),
    )
}

/// every operator with a None operand that is a field of the input (bare name, `facts.` path, nested field, list item) on
/// either side, 40 rules per ruleset
pub fn none_from_input_cases() -> Vec<RsCase> {
    let (_, facts) = none_facts();
    let env = EnvSpec { syms: vec![], fns: vec![] };
    let nones: Vec<Expr> = vec![reff("nothing"), reff("unit"), idxk(reff("inner"), "nothing"), idxk(reff("facts"), "nothing"), idxn(reff("list"), 0)];
    let others: Vec<Expr> = vec![lit(Value::Int(1)), lit(s("a")), lit(Value::Bool(true)), lit(Value::Float(1.5)), lit(Value::None), reff("n"), lit(Value::Int(0))];
    let mut rules: Vec<Expr> = vec![];
    for nr in &nones {
        for op in UN_OPS {
            rules.push(mk_un(op, nr.clone()));
        }
        rules.push(iff(nr.clone(), lit(Value::Int(1)), lit(Value::Int(2))));
        rules.push(idxk(nr.clone(), "a"));
        rules.push(idxn(nr.clone(), 0));
        for op in BIN_OPS.iter().chain(LAZY_BIN.iter()) {
            for o in &others {
                rules.push(mk_bin(op, nr.clone(), o.clone()));
                rules.push(mk_bin(op, o.clone(), nr.clone()));
            }
        }
    }
    rules.chunks(40).enumerate().map(|(i, ch)| RsCase { tag: format!("none-from-input {}", i), rules: ch.to_vec(), facts: facts.clone(), env: env.clone(), evals: 1 }).collect()
}
