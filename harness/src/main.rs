//! Correspondence harness: runs the real reval (path dependency on /repo's working tree) and the Lean
//! model (compiled driver) on the same inputs and reports, per property, violations of the property's own
//! predicate on the implementation and disagreements with the model.
mod builder;
mod cells;
mod codec;
mod conv;
mod depth;
mod driver;
mod evalrun;
mod gen;
mod rs;
mod sched;
mod serval;
mod streams;
mod syntax;
mod oracle;
mod pool;
mod report;
mod rng;
mod sexp;

use report::*;
use std::collections::HashMap;

pub struct Opts {
    pub prop: String,
    pub tier: String,
    pub seed: u64,
    pub driver: String,
    pub out: String,
    pub workers: usize,
    pub replay: Option<String>,
}

fn parse_args() -> Opts {
    let mut o = Opts {
        prop: String::new(),
        tier: "quick".into(),
        seed: 1,
        driver: "/verif/lean/.lake/build/bin/driver".into(),
        out: "/dev/stdout".into(),
        workers: std::thread::available_parallelism().map(|n| n.get()).unwrap_or(8),
        replay: None,
    };
    let args: Vec<String> = std::env::args().collect();
    let mut i = 1;
    while i < args.len() {
        let a = args[i].as_str();
        let mut val = || {
            i += 1;
            args.get(i).cloned().unwrap_or_default()
        };
        match a {
            "--prop" => o.prop = val(),
            "--tier" => o.tier = val(),
            "--seed" => o.seed = val().parse().unwrap_or(1),
            "--driver" => o.driver = val(),
            "--out" => o.out = val(),
            "--workers" => o.workers = val().parse().unwrap_or(8),
            "--replay" => o.replay = Some(val()),
            _ => {
                eprintln!("unknown argument {a}");
                std::process::exit(2)
            }
        }
        i += 1;
    }
    o
}

fn supported_table(driver: &str) -> HashMap<String, bool> {
    let tys = ["str", "int", "float", "dec", "bool", "datetime", "duration", "vec", "map", "none"];
    let mut reqs = vec![];
    let mut keys = vec![];
    for op in codec::UN_OPS {
        for t in tys {
            reqs.push(format!("supported\tun\t{}\t{}", op, t));
            keys.push(format!("{}:{}", op, t));
        }
    }
    for op in codec::BIN_OPS {
        for a in tys {
            for b in tys {
                reqs.push(format!("supported\tbin\t{}\t{}\t{}", op, a, b));
                keys.push(format!("{}:{}:{}", op, a, b));
            }
        }
    }
    let mut d = driver::Driver::spawn(driver).expect("spawn driver");
    let replies = d.batch(&reqs);
    keys.into_iter().zip(replies).map(|(k, r)| (k, r == "1")).collect()
}

fn run_cells_prop(o: &Opts, rep: &mut Report) {
    let full = o.tier == "thorough";
    let table = supported_table(&o.driver);
    let supported = |c: &cells::Cell| -> Option<bool> {
        match c.class {
            "un" => table.get(&format!("{}:{}", c.op, pool::ty_name(&c.a))).copied(),
            "bin" => table.get(&format!("{}:{}:{}", c.op, pool::ty_name(&c.a), pool::ty_name(c.b.as_ref()?))).copied(),
            "index" => None,
            _ => None,
        }
    };
    let pools: Vec<(&str, Vec<reval::value::Value>, &str)> = match o.prop.as_str() {
        "C03" | "C04" => vec![
            ("cells-coercion", pool::coercion_pool(), "every unary/binary/lazy operator, index and if × all ordered pairs of the coercion pool (3 values per type chosen to coincide after coercion, and None)"),
            ("cells-boundary", pool::boundary_pool(false), "every operator × all ordered pairs of the core boundary pool"),
        ],
        _ => vec![(
            "cells-boundary",
            pool::boundary_pool(full),
            "every unary operator, index, if × boundary pool; every binary operator × all ordered pairs of the boundary pool (type extremes, mutation-killing values); for C02 also uppercase / lowercase / trim over a string probe pool (context-sensitive and multi-character case mappings incl. final sigma, every White_Space character at either end and inside, look-alikes) and `contains` between its members",
        )],
    };
    let mut pools = pools;
    if o.prop == "C01" || o.prop == "C02" {
        pools.push((
            "cells-dense",
            pool::dense_pool(full),
            "every unary operator × dense pool; every binary operator × all ordered same-type pairs (and DateTime × Duration) of the dense pool: 2^k−1 / 2^k / 2^k+1 of both signs, operands whose product sits at the i128 edge, Decimal mantissa × scale edges, instants and spans at which the nanosecond / microsecond / millisecond / 32-bit accessors of chrono overflow",
        ));
    }
    if o.prop == "C01" || o.prop == "C02" {
        pools.push((
            "cells-calendar",
            pool::calendar_pool(full),
            "year / month / day / hour / minute / second of every instant of the calendar pool, the instant rebuilt from its second count, one day added and one second subtracted: the first and the last second of every month's first day and of its 28th…31st (where they exist) for the years next to 1600 / 1900 / 2000 / 2100, the present and year 0 (thorough: every year 1..4000); of 1 Jan, 28 / 29 Feb, 1 Mar and 31 Dec for every year of 1583..2417 and -5..5 and, over chrono's whole range (every 13th 400-year era; thorough: every era), for the years that decide leap-ness (0 1 3 4 99 100 101 399 mod 400)",
        ));
    }
    for (name, p, rule) in pools {
        let mut cs = if name == "cells-dense" { cells::cells_same_type(&p) } else if name == "cells-calendar" { cells::cells_calendar(&p) } else { cells::cells_over(&p) };
        if name == "cells-boundary" && o.prop == "C02" {
            // the string built-ins over the string probe pool (unary), and `contains` / `==` between its members
            let sp = pool::string_probe_pool();
            for op in ["upper", "lower", "trim"] {
                for a in &sp {
                    cs.push(cells::Cell { op: op.into(), class: "un", a: a.clone(), b: None, expr: codec::mk_un(op, reval::expr::Expr::Value(a.clone())) });
                }
            }
            for a in sp.iter().take(60) {
                for b in sp.iter().take(60) {
                    cs.push(cells::Cell { op: "contains".into(), class: "bin", a: a.clone(), b: Some(b.clone()), expr: codec::mk_bin("contains", reval::expr::Expr::Value(a.clone()), reval::expr::Expr::Value(b.clone())) });
                }
            }
        }
        let outs = cells::run_cells(&cs, &o.driver, o.workers);
        let mut sr = StreamReport::new(name, &format!("{rule}; pool size {}; non-trivial = the operator itself decides the result (all cells), distinct by canonical encoding", p.len()), true);
        for (c, out) in cs.iter().zip(outs.iter()) {
            let canon = codec::enc_expr(&c.expr);
            let relevant = match o.prop.as_str() {
                "C04" => matches!(c.a, reval::value::Value::None) || matches!(c.b, Some(reval::value::Value::None)),
                _ => true,
            };
            if !relevant {
                continue;
            }
            sr.count(&canon, true);
            sr.hist("operator", &c.op);
            let kind = if out.impl_out.starts_with("(ok") { "ok" } else if out.impl_out.starts_with("PANIC") { "panic" } else { out.impl_out.split(' ').nth(1).unwrap_or("?").trim_end_matches(')') };
            sr.hist("impl_outcome", kind);
            if out.model.unanswered {
                sr.frontier_unanswered += 1;
            }
            if out.model.oracle_used > 0 {
                sr.via_oracle += 1;
            }
            cells::judge(&o.prop, name, c, out, &supported, rep);
        }
        rep.streams.push(sr);
    }
}

fn run_rs_stream(o: &Opts, rep: &mut Report, name: &str, rule: &str, exhaustive: bool, cases: Vec<rs::RsCase>, mode: &str) {
    let outs = rs::run_rs(&cases, &o.driver, o.workers);
    let mut sr = StreamReport::new(name, rule, exhaustive);
    for (c, out) in cases.iter().zip(outs.iter()) {
        let key = streams::enc_case_key(c);
        // non-trivial: at least one rule, and the model produced a prediction
        sr.count(&key, !c.rules.is_empty() && !out.model.unanswered);
        sr.hist("tag", c.tag.split(' ').next().unwrap_or(""));
        if let Some(first) = out.impl_out.first() {
            let vals = rs::field(first, 0);
            for kind in ["(ok", "(err type", "(err div0", "(err cast", "(err oob", "(err ref", "(err sym", "(err fn", "(err userfn"] {
                if vals.contains(kind) {
                    sr.hist("impl_outcome_contains", kind.trim_start_matches('('));
                }
            }
            let ninv = rs::field(first, 2);
            sr.hist("invocations", ninv);
        }
        if out.model.unanswered {
            sr.frontier_unanswered += 1;
        }
        if out.model.oracle_used > 0 {
            sr.via_oracle += 1;
        }
        rs::judge_rs(&o.prop, name, c, out, mode, rep);
    }
    rep.streams.push(sr);
}

fn main() {
    if std::env::var("HARNESS_DEBUG").is_err() {
        std::panic::set_hook(Box::new(|_| {}));
    }
    let o = parse_args();
    let mut rep = Report { property: o.prop.clone(), tier: o.tier.clone(), seed: o.seed, profile: if cfg!(debug_assertions) { "dev".into() } else { "release".into() }, ..Default::default() };
    match o.prop.as_str() {
        "C01" | "C02" | "C03" | "C04" => {
            run_cells_prop(&o, &mut rep);
            if o.prop == "C03" || o.prop == "C04" {
                // the long operator chains whose special operand is a None (C04) / any other operand (C03: type errors)
                let cs: Vec<rs::RsCase> = streams::chain_cases().into_iter().filter(|c| c.tag.starts_with("chain")).collect();
                run_rs_stream(&o, &mut rep, "long-chains", "left-nested chains of 10 / 33 / 40 / 70 / 150 operands for every binary operator with a None, an operand of another type, a zero or an extreme at the start, in the middle or at the end", false, cs, "full");
            }
            if o.prop == "C04" {
                let mut rng = rng::Rng::new(o.seed);
                let cases = streams::deep_none_cases(&mut rng, if o.tier == "thorough" { 60000 } else { 6000 });
                run_rs_stream(&o, &mut rep, "deep-none", "a None that arises deep inside (missing field, index out of range, step into None, none literal, a field / index of the `facts` root when the whole input is None) under 1..5 enclosing operators, each applied with the None-valued expression in either operand position and an arbitrary pool value (including ones that alone would be a type error) in the other; the expected outcome (None / false / true) is computed from the property's rule and checked on the implementation alone, then against the model", false, cases, "full");
            }
            if o.prop == "C04" {
                // a None that is Rust's: Option::None / unit fields of a serializable input.  (i) the rules over the value
                // such an input denotes, against the model; (ii) RuleSet::evaluate(&T) of the input itself gives the same
                let cases = streams::none_from_input_cases();
                let (input, denoted) = streams::none_facts();
                let mut sr = StreamReport::new("none-from-input-evaluate", "the same rulesets through RuleSet::evaluate(&T) with T a struct whose absent data are Option::None fields (top level, nested), a unit field and a None list item: every outcome equals the one over the value the input denotes", true);
                for c in &cases {
                    sr.count(&c.tag, true);
                    let shared = std::sync::Arc::new(evalrun::Shared::default());
                    let r = std::panic::catch_unwind(std::panic::AssertUnwindSafe(|| {
                        let rs = evalrun::build_ruleset(&c.rules, &c.env, &shared).map_err(|e| format!("BUILD {e}"))?;
                        let show = |os: Vec<reval::ruleset::Outcome>| os.iter().map(|o| codec::enc_result(&o.value)).collect::<Vec<_>>();
                        let a = evalrun::block_on(rs.evaluate(&input)).map(show).map_err(|e| format!("EVALERR {e}"))?;
                        let b = evalrun::block_on(rs.evaluate_value(&denoted)).map(show).map_err(|e| format!("EVALERR {e}"))?;
                        Ok::<_, String>((a, b))
                    }));
                    let (a, b) = match r {
                        Ok(Ok(x)) => x,
                        Ok(Err(e)) => (vec![e], vec![]),
                        Err(p) => (vec![format!("PANIC {}", evalrun::panic_msg(p))], vec![]),
                    };
                    if a != b {
                        let j = (0..a.len().max(b.len())).find(|j| a.get(*j) != b.get(*j)).unwrap_or(0);
                        rep.add_finding(report::Finding { kind: "impl-violates-property".into(), stream: "none-from-input-evaluate".into(), case: format!("nonefacts\t{}", c.tag), human: format!("rule `{}` over the input struct {{ nothing: None, unit: (), inner: {{ nothing: None, v: 1 }}, list: [None, Some(1)], n: 5 }}", c.rules.get(j).map(|e| e.to_string()).unwrap_or_default()), impl_out: a.get(j).cloned().unwrap_or_default(), model_out: b.get(j).cloned().unwrap_or_default(), predicate: "an absent datum of the input (Option::None, unit) is None: the operators treat it as the property says for None".into(), signature: format!("C04 none-from-input {}", c.rules.get(j).map(|e| e.to_string().split(' ').next().unwrap_or("").to_string()).unwrap_or_default()) });
                    }
                }
                rep.streams.push(sr);
                run_rs_stream(&o, &mut rep, "none-from-input", "every unary / binary / lazy operator, if, and access step with a None operand that is a field of the input (bare name, unit field, nested field, `facts.` path, list item) on either side of 7 other operands; 40 rules per ruleset", true, cases, "full");
            }
            if o.prop == "C02" || o.prop == "C03" {
                run_rs_stream(&o, &mut rep, "compositions", "two operators stacked — every unary over every unary operator, every binary / lazy operator over a unary one on either side, every unary over a binary one — over the coercion pool (3 values per type, None) with 5 second operands: for C03 the type-error-ness of every outcome, for C02 the whole outcome", true, streams::composition_cases(), if o.prop == "C03" { "typeerr" } else { "full" });
            }
            if o.prop == "C04" {
                let cs: Vec<rs::RsCase> = streams::composition_cases().into_iter().filter(|c| c.rules.first().map(|e| format!("{}", e).contains("none")).unwrap_or(false)).collect();
                run_rs_stream(&o, &mut rep, "compositions", "two operators stacked over a None operand (every unary over every unary operator, every binary / lazy operator over a unary one on either side, every unary over a binary one): a rewrite of two adjacent operators (`!(a < b)` into `a >= b`) must keep what each does with None", true, cs, "full");
            }
            if o.prop == "C02" || o.prop == "C04" {
                run_rs_stream(&o, &mut rep, "same-operand", "every binary / lazy operator with both operands resolving to ONE stored value (a op a, facts.a op a, a op b with equal values, :s op :s, w.0 op w.0, g(a) op g(a)) for every value of the boundary pool, None included", true, streams::same_operand_cases(o.tier == "thorough"), "full");
            }
            if o.prop == "C01" || o.prop == "C02" {
                run_rs_stream(&o, &mut rep, "long-names", "references, symbols, functions, field steps and map keys whose names are 30 … 4094 bytes of 2- / 3- / 4-byte characters at every alignment, resolving and (one character longer) not resolving", false, streams::long_name_cases(), if o.prop == "C01" { "range" } else { "full" });
            }
            if o.prop == "C01" || o.prop == "C02" {
                run_rs_stream(&o, &mut rep, "long-chains", "left-nested chains of 10 / 33 / 40 / 70 / 150 operands for every binary operator (one operator, or two of a family alternating) with a special operand (None, a type error, zero, an extreme, NaN) at the start, in the middle or at the end; lists and maps of that many items, access paths and unary towers up to 60 deep", false, streams::chain_cases(), if o.prop == "C01" { "range" } else { "full" });
                let mut rng = rng::Rng::new(o.seed);
                let n = if o.tier == "thorough" { 300000 } else { 20000 };
                let cases = streams::random_cases(&mut rng, n, o.tier == "thorough");
                run_rs_stream(&o, &mut rep, "random-expressions", "type-directed random expressions of depth <= 6 over all 47 constructors (7/8 well-typed children), leaves from the boundary pool and from facts fields of every type, through RuleSet::evaluate_value with cacheable / non-cacheable / failing user functions and symbols; inputs map / non-map / None", false, cases, if o.prop == "C02" { "full" } else { "range" });
            }
        }
        "C06" => syntax::run_c06(&mut rep, &o.driver, o.workers, o.tier == "thorough", o.seed),
        "C07" => syntax::run_c07(&mut rep, &o.driver, o.workers, o.tier == "thorough", o.seed),
        "C08" => {
            let mut known = vec![];
            syntax::run_c08(&mut rep, &o.driver, o.workers, o.tier == "thorough", o.seed, &mut known);
        }
        "C14" => syntax::run_c14(&mut rep, &o.driver, o.workers, o.tier == "thorough", o.seed),
        "C16" => syntax::run_c16(&mut rep, &o.driver, o.workers, o.tier == "thorough", o.seed),
        "C19" => depth::run(&mut rep, o.tier == "thorough"),
        "C12" => sched::run(&mut rep, &o.driver, o.workers, o.tier == "thorough", o.seed),
        "C13" => {
            serval::run(&mut rep, &o.driver, o.workers, o.tier == "thorough", o.seed);
            // the serializer as RuleSet::evaluate(&T) uses it (evaluate_factors): the rules see the same image
            serval::run_evaluate(&mut rep, &o.driver, o.workers, o.tier == "thorough", o.seed);
        }
        "C15" => builder::run(&mut rep, &o.driver, o.workers, o.tier == "thorough", o.seed),
        "C17" => conv::run(&mut rep, &o.driver, o.workers, o.tier == "thorough", o.seed),
        "C05" => {
            let mut rng = rng::Rng::new(o.seed);
            let cases = streams::lazy_cases(&mut rng, o.tier == "thorough");
            run_rs_stream(&o, &mut rep, "lazy-trees", "every operator of {if and or == != + contains > list map call call-of-an-unregistered-function call-of-a-cacheable-function duplicated-sub-expression index ! some &} over every tuple of 13 leaf kinds (logging non-cacheable calls returning true/false/none/value/failing with a unique argument per call site, the literals true/false/none, the call-free error i1 / i0, a cacheable failing call, a reference that does not resolve, one that does, a symbol that does not) exhaustively at depth 1; depth 2: every (operator, child position, child operator, child leaves) with the remaining children over {call true, call false, call failing, literal true, literal false}; depth 3 random; left-nested chains of 10 / 33 / 40 / 70 links over one or two alternating operators with the deciding or failing leaf at the start, middle or end; compared on the exact invocation sequence and the error class of the result", false, cases, "log");
        }
        "C09" => {
            let mut rng = rng::Rng::new(o.seed);
            let cases = streams::rules_cases(&mut rng, o.tier == "thorough");
            run_rs_stream(&o, &mut rep, "rulesets", "every sequence of 0..3 (thorough 0..4) rules over 17 rule kinds (4 succeeding, 8 failing one per error class, 1 counting user function, 4 calls of a cacheable function with look-alike arguments: d1.0 / d1.00, f0.0 / f-0.0) exhaustively, plus rulesets of 40 / 70 / 130 / 300 failing rules of each error kind (and of all kinds in turn) followed by succeeding ones, eight 5- / 15- / 30-deep failing rules followed by succeeding ones, random longer rulesets and non-map inputs; compared on the outcome list (length, order, each value / error kind + payload)", false, cases, "full");
            // many rules calling one cacheable function with many distinct / large look-alike arguments: each rule's outcome is what
            // the rule gives on its own, however many other calls the evaluation has seen
            let mut rng2 = rng::Rng::new(o.seed);
            let many: Vec<rs::RsCase> = streams::cache_cases(&mut rng2, false).into_iter().filter(|c| c.tag.starts_with("many-") || c.tag.starts_with("large-args") || c.tag == "failpattern" || c.tag == "pair").collect();
            run_rs_stream(&o, &mut rep, "many-calls", "every ordered pair of look-alike arguments (equal under ==, under a looser rendering, under a lossy projection, or once flattened) passed to one cacheable function by two rules; 40 / 200 / 1000 distinct arguments of one cacheable function called twice in opposite orders (one rule, and one call per rule over 400 rules); large arguments of equal length differing at one position; every subset of failing invocations of cacheable and non-cacheable functions called with equal arguments from different rules (a rule's outcome is what the rule gives when it is its turn, whatever failed before)", false, many, "full");
            run_rs_stream(&o, &mut rep, "cells-as-rules", "every operator over the extremes of every type (all ordered pairs of ~50 values, mixed types included: an i128 beyond 96 bits next to a decimal, an instant next to the largest span …), 40 such rules per ruleset between two succeeding rules: a failing rule yields its own error outcome and the other 41 outcomes are unchanged", true, streams::cells_as_rules_cases(), "full");
            serval::run_evaluate(&mut rep, &o.driver, o.workers, o.tier == "thorough", o.seed);
        }
        "C10" => {
            let big: Vec<rs::RsCase> = streams::chain_cases().into_iter().filter(|c| c.tag.starts_with("list") || c.tag.starts_with("map") || c.tag.starts_with("path")).collect();
            run_rs_stream(&o, &mut rep, "large-data", "lists and maps of 10 / 33 / 40 / 70 / 150 items built and indexed at the last and past-the-last position, key lookup in them, access paths of up to 60 alternating field / index steps into nested data and one step further", false, big, "full");
            run_rs_stream(&o, &mut rep, "long-names", "references, symbols, functions, field steps and map keys whose names are 30 … 4094 bytes of 2- / 3- / 4-byte characters at every alignment, resolving and (one character longer) not resolving", false, streams::long_name_cases(), "full");
            syntax::run_c10_names(&mut rep, &o.driver, o.workers);
            let mut rng = rng::Rng::new(o.seed);
            let cases = streams::resolve_cases(&mut rng, o.tier == "thorough");
            run_rs_stream(&o, &mut rep, "paths", "7 inputs (nested maps/lists with near-miss keys: case variants, prefixes, the key `facts`, the empty key, top-level keys that contain a dot next to the data a path of that spelling reaches; non-map; None) x 20 bases (references, `facts`, symbols, unknown names, names containing a dot — also built through Expr::reff / Expr::symbol) x every access path of length <= 2 (thorough 3) over 11 steps (present/absent keys, indices len-1/len/len+1, wrong step kind) x symbol tables with re-registration; random longer paths", false, cases, "full");
        }
        "C11" => {
            let mut rng = rng::Rng::new(o.seed);
            let cases = streams::cache_cases(&mut rng, o.tier == "thorough");
            run_rs_stream(&o, &mut rep, "cache-histories", "counting / wrapping / identity user functions, cacheable or not: every ordered pair of 18 equal-or-similar arguments (i1 \"1\" \"i1\" [i1] f1 d1 d1.0 d1.00 f0 f-0 none NaN …) over two rules and 3 consecutive evaluations; every subset of failing invocation indices (32) x 4 call sequences x 3 rule splits; 40 / 200 / 1000 distinct arguments each called twice in opposite orders (in one rule, and one call per rule over 400 rules), 300-element and 900-byte arguments differing only at the end; random histories; compared on the invocation log and all outcomes", false, cases, "full");
            // the model keys the cache by the pair (function, argument); the code by the text `{name}-{param:?}`.  The two agree
            // exactly when the Debug rendering of a Value is injective: checked here on every pair of the value pools
            {
                let mut vals = pool::boundary_pool(true);
                vals.extend(pool::dense_pool(false));
                vals.extend(streams::similar_args());
                vals.extend(pool::string_probe_pool().into_iter().take(40));
                let mut sr = report::StreamReport::new("debug-key-injective", "the Debug rendering of a Value (the cache key's second half) separates every two values of the boundary, dense, look-alike and string pools that the canonical encoding separates (all NaN being one value), and only those", true);
                let mut seen: std::collections::HashMap<String, String> = Default::default();
                for v in &vals {
                    let dbg = format!("{:?}", v);
                    let enc = codec::enc_value(v);
                    sr.count(&enc, true);
                    if let Some(prev) = seen.get(&dbg) {
                        if prev != &enc {
                            rep.add_finding(report::Finding { kind: "impl-violates-property".into(), stream: "debug-key-injective".into(), case: format!("debugkey\t{}\t{}", prev, enc), human: format!("two different arguments have the same cache key text {:?}", dbg.chars().take(160).collect::<String>()), impl_out: dbg.chars().take(300).collect(), model_out: format!("{} and {}", prev.chars().take(150).collect::<String>(), enc.chars().take(150).collect::<String>()), predicate: "a result is never reused for a different argument: the cache key separates different arguments".into(), signature: "C11 debug-key-collision".into() });
                        }
                    } else {
                        seen.insert(dbg, enc);
                    }
                }
                rep.streams.push(sr);
            }
            // "a function that declares itself non-cacheable is invoked on every call": what counts is what the function declares
            // when it is called.  Two rulesets that differ only in WHEN the function started to declare what it declares now
            // (before registration / after the ruleset was built) must invoke it identically.
            {
                use evalrun::*;
                use gen::*;
                let arg = |k: i128| reval::expr::Expr::Value(reval::value::Value::Int(k));
                let rule_sets: Vec<Vec<reval::expr::Expr>> = vec![
                    vec![call("p", arg(1)), call("p", arg(1)), codec::mk_bin("add", call("p", arg(1)), call("p", arg(1)))],
                    vec![reval::expr::Expr::Vec(vec![call("p", arg(1)), call("q", arg(1)), call("p", arg(1)), call("p", arg(2)), call("p", arg(1)), call("q", arg(1))])],
                    vec![iff(call("q", arg(1)), call("p", arg(1)), call("p", arg(2))), call("p", arg(1)), call("q", arg(1))],
                ];
                let mut sr = report::StreamReport::new("declared-when-called", "3 rulesets x both declarations x (declared before registration | changed after build): the invocation log of an evaluation depends on what the function declares when it is called", true);
                for (ri, rules) in rule_sets.iter().enumerate() {
                    for now_cacheable in [false, true] {
                        let run = |registered_as: bool, flip: bool| -> Result<String, String> {
                            let shared = std::sync::Arc::new(Shared::default());
                            let env = EnvSpec { syms: vec![], fns: vec![FnSpec::new("p", registered_as, FnKind::Count), FnSpec::new("q", registered_as, FnKind::Const(reval::value::Value::Bool(true)))] };
                            let rs = build_ruleset(rules, &env, &shared).map_err(|e| format!("{e}"))?;
                            shared.flip.store(flip, std::sync::atomic::Ordering::SeqCst);
                            let mut out = String::new();
                            for _ in 0..2 {
                                shared.log.lock().unwrap().clear();
                                let os = block_on(rs.evaluate_value(&reval::value::Value::None)).map_err(|e| format!("{e}"))?;
                                out.push_str(&format!("(outcomes{}) log {:?} | ", os.iter().map(|o| format!(" {}", codec::enc_result(&o.value))).collect::<String>(), shared.log.lock().unwrap().iter().map(|(n, v, _)| format!("{}({})", n, codec::enc_value(v))).collect::<Vec<_>>()));
                            }
                            Ok(out)
                        };
                        let r = std::panic::catch_unwind(std::panic::AssertUnwindSafe(|| (run(now_cacheable, false), run(!now_cacheable, true))));
                        sr.count(&format!("{} {}", ri, now_cacheable), true);
                        let (a, b) = match r {
                            Ok((a, b)) => (a.unwrap_or_else(|e| e), b.unwrap_or_else(|e| e)),
                            Err(p) => ("".to_string(), format!("PANIC {}", panic_msg(p))),
                        };
                        if a != b {
                            rep.add_finding(report::Finding { kind: "impl-violates-property".into(), stream: "declared-when-called".into(), case: format!("declared\t{}\t{}", ri, now_cacheable), human: format!("rules [{}]; the functions declare cacheable = {} when called, but declared {} when they were registered", rules.iter().map(|e| e.to_string()).collect::<Vec<_>>().join(" ; "), now_cacheable, !now_cacheable), impl_out: b, model_out: a, predicate: "a function that declares itself non-cacheable (cacheable) is invoked on every call (at most once per argument): the declaration that counts is the one it makes when it is called".into(), signature: "C11 declared-when-called".into() });
                        }
                    }
                }
                rep.streams.push(sr);
            }
            // "the cache is per evaluation": also after an evaluation that never completed.  The abandonment histories of the
            // C12 executor (an evaluation dropped after j polls — with a cacheable call already completed —, then fresh
            // evaluations whose own invocation log must be the one of an evaluation run alone) judged for C11
            let mut tmp = report::Report { property: "C12".into(), ..Default::default() };
            sched::run(&mut tmp, &o.driver, o.workers, o.tier == "thorough", o.seed);
            for mut sr in tmp.streams {
                sr.name = "abandoned-then-fresh".into();
                rep.streams.push(sr);
            }
            for mut f in tmp.findings {
                if f.signature.contains("abandon") {
                    f.signature = f.signature.replace("C12", "C11");
                    f.predicate = "a fresh evaluation invokes its cacheable functions itself: nothing cached by an evaluation that was abandoned is observed".into();
                    rep.add_finding(f);
                }
            }
        }
        p => {
            eprintln!("unknown property {p}");
            std::process::exit(2)
        }
    }
    for v in oracle::ASSUMPTION_VIOLATIONS.lock().unwrap().iter().take(5) {
        rep.add_finding(report::Finding { kind: "model-disagreement".into(), stream: "oracle".into(), case: v.clone(), human: v.clone(), impl_out: v.clone(), model_out: "a decimal in normal form".into(), predicate: "an assumption a theorem makes about a library primitive (named in the case) holds for every answer the oracle gave".into(), signature: "oracle-assumption".into() });
    }
    let js = serde_json::to_string_pretty(&rep).unwrap();
    std::fs::write(&o.out, js).unwrap();
}
