//! Correspondence harness: runs the real reval (path dependency on /repo's working tree) and the Lean
//! model (compiled driver) on the same inputs and reports, per property, violations of the property's own
//! predicate on the implementation and disagreements with the model.
mod cells;
mod codec;
mod driver;
mod evalrun;
mod oracle;
mod pool;
mod report;
mod rng;
mod sexp;

use report::*;
use std::collections::HashMap;

pub struct Opts {
    pub prop: String,
    pub tier: String,
    pub seed: u64,
    pub driver: String,
    pub out: String,
    pub workers: usize,
    pub replay: Option<String>,
}

fn parse_args() -> Opts {
    let mut o = Opts {
        prop: String::new(),
        tier: "quick".into(),
        seed: 1,
        driver: "/verif/lean/.lake/build/bin/driver".into(),
        out: "/dev/stdout".into(),
        workers: std::thread::available_parallelism().map(|n| n.get()).unwrap_or(8),
        replay: None,
    };
    let args: Vec<String> = std::env::args().collect();
    let mut i = 1;
    while i < args.len() {
        let a = args[i].as_str();
        let mut val = || {
            i += 1;
            args.get(i).cloned().unwrap_or_default()
        };
        match a {
            "--prop" => o.prop = val(),
            "--tier" => o.tier = val(),
            "--seed" => o.seed = val().parse().unwrap_or(1),
            "--driver" => o.driver = val(),
            "--out" => o.out = val(),
            "--workers" => o.workers = val().parse().unwrap_or(8),
            "--replay" => o.replay = Some(val()),
            _ => {
                eprintln!("unknown argument {a}");
                std::process::exit(2)
            }
        }
        i += 1;
    }
    o
}

fn supported_table(driver: &str) -> HashMap<String, bool> {
    let tys = ["str", "int", "float", "dec", "bool", "datetime", "duration", "vec", "map", "none"];
    let mut reqs = vec![];
    let mut keys = vec![];
    for op in codec::UN_OPS {
        for t in tys {
            reqs.push(format!("supported\tun\t{}\t{}", op, t));
            keys.push(format!("{}:{}", op, t));
        }
    }
    for op in codec::BIN_OPS {
        for a in tys {
            for b in tys {
                reqs.push(format!("supported\tbin\t{}\t{}\t{}", op, a, b));
                keys.push(format!("{}:{}:{}", op, a, b));
            }
        }
    }
    let mut d = driver::Driver::spawn(driver).expect("spawn driver");
    let replies = d.batch(&reqs);
    keys.into_iter().zip(replies).map(|(k, r)| (k, r == "1")).collect()
}

fn run_cells_prop(o: &Opts, rep: &mut Report) {
    let full = o.tier == "thorough";
    let table = supported_table(&o.driver);
    let supported = |c: &cells::Cell| -> Option<bool> {
        match c.class {
            "un" => table.get(&format!("{}:{}", c.op, pool::ty_name(&c.a))).copied(),
            "bin" => table.get(&format!("{}:{}:{}", c.op, pool::ty_name(&c.a), pool::ty_name(c.b.as_ref()?))).copied(),
            "index" => None,
            _ => None,
        }
    };
    let pools: Vec<(&str, Vec<reval::value::Value>, &str)> = match o.prop.as_str() {
        "C03" | "C04" => vec![
            ("cells-coercion", pool::coercion_pool(), "every unary/binary/lazy operator, index and if × all ordered pairs of the coercion pool (3 values per type chosen to coincide after coercion, and None)"),
            ("cells-boundary", pool::boundary_pool(false), "every operator × all ordered pairs of the core boundary pool"),
        ],
        _ => vec![(
            "cells-boundary",
            pool::boundary_pool(full),
            "every unary operator, index, if × boundary pool; every binary operator × all ordered pairs of the boundary pool (type extremes, mutation-killing values)",
        )],
    };
    for (name, p, rule) in pools {
        let cs = cells::cells_over(&p);
        let outs = cells::run_cells(&cs, &o.driver, o.workers);
        let mut sr = StreamReport::new(name, &format!("{rule}; pool size {}; non-trivial = the operator itself decides the result (all cells), distinct by canonical encoding", p.len()), true);
        for (c, out) in cs.iter().zip(outs.iter()) {
            let canon = codec::enc_expr(&c.expr);
            let relevant = match o.prop.as_str() {
                "C04" => matches!(c.a, reval::value::Value::None) || matches!(c.b, Some(reval::value::Value::None)),
                _ => true,
            };
            if !relevant {
                continue;
            }
            sr.count(&canon, true);
            sr.hist("operator", &c.op);
            let kind = if out.impl_out.starts_with("(ok") { "ok" } else if out.impl_out.starts_with("PANIC") { "panic" } else { out.impl_out.split(' ').nth(1).unwrap_or("?").trim_end_matches(')') };
            sr.hist("impl_outcome", kind);
            if out.model.unanswered {
                sr.frontier_unanswered += 1;
            }
            if out.model.oracle_used > 0 {
                sr.via_oracle += 1;
            }
            cells::judge(&o.prop, name, c, out, &supported, rep);
        }
        rep.streams.push(sr);
    }
}

fn main() {
    std::panic::set_hook(Box::new(|_| {}));
    let o = parse_args();
    let mut rep = Report { property: o.prop.clone(), tier: o.tier.clone(), seed: o.seed, profile: if cfg!(debug_assertions) { "dev".into() } else { "release".into() }, ..Default::default() };
    match o.prop.as_str() {
        "C01" | "C02" | "C03" | "C04" => run_cells_prop(&o, &mut rep),
        p => {
            eprintln!("unknown property {p}");
            std::process::exit(2)
        }
    }
    let js = serde_json::to_string_pretty(&rep).unwrap();
    std::fs::write(&o.out, js).unwrap();
}
