//! Ruleset-level cases: rules + facts + environment (instrumented user functions, symbols), evaluated
//! `evals` times in a row on one RuleSet object by the real code, once by the model; compared on
//! outcomes and on the exact invocation log.
use crate::codec::*;
use crate::evalrun::*;
use crate::report::*;
use reval::expr::Expr;
use reval::value::Value;
use std::panic::{catch_unwind, AssertUnwindSafe};
use std::sync::Arc;

#[derive(Clone)]
pub struct RsCase {
    pub tag: String,
    pub rules: Vec<Expr>,
    pub facts: Value,
    pub env: EnvSpec,
    pub evals: usize,
}

impl RsCase {
    pub fn request(&self, oracle: &str) -> String {
        format!(
            "ruleset\t(rules{})\t{}\t{}\t{}",
            self.rules.iter().map(|e| format!(" {}", enc_expr(e))).collect::<String>(),
            enc_value(&self.facts),
            self.env.enc(),
            oracle
        )
    }
    pub fn human(&self) -> String {
        format!(
            "rules [{}] facts {} fns [{}]",
            self.rules.iter().map(|e| e.to_string()).collect::<Vec<_>>().join(" ; "),
            self.facts,
            self.env.fns.iter().map(|f| format!("{}{}", f.name, if f.cacheable { "*" } else { "" })).collect::<Vec<_>>().join(",")
        )
    }
}

/// real code: one string per evaluation ("(outcomes …)\t(events …)\tcalls")
pub fn impl_rs(c: &RsCase) -> Vec<String> {
    let shared = Arc::new(Shared::default());
    let r = catch_unwind(AssertUnwindSafe(|| {
        let rs = match build_ruleset(&c.rules, &c.env, &shared) {
            Ok(rs) => rs,
            Err(e) => return vec![format!("BUILD {}", enc_err(&e))],
        };
        // "nothing is remembered from one evaluation to the next" — not across different inputs either: the ruleset first
        // evaluates a decoy input of the same shape with every scalar changed (its outcome is ignored)
        let decoy = decoy_of(&c.facts);
        let _ = catch_unwind(AssertUnwindSafe(|| block_on(rs.evaluate_value(&decoy)).map(|os| os.len())));
        let mut outs = vec![];
        for _ in 0..c.evals.max(1) {
            shared.log.lock().unwrap().clear();
            let s = match catch_unwind(AssertUnwindSafe(|| block_on(rs.evaluate_value(&c.facts)))) {
                Err(p) => format!("PANIC {}", panic_msg(p).replace(['\t', '\n'], " ")),
                Ok(Ok(os)) => {
                    format!("(outcomes{})", os.iter().map(|o| format!(" {}", enc_result(&o.value))).collect::<String>())
                }
                Ok(Err(e)) => format!("EVALERR {}", enc_err(&e)),
            };
            let log = shared.log.lock().unwrap().clone();
            outs.push(format!("{}\t{}\t{}", s, enc_events(&log), log.len()));
        }
        // "passing a serializable input gives the same outcomes as passing its serialized value" — and the same invocations:
        // the input that denotes `facts`, through RuleSet::evaluate(&T), on the same ruleset object
        if outs.len() >= 1 && outs[0].starts_with("(outcomes") {
            if let Some(sv) = crate::serval::from_value(&c.facts) {
                shared.log.lock().unwrap().clear();
                let s = match catch_unwind(AssertUnwindSafe(|| block_on(rs.evaluate(&sv)))) {
                    Err(p) => format!("PANIC {}", panic_msg(p).replace(['\t', '\n'], " ")),
                    Ok(Ok(os)) => format!("(outcomes{})", os.iter().map(|o| format!(" {}", enc_result(&o.value))).collect::<String>()),
                    Ok(Err(e)) => format!("EVALERR {}", enc_err(&e)),
                };
                let log = shared.log.lock().unwrap().clone();
                let via = format!("{}\t{}\t{}", s, enc_events(&log), log.len());
                if via != outs[0] {
                    outs[0] = format!("(evaluate-of-the-serializable-input-differs evaluate_value {} evaluate {})\t{}\t{}", field(&outs[0], 0), s, enc_events(&log), log.len());
                }
            }
        }
        // "the same result as evaluating that rule's expression on its own": without symbols and functions a rule's
        // expression can be evaluated stand-alone (Expr::evaluate) — it must give what the ruleset gave
        if c.env.syms.is_empty() && c.env.fns.is_empty() && c.rules.len() <= 64 && outs.len() == 1 && outs[0].starts_with("(outcomes") {
            let alone: Vec<String> = c.rules.iter().map(|e| match catch_unwind(AssertUnwindSafe(|| block_on(e.evaluate(&c.facts)))) {
                Ok(r) => enc_result(&r),
                Err(p) => format!("PANIC {}", panic_msg(p).replace(['\t', '\n'], " ")),
            }).collect();
            let want = format!("(outcomes{})", alone.iter().map(|x| format!(" {}", x)).collect::<String>());
            let got = field(&outs[0], 0).to_string();
            if want != got {
                outs[0] = format!("(stand-alone-evaluation-differs in-ruleset {} alone {}){}", got, want, &outs[0][got.len()..]);
            }
        }
        outs
    }));
    match r {
        Ok(v) => v,
        Err(p) => vec![format!("PANIC {}", panic_msg(p).replace(['\t', '\n'], " "))],
    }
}

/// the same shape, every scalar different
pub fn decoy_of(v: &Value) -> Value {
    match v {
        Value::None => Value::Map(std::collections::BTreeMap::from([("amount".to_string(), Value::Int(7))])),
        Value::Bool(b) => Value::Bool(!b),
        Value::Int(i) => Value::Int(i.wrapping_add(1000)),
        Value::Float(f) => Value::Float(if f.is_finite() { f / 2.0 + 1.25 } else { 0.5 }),
        Value::String(s) => Value::String(format!("{}~", s)),
        Value::Vec(xs) => Value::Vec(xs.iter().map(decoy_of).collect()),
        Value::Map(m) => Value::Map(m.iter().map(|(k, x)| (k.clone(), decoy_of(x))).collect()),
        other => other.clone(),
    }
}

pub struct RsOutcome {
    pub impl_out: Vec<String>,
    pub model: ModelReply,
}

pub fn run_rs(cases: &[RsCase], driver: &str, workers: usize) -> Vec<RsOutcome> {
    let n = cases.len();
    let mut impl_out: Vec<Vec<String>> = vec![vec![]; n];
    let chunk = ((n + workers - 1) / workers.max(1)).max(1);
    std::thread::scope(|sc| {
        for (cs, os) in cases.chunks(chunk).zip(impl_out.chunks_mut(chunk)) {
            sc.spawn(move || {
                for (c, o) in cs.iter().zip(os.iter_mut()) {
                    *o = impl_rs(c);
                }
            });
        }
    });
    let mk = |i: usize, oracle: &str| cases[i].request(oracle);
    let model = model_batch(driver, workers, &mk, n);
    impl_out.into_iter().zip(model).map(|(i, m)| RsOutcome { impl_out: i, model: m }).collect()
}

pub fn field(s: &str, k: usize) -> &str {
    s.split('\t').nth(k).unwrap_or("")
}

/// split "(outcomes R1 R2 …)" into its top-level results
pub fn split_outcomes(s: &str) -> Vec<String> {
    match crate::sexp::parse(s) {
        Some(crate::sexp::Sexp::List(items)) if items.first().and_then(|x| x.atom()) == Some("outcomes") => {
            items[1..].iter().map(show).collect()
        }
        _ => vec![s.to_string()],
    }
}

fn show(x: &crate::sexp::Sexp) -> String {
    match x {
        crate::sexp::Sexp::Atom(a) => a.clone(),
        crate::sexp::Sexp::List(l) => format!("({})", l.iter().map(show).collect::<Vec<_>>().join(" ")),
    }
}

fn is_range_err(s: &str) -> bool {
    s.starts_with("(err oob") || s.starts_with("(err cast")
}

/// which error class / ok — the projection C05 compares ("the first error ends the evaluation")
fn class_of(s: &str) -> String {
    if s.starts_with("(ok") {
        "ok".into()
    } else {
        s.split(' ').take(2).collect::<Vec<_>>().join(" ").trim_end_matches(')').to_string()
    }
}

/// Judgement for ruleset-level streams.  `mode`:
///  "full"  — outcomes and log must equal the model's; a difference violates the property (C02, C09, C10, C11)
///  "log"   — the invocation log and the ok/error class of each outcome (C05)
///  "range" — only: no panic, and no value where the exact result is out of range (C01)
pub fn judge_rs(prop: &str, stream: &str, c: &RsCase, o: &RsOutcome, mode: &str, rep: &mut Report) {
    let model_vals = field(&o.model.reply, 0);
    let model_log = field(&o.model.reply, 1);
    let case = c.request("(oracle)");
    for (k, imp) in o.impl_out.iter().enumerate() {
        let ivals = field(imp, 0);
        let ilog = field(imp, 1);
        let mut push = |kind: &str, pred: &str, sig: String| {
            rep.add_finding(Finding {
                kind: kind.into(),
                stream: stream.into(),
                case: case.clone(),
                human: format!("{} [evaluation #{}]", c.human(), k + 1),
                impl_out: format!("{} {}", ivals, ilog),
                model_out: format!("{} {}", model_vals, model_log),
                predicate: pred.into(),
                signature: sig,
            })
        };
        if imp.starts_with("PANIC") || ivals.starts_with("PANIC") {
            push("impl-violates-property", "evaluation panicked", format!("{} panic {}", prop, c.tag));
            continue;
        }
        if let Some(expect) = c.tag.strip_prefix("expect:") {
            let want = format!("(outcomes {})", expect);
            if ivals != want {
                push("impl-violates-property", &format!("the property's own rule prescribes {}", expect), format!("{} expected {}", prop, expect));
                continue;
            }
        }
        if o.model.unanswered {
            continue;
        }
        match mode {
            "range" => {
                let iv = split_outcomes(ivals);
                let mv = split_outcomes(model_vals);
                if iv.len() == mv.len() && iv.iter().zip(mv.iter()).any(|(i, m)| i.starts_with("(ok") && is_range_err(m)) {
                    push(
                        "impl-violates-property",
                        "a result outside the range of its type must be an error (the exact result is out of range, the implementation returned a value)",
                        format!("{} silent-range {}", prop, c.tag),
                    );
                }
            }
            "log" => {
                let ic: Vec<String> = split_outcomes(ivals).iter().map(|s| class_of(s)).collect();
                let mc: Vec<String> = split_outcomes(model_vals).iter().map(|s| class_of(s)).collect();
                if ilog != model_log {
                    push(
                        "impl-violates-property",
                        "the sequence of user-function invocations (name, argument, order) must be the lazy, left-to-right, exactly-once sequence the model proves",
                        format!("{} log {}", prop, c.tag),
                    );
                } else if ic != mc {
                    push(
                        "impl-violates-property",
                        "the first error ends the evaluation: the reported error class must be that of the first failing operand",
                        format!("{} errclass {}", prop, c.tag),
                    );
                }
            }
            "typeerr" => {
                let iv = split_outcomes(ivals);
                let mv = split_outcomes(model_vals);
                if iv.len() != mv.len() {
                    push("impl-violates-property", "one outcome per rule", format!("{} outcomes-length {}", prop, c.tag));
                } else if let Some(j) = (0..iv.len()).find(|j| (iv[*j] == "(err type)") != (mv[*j] == "(err type)")) {
                    push(
                        "impl-violates-property",
                        &format!("an operand of a type the operator does not support is a type error wherever it arises in an expression, and only there (rule #{}: `{}`)", j, c.rules.get(j).map(|e| e.to_string()).unwrap_or_default()),
                        format!("{} typeerr {}", prop, c.tag),
                    );
                }
            }
            _ => {
                if ilog != model_log {
                    push("impl-violates-property", "the invocation log must equal the model's", format!("{} log {}", prop, c.tag));
                } else if ivals != model_vals {
                    push("impl-violates-property", "the outcomes must equal the model's", format!("{} outcomes {}", prop, c.tag));
                }
            }
        }
    }
}
