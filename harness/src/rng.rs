//! xoshiro256** seeded by splitmix64 — every random choice of a run derives from one state.
#[derive(Clone)]
pub struct Rng {
    s: [u64; 4],
}

impl Rng {
    pub fn new(seed: u64) -> Self {
        let mut z = seed.wrapping_add(0x9E3779B97F4A7C15);
        let mut next = || {
            z = z.wrapping_add(0x9E3779B97F4A7C15);
            let mut x = z;
            x = (x ^ (x >> 30)).wrapping_mul(0xBF58476D1CE4E5B9);
            x = (x ^ (x >> 27)).wrapping_mul(0x94D049BB133111EB);
            x ^ (x >> 31)
        };
        Rng { s: [next(), next(), next(), next()] }
    }
    pub fn next_u64(&mut self) -> u64 {
        let r = self.s[1].wrapping_mul(5).rotate_left(7).wrapping_mul(9);
        let t = self.s[1] << 17;
        self.s[2] ^= self.s[0];
        self.s[3] ^= self.s[1];
        self.s[1] ^= self.s[2];
        self.s[0] ^= self.s[3];
        self.s[2] ^= t;
        self.s[3] = self.s[3].rotate_left(45);
        r
    }
    pub fn below(&mut self, n: usize) -> usize {
        if n == 0 {
            0
        } else {
            (self.next_u64() % n as u64) as usize
        }
    }
    pub fn chance(&mut self, num: u32, den: u32) -> bool {
        (self.next_u64() % den as u64) < num as u64
    }
    pub fn pick<'a, T>(&mut self, xs: &'a [T]) -> &'a T {
        &xs[self.below(xs.len())]
    }
    pub fn u128(&mut self) -> u128 {
        ((self.next_u64() as u128) << 64) | self.next_u64() as u128
    }
    /// derive an independent stream
    pub fn fork(&mut self, tag: u64) -> Rng {
        Rng::new(self.next_u64() ^ tag.wrapping_mul(0xD6E8FEB86659FD93))
    }
}
