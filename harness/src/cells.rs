//! Stream A: every operator × designed value pool (all ordered pairs for binary operators), evaluated by
//! the real code and by the model.  Properties C01–C04 each look at their own projection of a cell.
use crate::codec::*;
use crate::evalrun::*;
use crate::pool::*;
use crate::report::*;
use reval::expr::{Expr, Index};
use reval::value::Value;

#[derive(Clone)]
pub struct Cell {
    pub op: String,
    /// "un" | "bin" | "lazy" (eq neq and or) | "index" | "if"
    pub class: &'static str,
    pub a: Value,
    pub b: Option<Value>,
    pub expr: Expr,
}

fn lit(v: &Value) -> Expr {
    Expr::Value(v.clone())
}

pub fn cells_over(pool: &[Value]) -> Vec<Cell> {
    let mut out = vec![];
    for op in UN_OPS {
        for a in pool {
            out.push(Cell { op: op.into(), class: "un", a: a.clone(), b: None, expr: mk_un(op, lit(a)) });
        }
    }
    for a in pool {
        out.push(Cell { op: "idxk".into(), class: "index", a: a.clone(), b: None, expr: Expr::Index(Box::new(lit(a)), Index::Map("a".into())) });
        out.push(Cell { op: "idx0".into(), class: "index", a: a.clone(), b: None, expr: Expr::Index(Box::new(lit(a)), Index::Vec(0)) });
        out.push(Cell { op: "idx1".into(), class: "index", a: a.clone(), b: None, expr: Expr::Index(Box::new(lit(a)), Index::Vec(1)) });
        out.push(Cell {
            op: "if".into(),
            class: "if",
            a: a.clone(),
            b: None,
            expr: Expr::If(Box::new(lit(a)), Box::new(lit(&Value::Int(1))), Box::new(lit(&Value::Int(2)))),
        });
        // the shapes a simplifier would fold: `if a then true else false`, `if a then false else true`, equal branches
        for (t, f, name) in [(Value::Bool(true), Value::Bool(false), "if-tf"), (Value::Bool(false), Value::Bool(true), "if-ft"), (Value::Int(7), Value::Int(7), "if-same")] {
            out.push(Cell { op: name.into(), class: "if", a: a.clone(), b: None, expr: Expr::If(Box::new(lit(a)), Box::new(lit(&t)), Box::new(lit(&f))) });
        }
    }
    for op in BIN_OPS.iter().chain(LAZY_BIN.iter()) {
        let class = if LAZY_BIN.contains(op) { "lazy" } else { "bin" };
        for a in pool {
            for b in pool {
                out.push(Cell { op: op.to_string(), class, a: a.clone(), b: Some(b.clone()), expr: mk_bin(op, lit(a), lit(b)) });
            }
        }
    }
    out
}

/// unary cells over the whole pool, binary cells only between values of the same type and DateTime × Duration
/// (the pairs some operator supports): the dense pools are too large for all ordered pairs
pub fn cells_same_type(pool: &[Value]) -> Vec<Cell> {
    let mut out = vec![];
    for op in UN_OPS {
        for a in pool {
            out.push(Cell { op: op.into(), class: "un", a: a.clone(), b: None, expr: mk_un(op, lit(a)) });
        }
    }
    for op in BIN_OPS.iter().chain(LAZY_BIN.iter()) {
        if *op == "and" || *op == "or" {
            continue;
        }
        let class = if LAZY_BIN.contains(op) { "lazy" } else { "bin" };
        for a in pool {
            for b in pool {
                let same = ty_name(a) == ty_name(b) || (ty_name(a) == "datetime" && ty_name(b) == "duration");
                if same {
                    out.push(Cell { op: op.to_string(), class, a: a.clone(), b: Some(b.clone()), expr: mk_bin(op, lit(a), lit(b)) });
                }
            }
        }
    }
    out
}

/// calendar cells: the six calendar parts of every instant, the instant rebuilt from its second count, one day added to
/// it and one second subtracted from it
pub fn cells_calendar(pool: &[Value]) -> Vec<Cell> {
    let mut out = vec![];
    let day = Value::Duration(chrono::TimeDelta::days(1));
    let sec = Value::Duration(chrono::TimeDelta::seconds(1));
    for a in pool {
        for op in ["year", "month", "day", "hour", "minute", "second"] {
            out.push(Cell { op: op.into(), class: "un", a: a.clone(), b: None, expr: mk_un(op, lit(a)) });
        }
        if let Value::DateTime(t) = a {
            let n = Value::Int(t.timestamp() as i128);
            out.push(Cell { op: "datetime".into(), class: "un", a: n.clone(), b: None, expr: mk_un("datetime", lit(&n)) });
        }
        out.push(Cell { op: "add".into(), class: "bin", a: a.clone(), b: Some(day.clone()), expr: mk_bin("add", lit(a), lit(&day)) });
        out.push(Cell { op: "sub".into(), class: "bin", a: a.clone(), b: Some(sec.clone()), expr: mk_bin("sub", lit(a), lit(&sec)) });
    }
    out
}

pub struct CellOutcome {
    pub impl_out: String,
    pub model: ModelReply,
}

pub fn run_cells(cells: &[Cell], driver: &str, workers: usize) -> Vec<CellOutcome> {
    // real code, in parallel
    let n = cells.len();
    let mut impl_out: Vec<String> = vec![String::new(); n];
    let chunk = (n + workers - 1) / workers.max(1);
    std::thread::scope(|sc| {
        for (cs, os) in cells.chunks(chunk.max(1)).zip(impl_out.chunks_mut(chunk.max(1))) {
            sc.spawn(move || {
                for (c, o) in cs.iter().zip(os.iter_mut()) {
                    *o = impl_eval(&c.expr, &Value::None);
                }
            });
        }
    });
    let encs: Vec<String> = cells.iter().map(|c| enc_expr(&c.expr)).collect();
    let mk = |i: usize, oracle: &str| format!("eval\t{}\t(none)\t(env (syms) (fns))\t{}", encs[i], oracle);
    let model = model_batch(driver, workers, &mk, n);
    impl_out.into_iter().zip(model).map(|(i, m)| CellOutcome { impl_out: i, model: m }).collect()
}

pub fn model_result(reply: &str) -> &str {
    reply.split('\t').next().unwrap_or("")
}

fn is_range_err(s: &str) -> bool {
    s.starts_with("(err oob") || s.starts_with("(err cast")
}

fn human(c: &Cell) -> String {
    format!("{}", c.expr)
}

/// judge one cell for one property; pushes findings
pub fn judge(prop: &str, stream: &str, c: &Cell, o: &CellOutcome, supported: &dyn Fn(&Cell) -> Option<bool>, rep: &mut Report) {
    let imp = o.impl_out.as_str();
    let model = model_result(&o.model.reply);
    let case = format!("eval\t{}\t(none)\t(env (syms) (fns))", enc_expr(&c.expr));
    let mut push = |kind: &str, pred: &str, sig: String| {
        rep.add_finding(Finding {
            kind: kind.into(),
            stream: stream.into(),
            case: case.clone(),
            human: human(c),
            impl_out: imp.into(),
            model_out: model.into(),
            predicate: pred.into(),
            signature: sig,
        })
    };
    let tys = format!("{}:{}{}", c.op, ty_name(&c.a), c.b.as_ref().map(|b| format!(":{}", ty_name(b))).unwrap_or_default());
    let panicked = imp.starts_with("PANIC");
    match prop {
        "C01" => {
            if panicked {
                push("impl-violates-property", "evaluation must not panic", format!("C01 panic {}", tys));
            } else if (imp.starts_with("(ok") || imp.contains(" constructed (ok") || imp.contains(" as-rule (ok")) && is_range_err(model) {
                // "whether parsed from text or built through the public constructors": a value on any of the routes
                push(
                    "impl-violates-property",
                    "a result outside the range of its type must be an error (the exact result is out of range, the implementation returned a value)",
                    format!("C01 silent-range {}", tys),
                );
            }
        }
        "C02" => {
            if !o.model.unanswered && imp != model {
                push(
                    "impl-violates-property",
                    "the result must be the operator table's (the Lean Spec, to which the model is proved equal)",
                    format!("C02 cell {}", tys),
                );
            }
        }
        "C03" => {
            let none_involved = matches!(c.a, Value::None) || matches!(c.b, Some(Value::None));
            if c.class == "lazy" && (c.op == "eq" || c.op == "neq") {
                if let Some(b) = &c.b {
                    if !none_involved && ty_name(&c.a) != ty_name(b) {
                        let want = if c.op == "eq" { "(ok (bool 0))" } else { "(ok (bool 1))" };
                        if imp != want {
                            push("impl-violates-property", "equality between values of different types is false", format!("C03 eq-cross {}", tys));
                        }
                    }
                }
            } else if c.class == "lazy" || c.class == "if" {
                // conditions / logical operands must be Bool (None included: C04's exception)
                let cond_ok = matches!(c.a, Value::Bool(_));
                if !cond_ok && imp != "(err type)" {
                    push("impl-violates-property", "a non-boolean condition / logical operand is a type error", format!("C03 cond {}", tys));
                }
                if let (Value::Bool(av), Some(b)) = (&c.a, &c.b) {
                    let reached = (c.op == "and" && *av) || (c.op == "or" && !*av);
                    if reached && !matches!(b, Value::Bool(_)) && imp != "(err type)" {
                        push("impl-violates-property", "a non-boolean right operand that is reached is a type error", format!("C03 cond-right {}", tys));
                    }
                }
            } else if !none_involved {
                match supported(c) {
                    Some(false) => {
                        if imp != "(err type)" {
                            push("impl-violates-property", "an unsupported combination of non-None operand types is a type error", format!("C03 unsupported {}", tys));
                        }
                    }
                    Some(true) => {
                        if imp == "(err type)" {
                            push("model-disagreement", "a supported combination gave a type error", format!("C03 supported-rejected {}", tys));
                        }
                    }
                    None => {}
                }
            }
            if c.class != "index" && !none_involved && !o.model.unanswered && (imp == "(err type)") != (model == "(err type)") {
                push("model-disagreement", "type-error-ness differs from the model", format!("C03 typeerr {}", tys));
            }
        }
        "C04" => {
            let a_none = matches!(c.a, Value::None);
            let b_none = matches!(c.b, Some(Value::None));
            if a_none || b_none {
                let want: Option<&str> = match (c.class, c.op.as_str()) {
                    ("un", "some") => Some(if a_none { "(ok (bool 0))" } else { "" }),
                    ("un", "isnone") => Some(if a_none { "(ok (bool 1))" } else { "" }),
                    ("un", _) => Some("(ok (none))"),
                    ("index", _) => Some("(ok (none))"),
                    ("if", _) => Some("(err type)"),
                    ("bin", "gt" | "gte" | "lt" | "lte") => Some("(ok (bool 0))"),
                    ("bin", "contains") => {
                        if a_none {
                            Some("(ok (bool 0))")
                        } else {
                            None // None item: the collection's ordinary rule (checked against the model below)
                        }
                    }
                    ("bin", _) => Some("(ok (none))"),
                    ("lazy", "eq") => {
                        if a_none { Some("(ok (bool 0))") } else { Some("(ok (bool 0))") }
                    }
                    ("lazy", "neq") => Some("(ok (bool 1))"),
                    ("lazy", "and") => {
                        // left None: type error; left false: false without looking right; left true & right None: type error
                        match &c.a {
                            Value::None => Some("(err type)"),
                            Value::Bool(false) => Some("(ok (bool 0))"),
                            Value::Bool(true) => Some("(err type)"),
                            _ => Some("(err type)"),
                        }
                    }
                    ("lazy", "or") => match &c.a {
                        Value::None => Some("(err type)"),
                        Value::Bool(true) => Some("(ok (bool 1))"),
                        Value::Bool(false) => Some("(err type)"),
                        _ => Some("(err type)"),
                    },
                    _ => None,
                };
                if let Some(w) = want {
                    if !w.is_empty() && imp != w {
                        push("impl-violates-property", &format!("None rule: expected {}", w), format!("C04 none {}", tys));
                    }
                }
            }
            if (a_none || b_none) && !o.model.unanswered && imp != model {
                push("model-disagreement", "None cell differs from the model", format!("C04 cell {}", tys));
            }
        }
        _ => {}
    }
}
