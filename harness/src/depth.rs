//! C19: child process per (construct, operation, depth, thread); the crash threshold per pair by bisection.
use crate::report::*;
use std::process::Command;

pub const CONSTRUCTS: [&str; 24] = [
    "neg", "not", "binary-left", "binary-right", "call", "builtin", "list", "map", "else-chain", "else-chain-none", "and-skip-right", "or-skip-right", "eq-none-skip-right", "neq-none-skip-right", "index-chain", "parens",
    "flat-list", "flat-map", "flat-args", "long-string", "long-name", "unclosed-parens", "unclosed-brackets", "bad-tail",
];
pub const OPS: [&str; 13] = ["parse", "parse-rule", "parse-rule-meta", "parse-again", "parse-rule-again", "drop", "display", "clone", "eq", "evaluate", "display-value", "rule-new", "ruleset-build"];

/// Some(true) = completed, Some(false) = killed by a signal (stack exhaustion), None = not applicable / timeout
fn run_child(bin: &str, c: &str, op: &str, n: usize, thread: &str) -> Option<bool> {
    let out = Command::new(bin).args([c, op, &n.to_string(), thread]).output().ok()?;
    if out.status.success() {
        Some(true)
    } else {
        use std::os::unix::process::ExitStatusExt;
        if out.status.signal().is_some() {
            Some(false)
        } else {
            // a Rust panic / error exit: not a stack exhaustion; report as completed-with-error only if it printed so
            Some(false)
        }
    }
}

pub fn run(rep: &mut Report, thorough: bool) {
    let exe = std::env::current_exe().unwrap();
    let bin = exe.parent().unwrap().join("c19_child");
    let bin = bin.to_str().unwrap().to_string();
    // the same child built without optimisation (target/unopt), when present
    let unopt = exe.parent().unwrap().parent().unwrap().join("unopt").join("c19_child");
    let unopt = if unopt.exists() { Some(unopt.to_str().unwrap().to_string()) } else { None };
    let depths: Vec<usize> = if thorough { vec![100, 1_000, 10_000, 100_000, 1_000_000] } else { vec![100, 1_000, 10_000, 100_000] };
    let mut sr = StreamReport::new(
        "nesting-depth",
        "one child process per (construct in {unary minus, not, left-deep binary, right-nested binary, user call, built-in call, list, map, else-chain, a right-nested and / or chain that the left operand cuts off, a deep right operand of == / != after a None, index chain, parentheses — nested n deep; flat list, flat map, flat list of calls / steps / negations, string literal, identifier — n items or characters long at depth 1; unclosed parentheses, unclosed mixed brackets, balanced parentheses around a syntax error — texts that do not parse}, operation in {Expr::parse, Rule::parse, Rule::parse with the construct in a metadata constant, the same text parsed three times by either entry point, drop, display, clone, ==, evaluate, display of the evaluated value, Rule::new on the parsed tree, a ruleset built from that rule}, depth in {1e2, 1e3, 1e4, 1e5 (thorough also 1e6)}, thread in {main, 2 MiB worker}, build in {the harness profile (optimised, overflow checks on), unoptimised}); the exit status tells whether the process survived; for each crashing pair the threshold is located by bisection",
        true,
    );
    let mut jobs = vec![];
    for c in CONSTRUCTS {
        for op in OPS {
            // (a metadata value that is not a constant is rejected — after it was parsed: the error path runs on a deep tree too)
            if op == "parse-rule-meta" && matches!(c, "long-ident") {
                continue;
            }
            // (nested lists / maps die in `evaluate` before there is a value to print: that is the evaluate finding)
            if op == "display-value" && !matches!(c, "flat-list" | "flat-map" | "long-string") {
                continue;
            }
            // (only its evaluation differs from else-chain)
            if matches!(c, "else-chain-none" | "and-skip-right" | "or-skip-right" | "eq-none-skip-right" | "neq-none-skip-right") && !(op == "evaluate" || op == "parse" || op == "parse-rule") {
                continue;
            }
            // texts that do not parse have no tree to operate on
            if matches!(c, "unclosed-parens" | "unclosed-brackets" | "bad-tail") && !op.starts_with("parse") {
                continue;
            }
            for th in ["main", "worker", "main-unopt", "worker-unopt"] {
                if th.ends_with("-unopt") && unopt.is_none() {
                    continue;
                }
                jobs.push((c, op, th));
            }
        }
    }
    let results: Vec<(usize, Option<usize>, usize)> = {
        // (index, first crashing depth, children run)
        let chunk = (jobs.len() + 15) / 16;
        let mut out = vec![];
        std::thread::scope(|sc| {
            let hs: Vec<_> = jobs
                .chunks(chunk)
                .enumerate()
                .map(|(ci, js)| {
                    let bin = bin.clone();
                    let unopt = unopt.clone();
                    let depths = depths.clone();
                    sc.spawn(move || {
                        let mut r = vec![];
                        for (k, (c, op, th)) in js.iter().enumerate() {
                            let mut crash = None;
                            let mut runs = 0;
                            let mut last_ok = 0;
                            for d in &depths {
                                runs += 1;
                                match run_child(if th.ends_with("-unopt") { unopt.as_ref().unwrap() } else { &bin }, c, op, *d, th.trim_end_matches("-unopt")) {
                                    Some(true) => last_ok = *d,
                                    _ => {
                                        crash = Some(*d);
                                        break;
                                    }
                                }
                            }
                            if let Some(mut hi) = crash {
                                // bisect the threshold between last_ok and hi (to within 10 %)
                                let mut lo = last_ok;
                                while hi - lo > (hi / 10).max(1) {
                                    let mid = (lo + hi) / 2;
                                    runs += 1;
                                    if run_child(if th.ends_with("-unopt") { unopt.as_ref().unwrap() } else { &bin }, c, op, mid, th.trim_end_matches("-unopt")) == Some(true) {
                                        lo = mid;
                                    } else {
                                        hi = mid;
                                    }
                                }
                                crash = Some(hi);
                            }
                            r.push((ci * chunk + k, crash, runs));
                        }
                        r
                    })
                })
                .collect();
            for h in hs {
                out.extend(h.join().unwrap());
            }
        });
        out
    };
    // how shallow a crash of a pair that is a known finding may be before it counts as a NEW failing input: a fifth of the
    // threshold measured on the pinned tree, per (operation, construct, thread / build) — /verif/c19-floors.json, committed
    let floors: std::collections::HashMap<String, usize> = std::fs::read_to_string(concat!(env!("CARGO_MANIFEST_DIR"), "/../c19-floors.json")).ok().and_then(|t| serde_json::from_str(&t).ok()).unwrap_or_default();
    for (idx, crash, runs) in results {
        let (c, op, th) = jobs[idx];
        for _ in 0..runs {
            sr.evaluations += 1;
        }
        sr.count(&format!("{} {} {}", c, op, th), true);
        sr.hist("outcome", if crash.is_some() { "crashes" } else { "survives" });
        if let Some(d) = crash {
            sr.hist("crash-threshold", &format!("{} {} {}: ~{}", op, c, th, d));
            rep.add_finding(Finding {
                kind: "impl-violates-property".into(),
                stream: "nesting-depth".into(),
                case: format!("c19_child {} {} {} {}", c, op, d, th),
                human: format!("{} of {} nested about {} deep on the {} thread", op, c, d, th),
                impl_out: "killed by a signal (stack exhaustion)".into(),
                model_out: "recursion depth grows linearly with the nesting depth of the text (Props/C19)".into(),
                predicate: "the operation completes or returns an error; it never exhausts the stack".into(),
                signature: format!("C19 stack op={} construct={}", op, c),
            });
            // (only on the worker threads, whose stack size this harness fixes at 2 MiB; the main thread's depends on the
            //  environment's stack limit)
            if let Some(floor) = floors.get(&format!("{} {} {}", op, c, th)).filter(|_| th.starts_with("worker")) {
                if d < *floor {
                    rep.add_finding(Finding {
                        kind: "impl-violates-property".into(),
                        stream: "nesting-depth".into(),
                        case: format!("c19_child {} {} {} {}", c, op, d, th),
                        human: format!("{} of {} nested only about {} deep on the {} thread (the recorded finding for this pair starts at about {})", op, c, d, th, floor * 5),
                        impl_out: "killed by a signal (stack exhaustion)".into(),
                        model_out: format!("on the pinned tree this input is handled: the stack is exhausted only from a depth of about {}", floor * 5),
                        predicate: "an input that the pinned tree handles is still handled: the known finding for this (operation, construct) is a crash from the recorded depth on, not at a fifth of it".into(),
                        signature: format!("C19 stack-earlier op={} construct={}", op, c),
                    });
                }
            }
        }
    }
    rep.streams.push(sr);
}
