//! C06, C07, C08, C14, C16: text → tree → text.  Real `Expr::parse` / `Rule::parse` / `Display` vs the model.
use crate::codec::*;
use crate::evalrun::*;
use crate::gen::*;
use crate::report::*;
use crate::rng::Rng;
use reval::expr::{Expr, Index};
#[allow(unused_imports)]
use reval::prelude::Rule;
use reval::value::Value;
use rust_decimal::Decimal;
use std::collections::BTreeMap;
use std::panic::{catch_unwind, AssertUnwindSafe};

pub fn impl_parse(text: &str) -> String {
    match catch_unwind(AssertUnwindSafe(|| Expr::parse(text))) {
        Err(_) => "PANIC".into(),
        Ok(Err(_)) => "reject".into(),
        Ok(Ok(e)) => format!("(ok {})", enc_expr(&e)),
    }
}

/// the property C16 states, on the real code alone and for whatever text the real parser accepts:
/// "" when the text is rejected, "same" when the rendering of the parsed tree parses back to an equal tree,
/// otherwise what happened, with the rendering
pub fn impl_roundtrip(text: &str) -> String {
    match catch_unwind(AssertUnwindSafe(|| match Expr::parse(text) {
        Err(_) => String::new(),
        Ok(e) => {
            let shown = e.to_string();
            match Expr::parse(&shown) {
                Ok(e2) if e2 == e => {
                    // a rendering is rule text as well: read back through the other entry point it denotes the same tree
                    if !(shown.contains("//") || shown.contains('@')) {
                        match Rule::parse(&format!("// n\n{}", shown)) {
                            Ok(r) if r.expr() == &e => {}
                            Ok(_) => return format!("different-tree (the rendering read back through Rule::parse)\t{}", shown),
                            Err(_) => return format!("rendering-rejected (the rendering read back through Rule::parse)\t{}", shown),
                        }
                    }
                    // the expression of a rule parsed from the same text is a parsed expression too
                    if text.contains("//") || text.contains('@') {
                        return "same".into();
                    }
                    match Rule::parse(&format!("// n\n{}", text)) {
                        Err(_) => "same".into(),
                        Ok(r) => {
                            let shown = r.expr().to_string();
                            match Expr::parse(&shown) {
                                Ok(e3) if &e3 == r.expr() => "same".into(),
                                Ok(_) => format!("different-tree (expression of the rule parsed from the text)\t{}", shown),
                                Err(_) => format!("rendering-rejected (expression of the rule parsed from the text)\t{}", shown),
                            }
                        }
                    }
                }
                Ok(_) => format!("different-tree\t{}", shown),
                Err(_) => format!("rendering-rejected\t{}", shown),
            }
        }
    })) {
        Ok(s) => s,
        Err(_) => "PANIC".into(),
    }
}

pub fn impl_parse_rule(text: &str) -> String {
    match catch_unwind(AssertUnwindSafe(|| Rule::parse(text))) {
        Err(_) => "PANIC".into(),
        Ok(Err(reval::parse::Error::MissingRuleName)) => "E-missing".into(),
        Ok(Err(_)) => "E-parse".into(),
        Ok(Ok(r)) => format!(
            "OK\t{}\t{}\t(meta{})\t{}",
            hex(r.name()),
            r.description().map(hex).unwrap_or("none".into()),
            r.iter_metadata().map(|(k, v)| format!(" ({} {})", hex(k), enc_value(v))).collect::<String>(),
            enc_expr(r.expr())
        ),
    }
}

fn hexs(s: &str) -> String {
    hex(s)
}

pub struct TextCase {
    pub text: String,
    pub tag: &'static str,
}

fn all_strings(alphabet: &[String], maxlen: usize, sep: &str) -> Vec<String> {
    let mut all = vec![String::new()];
    let mut frontier = vec![String::new()];
    for _ in 0..maxlen {
        let mut next = Vec::new();
        for p in &frontier {
            for u in alphabet {
                let mut s = p.clone();
                if !s.is_empty() {
                    s.push_str(sep);
                }
                s.push_str(u);
                next.push(s);
            }
        }
        all.extend(next.iter().cloned());
        frontier = next;
    }
    all
}

pub fn chars_stream(thorough: bool) -> Vec<TextCase> {
    let a1: Vec<String> = "ifd0189xboe.+-\"\\/nu{}_a ".chars().map(|c| c.to_string()).collect();
    let a2: Vec<String> = "a1.,:;()[]{}!=<>&|^%*-+/ \n\t\u{a0}é'tr\"\\i5@".chars().map(|c| c.to_string()).collect();
    let mut out = vec![];
    for s in all_strings(&a1, if thorough { 4 } else { 3 }, "") {
        out.push(TextCase { text: s, tag: "chars-literals" });
    }
    for s in all_strings(&a2, if thorough { 3 } else { 2 }, "") {
        out.push(TextCase { text: s, tag: "chars-punct" });
    }
    out
}

pub const TOK_REPS: [&str; 30] = [
    "a", "i1", "f2", "\"s\"", "true", "none", "if", "then", "else", "and", "==", "!=", ">=", "+", "-", "*", "&", "contains", "in", "!", ".", "0",
    "(", ")", "int", ":", "[", "]", ",", "{",
];
pub const TOK_REPS16: [&str; 17] = ["a", "f", "i1", "if", "then", "else", "and", "==", "+", "*", "&", "contains", "-", ".", "0", "(", ")"];

pub fn toks_stream(thorough: bool) -> Vec<TextCase> {
    let reps: Vec<String> = TOK_REPS.iter().map(|s| s.to_string()).collect();
    let reps16: Vec<String> = TOK_REPS16.iter().map(|s| s.to_string()).collect();
    let mut out = vec![];
    for s in all_strings(&reps, if thorough { 4 } else { 3 }, " ") {
        out.push(TextCase { text: s, tag: "toks30" });
    }
    for s in all_strings(&reps16, if thorough { 5 } else { 4 }, " ") {
        out.push(TextCase { text: s, tag: "toks16" });
    }
    out
}

/// compound-literal token classes: identifier, a string that is not identifier-shaped, a literal, and every separator /
/// bracket of lists and maps — every sequence up to length 5 (thorough 6): a production added to or removed from the
/// list / map / metadata part of the grammar shows here as an accept / reject or tree difference
pub const TOK_REPS9: [&str; 9] = ["a", "\"-\"", "i1", ":", ",", "[", "]", "{", "}"];

pub fn brackets_stream(thorough: bool) -> Vec<TextCase> {
    let reps: Vec<String> = TOK_REPS9.iter().map(|s| s.to_string()).collect();
    all_strings(&reps, if thorough { 6 } else { 5 }, " ").into_iter().map(|s| TextCase { text: s, tag: "toks9" }).collect()
}

/// string literals whose body mixes 1-, 2-, 3- and 4-byte characters with valid and invalid escapes at every distance
/// 0..=14 characters from either end (byte offsets and character offsets differ; error paths are exercised as much
/// as the accepting ones)
/// lists of two and three string literals drawn from a pool of strings whose text is hard on a scanner (ending in a
/// backslash, holding quotes, comment openers, invisible characters, line ends): what one literal contains must not change
/// how the next one is read
pub fn strlit_sequences() -> Vec<TextCase> {
    let pool = [
        "\"C:\\\\\"", "\"a\\\\\\\\\"", "\"\\\"\"", "\"a\\\"b\"", "\"//x\"", "\"/* x\"", "\"x */\"", "\"a\u{200b}b\"", "\"\u{feff}\"", "\"\u{2060}x\"", "\"a\nb\"", "\"a\r\nb\"",
        "\"\"", "\" \"", "\"\\u{41}\"", "\"\u{2013}\"", "\"\u{201c}q\u{201d}\"", "\"[\"", "\"(\"", "\"{a: \"", "\"@k: i1;\"", "\"i1\"",
    ];
    let mut t = vec![];
    for a in pool {
        for b in pool {
            t.push(format!("[{}, {}]", a, b));
            t.push(format!("{} == {}", a, b));
            t.push(format!("{{k: {}, j: {}}}", a, b));
            t.push(format!("{} // c\n + {}", a, b));
        }
    }
    for (i, a) in pool.iter().enumerate() {
        for (j, b) in pool.iter().enumerate() {
            for (k, c) in pool.iter().enumerate() {
                if (i + 2 * j + 3 * k) % 5 == 0 {
                    t.push(format!("[{}, {}, {}]", a, b, c));
                }
            }
        }
    }
    t.into_iter().map(|text| TextCase { text, tag: "strlit-seq" }).collect()
}

pub fn strlit_stream(rng: &mut Rng, thorough: bool) -> Vec<TextCase> {
    let fillers = ["a", "é", "日", "😀"];
    let escapes = ["\\q", "\\d", "\\u{110000}", "\\u{D800}", "\\u{}", "\\u{zz}", "\\u", "\\u{41", "\\n", "\\\\", "\\\"", "\\u{41}", "\\u{1F600}", "\\'", "\\0", "\\x41"];
    let mut t: Vec<String> = vec![];
    let span = if thorough { 20 } else { 14 };
    for e in escapes {
        for f in fillers {
            for pre in 0..=span {
                for post in [0usize, 1, 2, 3, 11, 12, 13, span] {
                    t.push(format!("\"{}{}{}\"", f.repeat(pre), e, f.repeat(post)));
                }
            }
        }
        for (f, g) in [("a", "é"), ("é", "a"), ("日", "😀"), ("😀", "a")] {
            for pre in [1usize, 5, 11, 12, 13] {
                for post in [1usize, 5, 11, 12, 13] {
                    t.push(format!("\"{}{}{}\"", f.repeat(pre), e, g.repeat(post)));
                    t.push(format!("\"{}{}{}{}\"", f.repeat(pre), g, e, f.repeat(post)));
                }
            }
        }
    }
    for _ in 0..(if thorough { 60000 } else { 6000 }) {
        let n = rng.below(30);
        let mut body = String::new();
        for _ in 0..n {
            match rng.below(5) {
                0 => body.push_str(escapes[rng.below(escapes.len())]),
                1 => body.push_str("a"),
                _ => body.push_str(fillers[rng.below(4)]),
            }
        }
        t.push(format!("\"{}\"", body));
    }
    t.into_iter().map(|text| TextCase { text, tag: "strlit" }).collect()
}

pub const BIN_TOKS: [&str; 19] = ["and", "or", "==", "=", "!=", ">", "<", ">=", "<=", "+", "-", "*", "/", "%", "&", "|", "^", "contains", "in"];

/// the structured precedence stream: every ordered pair of binary operator tokens, unary / postfix / if combinations
pub fn prec_stream() -> Vec<TextCase> {
    let mut t: Vec<String> = vec![];
    for o1 in BIN_TOKS {
        for o2 in BIN_TOKS {
            t.push(format!("a {} b {} c", o1, o2));
            t.push(format!("a {} (b {} c)", o1, o2));
            t.push(format!("(a {} b) {} c", o1, o2));
            t.push(format!("a {} b.x {} c.0", o1, o2));
        }
        for u in ["-", "!"] {
            t.push(format!("{} a {} b", u, o1));
            t.push(format!("a {} {} b", o1, u));
            t.push(format!("{} {} a {} b", u, u, o1));
            t.push(format!("{}(a {} b)", u, o1));
            t.push(format!("{} a.x {} b", u, o1));
        }
        t.push(format!("if a {} b then c {} d else e {} g", o1, o1, o1));
        t.push(format!("a {} if b then c else d", o1));
        t.push(format!("(if a then b else c) {} d", o1));
        t.push(format!("f(a) {} [b, c] {} {{k: d}}", o1, o1));
        t.push(format!("a {} b //c\r x", o1));
        t.push(format!("a {} //c\r\n b", o1));
        t.push(format!("a{}b", o1));
        t.push(format!("a {}{} b", o1, o1));
    }
    // every built-in function (both spellings) and operator applied directly to literals of every class: what a
    // constant folder, a simplifier or a cast-caching constructor would rewrite
    let lits = ["\"2024-01-01T00:00:00Z\"", "i3600", "i0", "i1", "f1.5", "d1.50", "\"abc\"", "\" a \"", "true", "none", "[i1]", "{a: i1}"];
    for kw in ["int", "float", "dec", "datetime", "date_time", "duration", "some", "is_some", "none", "is_none", "uppercase", "to_upper", "lowercase", "to_lower", "trim", "round", "floor", "fract", "year", "month", "week", "day", "hour", "minute", "second"] {
        for l in lits {
            t.push(format!("{}({})", kw, l));
        }
        t.push(format!("{}(x) > {}(\"2024-01-01T00:00:00Z\")", kw, kw));
        t.push(format!("{}(x) - duration(i86400)", kw));
    }
    for l in lits {
        for r in ["i0", "i1", "f1.5", "\"abc\"", "true", "none"] {
            for o1 in ["+", "-", "*", "/", "==", "!=", ">", "and", "or", "contains", "&"] {
                t.push(format!("{} {} {}", l, o1, r));
            }
        }
        t.push(format!("-{}", l));
        t.push(format!("!{}", l));
        t.push(format!("if {} then {} else {}", l, l, l));
        t.push(format!("{}.0", l));
        t.push(format!("{}.a", l));
    }
    // long chains: associativity must hold at every length (17, 33 and 70 operands), for one operator and for two
    // operators of the same level alternating
    for o1 in BIN_TOKS {
        if o1 == "contains" || o1 == "in" {
            continue;
        }
        for n in [17usize, 33, 70, 129, 257, 520] {
            t.push((0..n).map(|i| format!("a{}", i)).collect::<Vec<_>>().join(&format!(" {} ", o1)));
        }
    }
    for (o1, o2) in [("and", "or"), ("==", "<"), ("+", "-"), ("*", "%"), ("&", "^")] {
        t.push((0..40).map(|i| format!("a{}", i)).collect::<Vec<_>>().chunks(2).map(|c| c.join(&format!(" {} ", o1))).collect::<Vec<_>>().join(&format!(" {} ", o2)));
    }
    t.push(format!("{}a", "- ! ".repeat(20)));
    t.push(format!("a{}", ".b.0".repeat(20)));
    for n in [130usize, 260, 520] {
        t.push(format!("{}a", "!".repeat(n)));
        t.push(format!("{}a", "- ".repeat(n)));
        t.push(format!("a{}", ".b".repeat(n)));
        t.push(format!("a{}", ".0".repeat(n)));
        t.push(format!("{}a{}", "(".repeat(n), ")".repeat(n)));
        t.push(format!("{}a{}", "[".repeat(n), "]".repeat(n)));
        t.push(format!("{}a{}", "int(".repeat(n), ")".repeat(n)));
    }
    // every reserved word of the crate (whether or not the lexer has a token for it) and a few near-misses, in every
    // position a name can stand in
    for w in [
        "and", "or", "if", "then", "else", "is_some", "is_none", "some", "int", "float", "dec", "true", "false", "none", "contains", "in", "starts", "ends",
        "date_time", "datetime", "duration", "to_upper", "to_lower", "uppercase", "lowercase", "trim", "round", "floor", "fract", "year", "month", "week", "day",
        "hour", "minute", "second", "key", "val", "any", "all", "facts", "iff", "ands", "in_", "nones", "f", "d", "i", "e", "x0", "_a", "__",
        "d5e3", "f5e3", "d5e", "i5e3", "d5x", "f.5", "d.25", "f-.5", "f.14e-5",
    ] {
        for form in ["{w}", "{w}(a)", "{w} (a)", "a.{w}", ":{w}", "{{{w}: a}}", "{w}.a", "{w}.0", "[{w}]", "{w} + a", "a + {w}", "{w}({w})", "a.{w}.{w}", "{w} contains {w}"] {
            t.push(form.replace("{w}", w));
        }
    }
    // the neighbourhood of the keywords: every word that can be assembled from their parts (prefixes to_ / is_, stems,
    // suffixes case / _time …).  Only the exact reserved spellings are keywords; everything else is an identifier — a
    // token table that merges spellings (regex alternatives, optional affixes) claims some of these
    {
        let stems = [
            "and", "or", "if", "then", "else", "some", "none", "int", "float", "dec", "true", "false", "contains", "in", "starts", "ends", "date", "time",
            "datetime", "date_time", "duration", "upper", "lower", "uppercase", "lowercase", "case", "trim", "round", "floor", "fract", "year", "month",
            "week", "day", "hour", "minute", "second", "key", "val", "any", "all", "not", "is", "to", "decimal", "integer", "string", "bool", "ceil", "abs", "min", "max", "len",
        ];
        let mut words: std::collections::BTreeSet<String> = Default::default();
        for pre in ["", "to_", "is_", "to", "is", "not_", "_"] {
            for st in stems {
                for suf in ["", "case", "_case", "time", "_time", "s", "_", "d", "ing", "_of", "0"] {
                    words.insert(format!("{}{}{}", pre, st, suf));
                }
            }
        }
        // the reserved words in other letter cases (only the exact lower-case spelling is reserved)
        for k in ["and", "or", "if", "then", "else", "is_some", "is_none", "some", "none", "int", "float", "dec", "true", "false", "contains", "in", "date_time", "datetime", "duration", "to_upper", "to_lower", "uppercase", "lowercase", "trim", "round", "floor", "fract", "year", "month", "week", "day", "hour", "minute", "second"] {
            words.insert(k.to_uppercase());
            let mut c = k.chars();
            let first = c.next().unwrap().to_uppercase().collect::<String>();
            words.insert(format!("{}{}", first, c.as_str()));
            words.insert(k.chars().enumerate().map(|(i, ch)| if i % 2 == 1 { ch.to_ascii_uppercase() } else { ch }).collect());
            // CamelCase of the Expr variant names
            words.insert(k.split('_').map(|part| { let mut c = part.chars(); match c.next() { Some(f) => format!("{}{}", f.to_uppercase(), c.as_str()), None => String::new() } }).collect::<String>());
        }
        for w in words {
            for form in ["{w}", "{w}(a)", "a.{w}", ":{w}", "{{{w}: a}}", "{w} <= a"] {
                t.push(form.replace("{w}", &w));
            }
        }
        // identifiers that a more permissive literal syntax would claim: digit groups, non-finite floats, exponents, signs
        for w in ["i1_0", "d2_5", "f1_2", "i1_000", "i1__0", "i18n", "f1_score", "d3_layout", "f64_bits", "i2c", "d20roll", "finf", "fNaN", "fnan", "finfinity", "fInf", "dinf", "iinf", "dNaN",
                  "f1e", "f1e+", "d1e3", "d1e-3", "i1e3", "f1E5x", "i0x10", "i0b1", "f0x1p3", "d1f", "i1L", "i1u8", "f1f64", "i1i128",
                  "t1h", "t5m30s", "t1w2d3h4m5s", "t9000000000000000s9000000000000000s", "t15000000000w15000000000w", "t99999999999999999999d", "p1y2m", "n99999999999999999999999999999999999999999", "x1e99999", "h18446744073709551616", "e999999999"] {
            for form in ["{w}", "{w}(a)", "a.{w}", ":{w}", "{{{w}: a}}", "{w} <= a", "a*{w}-b", "{w}.0"] {
                t.push(form.replace("{w}", w));
            }
        }
        for s in ["f-inf", "f+inf", "f-NaN", "a*f-inf", "sup-f-inf", "f-info", "f+infra.cost", "d-inf", "i-inf", "f -inf", "f- inf", "f-1e", "f-1e+x", "d-1.x", "i-1_0", "f+.e1", "f-.5e", "i+1-1", "i--1", "f.5.5", "d.5e1"] {
            t.push(s.to_string());
        }
    }
    for (x, y) in [("=", "=="), ("is_some", "some"), ("is_none", "none"), ("date_time", "datetime"), ("to_upper", "uppercase"), ("to_lower", "lowercase")] {
        if x == "=" {
            t.push("a = b".into());
            t.push("a == b".into());
        } else {
            t.push(format!("{}(a)", x));
            t.push(format!("{}(a)", y));
        }
    }
    for s in ["a in b", "b contains a", "a contains b contains c", "a in b in c", "a.b contains c.0", "-a contains b", "a contains -b", "(a contains b) contains c",
              "if a then b else if c then d else e", "if if a then b else c then d else e", "if a then if b then c else d else e", "a.b.0.c", "a.0.1", "a . b", "a.", ".a", "a..b",
              "[a, b,]", "[,]", "[]", "{}", "{a: i1,}", "{a: i1, a: i2}", "{b: i1, a: i2}", "{,}", "{a}", "{1: a}", "{if: a}", "[a b]", "f(a, b)", "f()", "f(a)(b)", ":a", ":1", ": a", ":if", "a:b",
              "none", "none(a)", "none (a)", "true(a)", "int (a)", "int", "inty(a)", "year(month(a))", "(a)", "((a))", "()", "(a", "a)", "a b", "i1 i2", "0", "1.a", "a.00", "a.18446744073709551615", "a.18446744073709551616",
              "a.0x1", "0x1.a", "0x1 . a", "@a", "a;", "a @k: b;", "!", "-", "!-!a", "- - a", "--a", "a--b", "a - -b", "a -- b"] {
        t.push(s.to_string());
    }
    t.into_iter().map(|text| TextCase { text, tag: "precedence" }).collect()
}

/// literals (C08): every radix, boundaries, out-of-range numerals in every numeric position, escapes
pub fn literal_stream(rng: &mut Rng, thorough: bool) -> Vec<TextCase> {
    let mut t: Vec<String> = vec![];
    let mut ints: Vec<i128> = vec![0, 1, -1, 9, 10, 255, 256, i64::MAX as i128, i64::MIN as i128, u64::MAX as i128, i128::MAX, i128::MIN, i128::MAX - 1, i128::MIN + 1];
    for _ in 0..(if thorough { 100000 } else { 3000 }) {
        let w = rng.below(128) as u32;
        ints.push((rng.u128() as i128) >> w);
    }
    for n in &ints {
        t.push(format!("i{}", n));
        if *n >= 0 {
            t.push(format!("i+{}", n));
            t.push(format!("0x{:x}", n));
            t.push(format!("0x{:X}", n));
            t.push(format!("0o{:o}", n));
            t.push(format!("0b{:b}", n));
        }
    }
    // out of range in every numeric position
    for big in ["170141183460469231731687303715884105728", "340282366920938463463374607431768211455", "99999999999999999999999999999999999999999", "18446744073709551616", "18446744073709551615"] {
        t.push(format!("i{}", big));
        t.push(format!("i-{}", big));
        t.push(format!("i-{}9", big));
        t.push(format!("d{}", big));
        t.push(format!("d{}.5", big));
        t.push(format!("d0.{}", big));
        t.push(format!("f{}", big));
        t.push(format!("a.{}", big));
        t.push(format!("a.0.{}", big));
        t.push(format!("a.{}.b", big));
        t.push(format!("[a.b.{} == i1]", big));
        t.push(format!("a + i{}", big));
        t.push(format!("[i{}]", big));
    }
    for s in ["0x80000000000000000000000000000000", "0x7fffffffffffffffffffffffffffffff", "0xffffffffffffffffffffffffffffffffff", "0o2000000000000000000000000000000000000000000", "0o1777777777777777777777777777777777777777777", "0o8", "0o78", "0o18", "0b2", "0b12", "0x", "0xg", "0xG1", "0X1", "0O1", "0B1", "00x1", "0x1x", "0b", "0o",
              "d79228162514264337593543950335", "d79228162514264337593543950336", "d7922816251426433759354395033.5", "d0.0000000000000000000000000001", "d0.00000000000000000000000000001", "d1.0000000000000000000000000000", "d1.00000000000000000000000000005",
              "d-0", "d-0.0", "d+0", "d.5", "d-.5", "d5.", "d", "d.", "d-", "d1.5.2", "d1e5", "d1.50", "d001.500", "f.5", "f5.", "f-.5", "f1e5", "f1E5", "f1e+5", "f1e-5", "f1e", "f1e+", "f1.e5", "f1.5e", "f-0", "f-0.0", "f+1",
              "f1e308", "f1.7976931348623157e308", "f1.7976931348623159e308", "f1e309", "f1e999", "f-1e999", "f4.9e-324", "f2.4e-324", "f2.5e-324", "f1e-400", "f0.1", "f0.30000000000000004", "f9007199254740993", "f1.0000000000000002",
              "f123456789012345678901234567890", "f0.000000000000000000000000000000000000000000001", "i", "i+", "i-", "i--1", "i1.5", "i1e5", "f", "f.", "fe5", "true", "false", "none", "True", "NONE", "truex", "nonee"] {
        t.push(s.to_string());
    }
    // random floats / decimals through Rust's own printers
    for _ in 0..(if thorough { 100000 } else { 3000 }) {
        let f = f64::from_bits(rng.next_u64());
        if f.is_finite() {
            t.push(format!("f{}", f));
            t.push(format!("f{:e}", f));
        }
        let scale = rng.below(29) as u32;
        let m = (rng.u128() >> (32 + rng.below(96))) as i128;
        let d = Decimal::from_i128_with_scale(if rng.chance(1, 2) { m } else { -m }, scale);
        t.push(format!("d{}", d));
    }
    // strings: every escape form, raw characters of every class
    for body in ["", "a", "\\n", "\\r", "\\t", "\\\\", "\\'", "\\\"", "\\u{41}", "\\u{0041}", "\\u{+41}", "\\u{10FFFF}", "\\u{110000}", "\\u{D800}", "\\u{DFFF}", "\\u{E000}", "\\u{}", "\\u{g}", "\\u{41", "\\u41", "\\u", "\\u{41}}", "\\u{100000000}", "\\u{ 41}", "\\u{-41}",
                 "\\x41", "\\0", "\\a", "\\ ", "\\\n", "a\nb", "a\rb", "\t", "é", "\u{10FFFF}", "\u{0}", "'", "//not a comment", "a\\\\", "\\\\\\\"", "\u{2028}", "a\u{a0}b", "\\N", "\\U{41}"] {
        t.push(format!("\"{}\"", body));
        t.push(format!("\"x{}y\" + a", body));
    }
    for s in ["\"", "\"a", "a\"", "\"a\" \"b\"", "\"a\"\"b\"", "\"\\\"", "\"\\\\\"", "'a'"] {
        t.push(s.to_string());
    }
    for _ in 0..(if thorough { 20000 } else { 2000 }) {
        // random strings over the full Unicode range, each escapable character escaped or raw
        let n = rng.below(6);
        let mut body = String::new();
        for _ in 0..n {
            let c = match rng.below(8) {
                0 => '\n', 1 => '\\', 2 => '"', 3 => '\'', 4 => '\t',
                _ => loop {
                    let u = (rng.next_u64() % 0x110000) as u32;
                    if let Some(c) = char::from_u32(u) {
                        break c;
                    }
                },
            };
            let esc = rng.chance(1, 2);
            match c {
                '\n' if esc => body.push_str("\\n"),
                '\t' if esc => body.push_str("\\t"),
                '\\' => body.push_str("\\\\"),
                '"' => body.push_str("\\\""),
                '\'' if esc => body.push_str("\\'"),
                c if esc && rng.chance(1, 2) => body.push_str(&format!("\\u{{{:x}}}", c as u32)),
                c => body.push(c),
            }
        }
        t.push(format!("\"{}\"", body));
    }
    // keyword / identifier / literal-prefix collisions: every keyword +- one trailing identifier character
    for k in ["and", "or", "if", "then", "else", "is_some", "is_none", "none", "some", "int", "float", "dec", "contains", "in", "date_time", "datetime", "duration", "to_upper", "to_lower", "uppercase", "lowercase", "trim", "round", "floor", "fract", "year", "month", "week", "day", "hour", "minute", "second", "true", "false", "starts", "ends", "key", "val"] {
        for suffix in ["", "x", "_", "1", "X"] {
            t.push(format!("{}{}", k, suffix));
            t.push(format!("{}{}(a)", k, suffix));
            t.push(format!("a.{}{}", k, suffix));
        }
        t.push(format!("{}{}", &k[..k.len() - 1], ""));
        t.push(k.to_uppercase());
        // only the exact lower-case spelling is the keyword: other letter cases are identifiers in every position
        let mut cs = k.chars();
        let cap = format!("{}{}", cs.next().unwrap().to_uppercase(), cs.as_str());
        for w in [k.to_uppercase(), cap] {
            t.push(format!("{}(a)", w));
            t.push(format!("a.{}", w));
            t.push(format!("{} + i1", w));
        }
    }
    for s in ["int", "inty", "i5", "i5x", "f1e", "f1e5", "f1e5x", "d5", "d5x", "in", "inx", "i", "f", "d", "i_", "f_1", "d1_", "i1_", "if1", "f1f", "d1d1", "i1i1", "i1 i1", "f1.5.5", "f1.5.a", "i5.a", "i5.0", "d5.a", "d5.0.a", "f5.0.0", "a_b", "_a", "a__", "A1", "é", "aé"] {
        t.push(s.to_string());
    }
    // words that are identifiers today and that a more permissive literal syntax would claim (digit groups, exponents on
    // decimals and integers, non-finite floats, duration / period / radix-like words with extreme numeric parts)
    for w in ["i1_0", "d2_5", "f1_2", "i1_000", "i1__0", "i1_", "f1_score", "d1e3", "d1e-3", "i1e3", "finf", "fNaN", "f-inf", "dinf", "i0x10", "i1L", "f1f64",
              "t1h", "t5m30s", "t1w2d3h4m5s", "t9000000000000000s9000000000000000s", "t15000000000w15000000000w", "t99999999999999999999d", "p1y2m", "p99999999999999999999y",
              "n99999999999999999999999999999999999999999", "x1e99999", "h18446744073709551616", "b101", "o777", "x1f", "u128", "e10", "e999999999"] {
        for form in ["{w}", "{w} + i1", "[{w}]", "a.{w}", "{w}(i1)", "{{k: {w}}}"] {
            t.push(form.replace("{w}", w));
        }
    }
    // operators and built-ins applied directly to extreme literals, and extreme literals combined: whatever a parser
    // computes ahead of time (a folded sign, a folded constant) must not fail where the evaluator would report an error
    let extremes = ["i-170141183460469231731687303715884105728", "i170141183460469231731687303715884105727", "i0", "f1.7976931348623157e308", "f-1.7976931348623157e308", "f4.9e-324", "f0", "f-0",
        "d79228162514264337593543950335", "d-79228162514264337593543950335", "d0.0000000000000000000000000001", "d0", "d-0", "0x7fffffffffffffffffffffffffffffff", "0o8", "0b1", "\"\"", "true", "none", "[]", "{}"];
    for x in extremes {
        for pre in ["-", "--", "---", "!", "!!", "- -", "-(", "!("] {
            t.push(format!("{}{}{}", pre, x, if pre.ends_with('(') { ")" } else { "" }));
            t.push(format!("@k: {}{}{}; i1", pre, x, if pre.ends_with('(') { ")" } else { "" }));
        }
        for f in ["int", "float", "dec", "is_some", "is_none", "some", "none", "date_time", "datetime", "duration", "to_upper", "to_lower", "uppercase", "lowercase", "trim", "round", "floor", "fract", "year", "month", "week", "day", "hour", "minute", "second"] {
            t.push(format!("{}({})", f, x));
        }
        for y in extremes {
            for op in ["+", "-", "*", "/", "%", "&", "|", "^", "==", "!=", "<", ">=", "and", "or", "contains", "in"] {
                t.push(format!("{} {} {}", x, op, y));
            }
        }
        t.push(format!("if {} then {} else {}", x, x, x));
        t.push(format!("[{}].0", x));
        t.push(format!("{{k: {}}}.k", x));
        t.push(format!("{}.0", x));
        t.push(format!("{}.k", x));
    }
    t.into_iter().map(|text| TextCase { text, tag: "literals" }).collect()
}

pub const GAPS: [&str; 22] = [
    " ", "\t", "\u{a0}", "\u{2003}", "\n", "\r\n", "\r", "  \n  ", "//c\n", "//\r", " //c\n ", "//c\r\n//d\n", "\u{85}", "//\"q\n",
    // comments whose text looks like other syntax: a block-comment opener / closer, closing brackets, a rule separator,
    // an `@key:` item, a backslash at the end, a comment ended by a bare carriage return after such text
    "// see /api/*\n", "// */ x /* y\n", "// )]}\n", "// a\n// ---\n", "// @k: i1;\n", "// c\\\n", "// (/*\r", "//---\r\n",
];

/// layout (C08): the same token sequence with every gap filled by each gap shape parses to the same tree
pub fn layout_stream(rng: &mut Rng, thorough: bool) -> Vec<(Vec<String>, &'static str)> {
    // returned as token lists; the runner joins them with gaps
    let seqs: Vec<Vec<&str>> = vec![
        vec!["a", "+", "b"], vec!["a", "*", "(", "b", "-", "i1", ")"], vec!["if", "a", "then", "b", "else", "c"], vec!["f", "(", "a", ")", ".", "x", ".", "0"],
        vec!["[", "i1", ",", "\"s\"", ",", "]"], vec!["{", "k", ":", "d1.5", "}"], vec!["-", "a", "contains", "b"], vec!["a", "in", "b"], vec![":", "s", "==", "none"],
        vec!["!", "int", "(", "f2", ")", ">=", "0x1f"], vec!["a", "/", "b"], vec!["a", "and", "b", "or", "c"], vec!["a", ".", "0", ".", "b"], vec!["i1", "%", "i2", "&", "i3"],
    ];
    let mut out = vec![];
    for s in &seqs {
        out.push((s.iter().map(|x| x.to_string()).collect(), "layout"));
    }
    if thorough {
        for _ in 0..200 {
            let n = 2 + rng.below(5);
            out.push(((0..n).map(|_| TOK_REPS[rng.below(TOK_REPS.len())].to_string()).collect(), "layout"));
        }
    }
    out
}

/// token-level mutations of valid texts (C06)
pub fn mutation_stream(rng: &mut Rng, thorough: bool) -> Vec<TextCase> {
    let bases = ["a + b * c", "if a > i1 then f(x.y.0) else [i1, \"s\\n\", {k: d1.5}]", "int(\"5\") contains -i5 and !b or c == none", "x.0.a in [0x1f, 0o17, 0b11, f1e5]", "{a: if b then c else d, b: :sym} != none(x)"];
    let junk = ["", " ", "\"", "\\", "(", ")", "[", "]", "{", "}", ".", ",", ":", ";", "@", "i", "f", "d", "0x", "e", "-", "!", "=", "\u{0}", "é", "\u{1F600}", "//", "\n", "18446744073709551616", "\\u{", "'"];
    let mut out = vec![];
    for _ in 0..(if thorough { 200000 } else { 20000 }) {
        let b = bases[rng.below(bases.len())];
        let mut cs: Vec<char> = b.chars().collect();
        for _ in 0..(1 + rng.below(3)) {
            if cs.is_empty() {
                break;
            }
            let i = rng.below(cs.len());
            match rng.below(4) {
                0 => {
                    cs.remove(i);
                }
                1 => {
                    let c = cs[i];
                    cs.insert(i, c);
                }
                2 => {
                    let j = junk[rng.below(junk.len())];
                    for (k, c) in j.chars().enumerate() {
                        cs.insert(i + k, c);
                    }
                }
                _ => {
                    let j = rng.below(cs.len());
                    cs.swap(i, j);
                }
            }
        }
        out.push(TextCase { text: cs.into_iter().collect(), tag: "mutations" });
    }
    out
}

// ---------------------------------------------------------------- trees in the parser's image (C07 / C16)

fn emap_owned(kvs: Vec<(String, Expr)>) -> Expr {
    Expr::Map(kvs.into_iter().collect())
}

pub fn image_leaves() -> Vec<Expr> {
    // names that are also literal prefixes: `f.5` / `d.5` / `i5` are literals, so `f .5` must not print as `f.5`
    let mut v: Vec<Expr> = vec![reff("a"), reff("if1"), reff("f"), reff("d"), reff("i"), Expr::Symbol("s".into()), Expr::Symbol("f".into()), Expr::Symbol("d".into()), lit(Value::None), lit(Value::Bool(true)), lit(Value::Int(5)), lit(Value::Int(-5)), lit(Value::Int(i128::MIN)),
        lit(Value::Float(2.0)), lit(Value::Float(-0.5)), lit(Value::Float(1e300)), lit(Value::Float(-0.0)), lit(Value::Float(5e-324)), lit(Value::Float(f64::MAX)), lit(Value::Float(1e21)),
        lit(crate::pool::d(2, 0)), lit(crate::pool::d(-15, 1)), lit(crate::pool::d(0, 3)), lit(crate::pool::d(1, 28)),
        lit(crate::pool::s("")), lit(crate::pool::s("a b")), lit(crate::pool::s("q\"\\\n\t'é")), lit(crate::pool::s("//x")), lit(crate::pool::s("\u{0}\u{10FFFF}"))];
    v.push(lit(Value::Float(f64::INFINITY)));
    v.push(lit(Value::Float(f64::NEG_INFINITY)));
    v
}

const UN_ALL: [&str; 22] = UN_OPS;
const BIN_ALL: [&str; 17] = ["mult", "div", "rem", "add", "sub", "gt", "gte", "lt", "lte", "bitand", "bitor", "bitxor", "contains", "eq", "neq", "and", "or"];

/// every constructor applied to the given children pools (one node on top of `kids`)
pub fn one_level(kids: &[Expr], rng: &mut Rng, exhaustive_pairs: bool) -> Vec<Expr> {
    let mut out = vec![];
    for k in kids {
        for op in UN_ALL {
            out.push(mk_un(op, k.clone()));
        }
        out.push(call("g", k.clone()));
        out.push(idxk(k.clone(), "k"));
        out.push(idxn(k.clone(), 0));
        out.push(idxn(k.clone(), 7));
        out.push(Expr::Vec(vec![k.clone()]));
        out.push(emap(vec![("k", k.clone())]));
    }
    let pairs: Vec<(usize, usize)> = if exhaustive_pairs {
        (0..kids.len()).flat_map(|i| (0..kids.len()).map(move |j| (i, j))).collect()
    } else {
        (0..kids.len() * 4).map(|_| (rng.below(kids.len()), rng.below(kids.len()))).collect()
    };
    for (i, j) in pairs {
        for op in BIN_ALL {
            out.push(mk_bin(op, kids[i].clone(), kids[j].clone()));
        }
        out.push(Expr::Vec(vec![kids[i].clone(), kids[j].clone()]));
        out.push(emap(vec![("b", kids[i].clone()), ("a", kids[j].clone())]));
        let k = kids[rng.below(kids.len())].clone();
        out.push(iff(kids[i].clone(), kids[j].clone(), k.clone()));
        out.push(iff(k, kids[i].clone(), kids[j].clone()));
    }
    out
}

pub fn image_trees(rng: &mut Rng, thorough: bool) -> Vec<Expr> {
    let leaves = image_leaves();
    // depth 1: every constructor over every leaf (pairs exhaustive over a smaller leaf set)
    let small: Vec<Expr> = vec![reff("a"), lit(Value::Int(-5)), lit(Value::Float(2.0)), lit(crate::pool::d(2, 0)), lit(crate::pool::s("q\"\\")), lit(Value::None)];
    let mut d1 = one_level(&leaves, rng, false);
    d1.extend(one_level(&small, rng, true));
    // depth 2: every constructor over every depth-1 shape built from one representative leaf: exhaustive in (parent, position, child constructor)
    let rep = vec![reff("a"), lit(Value::Float(2.0))];
    let d1rep = one_level(&rep, rng, true);
    let mut kids: Vec<Expr> = d1rep.clone();
    kids.extend(rep.clone());
    let d2 = one_level(&kids, rng, thorough);
    let mut out = leaves.clone();
    out.extend(d1);
    out.extend(d2.clone());
    // size: long lists, maps, chains, paths and call towers print and parse back like short ones
    for n in [33usize, 100, 400] {
        out.push(Expr::Vec((0..n).map(|i| lit(Value::Int(i as i128 - 5))).collect()));
        out.push(Expr::Vec((0..n).map(|i| if i % 3 == 0 { lit(Value::Float(i as f64 + 0.5)) } else if i % 3 == 1 { lit(crate::pool::s("q\"")) } else { mk_un("neg", reff("a")) }).collect()));
        out.push(emap_owned((0..n).map(|i| (format!("k{}", (i * 7 + 3) % n), lit(Value::Int(i as i128)))).collect()));
        out.push((1..n).fold(reff("a0"), |e, i| mk_bin(if i % 2 == 0 { "bitand" } else { "bitor" }, e, reff(&format!("a{}", i)))));
        out.push((1..n.min(120)).fold(reff("a0"), |e, i| mk_bin(["add", "and", "eq", "contains", "mult"][i % 5], e, reff(&format!("a{}", i)))));
        out.push((0..n.min(120)).fold(reff("a"), |e, i| if i % 2 == 0 { idxk(e, "f") } else { idxn(e, i) }));
        out.push((0..n.min(120)).fold(reff("a"), |e, i| if i % 3 == 0 { call("g", e) } else if i % 3 == 1 { mk_un("not", e) } else { mk_un("toint", e) }));
    }
    // depth 3 random
    let n3 = if thorough { 60000 } else { 6000 };
    let mut pool3 = d2;
    pool3.extend(d1rep);
    for _ in 0..n3 {
        let a = pool3[rng.below(pool3.len())].clone();
        let b = pool3[rng.below(pool3.len())].clone();
        let c = leaves[rng.below(leaves.len())].clone();
        out.push(match rng.below(6) {
            0 => mk_bin(BIN_ALL[rng.below(BIN_ALL.len())], a, b),
            1 => mk_bin(BIN_ALL[rng.below(BIN_ALL.len())], c, a),
            2 => mk_un(UN_ALL[rng.below(UN_ALL.len())], a),
            3 => iff(a, b, c),
            4 => idxn(a, rng.below(3)),
            _ => Expr::Vec(vec![a, c, b]),
        });
    }
    out
}

// ---------------------------------------------------------------- precedence-aware printer (harness side), for C07

fn level(e: &Expr) -> u8 {
    use Expr::*;
    match e {
        If(..) => 0,
        And(..) | Or(..) => 1,
        Equals(..) | NotEquals(..) | GreaterThan(..) | LessThan(..) | GreaterThanEquals(..) | LessThanEquals(..) => 2,
        Add(..) | Sub(..) => 3,
        Mult(..) | Div(..) | Rem(..) => 4,
        BitAnd(..) | BitOr(..) | BitXor(..) => 5,
        Contains(..) => 6,
        Neg(..) | Not(..) => 7,
        Index(..) => 8,
        _ => 9,
    }
}

fn bin_parts(e: &Expr) -> Option<(&'static str, &Expr, &Expr)> {
    use Expr::*;
    Option::Some(match e {
        And(l, r) => ("and", l, r), Or(l, r) => ("or", l, r), Equals(l, r) => ("==", l, r), NotEquals(l, r) => ("!=", l, r),
        GreaterThan(l, r) => (">", l, r), LessThan(l, r) => ("<", l, r), GreaterThanEquals(l, r) => (">=", l, r), LessThanEquals(l, r) => ("<=", l, r),
        Add(l, r) => ("+", l, r), Sub(l, r) => ("-", l, r), Mult(l, r) => ("*", l, r), Div(l, r) => ("/", l, r), Rem(l, r) => ("%", l, r),
        BitAnd(l, r) => ("&", l, r), BitOr(l, r) => ("|", l, r), BitXor(l, r) => ("^", l, r), Contains(l, r) => ("contains", l, r),
        _ => return Option::None,
    })
}

/// print `e` so that it can stand where an expression of at least level `min` is required; `extra(depth)` adds redundant parentheses
pub fn print_min(e: &Expr, min: u8, extra: &mut dyn FnMut() -> bool) -> String {
    let lv = level(e);
    let body = print_node(e, extra);
    if lv < min || extra() {
        format!("({})", body)
    } else {
        body
    }
}

fn print_node(e: &Expr, extra: &mut dyn FnMut() -> bool) -> String {
    use Expr::*;
    if let Option::Some((op, l, r)) = bin_parts(e) {
        let lv = level(e);
        return if lv == 6 {
            // contains: both operands at index level
            format!("{} {} {}", print_min(l, 8, extra), op, print_min(r, 8, extra))
        } else {
            // left-associative: left operand at the same level, right operand one tighter
            format!("{} {} {}", print_min(l, lv, extra), op, print_min(r, lv + 1, extra))
        };
    }
    match e {
        If(c, t, f) => format!("if {} then {} else {}", print_min(c, 0, extra), print_min(t, 0, extra), print_min(f, 0, extra)),
        Neg(x) => format!("- {}", print_min(x, 7, extra)),
        Not(x) => format!("! {}", print_min(x, 7, extra)),
        Index(b, reval::expr::Index::Map(k)) => format!("{} . {}", print_min(b, 8, extra), k),
        Index(b, reval::expr::Index::Vec(n)) => format!("{} . {}", print_min(b, 8, extra), n),
        Function(f, a) => format!("{}({})", f, print_min(a, 0, extra)),
        Vec(xs) => format!("[{}]", xs.iter().map(|x| print_min(x, 0, extra)).collect::<std::vec::Vec<_>>().join(", ")),
        Map(m) => format!("{{{}}}", m.iter().map(|(k, x)| format!("{}: {}", k, print_min(x, 0, extra))).collect::<std::vec::Vec<_>>().join(", ")),
        Value(_) | Reference(_) | Symbol(_) => format!("{}", e),
        other => {
            // keyword functions: name(arg)
            let s = format!("{}", other);
            let name = &s[..s.find('(').unwrap_or(s.len())];
            let inner = match other {
                Some(x) | None(x) | Int(x) | Float(x) | Dec(x) | DateTime(x) | Duration(x) | UpperCase(x) | LowerCase(x) | Trim(x) | Floor(x) | Round(x)
                | Fract(x) | Year(x) | Month(x) | Week(x) | Day(x) | Hour(x) | Minute(x) | Second(x) => x,
                _ => unreachable!(),
            };
            format!("{}({})", name, print_min(inner, 0, extra))
        }
    }
}

/// true when the literal leaves render to text that denotes them (excludes the known finding: non-finite floats)
pub fn has_nonfinite(e: &Expr) -> bool {
    enc_expr(e).contains("(float 7ff") || enc_expr(e).contains("(float fff")
}

// ---------------------------------------------------------------- rule texts (C14)

pub fn const_shapes() -> Vec<String> {
    let lits = ["i1", "\"s\"", "none", "d1.50", "true"];
    let mut shapes: Vec<String> = lits.iter().map(|s| s.to_string()).collect();
    let mut cur = shapes.clone();
    for _ in 0..2 {
        let mut next = vec![];
        for c in &cur {
            next.push(format!("[{}]", c));
            next.push(format!("[i0, {}]", c));
            next.push(format!("{{a: {}}}", c));
            next.push(format!("{{b: i0, a: {}}}", c));
            next.push(format!("{{a: i0, a: {}}}", c));
        }
        shapes.extend(next.iter().cloned());
        cur = next;
    }
    shapes.extend(["[]".to_string(), "{}".to_string(), "[[], {}]".to_string(), "{a: [], b: {}}".to_string()]);
    // parentheses only group: a parenthesised constant is that constant — inside lists and maps too
    shapes.extend(["(i5)".to_string(), "((\"s\"))".to_string(), "[(i1), [i2], {k: ((i3))}]".to_string(), "{a: (none)}".to_string(), "([])".to_string(), "({})".to_string()]);
    shapes
}

pub fn rule_stream(rng: &mut Rng, thorough: bool) -> Vec<TextCase> {
    let comments = ["// name one", "//n", "  // indented name  ", "//", "\t//\tdescr a ", "// descr b", "//  ", "/// triple", "// @name: \"fake\";", "//\u{a0}nbsp\u{2003}", "// a // b", "// sources: src/*.rs", "// and manifests: **/*.toml", "// /* block */ name", "// */ stray", "//\u{feff}bom", "\u{feff}// bom first"];
    let mut metas: Vec<String> = ["@name: \"meta name\";", "@name: i5;", "@description: \"meta descr\";", "@description: i5;", "@k: i1;", "@k: i2;", "@k: a;", "@k: i1 + i2;", "@k: -i1;", "@k: [i1, a];", "@j: \"s\";", "@name: \"second\";", "@k: none;", "@name: [\"x\"];", "@name: a;", "@ k : i1 ;", "@k: i1", "@k i1;", "@: i1;", "@if: i1;", "@K: i1;", "@description: none;", "@description: [\"d\"];", "@k: f(i1);", "@k: (i1);", "@k: if true then i1 else i2;"]
        .iter().map(|s| s.to_string()).collect();
    for (i, c) in const_shapes().iter().enumerate() {
        metas.push(format!("@c{}: {};", i % 3, c));
    }
    // metadata keys that are reserved words of the crate without being lexer keywords, near-misses of keywords, and words a
    // later release might reserve: all of them are identifiers today, so all of them are keys
    for w in ["starts", "ends", "key", "val", "any", "all", "not", "len", "abs", "min", "max", "upper", "lower", "date", "time", "to", "is", "Name", "NAME", "names", "description_", "Description", "i18n", "f", "d", "i", "t1h", "t5m30s", "i1_0", "finf", "version", "priority", "enabled", "facts", "input"] {
        metas.push(format!("@{}: i1;", w));
    }
    let exprs = ["i1", "a + b", "if a then b else c", "\"x\n//inside\n\"", "i1 // trailing", "[i1,\n i2]", "f(x)", "a.b.0", "i1 +", "34", "", "\"//not a comment\"", "a / b", "a //c\r+ b"];
    let eols = ["\n", "\r\n", "\r"];
    let mut out = vec![];
    let mut seen = std::collections::HashSet::new();
    // systematic: every constant shape as the only metadata item
    for c in const_shapes() {
        out.push(TextCase { text: format!("//n\n@k: {};\ni1", c), tag: "rule-const" });
    }
    // large rule texts: many metadata items with repeated keys (the last occurrence wins at every size), many comment
    // lines (name, then a long description), long names, many constants inside one item
    for n in [10usize, 33, 40, 100, 300] {
        let mut t = String::from("// big rule\n");
        for i in 0..n {
            t.push_str(&format!("@{}: i{};\n", ["b", "a", "c"][i % 3], i));
        }
        t.push_str("a + b");
        out.push(TextCase { text: t, tag: "rule-big" });
        let mut t = String::new();
        for i in 0..n {
            t.push_str(&format!("@k{:03}: \"v{}\";\n", (i * 7 + 3) % n, i));
        }
        t.push_str(&format!("@k{:03}: i1;\n@name: \"n\";\n@description: i5;\n// c1\n// c2\ni1", 3 % n));
        out.push(TextCase { text: t, tag: "rule-big" });
        let mut t = String::from("// the name\n");
        for i in 0..n {
            t.push_str(&format!("//   line {}  \n", i));
        }
        t.push_str("i1\n// after the expression\n");
        out.push(TextCase { text: t, tag: "rule-big" });
        out.push(TextCase { text: format!("// {}\n@k: [{}];\n@m: {{{}}};\ni1", "n".repeat(n * 10), (0..n).map(|i| format!("i{}", i)).collect::<Vec<_>>().join(", "), (0..n).map(|i| format!("k{}: i{}", (i * 7) % n, i)).collect::<Vec<_>>().join(", ")), tag: "rule-big" });
    }
    for _ in 0..(if thorough { 120000 } else { 12000 }) {
        let nlines = rng.below(7);
        let mut items: Vec<String> = vec![];
        for _ in 0..nlines {
            let r = rng.below(100);
            if r < 45 {
                items.push(comments[rng.below(comments.len())].to_string());
            } else if r < 85 {
                items.push(metas[rng.below(metas.len())].clone());
            } else {
                items.push(String::new());
            }
        }
        let pos = rng.below(items.len() + 1);
        let e = exprs[rng.below(exprs.len())];
        let mut lines: Vec<String> = items[..pos].to_vec();
        lines.push(e.to_string());
        if rng.chance(1, 10) {
            lines.extend(items[pos..].iter().cloned());
        } else {
            lines.extend(items[pos..].iter().filter(|x| !x.starts_with('@')).cloned());
        }
        let eol = if rng.chance(1, 12) { eols[2] } else { eols[rng.below(2)] };
        let mut text = String::new();
        let n = lines.len();
        for (i, l) in lines.iter().enumerate() {
            text.push_str(l);
            if rng.chance(12, 100) {
                text.push(' ');
            } else if i < n - 1 || rng.chance(7, 10) {
                text.push_str(eol);
            }
        }
        if seen.insert(text.clone()) {
            out.push(TextCase { text, tag: "rule-text" });
        }
    }
    out
}

// ---------------------------------------------------------------- runners

pub struct Run {
    pub texts: Vec<TextCase>,
    pub impl_out: Vec<String>,
    pub model: Vec<ModelReply>,
}

pub fn run_texts(texts: Vec<TextCase>, rule: bool, driver: &str, workers: usize) -> Run {
    let n = texts.len();
    let mut impl_out = vec![String::new(); n];
    let chunk = ((n + workers - 1) / workers.max(1)).max(1);
    std::thread::scope(|sc| {
        for (cs, os) in texts.chunks(chunk).zip(impl_out.chunks_mut(chunk)) {
            sc.spawn(move || {
                for (c, o) in cs.iter().zip(os.iter_mut()) {
                    *o = if rule { impl_parse_rule(&c.text) } else { impl_parse(&c.text) };
                }
            });
        }
    });
    let cmd = if rule { "parserule" } else { "parse" };
    let hexes: Vec<String> = texts.iter().map(|t| hexs(&t.text)).collect();
    let mk = |i: usize, oracle: &str| format!("{}\t{}\t{}", cmd, hexes[i], oracle);
    let model = model_batch(driver, workers, &mk, n);
    Run { texts, impl_out, model }
}

/// judge a text run.  `mode`: "panic" (C06: only a panic violates), "full" (tree / reject / rule fields must equal the model's)
pub fn judge_texts(prop: &str, stream: &str, rule_text: &str, exhaustive: bool, run: &Run, mode: &str, rep: &mut Report) {
    let mut sr = StreamReport::new(stream, rule_text, exhaustive);
    for ((t, imp), m) in run.texts.iter().zip(run.impl_out.iter()).zip(run.model.iter()) {
        sr.count(&t.text, !t.text.is_empty());
        sr.hist("part", t.tag);
        sr.hist("impl_outcome", if imp.starts_with("(ok") || imp.starts_with("OK") { "tree" } else if imp == "PANIC" { "panic" } else { imp.as_str() });
        if m.unanswered {
            sr.frontier_unanswered += 1;
        }
        if m.oracle_used > 0 {
            sr.via_oracle += 1;
        }
        let case = format!("{}\t{}", if imp.starts_with("OK") || imp.starts_with("E-") { "parserule" } else { "parse" }, hexs(&t.text));
        let mut push = |kind: &str, pred: &str, sig: String| {
            rep.add_finding(Finding { kind: kind.into(), stream: stream.into(), case: case.clone(), human: format!("{:?}", t.text).chars().take(160).collect(), impl_out: imp.clone(), model_out: m.reply.clone(), predicate: pred.into(), signature: sig })
        };
        if imp == "PANIC" {
            push("impl-violates-property", "parsing never panics", format!("{} panic {}", prop, t.tag));
        } else if mode == "panic" && matches!(t.tag, "literals" | "strlit" | "chars-literals") && !m.unanswered && (imp.starts_with("(ok") || imp.starts_with("OK")) && !(m.reply.starts_with("(ok") || m.reply.starts_with("OK")) {
            // C06's second clause, on the literal families: what the reference rejects (a numeral or list index out of
            // range, an unknown escape, an escape that denotes no character) is a parse error
            push("impl-violates-property", "an out-of-range numeral or list index, or a malformed escape, is reported as a parse error", format!("{} accepts-malformed-literal {}", prop, t.tag));
        } else if mode == "full" && !m.unanswered && imp != &m.reply {
            let what = if imp.starts_with("(ok") != m.reply.starts_with("(ok") && imp.starts_with("OK") == m.reply.starts_with("OK") { "accept" } else { "tree" };
            push("impl-violates-property", "accepted exactly when the grammar derives it, with the tree / fields the model's reference parser returns", format!("{} {} {}", prop, what, t.tag));
        }
    }
    rep.streams.push(sr);
}

// ---------------------------------------------------------------- per-property entry points

pub fn lit_text(v: &Value) -> String {
    match v {
        Value::String(s) => format!("\"{}\"", s.replace('\\', "\\\\").replace('"', "\\\"")),
        Value::Int(i) => format!("i{}", i),
        Value::Float(f) => format!("f{}", f),
        Value::Decimal(d) => format!("d{}", d),
        Value::Bool(b) => format!("{}", b),
        _ => "none".into(),
    }
}

/// texts that begin (or continue) with characters of 2, 3 and 4 bytes — among them the ones an editor may put in front
/// of a file (U+FEFF) — followed by a syntax error at each of the first byte offsets: whatever a parser reports or
/// slices relative to the text must fall on a character boundary
pub fn prefixed_stream() -> Vec<TextCase> {
    let prefixes = ["\u{feff}", "\u{feff}\u{feff}", "\u{e9}", "\u{a0}", "\u{2028}", "\u{1f600}", "\u{200b}", "\u{3000}", "\r", "\u{1}", "\u{feff} ", " \u{feff}"];
    let bodies = [
        "@: i3;\ni3", "i3) // name", "//n\u{e9}\ni)", "i3", "// n\ni3 )", ")", "@", "@k", "@k:", "@k: )", "@k: i1; )", "\"", "i", "//", "// n\u{e9}\n)", "\u{e9})", "a\u{e9}", "a \u{1f600} b",
        "// \u{65e5}\u{672c}\n@k: \u{e9};\ni1", "//\u{1f600}\n(", "(\u{e9}", "[i1,\u{a0}\u{e9}]", "\"\u{e9}\" \u{e9}", "i1 +", "i1 + \u{feff}", "i1\u{feff}", "i1 \u{feff} + i2", "// n\n\u{feff}i1", "@k: \u{feff}i1;\ni2",
    ];
    let mut out = vec![];
    for p in prefixes {
        for b in bodies {
            out.push(TextCase { text: format!("{}{}", p, b), tag: "prefixed" });
        }
    }
    for b in bodies {
        out.push(TextCase { text: b.to_string(), tag: "prefixed" });
    }
    out
}

/// ill-formed texts that carry a long run of 2- / 3- / 4-byte characters, at every alignment, sized so that the run
/// crosses each power-of-two byte offset up to 16 KiB (64 KiB thorough) of the text and of whatever message quotes it:
/// a parser that abridges, excerpts or pads what it reports must cut on character boundaries at every size
pub fn long_reject_stream(thorough: bool, rule: bool) -> Vec<TextCase> {
    let mut out = vec![];
    let sizes: Vec<usize> = if thorough { vec![60, 124, 252, 508, 1020, 2044, 4092, 8188, 16380, 32764, 65532] } else { vec![60, 124, 252, 508, 1020, 2044, 4092, 16380] };
    for unit in ["\u{e9}", "\u{65e5}", "\u{1f600}", "a\u{e9}\u{65e5}\u{1f600}"] {
        for l in &sizes {
            for off in 0..4usize {
                let n = l / unit.len() + 2;
                let run = format!("{}{}", "a".repeat(off), unit.repeat(n));
                let mut forms = vec![
                    format!("x \"{}\"", run),
                    format!("\"{}", run),
                    format!("x {}", run),
                    format!("\"{}\\q\"", run),
                    format!("\"\\q{}\"", run),
                    format!("{})", run),
                    format!("[i1, \"{}\" \"{}\"]", run, run),
                    format!("x // {}\n)", run),
                ];
                if rule {
                    forms = forms.into_iter().map(|f| format!("// n\n{}", f)).collect();
                    forms.push(format!("// {}\n)", run));
                    forms.push(format!("// n\n@k: \"{}\" x;\ni1", run));
                    forms.push(format!("// n\n@{}: i1;\ni1 )", run));
                }
                for f in forms {
                    out.push(TextCase { text: f, tag: "long-reject" });
                }
            }
        }
    }
    out
}

pub fn run_c06(rep: &mut Report, driver: &str, workers: usize, thorough: bool, seed: u64) {
    let mut rng = Rng::new(seed);
    let mut texts = chars_stream(thorough);
    texts.extend(toks_stream(thorough));
    texts.extend(brackets_stream(thorough));
    texts.extend(strlit_stream(&mut rng, thorough));
    texts.extend(strlit_sequences());
    texts.extend(mutation_stream(&mut rng, thorough));
    texts.extend(literal_stream(&mut rng, false));
    texts.extend(prec_stream());
    texts.extend(prefixed_stream());
    texts.extend(long_reject_stream(thorough, false));
    let rule_texts: Vec<TextCase> = texts.iter().filter(|t| t.tag != "toks30" && t.tag != "toks9" && t.tag != "long-reject").step_by(3).map(|t| TextCase { text: format!("//n\n@k: {}; {}", t.text, t.text), tag: "as-rule" }).collect();
    let run = run_texts(texts, false, driver, workers);
    judge_texts("C06", "expr-texts", "every string of length <= 3 (thorough 4) over the 24-character literal alphabet `ifd0189xboe.+-\"\\/nu{}_a ` and of length <= 2 (3) over 37 punctuation / whitespace / non-ASCII characters; every sequence of <= 3 (4) of 30 token representatives, <= 4 (5) of 17 and <= 5 (6) of the 9 compound-literal token classes; string literals mixing 1- to 4-byte characters with 16 valid / invalid escape forms at every distance 0..14 from either end; character-level mutations (delete / duplicate / insert junk / swap) of grammar-generated texts; out-of-range numerals in every numeric position, every escape form, control and non-ASCII characters; the precedence texts; texts that begin with 2- / 3- / 4-byte characters followed by an early syntax error; ill-formed texts carrying a run of 2- / 3- / 4-byte characters that crosses every power-of-two byte offset up to 16 KiB (64 KiB thorough) at every alignment — through Expr::parse under catch_unwind", false, &run, "panic", rep);
    // parsing from odd places: inside the destructor of a thread-local of a thread that has parsed before and is exiting,
    // on a thread with a small stack, from many threads at once — "any text" includes any caller
    {
        let mut sr = StreamReport::new("parse-from-anywhere", "Expr::parse / Rule::parse called from the destructor of a thread-local value while the thread exits (after the thread has parsed before, and without), on 64 threads started at once, on a 256 KiB stack", true);
        struct ParseOnDrop(&'static str, std::sync::Arc<std::sync::Mutex<Vec<String>>>);
        impl Drop for ParseOnDrop {
            fn drop(&mut self) {
                let a = impl_parse(self.0);
                let b = impl_parse_rule(&format!("// n\n{}", self.0));
                self.1.lock().unwrap().push(format!("{} | {}", a, b.split('\t').next().unwrap_or("")));
            }
        }
        thread_local! {
            static GUARD: std::cell::RefCell<Option<ParseOnDrop>> = const { std::cell::RefCell::new(None) };
        }
        let texts: [&'static str; 4] = ["i1 + i2", "a.b.0 contains \"x\"", "i1 +", "\"\\q\""];
        for parse_first in [true, false] {
            for t in texts {
                let log = std::sync::Arc::new(std::sync::Mutex::new(vec![]));
                let log2 = log.clone();
                let expected = format!("{} | {}", impl_parse(t), impl_parse_rule(&format!("// n\n{}", t)).split('\t').next().unwrap_or("").to_string());
                let h = std::thread::Builder::new().stack_size(256 * 1024).spawn(move || {
                    // the guard is registered BEFORE the thread's first parse, so it is destroyed AFTER whatever the parser keeps per thread
                    GUARD.with(|g| *g.borrow_mut() = Some(ParseOnDrop(t, log2)));
                    if parse_first {
                        let _ = impl_parse("i1");
                        let _ = impl_parse_rule("// n\ni1");
                    }
                });
                let joined = h.map(|h| h.join());
                sr.count(&format!("tls-drop {} {}", parse_first, t), true);
                let got = log.lock().unwrap().first().cloned().unwrap_or_else(|| "nothing-recorded (the destructor did not complete)".to_string());
                if !matches!(joined, Ok(Ok(()))) || got != expected {
                    rep.add_finding(Finding { kind: "impl-violates-property".into(), stream: "parse-from-anywhere".into(), case: format!("tls-drop\t{}\t{}", parse_first, hex(t)), human: format!("parsing {:?} inside a thread-local destructor while the thread exits (the thread had parsed before: {})", t, parse_first), impl_out: got, model_out: expected, predicate: "parsing any text returns a tree or a parse error, never a panic — wherever it is called from".into(), signature: "C06 panic tls-destructor".into() });
                }
            }
        }
        // 64 threads at once, each parsing a few texts (first use of whatever the parser shares)
        let barrier = std::sync::Arc::new(std::sync::Barrier::new(64));
        let expected: Vec<String> = texts.iter().map(|t| impl_parse(t)).collect();
        let hs: Vec<_> = (0..64).map(|_| { let b = barrier.clone(); std::thread::spawn(move || { b.wait(); texts.iter().map(|t| impl_parse(t)).collect::<Vec<_>>() }) }).collect();
        for h in hs {
            sr.count("threads", true);
            match h.join() {
                Ok(got) if got == expected => {}
                other => rep.add_finding(Finding { kind: "impl-violates-property".into(), stream: "parse-from-anywhere".into(), case: "threads-at-once".into(), human: "64 threads parsing at once".into(), impl_out: format!("{:?}", other.ok()).chars().take(300).collect(), model_out: format!("{:?}", expected).chars().take(300).collect(), predicate: "parsing any text returns a tree or a parse error, never a panic — wherever it is called from".into(), signature: "C06 panic threads-at-once".into() }),
            }
        }
        rep.streams.push(sr);
    }
    let mut more = rule_stream(&mut rng, false);
    more.extend(rule_texts);
    more.extend(prefixed_stream());
    more.extend(long_reject_stream(thorough, true));
    let run2 = run_texts(more, true, driver, workers);
    judge_texts("C06", "rule-texts", "generated rule texts, every third expression text embedded as metadata value and expression, and texts that begin with 2- / 3- / 4-byte characters (U+FEFF among them) followed by a syntax error at each of the first offsets, and the long multi-byte runs in expression, comment and metadata position — through Rule::parse under catch_unwind", false, &run2, "panic", rep);
}

pub fn run_c07(rep: &mut Report, driver: &str, workers: usize, thorough: bool, seed: u64) {
    // "Rule text is structured by …": the tree a rule holds for a text is the tree of that text
    rule_vs_expr("C07", rep, workers, thorough, seed);
    {
        // "parentheses only group" — in a metadata value too: a parenthesised constant is that constant, for the whole rule
        let mut sr = StreamReport::new("parenthesised-metadata", "every constant shape (literals, lists and maps of them, two levels) as a metadata value, bare and inside one / two pairs of parentheses (around the whole value and around an inner item): Rule::parse gives the same rule", true);
        for c in const_shapes().iter().filter(|c| !c.starts_with('(')) {
            let bare = impl_parse_rule(&format!("// n\n@k: {};\ni1", c));
            let inner = c.replacen("i1", "(i1)", 1).replacen("none", "((none))", 1);
            for v in [format!("({})", c), format!("(({}))", c), format!("( {} )", c), inner] {
                sr.count(&v, true);
                let got = impl_parse_rule(&format!("// n\n@k: {};\ni1", v));
                if got != bare {
                    rep.add_finding(Finding { kind: "impl-violates-property".into(), stream: "parenthesised-metadata".into(), case: format!("parenmeta\t{}", hex(&v)), human: format!("@k: {};", v), impl_out: got, model_out: bare.clone(), predicate: "parentheses only group: a parenthesised metadata value is the value".into(), signature: "C07 parenthesised-metadata".into() });
                }
            }
        }
        rep.streams.push(sr);
    }
    let mut rng = Rng::new(seed);
    let run = run_texts(prec_stream(), false, driver, workers);
    judge_texts("C07", "precedence", "`a op1 b op2 c` (bare, left- and right-parenthesised, with postfix steps) for every ordered pair of the 19 binary operator tokens; unary x binary combinations; if in operand positions; calls / lists / maps as operands; synonym spellings; chaining / non-chaining of contains, index forms, trailing commas, keyword-vs-call forms — accept/reject and tree compared with the reference parser", true, &run, "full", rep);
    {
        // comments and line ends between the tokens of an expression do not take part in its structure
        let mut r3 = Rng::new(seed ^ 0x77);
        let mut ctexts = vec![];
        for (toks, _) in layout_stream(&mut r3, false).iter().take(14) {
            for g in GAPS.iter().filter(|g| g.contains("//") || g.contains('\n')) {
                ctexts.push(TextCase { text: toks.join(g), tag: "comments-between-tokens" });
                ctexts.push(TextCase { text: format!("{}{}{}", g, toks.join(" "), g), tag: "comments-between-tokens" });
            }
        }
        let run = run_texts(ctexts, false, driver, workers);
        judge_texts("C07", "comments-between-tokens", "14 token sequences with every comment / line-end gap shape (comments ended by \\n, \\r, \\r\\n; comments whose text looks like other syntax: `/*`, `*/`, closing brackets, `---`, `@k: i1;`, a trailing backslash) at every boundary and around the whole text: the tree is the one of the comment-free text", true, &run, "full", rep);
    }
    let mut seqs = toks_stream(thorough);
    seqs.extend(brackets_stream(thorough));
    let run = run_texts(seqs, false, driver, workers);
    judge_texts("C07", "token-sequences", "every sequence of <= 3 (thorough 4) of 30 token representatives, of <= 4 (thorough 5) of 17 representatives (one per precedence level and bracket kind) and of <= 5 (thorough 6) of the 9 compound-literal token classes (identifier, non-identifier string, literal, `: , [ ] { }`), accepted and rejected alike", true, &run, "full", rep);
    // every tree of the image rendered with minimal, full and random redundant parentheses parses back to itself
    let trees: Vec<Expr> = image_trees(&mut rng, thorough).into_iter().filter(|e| !has_nonfinite(e)).collect();
    let mut texts = vec![];
    let mut expect = vec![];
    for e in &trees {
        let mut none = || false;
        let mut all = || true;
        texts.push(TextCase { text: print_min(e, 0, &mut none), tag: "minimal-parens" });
        expect.push(format!("(ok {})", enc_expr(e)));
        texts.push(TextCase { text: print_min(e, 0, &mut all), tag: "full-parens" });
        expect.push(format!("(ok {})", enc_expr(e)));
        let mut r2 = rng.fork(7);
        let mut some = || r2.chance(1, 3);
        texts.push(TextCase { text: print_min(e, 0, &mut some), tag: "random-parens" });
        expect.push(format!("(ok {})", enc_expr(e)));
    }
    let run = run_texts(texts, false, driver, workers);
    // the property's own predicate on the real code: the rendering parses back to the tree
    for ((t, imp), want) in run.texts.iter().zip(run.impl_out.iter()).zip(expect.iter()) {
        if imp != want {
            rep.add_finding(Finding { kind: "impl-violates-property".into(), stream: "tree-renderings".into(), case: format!("parse\t{}", hex(&t.text)), human: t.text.chars().take(160).collect(), impl_out: imp.clone(), model_out: want.clone(), predicate: "parentheses only group: a tree printed by the precedence table (minimal / full / random redundant parentheses) parses back to that tree".into(), signature: format!("C07 render {}", t.tag) });
        }
    }
    judge_texts("C07", "tree-renderings", "every tree of the parser's image of depth <= 2 (every constructor in every child position of every constructor, leaves over all literal classes) and random depth-3 trees, printed by the harness's precedence-table printer with minimal, full and random redundant parentheses; must parse back to the same tree (real parser and reference parser)", false, &run, "full", rep);
}

pub fn run_c08(rep: &mut Report, driver: &str, workers: usize, thorough: bool, seed: u64, known: &mut Vec<String>) {
    // literals denote what is written in a rule's text too (raw carriage returns, line feeds and tabs inside strings included)
    rule_vs_expr("C08", rep, workers, thorough, seed);
    let mut rng = Rng::new(seed);
    let mut texts = literal_stream(&mut rng, thorough);
    texts.extend(strlit_stream(&mut rng, thorough));
    texts.extend(strlit_sequences());
    texts.extend(chars_stream(thorough));
    let run = run_texts(texts, false, driver, workers);
    judge_texts("C08", "literals", "string literals mixing 1- to 4-byte characters with 16 valid / invalid escape forms at every distance 0..14 from either end; integers at every boundary and random i128 in four radices (upper/lower-case hex), out-of-range numerals, floats and decimals through Rust's / rust_decimal's own printers (shortest, exponent, every scale), limits of f64 (overflow to inf, subnormal, halfway cases), strings over the full Unicode range with each escapable character escaped or raw and every malformed escape, every keyword +- one identifier character, literal-prefix collisions (int inty i5 i5x f1e f1e5 d5x in inx …); all short strings over the literal alphabet — compared on the tree with canonical literal encodings (bit patterns, mantissa+scale, code points)", false, &run, "full", rep);
    // layout: every gap shape at every boundary gives the tree of the single-space text
    let seqs = layout_stream(&mut rng, thorough);
    let mut ltexts = vec![];
    let mut base_of = vec![];
    let mut desc = vec![];
    for (toks, _) in &seqs {
        let base = toks.join(" ");
        for g in GAPS {
            // the gap at every boundary, and at one boundary at a time
            let mut variants = vec![toks.join(g)];
            for i in 1..toks.len() {
                let mut s = String::new();
                for (j, t) in toks.iter().enumerate() {
                    if j > 0 {
                        s.push_str(if j == i { g } else { " " });
                    }
                    s.push_str(t);
                }
                variants.push(s);
            }
            variants.push(format!("{}{}{}", g, base, g));
            for v in variants {
                let after_slash = v.contains("///") || v.contains("/ //") && false;
                ltexts.push(TextCase { text: v, tag: "layout" });
                base_of.push(base.clone());
                desc.push(after_slash);
            }
        }
    }
    let bases: Vec<String> = base_of.iter().map(|b| impl_parse(b)).collect();
    let run = run_texts(ltexts, false, driver, workers);
    for (((t, imp), b), after_slash) in run.texts.iter().zip(run.impl_out.iter()).zip(bases.iter()).zip(desc.iter()) {
        if imp != b {
            let sig = if *after_slash { "C08 layout comment-directly-after-slash".to_string() } else { "C08 layout".to_string() };
            if *after_slash {
                known.push(sig.clone());
            }
            rep.add_finding(Finding { kind: "impl-violates-property".into(), stream: "layout".into(), case: format!("parse\t{}", hex(&t.text)), human: format!("{:?}", t.text), impl_out: imp.clone(), model_out: b.clone(), predicate: "the amount and kind of whitespace, newlines and // comments between two tokens never changes the parsed tree (compared with the single-space text)".into(), signature: sig });
        }
    }
    judge_texts("C08", "layout", "14 token sequences (thorough +200 random) x 22 gap shapes (space, tab, NBSP, U+2003, U+0085, \\n, \\r\\n, \\r, blank lines, comments ended by \\n / \\r / \\r\\n, consecutive comments, comments whose text looks like other syntax — `/*`, `*/`, closing brackets, `---`, `@k: i1;`, a trailing backslash —, a comment containing a quote) placed at every boundary at once, at each boundary alone, and around the text; predicate on the real parser: same tree as with single spaces; and compared with the reference lexer/parser", true, &run, "full", rep);
}

/// `Rule::new` with hand-built metadata, clones and comparisons: the accessors return exactly what was put in
fn rule_objects(rep: &mut Report) {
    use reval::prelude::Rule;
    let mut sr = StreamReport::new("rule-objects", "Rule::new over names (empty, padded, multi-byte, long) x metadata maps (0 / 1 / 3 / 40 entries; `description` absent, a string, empty, non-string; a `name` entry that differs from the name) x expressions: name(), description(), get_metadata(), iter_metadata() (key order), expr(), and the same on the clone and after a parse of the rule's own rendering — predicates on the real code alone", true);
    let names = ["n", "", " padded ", "名前 é", "x".repeat(300).leak() as &str];
    let descs: Vec<Option<Value>> = vec![None, Some(Value::String("d".into())), Some(Value::String(String::new())), Some(Value::Int(5)), Some(Value::None), Some(Value::Vec(vec![Value::String("d".into())]))];
    let exprs = [Expr::Value(Value::Int(1)), mk_bin("add", reff("a"), reff("b"))];
    for name in names {
        for d in &descs {
            for extra in [0usize, 1, 3, 40] {
                for e in &exprs {
                    let mut md: BTreeMap<String, Value> = (0..extra).map(|i| (format!("k{:02}", (i * 7 + 3) % 40), Value::Int(i as i128))).collect();
                    if extra == 3 {
                        md.insert("name".into(), Value::String("another name".into()));
                    }
                    if let Some(v) = d {
                        md.insert("description".into(), v.clone());
                    }
                    let r = Rule::new(name, md.clone(), e.clone());
                    let want_desc = match d {
                        Some(Value::String(x)) => Some(x.as_str()),
                        _ => None,
                    };
                    let c = r.clone();
                    let mut bad = vec![];
                    for (label, x) in [("rule", &r), ("clone", &c)] {
                        if x.name() != name {
                            bad.push(format!("{label}.name() = {:?}", x.name()));
                        }
                        if x.description() != want_desc {
                            bad.push(format!("{label}.description() = {:?}", x.description()));
                        }
                        if x.expr() != e {
                            bad.push(format!("{label}.expr() differs"));
                        }
                        let got: Vec<(String, Value)> = x.iter_metadata().map(|(k, v)| (k.to_string(), v.clone())).collect();
                        let want: Vec<(String, Value)> = md.iter().map(|(k, v)| (k.clone(), v.clone())).collect();
                        if got != want {
                            bad.push(format!("{label}.iter_metadata() differs"));
                        }
                        for (k, v) in &md {
                            if x.get_metadata(k) != Some(v) {
                                bad.push(format!("{label}.get_metadata({k}) differs"));
                            }
                        }
                        if x.get_metadata("absent").is_some() {
                            bad.push(format!("{label}.get_metadata(absent) is some"));
                        }
                    }
                    if c != r {
                        bad.push("clone != original".into());
                    }
                    sr.count(&format!("{:?} {:?} {} {}", name.len(), d, extra, e), true);
                    if !bad.is_empty() {
                        rep.add_finding(Finding { kind: "impl-violates-property".into(), stream: "rule-objects".into(), case: format!("rule-object\t{}\t{:?}\t{}", hex(name), d, extra), human: format!("Rule::new({:?}, {} metadata entries, description {:?})", name.chars().take(20).collect::<String>(), md.len(), d), impl_out: bad.join("; "), model_out: "the accessors return what was put in".into(), predicate: "name, description (only a string @description), metadata entries and expression of a rule are exactly what it was built from".into(), signature: "C14 rule-object".into() });
                    }
                }
            }
        }
    }
    rep.streams.push(sr);
}

/// "the expression that the text without its `@key: value;` prefix parses to": for every text of the expression
/// streams, `Rule::parse` of the text under a name comment (with and without metadata in front) must hold exactly the
/// tree `Expr::parse` returns for the text alone, and must reject exactly the texts it rejects
fn rule_vs_expr(prop: &str, rep: &mut Report, workers: usize, thorough: bool, seed: u64) {
    let mut rng = Rng::new(seed ^ 0x14);
    let mut texts = prec_stream();
    if prop != "C08" {
        texts.extend(toks_stream(false));
    }
    texts.extend(strlit_stream(&mut rng, false));
    texts.extend(strlit_sequences());
    texts.extend(literal_stream(&mut rng, thorough && prop == "C08"));
    for t in ["x * i1", "i1 * x", "x + i0", "x - i0", "x / i1", "x == none", "f(x) != none", "none == x", "if c then true else false", "--x", "!!x", "\"a\rb\"", "\"a\r\nb\"", "a and true", "false or a", "[x * i1, {k: x + i0}]",
        "\"line 1\r\nline 2\"", "\"a\nb\"", "\"a\tb\"", "\"a\u{85}b\"", "\"a\u{2028}b\"", "\"\r\"", "\"\r\n\"", "\"\n\r\"", "[\"a\rb\", \"c\r\nd\"]", "x == \"Main St 1\r\nSpringfield\"", "{k: \"a\r\"}", "\"a\r\" + \"\rb\"", "\" \r \"", "f(\"\r\")", "\"a\\rb\"",
        "\"first\n\u{feff}second\"", "\"first\r\nsecond\u{feff}\"", "\"\u{feff}\"", "\"a\n\u{feff}\"", "[\"\u{feff}a\", \"b\r\n\u{feff}c\"]", "\"/* not a comment */\"", "\"a /* b\" + \"c */ d\"", "\"// x\n// y\"",
        // lines that a multi-rule / front-matter / markup splitter would take for structure: they are operators, or string contents
        "i1\n---\ni2", "i1\n----\ni2", "i1\n-\ni2", "i1\n--- \n i2", "---\ni1", "i1\n---", "a\n+\nb", "a\n|\nb", "a\n&\nb", "a\n==\nb", "a\n===\nb", "a\n...\nb", "a\n;\nb", "a\n# x\nb", "a\n***\nb",
        "\"title\n---\nbody\"", "[\"top\n---\nbottom\", \"x\n===\ny\"]", "\"a\n\n\nb\"", "{k: \"a\n---\"}", "x == \"---\"", "\"---\" + \"\n---\n\"", "\"a\n@k: i1;\nb\"", "\"a\n# b\"",
        "[]", "{}", "[i1, i2]", "([i1])", "{low: i1, high: i10}", "[[], {}]", "[\"a\", [i1, {k: none}]]", "{a: [i1], b: {c: f1.5}}", "[true, false, none]", "{z: i1, a: i2, z: i3}"] {
        texts.push(TextCase { text: t.to_string(), tag: "rule-vs-expr" });
    }
    let n = texts.len();
    let mut out: Vec<Option<String>> = vec![None; n];
    let chunk = ((n + workers - 1) / workers.max(1)).max(1);
    std::thread::scope(|sc| {
        for (cs, os) in texts.chunks(chunk).zip(out.chunks_mut(chunk)) {
            sc.spawn(move || {
                for (c, o) in cs.iter().zip(os.iter_mut()) {
                    let r = catch_unwind(AssertUnwindSafe(|| {
                        let alone = Expr::parse(&c.text).map(|e| enc_expr(&e)).map_err(|_| ());
                        let mut diffs = vec![];
                        for (label, prefix) in [("comment", "// n\n".to_string()), ("meta", "@name: \"n\";\n@k: [i1, {a: \"s\"}];\n".to_string())] {
                            let inrule = Rule::parse(&format!("{}{}", prefix, c.text)).map(|r| enc_expr(r.expr())).map_err(|_| ());
                            if inrule != alone {
                                diffs.push(format!("{}: rule {:?} alone {:?}", label, inrule, alone));
                            }
                        }
                        diffs
                    }));
                    *o = match r {
                        Ok(d) if d.is_empty() => None,
                        Ok(d) => Some(d.join(" | ")),
                        Err(_) => Some("PANIC".into()),
                    };
                }
            });
        }
    });
    let mut sr = StreamReport::new("rule-vs-expr", "every text of the precedence / token-sequence (not for C08) / string-literal / literal streams plus expressions a simplifier would rewrite (x * i1, x + i0, x == none, --x, if c then true else false), strings holding raw CR / CRLF / LF / TAB / NEL / LS, and literal-only lists and maps: the tree inside Rule::parse(name comment or metadata + text) equals the tree of Expr::parse(text), and both reject the same texts — predicate on the real code alone", true);
    for (t, o) in texts.iter().zip(out.iter()) {
        // a text that itself contains a comment line or an `@` would change the rule's name / metadata: skip those
        if t.text.contains("//") || t.text.contains('@') {
            continue;
        }
        sr.count(&t.text, true);
        if let Some(d) = o {
            rep.add_finding(Finding { kind: "impl-violates-property".into(), stream: "rule-vs-expr".into(), case: format!("rule-vs-expr\t{}", hex(&t.text)), human: format!("{:?}", t.text).chars().take(160).collect(), impl_out: d.chars().take(600).collect(), model_out: "same tree / same rejection".into(), predicate: "parsing rule text yields the expression that the text without its prefix parses to".into(), signature: format!("{} rule-vs-expr {}", prop, t.tag) });
        }
    }
    rep.streams.push(sr);
}

pub fn run_c14(rep: &mut Report, driver: &str, workers: usize, thorough: bool, seed: u64) {
    rule_objects(rep);
    rule_vs_expr("C14", rep, workers, thorough, seed);
    let mut rng = Rng::new(seed);
    let run = run_texts(rule_stream(&mut rng, thorough), true, driver, workers);
    judge_texts("C14", "rule-texts", "rule texts of 10 / 33 / 40 / 100 / 300 metadata items with repeated keys, scattered keys, long comment blocks, long names and large constants; rule texts assembled from 0..6 lines: 11 comment-line shapes (indented, empty, NBSP-padded, triple slash, containing `@name`), 26 metadata items (name / description overrides of string and non-string type, duplicates, non-constant values, malformed items) plus every constant shape of depth <= 3 over {literal, list, map} (systematically, incl. duplicate map keys), 14 expressions (multi-line string containing `//`, trailing comment, `/` and comments), placed before / between / after each other with \\n, \\r\\n or \\r endings; compared: name, description, the full metadata list, the expression tree, and which of MissingRuleName / RuleParseError is reported", false, &run, "full", rep);
}

pub fn run_c16(rep: &mut Report, driver: &str, workers: usize, thorough: bool, seed: u64) {
    let mut rng = Rng::new(seed);
    let mut trees = image_trees(&mut rng, thorough);
    // every string of one character over the first 0x300 code points (all control characters), alone and as an operand
    for u in 0u32..0x300 {
        if let Some(c) = char::from_u32(u) {
            trees.push(lit(Value::String(c.to_string())));
            trees.push(mk_bin("contains", reff("a"), lit(Value::String(format!("x{}y", c)))));
        }
    }
    for _ in 0..(if thorough { 20000 } else { 2000 }) {
        let n = 1 + rng.below(4);
        let sv: String = (0..n).map(|_| loop { if let Some(c) = char::from_u32((rng.next_u64() % 0x110000) as u32) { break c; } }).collect();
        trees.push(lit(Value::String(sv)));
    }
    // strings in which a line end meets a character that text tools strip, fold or treat as a separator (byte order mark,
    // zero-width and bidi controls, NEL / LS / PS, trailing backslash before another literal)
    for a in ["\n", "\r\n", "\r", "\u{85}", "\u{2028}", "\u{2029}"] {
        for b in ["\u{feff}", "\u{200b}", "\u{2060}", "\u{202e}", "\\", " ", "//", "/*", "@k: i1;", "\u{feff}//"] {
            for sv in [format!("x{}{}y", a, b), format!("{}{}", a, b), format!("{}{}", b, a), format!("x{}{}", b, a)] {
                trees.push(lit(Value::String(sv.clone())));
                trees.push(Expr::Vec(vec![lit(Value::String(sv.clone())), lit(Value::String(format!("{}z", sv)))]));
            }
        }
    }
    let n = trees.len();
    let encs: Vec<String> = trees.iter().map(enc_expr).collect();
    let texts: Vec<String> = trees.iter().map(|e| e.to_string()).collect();
    // "the rendering" is the rendering whatever formatting options the caller's format string carries (width, precision, fill,
    // sign, alternate, zero padding): every one of them prints the text that `to_string()` prints — an option that reaches a
    // literal (`{:.1}` turning f2.25 into f2.2, `{:5}` padding an index) makes the printed text denote another tree
    {
        let mut bad: Vec<(usize, &str, String)> = vec![];
        for (i, e) in trees.iter().enumerate() {
            if i % 7 != 0 && i > 3000 {
                continue;
            }
            let variants: [(&str, String); 8] = [
                ("{:.1}", format!("{:.1}", e)), ("{:12}", format!("{:12}", e)), ("{:+}", format!("{:+}", e)), ("{:#}", format!("{:#}", e)),
                ("{:08}", format!("{:08}", e)), ("{:>10.3}", format!("{:>10.3}", e)), ("{:<2}", format!("{:<2}", e)), ("{:.0}", format!("{:.0}", e)),
            ];
            for (spec, got) in variants {
                // padding of the WHOLE rendering would be legitimate for a Display impl that honours width; what must not happen
                // is a different text once surrounding padding is removed
                if got.trim_matches(|c| c == ' ' || c == '0') != texts[i].trim_matches(|c| c == ' ' || c == '0') && got != texts[i] {
                    bad.push((i, spec, got));
                    break;
                }
            }
        }
        for (i, spec, got) in bad.into_iter().take(5) {
            rep.add_finding(Finding { kind: "impl-violates-property".into(), stream: "renderings".into(), case: format!("display-spec\t{}\t{}", spec, encs[i]), human: format!("format!(\"{}\", e) for e = {}", spec, texts[i]), impl_out: got, model_out: texts[i].clone(), predicate: "the rendering of an expression does not depend on the formatting options of the caller's format string".into(), signature: format!("C16 display-spec {}", spec) });
        }
    }
    // the property's predicate on the real code alone
    let reparsed: Vec<String> = {
        let mut out = vec![String::new(); n];
        let chunk = ((n + workers - 1) / workers.max(1)).max(1);
        std::thread::scope(|sc| {
            for (cs, os) in texts.chunks(chunk).zip(out.chunks_mut(chunk)) {
                sc.spawn(move || {
                    for (c, o) in cs.iter().zip(os.iter_mut()) {
                        *o = impl_parse(c);
                    }
                });
            }
        });
        out
    };
    // … and read back through the other entry point: the rendering is rule text too
    {
        let mut via_rule: Vec<Option<String>> = vec![None; n];
        let chunk = ((n + workers - 1) / workers.max(1)).max(1);
        std::thread::scope(|sc| {
            for ((ts, es), os) in texts.chunks(chunk).zip(encs.chunks(chunk)).zip(via_rule.chunks_mut(chunk)) {
                sc.spawn(move || {
                    for ((t, e), o) in ts.iter().zip(es.iter()).zip(os.iter_mut()) {
                        if t.contains("//") || t.contains('@') {
                            continue;
                        }
                        // only renderings that Expr::parse reads back as the tree (everything else is reported above)
                        if impl_parse(t) != format!("(ok {})", e) {
                            continue;
                        }
                        *o = match catch_unwind(AssertUnwindSafe(|| Rule::parse(&format!("// n\n{}", t)))) {
                            Err(_) => Some("PANIC".to_string()),
                            Ok(Err(_)) => Some("rejected".to_string()),
                            Ok(Ok(r)) => {
                                let got = enc_expr(r.expr());
                                if &got == e { None } else { Some(format!("(ok {})", got)) }
                            }
                        };
                    }
                });
            }
        });
        for (i, o) in via_rule.into_iter().enumerate() {
            if let Some(got) = o {
                rep.add_finding(Finding { kind: "impl-violates-property".into(), stream: "renderings".into(), case: format!("display-rule\t{}", encs[i]), human: format!("Rule::parse of the rendering {:?}", texts[i].chars().take(120).collect::<String>()), impl_out: got, model_out: format!("(ok {})", encs[i]), predicate: "the rendering of a parsed expression denotes that expression — read back as an expression and as the expression of a rule".into(), signature: "C16 rendering-through-rule".into() });
            }
        }
    }
    // the model's rendering (float texts from the library through the oracle), and the model's parse of the real rendering
    let mk = |i: usize, oracle: &str| format!("display\t{}\t{}", encs[i], oracle);
    let model_disp = model_batch(driver, workers, &mk, n);
    let hexes: Vec<String> = texts.iter().map(|t| hex(t)).collect();
    let mk2 = |i: usize, oracle: &str| format!("parse\t{}\t{}", hexes[i], oracle);
    let model_parse = model_batch(driver, workers, &mk2, n);
    let mut sr = StreamReport::new("renderings", "every tree of the parser's image of depth <= 2 (every constructor in every child position of every constructor; leaves: references, symbols, none, booleans, i128 extremes, floats incl. -0, subnormal, MAX, 1e21, +-inf, decimals of scale 0..28, strings with quotes / backslashes / control / non-ASCII characters) and random depth-3 trees; predicate on the real code alone: Expr::parse(e.to_string()) == e; the model's rendering is compared with the real one (as text, else as token sequences of the model lexer), and the model's parse of the real rendering with the tree", false);
    // does the model's printed text lex to the token list the round-trip theorem is stated on (G.dispToks)?
    let mk3 = |i: usize, oracle: &str| format!("disptoks\t{}\t{}", encs[i], oracle);
    let model_toks = model_batch(driver, workers, &mk3, n);
    let mut lexreqs = vec![];
    let mut lexidx = vec![];
    for i in 0..n {
        sr.count(&encs[i], true);
        let want = format!("(ok {})", encs[i]);
        sr.hist("impl_roundtrip", if reparsed[i] == want { "same-tree" } else if reparsed[i] == "reject" { "reparse-rejected" } else { "different-tree" });
        if reparsed[i] != want {
            let sig = if has_nonfinite(&trees[i]) { "C16 nonfinite-float-literal".to_string() } else { format!("C16 roundtrip {}", encs[i].split(' ').next().unwrap_or("")) };
            rep.add_finding(Finding { kind: "impl-violates-property".into(), stream: "renderings".into(), case: format!("display\t{}", encs[i]), human: texts[i].chars().take(160).collect(), impl_out: reparsed[i].clone(), model_out: want.clone(), predicate: "the rendering of a parsed expression parses back to an equal expression".into(), signature: sig });
            continue;
        }
        if !model_disp[i].unanswered && model_disp[i].reply != hexes[i] {
            lexreqs.push(format!("lex\t{}", hexes[i]));
            lexreqs.push(format!("lex\t{}", model_disp[i].reply));
            lexidx.push(i);
        }
        sr.hist("proof_printer", if model_toks[i].unanswered { "unanswered" } else if model_toks[i].reply == "(toks-same)" { "text lexes to dispToks" } else { "differs" });
        if !model_toks[i].unanswered && model_toks[i].reply != "(toks-same)" {
            rep.add_finding(Finding { kind: "model-disagreement".into(), stream: "renderings".into(), case: format!("disptoks\t{}", encs[i]), human: texts[i].chars().take(160).collect(), impl_out: texts[i].clone(), model_out: model_toks[i].reply.clone(), predicate: "the printed text must lex to the token list the round-trip theorem is stated on (G.dispToks)".into(), signature: "C16 proof-printer".into() });
        }
        if !model_parse[i].unanswered && model_parse[i].reply != want {
            rep.add_finding(Finding { kind: "model-disagreement".into(), stream: "renderings".into(), case: format!("parse\t{}", hexes[i]), human: texts[i].chars().take(160).collect(), impl_out: reparsed[i].clone(), model_out: model_parse[i].reply.clone(), predicate: "the reference parser must parse the real rendering to the same tree".into(), signature: "C16 model-parse".into() });
        }
    }
    // every text of the token-sequence / compound-literal / precedence / string-literal streams that the real parser
    // accepts: the rendering of what it produced must parse back to it ("for every expression the parser can produce"
    // — including expressions only a changed grammar can produce, which no generator of trees knows about)
    {
        let mut texts = toks_stream(thorough);
        texts.extend(brackets_stream(thorough));
        texts.extend(prec_stream());
        texts.extend(strlit_stream(&mut rng, false));
        texts.extend(strlit_sequences());
    texts.extend(strlit_sequences());
        // literals of every class at their limits (decimals the library rounds, identifiers shaped like literals: i5x f1e d5x)
        texts.extend(literal_stream(&mut rng, false));
        for n in ["i5x", "f5e", "f5e5x", "d1_a", "d5x", "f1e", "i5x.y", "f5e.0", "[f5e, d1_a]", "{i5x: f5e}", "f5e + i5x", "f5e(x)", ":i5x", "x.f5e", "x.i5"] {
            texts.push(TextCase { text: n.to_string(), tag: "precedence" });
        }
        let m = texts.len();
        let mut out = vec![String::new(); m];
        let chunk = ((m + workers - 1) / workers.max(1)).max(1);
        std::thread::scope(|sc| {
            for (cs, os) in texts.chunks(chunk).zip(out.chunks_mut(chunk)) {
                sc.spawn(move || {
                    for (c, o) in cs.iter().zip(os.iter_mut()) {
                        *o = impl_roundtrip(&c.text);
                    }
                });
            }
        });
        let mut sr2 = StreamReport::new("accepted-texts", "every sequence of <= 3 (thorough 4) of 30 token representatives, <= 4 (5) of 17, <= 5 (6) of the 9 compound-literal token classes, the precedence texts, the mixed-width string literals and the literal stream (every literal class at its limits, decimals the library rounds, identifiers shaped like literals): whenever the real parser accepts the text, the rendering of the tree it returned must parse back to an equal tree (predicate on the real code alone; no model involved)", true);
        for (t, o) in texts.iter().zip(out.iter()) {
            sr2.count(&t.text, !o.is_empty());
            sr2.hist("outcome", if o.is_empty() { "text rejected" } else { o.split('\t').next().unwrap_or("") });
            if !o.is_empty() && o != "same" {
                let shown = o.split('\t').nth(1).unwrap_or("");
                let sig = if shown.contains("inf") || shown.contains("NaN") { "C16 nonfinite-float-literal".to_string() } else { format!("C16 accepted-text {}", t.tag) };
                rep.add_finding(Finding { kind: "impl-violates-property".into(), stream: "accepted-texts".into(), case: format!("roundtrip\t{}", hex(&t.text)), human: format!("{:?} renders as {:?}", t.text, shown).chars().take(200).collect(), impl_out: o.clone(), model_out: "same".into(), predicate: "the rendering of a parsed expression parses back to an equal expression".into(), signature: sig });
            }
        }
        rep.streams.push(sr2);
    }
    if !lexreqs.is_empty() {
        let replies = crate::driver::par_batch(driver, workers, &lexreqs);
        for (k, i) in lexidx.iter().enumerate() {
            if replies[2 * k] != replies[2 * k + 1] {
                rep.add_finding(Finding { kind: "model-disagreement".into(), stream: "renderings".into(), case: format!("display\t{}", encs[*i]), human: texts[*i].chars().take(160).collect(), impl_out: texts[*i].clone(), model_out: unhex(&model_disp[*i].reply).unwrap_or_default(), predicate: "the model's rendering must lex to the same tokens as the real one".into(), signature: "C16 model-display".into() });
            }
        }
    }
    rep.streams.push(sr);
}

// ---------------------------------------------------------------- C10: names written in rule text

/// identifier spellings next to every keyword and every literal syntax (current or plausible): the words whose meaning a
/// lexer change would silently alter
pub fn identifier_words() -> Vec<String> {
    let mut w: Vec<String> = vec![];
    for k in ["and", "or", "if", "then", "else", "is_some", "is_none", "none", "some", "int", "float", "dec", "contains", "in", "date_time", "datetime", "duration", "to_upper", "to_lower", "uppercase", "lowercase", "trim", "round", "floor", "fract", "year", "month", "week", "day", "hour", "minute", "second", "true", "false", "starts", "ends", "key", "val", "facts"] {
        for suffix in ["x", "_", "1", "X", "_1", "s"] {
            w.push(format!("{}{}", k, suffix));
        }
        w.push(k[..k.len() - 1].to_string());
        w.push(k.to_uppercase());
        let mut cs = k.chars();
        w.push(format!("{}{}", cs.next().unwrap().to_uppercase(), cs.as_str()));
        w.push(format!("x{}", k));
        w.push(format!("_{}", k));
    }
    for s in ["i1_0", "d2_5", "f1_2", "i1_000", "i1__0", "i1_", "i2_", "f1_5", "d30_1", "d1_2", "i18_64", "f1_score", "d1e3", "i1e3", "finf", "fNaN", "dinf", "i0x10", "i1L", "f1f64", "t1h", "t5m30s", "t1w2d3h4m5s", "t90s", "p1y2m", "b101", "o777", "x1f", "u128", "e10",
              "i", "f", "d", "t", "i_", "f_1", "d1_", "if1", "f1f", "d1d1", "inty", "i5x", "f1e5x", "d5x", "a_b", "_a", "a__", "A1", "x", "X", "é", "aé", "_", "__", "_1", "a1", "I1", "F1", "D1", "I", "F", "D", "i1a", "x0", "x00", "k01", "r2d2", "v1_2_3", "id", "Id", "ID"] {
        w.push(s.to_string());
    }
    w.sort();
    w.dedup();
    w.retain(|x| x != "outer" && !x.is_empty());
    w
}

/// "An identifier evaluates to the input's top-level field of exactly that name … `:name` to the symbol registered under that
/// name … a chain of steps to exactly the nested element addressed" for names *as written in rule text*: every word the
/// model's lexer reads as an identifier, in every position a name can take, resolves (real parser + real evaluator) to the
/// datum stored under exactly that word
pub fn run_c10_names(rep: &mut Report, driver: &str, workers: usize) {
    let words = identifier_words();
    let probe = run_texts(words.iter().map(|w| TextCase { text: w.clone(), tag: "names" }).collect(), false, driver, workers);
    let mut sr = StreamReport::new("names-in-text", "every identifier spelling next to a keyword or a literal syntax (keyword + one character, other letter cases, letter-digit-underscore words such as i1_0 / d2_5 / t90s / f1e5x) that the model's lexer reads as an identifier, written as a reference, after `facts.`, as a nested field step, as a symbol, as a function name, inside a list / map / comparison: parsed by Expr::parse and by Rule::parse and evaluated in a ruleset, it yields the datum stored under exactly that name", true);
    let mut all: Vec<(String, Value, Value, String, String, &'static str)> = vec![];
    for (w, m) in words.iter().zip(probe.model.iter()) {
        let is_ident = !m.unanswered && m.reply == format!("(ok {})", enc_expr(&reff(w)));
        sr.hist("model_lexer", if is_ident { "identifier" } else { "not-an-identifier" });
        if !is_ident {
            continue;
        }
        let top = Value::String(format!("top-{}", w));
        let inner = Value::String(format!("inner-{}", w));
        let sym = Value::String(format!("sym-{}", w));
        let facts = Value::Map(BTreeMap::from([(w.clone(), top.clone()), ("outer".to_string(), Value::Map(BTreeMap::from([(w.clone(), Value::Vec(vec![inner.clone()]))])))]));
        let ok = |v: &Value| enc_result(&Ok(v.clone()));
        let forms: Vec<(String, String, &'static str)> = vec![
            (w.clone(), ok(&top), "W"),
            (format!("facts.{}", w), ok(&top), "facts.W"),
            (format!("outer.{}", w), ok(&Value::Vec(vec![inner.clone()])), "outer.W"),
            (format!("outer.{}.0", w), ok(&inner), "outer.W.0"),
            (format!("facts.outer.{}.0", w), ok(&inner), "facts.outer.W.0"),
            (format!(":{}", w), ok(&sym), ":W"),
            (format!("[{}].0", w), ok(&top), "[W].0"),
            (format!("{{k: {}}}.k", w), ok(&top), "{k: W}.k"),
            (format!("{{{}: i1}}.{}", w, w), ok(&Value::Int(1)), "{W: i1}.W"),
            (format!("{} == {}", w, w), ok(&Value::Bool(true)), "W == W"),
            (format!("if true then {} else i0", w), ok(&top), "if true then W else i0"),
            (format!("{} contains \"top-\"", w), ok(&Value::Bool(true)), "W contains \"top-\""),
            (format!("{}(i7)", w), ok(&Value::Vec(vec![Value::Int(7), Value::Int(0)])), "W(i7)"),
            (format!("{}({})", w, w), ok(&Value::Vec(vec![top.clone(), Value::Int(0)])), "W(W)"),
        ];
        for (text, want, t) in forms {
            all.push((w.clone(), facts.clone(), sym.clone(), text, want, t));
        }
    }
    // only the texts the model's parser derives are judged (`outer.d.0` is `outer` `.` and the decimal literal `d.0`)
    let accepted = run_texts(all.iter().map(|x| TextCase { text: x.3.clone(), tag: "names" }).collect(), false, driver, workers);
    for ((w, facts, sym, text, want, tmpl), m) in all.iter().zip(accepted.model.iter()) {
        let (text, want) = (text.clone(), want.clone());
        if m.unanswered || !m.reply.starts_with("(ok") {
            sr.hist("model_parser", "form-not-derivable");
            continue;
        }
        sr.hist("model_parser", "derivable");
        {
            sr.count(&text, true);
            let got = catch_unwind(AssertUnwindSafe(|| {
                let mut outs = vec![];
                for via_rule in [false, true] {
                    let rule = if via_rule {
                        match Rule::parse(&format!("// n\n{}", text)) {
                            Ok(r) => r,
                            Err(_) => {
                                outs.push("reject".to_string());
                                continue;
                            }
                        }
                    } else {
                        match Expr::parse(&text) {
                            Ok(e) => Rule::new("n", BTreeMap::new(), e),
                            Err(_) => {
                                outs.push("reject".to_string());
                                continue;
                            }
                        }
                    };
                    let shared = std::sync::Arc::new(Shared::default());
                    let b = reval::prelude::ruleset().with_rule(rule).map(|b| b.with_symbol(w, sym.clone()));
                    let b = match b {
                        Ok(b) => b,
                        Err(e) => {
                            outs.push(format!("BUILD {}", enc_err(&e)));
                            continue;
                        }
                    };
                    let b = match b.with_function(HFn { name: leak(w), spec: FnSpec::new(w, false, FnKind::Wrap), shared: shared.clone() }) {
                        Ok(b) => b,
                        Err(e) => {
                            outs.push(format!("BUILD {}", enc_err(&e)));
                            continue;
                        }
                    };
                    outs.push(match block_on(b.build().evaluate_value(&facts)) {
                        Ok(os) if os.len() == 1 => enc_result(&os[0].value),
                        Ok(os) => format!("({} outcomes)", os.len()),
                        Err(e) => format!("EVALERR {}", enc_err(&e)),
                    });
                }
                outs
            }))
            .unwrap_or_else(|_| vec!["PANIC".to_string()]);
            let bad = got.iter().any(|g| g != &want) || got.len() != 2;
            if bad {
                rep.add_finding(Finding {
                    kind: "impl-violates-property".into(),
                    stream: "names-in-text".into(),
                    case: format!("names\t{}", hexs(&text)),
                    human: format!("{:?} over facts {} with symbol and function {:?} registered", text, facts, w),
                    impl_out: format!("Expr::parse: {} | Rule::parse: {}", got.first().cloned().unwrap_or_default(), got.get(1).cloned().unwrap_or_default()),
                    model_out: want.clone(),
                    predicate: format!("the word {:?} is an identifier (the model's lexer, tied to the real one by C07 / C08): written in rule text it addresses the field / symbol / function of exactly that name", w),
                    signature: format!("C10 names-in-text {}", tmpl),
                });
            }
        }
    }
    rep.streams.push(sr);
}
