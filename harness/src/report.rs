//! What a harness run reports back to `check` (JSON on a file).
use serde::Serialize;
use std::collections::{BTreeMap, HashSet};
use std::hash::{Hash, Hasher};

#[derive(Serialize, Clone, Debug)]
pub struct Finding {
    /// "impl-violates-property" | "model-disagreement"
    pub kind: String,
    pub stream: String,
    /// the protocol line / replayable case
    pub case: String,
    pub human: String,
    pub impl_out: String,
    pub model_out: String,
    pub predicate: String,
    pub signature: String,
}

#[derive(Serialize, Clone, Debug, Default)]
pub struct StreamReport {
    pub name: String,
    pub evaluations: u64,
    pub distinct_nontrivial: u64,
    pub rule: String,
    pub exhaustive: bool,
    pub frontier_unanswered: u64,
    pub via_oracle: u64,
    pub histograms: BTreeMap<String, BTreeMap<String, u64>>,
    pub samples: Vec<String>,
    #[serde(skip)]
    seen: HashSet<u64>,
}

impl StreamReport {
    pub fn new(name: &str, rule: &str, exhaustive: bool) -> Self {
        StreamReport { name: name.into(), rule: rule.into(), exhaustive, ..Default::default() }
    }
    /// count one evaluated case; `nontrivial` by the stream's rule; distinctness by hash of the canonical case
    pub fn count(&mut self, canonical: &str, nontrivial: bool) {
        self.evaluations += 1;
        if nontrivial {
            let mut h = std::collections::hash_map::DefaultHasher::new();
            canonical.hash(&mut h);
            if self.seen.insert(h.finish()) {
                self.distinct_nontrivial += 1;
            }
        }
        if self.samples.len() < 5 && (self.evaluations % 997 == 1) {
            self.samples.push(canonical.chars().take(400).collect());
        }
    }
    pub fn hist(&mut self, dim: &str, key: &str) {
        *self.histograms.entry(dim.into()).or_default().entry(key.into()).or_default() += 1;
    }
}

#[derive(Serialize, Clone, Debug, Default)]
pub struct Report {
    pub property: String,
    pub tier: String,
    pub seed: u64,
    pub profile: String,
    pub streams: Vec<StreamReport>,
    pub findings: Vec<Finding>,
    pub findings_total: u64,
    pub harness_errors: Vec<String>,
}

impl Report {
    pub fn add_finding(&mut self, f: Finding) {
        // replay mode: only the recorded case (or, where the case text is not stable, the recorded signature) counts
        if let Ok(only) = std::env::var("VERIF_ONLY_CASE") {
            if !only.is_empty() && f.case != only {
                let sig_ok = std::env::var("VERIF_ONLY_SIGNATURE").map(|s| !s.is_empty() && s == f.signature).unwrap_or(false);
                if !sig_ok {
                    return;
                }
            }
        }
        self.findings_total += 1;
        // keep the first of each signature, at most 40
        if self.findings.len() < 400 && !self.findings.iter().any(|g| g.signature == f.signature && g.kind == f.kind) {
            self.findings.push(f);
        }
    }
}
