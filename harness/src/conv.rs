//! C17: conversions between Value and Rust types — real code vs model, property predicates on the real code.
use crate::codec::*;
use crate::driver::par_batch;
use crate::pool::*;
use crate::report::*;
use crate::rng::Rng;
use chrono::{DateTime, TimeDelta, Utc};
use reval::value::Value;
use rust_decimal::Decimal;
use std::collections::{BTreeMap, HashMap};
use std::panic::{catch_unwind, AssertUnwindSafe};

fn ok_or_err(r: Result<String, reval::Error>) -> String {
    match r {
        Ok(s) => format!("(ok {})", s),
        Err(e) => enc_err(&e),
    }
}

macro_rules! try_int {
    ($t:ty, $v:expr) => {
        ok_or_err(<$t>::try_from($v).map(|x| format!("(int {})", x)))
    };
}
macro_rules! try_vec_int {
    ($t:ty, $v:expr) => {
        ok_or_err(Vec::<$t>::try_from($v).map(|xs| format!("(vec{})", xs.iter().map(|x| format!(" (int {})", x)).collect::<String>())))
    };
}
macro_rules! try_map_int {
    ($t:ty, $v:expr, $hash:expr) => {
        if $hash {
            ok_or_err(HashMap::<String, $t>::try_from($v).map(|m| {
                let b: BTreeMap<_, _> = m.into_iter().collect();
                format!("(map{})", b.iter().map(|(k, x)| format!(" ({} (int {}))", hex(k), x)).collect::<String>())
            }))
        } else {
            ok_or_err(BTreeMap::<String, $t>::try_from($v).map(|m| format!("(map{})", m.iter().map(|(k, x)| format!(" ({} (int {}))", hex(k), x)).collect::<String>())))
        }
    };
}

pub const INT_KINDS: [&str; 10] = ["i8", "i16", "i32", "i64", "i128", "u8", "u16", "u32", "u64", "u128"];
pub const SCALAR_KINDS: [&str; 6] = ["f64", "str", "dec", "bool", "dt", "dur"];

fn try_scalar(kind: &str, v: Value) -> Option<String> {
    Some(match kind {
        "i8" => try_int!(i8, v),
        "i16" => try_int!(i16, v),
        "i32" => try_int!(i32, v),
        "i64" => try_int!(i64, v),
        "i128" => try_int!(i128, v),
        "u8" => try_int!(u8, v),
        "u16" => try_int!(u16, v),
        "u32" => try_int!(u32, v),
        "u64" => try_int!(u64, v),
        "u128" => try_int!(u128, v),
        "f64" => ok_or_err(f64::try_from(v).map(|x| enc_value(&Value::Float(x)))),
        "str" => ok_or_err(String::try_from(v).map(|x| enc_value(&Value::String(x)))),
        "dec" => ok_or_err(Decimal::try_from(v).map(|x| enc_value(&Value::Decimal(x)))),
        "bool" => ok_or_err(bool::try_from(v).map(|x| enc_value(&Value::Bool(x)))),
        "dt" => ok_or_err(DateTime::<Utc>::try_from(v).map(|x| enc_value(&Value::DateTime(x)))),
        "dur" => ok_or_err(TimeDelta::try_from(v).map(|x| enc_value(&Value::Duration(x)))),
        _ => return None,
    })
}

/// the real `TryFrom<Value>` for the kind named by `op` ("try:u8", "try:vec:u8", "try:map:i16", "try:hmap:i16", "try:mapvalue", "try:hmapvalue")
pub fn impl_try(op: &str, v: Value) -> String {
    let kind = &op[4..];
    let r = catch_unwind(AssertUnwindSafe(|| {
        if let Some(s) = try_scalar(kind, v.clone()) {
            return s;
        }
        let parts: Vec<&str> = kind.split(':').collect();
        match parts.as_slice() {
            ["mapvalue"] => ok_or_err(BTreeMap::<String, Value>::try_from(v).map(|m| enc_value(&Value::Map(m)))),
            ["hmapvalue"] => ok_or_err(HashMap::<String, Value>::try_from(v).map(|m| enc_value(&Value::Map(m.into_iter().collect())))),
            ["vec", k] => match *k {
                "i8" => try_vec_int!(i8, v),
                "u8" => try_vec_int!(u8, v),
                "i16" => try_vec_int!(i16, v),
                "u16" => try_vec_int!(u16, v),
                "i64" => try_vec_int!(i64, v),
                "u64" => try_vec_int!(u64, v),
                "u128" => try_vec_int!(u128, v),
                "i128" => try_vec_int!(i128, v),
                "str" => ok_or_err(Vec::<String>::try_from(v).map(|xs| enc_value(&Value::Vec(xs.into_iter().map(Value::String).collect())))),
                "bool" => ok_or_err(Vec::<bool>::try_from(v).map(|xs| enc_value(&Value::Vec(xs.into_iter().map(Value::Bool).collect())))),
                _ => "unsupported".into(),
            },
            [m, k] if *m == "map" || *m == "hmap" => {
                let h = *m == "hmap";
                match *k {
                    "i8" => try_map_int!(i8, v, h),
                    "u8" => try_map_int!(u8, v, h),
                    "i16" => try_map_int!(i16, v, h),
                    "u16" => try_map_int!(u16, v, h),
                    "u64" => try_map_int!(u64, v, h),
                    "i128" => try_map_int!(i128, v, h),
                    _ => "unsupported".into(),
                }
            }
            _ => "unsupported".into(),
        }
    }));
    match r {
        Ok(s) => s,
        Err(_) => "PANIC".into(),
    }
}

macro_rules! from_int {
    ($t:ty, $n:expr) => {
        <$t>::try_from($n).ok().map(|x| enc_value(&Value::from(x)))
    };
}

/// `Value::from(x)` for the integer `n` viewed as kind `k` (None when n is not a value of that type)
pub fn impl_from_int(k: &str, n: i128) -> Option<String> {
    match k {
        "i8" => from_int!(i8, n),
        "i16" => from_int!(i16, n),
        "i32" => from_int!(i32, n),
        "i64" => from_int!(i64, n),
        "i128" => Some(enc_value(&Value::from(n))),
        "u8" => from_int!(u8, n),
        "u16" => from_int!(u16, n),
        "u32" => from_int!(u32, n),
        "u64" => from_int!(u64, n),
        "usize" => from_int!(usize, n),
        _ => None,
    }
}

fn in_range(k: &str, n: i128) -> bool {
    match k {
        "i8" => i8::try_from(n).is_ok(),
        "i16" => i16::try_from(n).is_ok(),
        "i32" => i32::try_from(n).is_ok(),
        "i64" => i64::try_from(n).is_ok(),
        "i128" => true,
        "u8" => u8::try_from(n).is_ok(),
        "u16" => u16::try_from(n).is_ok(),
        "u32" => u32::try_from(n).is_ok(),
        "u64" => u64::try_from(n).is_ok(),
        "u128" => n >= 0,
        _ => false,
    }
}

struct Case {
    op: String,
    arg: String,
    impl_out: String,
    /// what the property itself prescribes, when it can be computed without the model
    expect: Option<String>,
    tag: &'static str,
}

pub fn run(rep: &mut Report, driver: &str, workers: usize, thorough: bool, seed: u64) {
    let mut rng = Rng::new(seed);
    let mut cases: Vec<Case> = vec![];
    // 1. integer extraction: whole +-70000 range for the 8/16-bit types, boundaries +-2 of every width for all, random
    let mut ints: Vec<i128> = vec![];
    for b in [7u32, 8, 15, 16, 31, 32, 63, 64, 127] {
        for d in -2i128..=2 {
            let p = if b >= 127 { i128::MAX } else { 1i128 << b };
            ints.push(p.saturating_add(d));
            ints.push((-p).saturating_add(d));
        }
    }
    ints.extend([0, 1, -1, i128::MAX, i128::MIN, i128::MAX - 1, i128::MIN + 1]);
    for _ in 0..(if thorough { 100000 } else { 5000 }) {
        let w = rng.below(128) as u32;
        let x = rng.u128() as i128;
        ints.push(x >> w);
    }
    for k in INT_KINDS {
        let narrow = matches!(k, "i8" | "u8" | "i16" | "u16");
        let mut ns = ints.clone();
        if narrow {
            ns.extend(-70000i128..=70000);
        }
        for n in ns {
            let v = Value::Int(n);
            let expect = if in_range(k, n) { format!("(ok (int {}))", n) } else { "(err numoverflow)".to_string() };
            cases.push(Case { op: format!("try:{}", k), arg: enc_value(&v), impl_out: impl_try(&format!("try:{}", k), v), expect: Some(expect), tag: "try-int" });
        }
    }
    // 2. From -> TryFrom round trips (all 8/16-bit values; boundaries for the wider types)
    for k in ["i8", "i16", "i32", "i64", "i128", "u8", "u16", "u32", "u64", "usize"] {
        let mut ns: Vec<i128> = ints.clone();
        if matches!(k, "i8" | "u8" | "i16" | "u16") {
            ns.extend(-40000i128..=70000);
        }
        for n in ns {
            if let Some(from) = impl_from_int(k, n) {
                cases.push(Case { op: format!("from:{}", k), arg: format!("(int {})", n), impl_out: from.clone(), expect: Some(format!("(int {})", n)), tag: "from-int" });
                if k != "usize" {
                    let back = impl_try(&format!("try:{}", k), Value::Int(n));
                    cases.push(Case { op: format!("try:{}", k), arg: from, impl_out: back, expect: Some(format!("(ok (int {}))", n)), tag: "roundtrip-int" });
                }
            }
        }
    }
    // 3. every Value variant (boundary pool) as the source of every extraction
    let pool = boundary_pool(thorough);
    let mut kinds: Vec<String> = INT_KINDS.iter().chain(SCALAR_KINDS.iter()).map(|s| s.to_string()).collect();
    kinds.extend(["vec:u8", "vec:i128", "vec:str", "vec:bool", "map:u8", "hmap:u8", "map:i128", "mapvalue", "hmapvalue"].iter().map(|s| s.to_string()));
    for v in &pool {
        for k in &kinds {
            let op = format!("try:{}", k);
            // wrong kind => UnexpectedValueType carrying the value
            let scalar_ty = match k.as_str() {
                "f64" => Some("float"),
                "str" => Some("str"),
                "dec" => Some("dec"),
                "bool" => Some("bool"),
                "dt" => Some("datetime"),
                "dur" => Some("duration"),
                x if INT_KINDS.contains(&x) => Some("int"),
                x if x.starts_with("vec") => Some("vec"),
                _ => Some("map"),
            };
            let expect = if scalar_ty != Some(ty_name(v)) { Some(format!("(err unexpected {})", enc_value(v))) } else if !INT_KINDS.contains(&k.as_str()) && !k.contains(':') && !k.contains("map") { Some(format!("(ok {})", enc_value(v))) } else { None };
            cases.push(Case { op: op.clone(), arg: enc_value(v), impl_out: impl_try(&op, v.clone()), expect, tag: "kind-matrix" });
        }
    }
    // 4. lists and maps with a non-convertible element at each position
    let elems = [Value::Int(1), Value::Int(255), Value::Int(256), Value::Int(-1), s("x"), Value::None, Value::Int(70000)];
    let maxlen = if thorough { 4 } else { 3 };
    let mut idx = vec![vec![]];
    for _ in 0..maxlen {
        let mut next = vec![];
        for t in &idx {
            for e in 0..elems.len() {
                let mut u: Vec<usize> = t.clone();
                u.push(e);
                next.push(u);
            }
        }
        for t in &next {
            let xs: Vec<Value> = t.iter().map(|i| elems[*i].clone()).collect();
            for k in ["vec:u8", "vec:i16", "vec:u16"] {
                let v = Value::Vec(xs.clone());
                cases.push(Case { op: format!("try:{}", k), arg: enc_value(&v), impl_out: impl_try(&format!("try:{}", k), v), expect: None, tag: "vec-elems" });
            }
            let m: BTreeMap<String, Value> = xs.iter().enumerate().map(|(i, x)| (format!("k{}", (b'd' - i as u8) as char), x.clone())).collect();
            for k in ["map:u8", "hmap:u8", "map:i16"] {
                let v = Value::Map(m.clone());
                cases.push(Case { op: format!("try:{}", k), arg: enc_value(&v), impl_out: impl_try(&format!("try:{}", k), v), expect: None, tag: "map-elems" });
            }
        }
        idx = next;
    }
    // 4b. large collections: every element converts / the only failing element is the first, a middle or the last one
    for n in [25usize, 100, 1000] {
        for bad in [usize::MAX, 0, n / 2, n - 1] {
            let xs: Vec<Value> = (0..n).map(|i| if i == bad { Value::Int(70000) } else { Value::Int((i % 200) as i128) }).collect();
            for k in ["vec:u8", "vec:i16", "vec:u64"] {
                let v = Value::Vec(xs.clone());
                cases.push(Case { op: format!("try:{}", k), arg: enc_value(&v), impl_out: impl_try(&format!("try:{}", k), v), expect: None, tag: "vec-large" });
            }
            let m: BTreeMap<String, Value> = xs.iter().enumerate().map(|(i, x)| (format!("k{:04}", (i * 7 + 3) % n), x.clone())).collect();
            for k in ["map:u8", "hmap:u8", "map:i16", "mapvalue", "hmapvalue"] {
                let v = Value::Map(m.clone());
                cases.push(Case { op: format!("try:{}", k), arg: enc_value(&v), impl_out: impl_try(&format!("try:{}", k), v), expect: None, tag: "map-large" });
            }
        }
    }
    // 5. f32 -> Value (exact widening): specials and random bit patterns
    let mut f32s: Vec<u32> = vec![0, 0x8000_0000, 1, 0x007f_ffff, 0x0080_0000, 0x7f7f_ffff, 0x7f80_0000, 0xff80_0000, 0x7fc0_0000, 0x3f80_0000, 0x3dcc_cccd, 0x0000_0100, 0x8000_0001];
    for _ in 0..(if thorough { 200000 } else { 20000 }) {
        f32s.push(rng.next_u64() as u32);
    }
    for b in f32s {
        let x = f32::from_bits(b);
        let v = Value::from(x);
        let back = f64::try_from(v.clone()).map(|y| fbits(y));
        let expect = format!("(float {:016x})", fbits(x as f64));
        let ok_back = matches!(back, Ok(bits) if bits == fbits(x as f64));
        cases.push(Case { op: "from:f32".into(), arg: format!("(f32 {:08x})", b), impl_out: if ok_back { enc_value(&v) } else { "roundtrip-failed".into() }, expect: Some(expect), tag: "f32" });
    }
    // 6. Option / Vec / Map into Value
    for v in pool.iter().take(40) {
        cases.push(Case { op: "from:option".into(), arg: format!("(some {})", enc_value(v)), impl_out: enc_value(&Value::from(Some(v.clone()))), expect: Some(enc_value(v)), tag: "from-option" });
        let xs = vec![v.clone(), Value::None, v.clone()];
        cases.push(Case { op: "from:vec".into(), arg: enc_value(&Value::Vec(xs.clone())), impl_out: enc_value(&Value::from(xs.clone())), expect: Some(enc_value(&Value::Vec(xs))), tag: "from-vec" });
        let hm: HashMap<String, Value> = [("b".to_string(), v.clone()), ("a".to_string(), Value::Int(1)), ("".to_string(), Value::None)].into_iter().collect();
        cases.push(Case {
            op: "from:map".into(),
            arg: format!("(pairs ({} {}) ({} (int 1)) (- (none)))", hex("b"), enc_value(v), hex("a")),
            impl_out: enc_value(&Value::from(hm)),
            expect: None,
            tag: "from-map",
        });
    }
    cases.push(Case { op: "from:option".into(), arg: "(nonev)".into(), impl_out: enc_value(&Value::from(None::<Value>)), expect: Some("(none)".into()), tag: "from-option" });
    // 6b. an element type of the caller's own that accepts MORE THAN ONE kind of Value (`Num`: Int or Float; `Opt`: Int or None):
    //     "extracting a list or map succeeds exactly when every element converts" is about the element conversion, whatever
    //     it accepts — mixed lists of convertible elements convert, and the error is the first non-convertible element's
    {
        #[derive(Clone, Debug, PartialEq)]
        enum Num {
            I(i128),
            F(u64),
            N,
        }
        impl TryFrom<Value> for Num {
            type Error = reval::Error;
            fn try_from(v: Value) -> Result<Self, Self::Error> {
                match v {
                    Value::Int(i) => Ok(Num::I(i)),
                    Value::Float(f) => Ok(Num::F(f.to_bits())),
                    Value::None => Ok(Num::N),
                    other => i128::try_from(other).map(Num::I),
                }
            }
        }
        let show = |n: &Num| match n {
            Num::I(i) => format!("(int {})", i),
            Num::F(b) => format!("(float {:016x})", b),
            Num::N => "(none)".to_string(),
        };
        let elems = [Value::Int(1), Value::Float(2.5), Value::None, Value::Int(-7), Value::Float(0.0), Value::String("x".into()), Value::Bool(true), Value::Vec(vec![])];
        let convertible = |v: &Value| matches!(v, Value::Int(_) | Value::Float(_) | Value::None);
        let mut lists: Vec<Vec<Value>> = vec![vec![]];
        for a in &elems {
            lists.push(vec![a.clone()]);
            for b in &elems {
                lists.push(vec![a.clone(), b.clone()]);
                for c in elems.iter().take(6) {
                    lists.push(vec![a.clone(), b.clone(), c.clone()]);
                }
            }
        }
        lists.push((0..40).map(|i| if i % 2 == 0 { Value::Int(i) } else { Value::Float(i as f64) }).collect());
        lists.push((0..40).map(|i| if i == 33 { Value::String("x".into()) } else if i % 3 == 0 { Value::None } else { Value::Int(i) }).collect());
        for xs in lists {
            let expect = match xs.iter().find(|v| !convertible(v)) {
                None => format!("(ok (vec{}))", xs.iter().map(|v| format!(" {}", show(&Num::try_from(v.clone()).unwrap()))).collect::<String>()),
                Some(bad) => enc_err(&i128::try_from(bad.clone()).unwrap_err()),
            };
            let v = Value::Vec(xs.clone());
            let got = guarded(|| ok_or_err(Vec::<Num>::try_from(v.clone()).map(|ys| format!("(vec{})", ys.iter().map(|y| format!(" {}", show(y))).collect::<String>()))));
            cases.push(Case { op: "try:vec:custom".into(), arg: enc_value(&v), impl_out: got, expect: Some(expect), tag: "custom-elem" });
            // the same elements as the values of a map (keys k0, k1, … in order)
            let m: BTreeMap<String, Value> = xs.iter().enumerate().map(|(i, v)| (format!("k{:02}", i), v.clone())).collect();
            let expect_m = match xs.iter().find(|v| !convertible(v)) {
                None => format!("(ok (map{}))", m.iter().map(|(k, v)| format!(" ({} {})", hex(k), show(&Num::try_from(v.clone()).unwrap()))).collect::<String>()),
                Some(bad) => enc_err(&i128::try_from(bad.clone()).unwrap_err()),
            };
            let mv = Value::Map(m);
            let gotb = guarded(|| ok_or_err(BTreeMap::<String, Num>::try_from(mv.clone()).map(|ys| format!("(map{})", ys.iter().map(|(k, y)| format!(" ({} {})", hex(k), show(y))).collect::<String>()))));
            cases.push(Case { op: "try:bmap:custom".into(), arg: enc_value(&mv), impl_out: gotb, expect: Some(expect_m.clone()), tag: "custom-elem" });
            let goth = guarded(|| ok_or_err(HashMap::<String, Num>::try_from(mv.clone()).map(|ys| { let b: BTreeMap<_, _> = ys.into_iter().collect(); format!("(map{})", b.iter().map(|(k, y)| format!(" ({} {})", hex(k), show(y))).collect::<String>()) })));
            // (a HashMap target visits the entries in the source's key order too: the source is a BTreeMap)
            cases.push(Case { op: "try:hmap:custom".into(), arg: enc_value(&mv), impl_out: goth, expect: Some(expect_m), tag: "custom-elem" });
        }
    }
    // 6c. text that reaches a Value through the serializer (a `String` field, or a type that hands over its `Display` text)
    //     and is extracted again: whatever the text looks like — a timestamp, a number, `true`, `none` — it is that String
    for t in ["2015-07-30T03:26:13Z", "2015-07-30T05:26:13+02:00", "2015-07-30T03:26:13.5Z", "PT3600S", "42", "-1", "1.5", "i42", "true", "none", "null", "[1]", "", " x "] {
        for via_display in [false, true] {
            let input = if via_display { crate::serval::SerVal::DisplayText(t.to_string()) } else { crate::serval::SerVal::Str(t.to_string()) };
            let wrapped = crate::serval::SerVal::Seq(vec![input.clone()]);
            let got = guarded(|| match serde::Serialize::serialize(&input, reval::value::ser::ValueSerializer) {
                Err(e) => enc_err(&e),
                Ok(v) => ok_or_err(String::try_from(v).map(|s| format!("(str {})", hex(&s)))),
            });
            cases.push(Case { op: "ser-then-try:string".into(), arg: format!("{} {}", via_display, hex(t)), impl_out: got, expect: Some(format!("(ok (str {}))", hex(t))), tag: "custom-elem" });
            let got = guarded(|| match serde::Serialize::serialize(&wrapped, reval::value::ser::ValueSerializer) {
                Err(e) => enc_err(&e),
                Ok(v) => ok_or_err(Vec::<String>::try_from(v).map(|ss| format!("(vec{})", ss.iter().map(|s| format!(" (str {})", hex(s))).collect::<String>()))),
            });
            cases.push(Case { op: "ser-then-try:vec:string".into(), arg: format!("{} {}", via_display, hex(t)), impl_out: got, expect: Some(format!("(ok (vec (str {})))", hex(t))), tag: "custom-elem" });
        }
    }
    // 7. scalar `From<T> for Value` and back through `TryFrom<Value> for T`: the original, bit for bit
    //    (the expected image is built with the variant constructor, never through the conversion under test)
    scalar_roundtrips(&mut cases, &mut rng, thorough);

    // model
    let reqs: Vec<String> = cases.iter().map(|c| if c.tag == "custom-elem" { "conv\ttry:i128\t(int 0)".to_string() } else { format!("conv\t{}\t{}", c.op.replace("hmap", "map"), c.arg) }).collect();
    let replies = par_batch(driver, workers, &reqs);
    let mut sr = StreamReport::new(
        "conversions",
        "TryFrom<Value> for each of the 10 integer types over every integer in [-70000, 70000] (8/16-bit targets), every width boundary +-2 and random i128; From->TryFrom round trips (all 8/16-bit values, boundaries for wider types incl. usize); every boundary-pool Value as the source of 25 extractions; lists/maps of length <= 3 (thorough 4) over 7 element kinds with a non-convertible element at each position (BTreeMap and HashMap targets); lists / maps of 25 / 100 / 1000 elements with no failing element or the first / a middle / the last one failing; lists and maps of <= 3 (and of 40) elements extracted into an element type of the caller's own that accepts Int, Float and None; f32 specials and random bit patterns; Option/Vec/Map into Value; From<T> -> TryFrom<Value> round trips of every scalar kind (f64 bit patterns, strings incl. &str, decimals at every scale, booleans, date-times and durations down to the nanosecond incl. the extremes) alone and inside Vec / BTreeMap / HashMap. Predicates on the real code: in range <=> Ok(same number) else NumericOverflow; wrong kind => UnexpectedValueType carrying the value; round trips return the original",
        false,
    );
    for (c, m) in cases.iter().zip(replies.iter()) {
        sr.count(&format!("{} {}", c.op, c.arg), true);
        sr.hist("stream", c.tag);
        sr.hist("impl_outcome", if c.impl_out.starts_with("(ok") || c.impl_out.starts_with("(int") || c.impl_out.starts_with("(float") { "ok" } else if c.impl_out.starts_with("(err") { c.impl_out.split(' ').nth(1).unwrap_or("?").trim_end_matches(')') } else { "value" });
        let mut push = |kind: &str, pred: &str, sig: String| {
            rep.add_finding(Finding { kind: kind.into(), stream: "conversions".into(), case: format!("conv\t{}\t{}", c.op, c.arg), human: format!("{} {}", c.op, c.arg.chars().take(120).collect::<String>()), impl_out: c.impl_out.clone(), model_out: m.clone(), predicate: pred.into(), signature: sig })
        };
        if c.impl_out == "PANIC" {
            push("impl-violates-property", "no conversion panics", format!("C17 panic {}", c.op));
        } else if c.expect.as_ref().map(|e| e != &c.impl_out).unwrap_or(false) {
            push("impl-violates-property", &format!("the property prescribes {}", c.expect.as_ref().unwrap()), format!("C17 {} {}", c.tag, c.op));
        } else if c.tag != "custom-elem" && &c.impl_out != m {
            push("impl-violates-property", "the conversion result must equal the model's (all-or-first-error, exact numbers)", format!("C17 model {} {}", c.tag, c.op));
        }
    }
    rep.streams.push(sr);
}

fn guarded(f: impl FnOnce() -> String) -> String {
    catch_unwind(AssertUnwindSafe(f)).unwrap_or_else(|_| "PANIC".into())
}

/// one scalar kind: `Value::from(x)`, `T::try_from(that)`, and the same through `Vec<T>` and `BTreeMap / HashMap<String, T>`
fn rt_kind<T: Clone + Into<Value> + TryFrom<Value, Error = reval::Error>>(cases: &mut Vec<Case>, kind: &str, xs: &[T], img: impl Fn(&T) -> Value) {
    for x in xs {
        let want = img(x);
        let from = guarded(|| enc_value(&x.clone().into()));
        cases.push(Case { op: format!("from:{}", kind), arg: enc_value(&want), impl_out: from, expect: Some(enc_value(&want)), tag: "from-scalar" });
        let back = guarded(|| ok_or_err(T::try_from(x.clone().into()).map(|y| enc_value(&img(&y)))));
        cases.push(Case { op: format!("try:{}", kind), arg: enc_value(&want), impl_out: back, expect: Some(format!("(ok {})", enc_value(&want))), tag: "roundtrip-scalar" });
    }
    // collections of the kind, in chunks of three (order kept, every element converted)
    for ch in xs.chunks(3) {
        let want = Value::Vec(ch.iter().map(&img).collect());
        let from = guarded(|| enc_value(&Value::from(ch.to_vec())));
        cases.push(Case { op: "from:vec".into(), arg: enc_value(&want), impl_out: from, expect: Some(enc_value(&want)), tag: "from-vec-scalar" });
        let back = guarded(|| ok_or_err(Vec::<T>::try_from(Value::from(ch.to_vec())).map(|ys| enc_value(&Value::Vec(ys.iter().map(&img).collect())))));
        cases.push(Case { op: format!("try:vec:{}", kind), arg: enc_value(&want), impl_out: back, expect: Some(format!("(ok {})", enc_value(&want))), tag: "roundtrip-vec-scalar" });
        let keys = ["k", "", "K"];
        let bm: BTreeMap<String, T> = ch.iter().enumerate().map(|(i, x)| (keys[i].to_string(), x.clone())).collect();
        let wantm = Value::Map(bm.iter().map(|(k, x)| (k.clone(), img(x))).collect());
        let backb = guarded(|| ok_or_err(BTreeMap::<String, T>::try_from(Value::from(bm.clone())).map(|m| enc_value(&Value::Map(m.iter().map(|(k, y)| (k.clone(), img(y))).collect())))));
        cases.push(Case { op: format!("try:map:{}", kind), arg: enc_value(&wantm), impl_out: backb, expect: Some(format!("(ok {})", enc_value(&wantm))), tag: "roundtrip-map-scalar" });
        let hm: HashMap<String, T> = bm.clone().into_iter().collect();
        let backh = guarded(|| ok_or_err(HashMap::<String, T>::try_from(Value::from(hm.clone())).map(|m| enc_value(&Value::Map(m.iter().map(|(k, y)| (k.clone(), img(y))).collect())))));
        cases.push(Case { op: format!("try:hmap:{}", kind), arg: enc_value(&wantm), impl_out: backh, expect: Some(format!("(ok {})", enc_value(&wantm))), tag: "roundtrip-map-scalar" });
    }
}

fn scalar_roundtrips(cases: &mut Vec<Case>, rng: &mut Rng, thorough: bool) {
    let n = if thorough { 20000 } else { 1500 };
    // f64: specials and random bit patterns (NaN payloads are canonicalised by the codec on both sides)
    let mut fs: Vec<f64> = [0u64, 1 << 63, 1, 0x000f_ffff_ffff_ffff, 0x0010_0000_0000_0000, 0x7fef_ffff_ffff_ffff, 0x7ff0_0000_0000_0000, 0xfff0_0000_0000_0000, 0x7ff8_0000_0000_0000, 0x3ff0_0000_0000_0000, 0x3fb9_9999_9999_999a, 0x4340_0000_0000_0000, 0x4340_0000_0000_0001]
        .iter()
        .map(|b| f64::from_bits(*b))
        .collect();
    for _ in 0..n {
        fs.push(f64::from_bits(rng.next_u64()));
    }
    rt_kind(cases, "f64", &fs, |x| Value::Float(*x));
    // strings: empty, quotes, escapes, control and non-BMP characters, look-alikes, long
    let mut ss: Vec<String> = ["", " ", "a", "A", "a\"b", "a\\b", "\n", "\r\n", "\t", "\0", "\u{7f}", "é", "e\u{301}", "ß", "İ", "\u{1F600}", "\u{10FFFF}", "\u{feff}x", " x ", "i1", "none", "true"].iter().map(|s| s.to_string()).collect();
    ss.push("x".repeat(5000));
    for _ in 0..n / 10 {
        let len = rng.below(12);
        ss.push((0..len).map(|_| char::from_u32((rng.next_u64() % 0x11_0000) as u32).unwrap_or('\u{fffd}')).collect());
    }
    rt_kind(cases, "str", &ss, |x| Value::String(x.clone()));
    // decimals: every scale of a few mantissas (1.0 vs 1.00 are different representations), the extremes, negative zero
    let mut ds: Vec<Decimal> = vec![Decimal::MAX, Decimal::MIN, Decimal::ZERO];
    for m in [0u128, 1, 10, 100, 123456789, (1u128 << 96) - 1, 1u128 << 64, 5, 25] {
        for sc in [0u32, 1, 2, 3, 14, 27, 28] {
            for neg in [false, true] {
                if let Some(x) = mk_dec(neg, m, sc) {
                    ds.push(x);
                }
            }
        }
    }
    for _ in 0..n / 4 {
        if let Some(x) = mk_dec(rng.chance(1, 2), rng.u128() >> (32 + rng.below(96) as u32), rng.below(29) as u32) {
            ds.push(x);
        }
    }
    rt_kind(cases, "dec", &ds, |x| Value::Decimal(*x));
    rt_kind(cases, "bool", &[true, false], |x| Value::Bool(*x));
    // date-times: the extremes, the epoch +-1 ns, every sub-second granularity (ns, us, ms), random instants
    let mut ts: Vec<DateTime<Utc>> = vec![DateTime::<Utc>::MIN_UTC, DateTime::<Utc>::MAX_UTC, DateTime::<Utc>::UNIX_EPOCH];
    for (secs, nanos) in [(0i64, 1u32), (-1, 999_999_999), (0, 999), (0, 1_000), (0, 999_999), (0, 1_000_000), (0, 123_456_789), (1_438_226_773, 123_456_789), (1_438_226_773, 250_000_000), (-62_135_596_800, 0), (253_402_300_799, 999_999_999), (4_102_444_800, 500)] {
        ts.push(DateTime::from_timestamp(secs, nanos).unwrap());
    }
    for _ in 0..n / 2 {
        let secs = (rng.next_u64() % 16_000_000_000_000) as i64 - 8_000_000_000_000;
        if let Some(t) = DateTime::from_timestamp(secs, (rng.next_u64() % 1_000_000_000) as u32) {
            ts.push(t);
        }
    }
    rt_kind(cases, "dt", &ts, |x| Value::DateTime(*x));
    // durations: the extremes, +-1 ns, sub-millisecond parts, random
    let mut us: Vec<TimeDelta> = vec![TimeDelta::MAX, TimeDelta::MIN, TimeDelta::zero(), TimeDelta::nanoseconds(1), TimeDelta::nanoseconds(-1), TimeDelta::microseconds(1), TimeDelta::milliseconds(-1), TimeDelta::nanoseconds(1_000_000_001), TimeDelta::new(-5, 999_999_999).unwrap(), TimeDelta::new(86_400, 123_456_789).unwrap()];
    for _ in 0..n / 2 {
        let secs = (rng.next_u64() % 18_000_000_000_000_000) as i64 - 9_000_000_000_000_000;
        if let Some(t) = TimeDelta::new(secs, (rng.next_u64() % 1_000_000_000) as u32) {
            us.push(t);
        }
    }
    rt_kind(cases, "dur", &us, |x| Value::Duration(*x));
    // `From<&str>`
    for x in ss.iter().take(40) {
        let want = Value::String(x.clone());
        let from = guarded(|| enc_value(&Value::from(x.as_str())));
        cases.push(Case { op: "from:str".into(), arg: enc_value(&want), impl_out: from, expect: Some(enc_value(&want)), tag: "from-scalar" });
    }
}
