//! development aid: `probe <text>…` prints what Expr::parse returns for each text, its rendering, and the re-parse
use reval::prelude::*;
fn main() {
    for t in std::env::args().skip(1) {
        match Expr::parse(&t) {
            Err(e) => println!("{:?} -> Err({})", t, e),
            Ok(e) => {
                let shown = e.to_string();
                println!("{:?} -> {:?}\n   prints {:?}\n   reparse {:?}", t, e, shown, Expr::parse(&shown).map(|x| x == e));
            }
        }
    }
}
