//! C19 child process: one operation on one construct at one nesting depth; exit 0 = completed (value or error),
//! death by signal = stack exhaustion.  usage: c19_child <construct> <op> <depth> <main|worker>
use reval::prelude::*;
use std::future::Future;
use std::task::{Context, Poll, RawWaker, RawWakerVTable, Waker};

fn text(construct: &str, n: usize) -> String {
    match construct {
        "neg" => format!("{}a", "-".repeat(n)),
        "not" => format!("{}a", "!".repeat(n)),
        "binary-left" => format!("a{}", "+a".repeat(n)),
        "binary-right" => format!("{}a{}", "a+(".repeat(n), ")".repeat(n)),
        "call" => format!("{}a{}", "f(".repeat(n), ")".repeat(n)),
        "builtin" => format!("{}a{}", "int(".repeat(n), ")".repeat(n)),
        "list" => format!("{}i1{}", "[".repeat(n), "]".repeat(n)),
        "map" => format!("{}i1{}", "{a:".repeat(n), "}".repeat(n)),
        "else-chain" => format!("{}c", "if a then b else ".repeat(n)),
        // the same table with a condition that is None: the evaluation fails at the first level — whatever reports the failure
        // must not walk the arms that were never evaluated
        "else-chain-none" => format!("{}c", "if nothing then b else ".repeat(n)),
        // a deep right-nested operand that evaluation never reaches (the left operand decides)
        "and-skip-right" => format!("false and {}a{}", "(a and ".repeat(n), ")".repeat(n)),
        "or-skip-right" => format!("true or {}a{}", "(a or ".repeat(n), ")".repeat(n)),
        // `==` / `!=` with a None on the left do not evaluate their right operand
        "eq-none-skip-right" => format!("nothing == {}a", "!".repeat(n)),
        "neq-none-skip-right" => format!("nothing != {}a{}", "(a and ".repeat(n), ")".repeat(n)),
        "and-chain-none" => format!("nothing{}", " and a".repeat(n)),
        "index-chain" => format!("a{}", ".b".repeat(n)),
        "parens" => format!("{}a{}", "(".repeat(n), ")".repeat(n)),
        // length instead of depth: n items / characters at nesting depth 1
        "flat-list" => format!("[{}i1]", "i1, ".repeat(n)),
        "flat-map" => format!("{{{}z: i1}}", (0..n).map(|i| format!("k{}: i1, ", i)).collect::<String>()),
        "flat-args" => format!("[{}a]", "f(a), a.b, -a, ".repeat(n / 3 + 1)),
        "long-string" => format!("\"{}\"", "x\\n".repeat(n)),
        "long-name" => "a".repeat(n + 1),
        // texts that do not parse: the error path sees the same depth / length
        "unclosed-parens" => format!("{}a", "(".repeat(n)),
        "unclosed-brackets" => format!("{}a", "[{k: (".repeat(n / 3 + 1)),
        "bad-tail" => format!("{}a a{}", "(".repeat(n), ")".repeat(n)),
        _ => panic!("construct"),
    }
}

fn block_on<F: Future>(f: F) -> F::Output {
    fn clone(_: *const ()) -> RawWaker {
        RawWaker::new(std::ptr::null(), &VTABLE)
    }
    fn noop(_: *const ()) {}
    static VTABLE: RawWakerVTable = RawWakerVTable::new(clone, noop, noop, noop);
    let w = unsafe { Waker::from_raw(RawWaker::new(std::ptr::null(), &VTABLE)) };
    let mut cx = Context::from_waker(&w);
    let mut f = Box::pin(f);
    loop {
        if let Poll::Ready(x) = f.as_mut().poll(&mut cx) {
            return x;
        }
    }
}

fn work(construct: &str, op: &str, n: usize) {
    let t = text(construct, n);
    match op {
        "parse" => {
            let r = Expr::parse(&t);
            std::mem::forget(r);
        }
        "parse-rule" => {
            let r = Rule::parse(&format!("// n\n{}", t));
            std::mem::forget(r);
        }
        // the same text parsed again and again (whatever a parser remembers between calls must not cost stack)
        "parse-again" => {
            for _ in 0..3 {
                let r = Expr::parse(&t);
                std::mem::forget(r);
            }
        }
        "parse-rule-again" => {
            for _ in 0..3 {
                let r = Rule::parse(&format!("// n\n{}", t));
                std::mem::forget(r);
            }
        }
        "parse-rule-meta" => {
            // the construct inside a metadata constant (only list / map / parens are constants)
            let r = Rule::parse(&format!("// n\n@k: {};\ni1", t));
            std::mem::forget(r);
        }
        _ => {
            let e = match Expr::parse(&t) {
                Ok(e) => e,
                Err(_) => {
                    println!("parse-error");
                    return;
                }
            };
            match op {
                "drop" => drop(e),
                "display" => {
                    let s = e.to_string();
                    std::mem::forget(s);
                    std::mem::forget(e);
                }
                "clone" => {
                    let c = e.clone();
                    std::mem::forget(c);
                    std::mem::forget(e);
                }
                "eq" => {
                    // compare with a second parse of the same text (no clone involved)
                    let e2 = Expr::parse(&t).unwrap();
                    let same = e == e2;
                    assert!(same);
                    std::mem::forget(e2);
                    std::mem::forget(e);
                }
                "display-value" => {
                    // print the *value* the expression evaluates to (Display for Value)
                    let facts: Value = std::collections::BTreeMap::from([("a", Value::Bool(true))]).into();
                    if let Ok(v) = block_on(e.evaluate(&facts)) {
                        let s = v.to_string();
                        std::mem::forget(s);
                        std::mem::forget(v);
                    }
                    std::mem::forget(e);
                }
                // the tree handed to the public constructors of a rule and a ruleset (moved, not walked)
                "rule-new" => {
                    let r = Rule::new("r", std::collections::BTreeMap::new(), e);
                    std::mem::forget(r);
                }
                "ruleset-build" => {
                    let r = Rule::new("r", std::collections::BTreeMap::new(), e);
                    match reval::prelude::ruleset().with_rule(r) {
                        Ok(b) => std::mem::forget(b.build()),
                        Err(er) => std::mem::forget(er),
                    }
                }
                "evaluate" => {
                    let facts: Value = std::collections::BTreeMap::from([("a", Value::Bool(true)), ("b", Value::Int(1)), ("c", Value::Int(2)), ("nothing", Value::None)]).into();
                    let r = block_on(e.evaluate(&facts));
                    std::mem::forget(r);
                    std::mem::forget(e);
                }
                _ => panic!("op"),
            }
        }
    }
}

fn main() {
    let a: Vec<String> = std::env::args().collect();
    let (construct, op, n, thread) = (a[1].clone(), a[2].clone(), a[3].parse::<usize>().unwrap(), a[4].clone());
    if thread == "worker" {
        let h = std::thread::Builder::new().stack_size(2 * 1024 * 1024).spawn(move || work(&construct, &op, n)).unwrap();
        h.join().unwrap();
    } else {
        work(&construct, &op, n);
    }
    println!("done");
}
