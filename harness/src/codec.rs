//! Canonical text encoding of values, expressions, errors — the same on both sides of the protocol.
//! Canonicalisation: strings as UTF-8 hex, floats as bit patterns with every NaN mapped to one,
//! decimals as (sign, mantissa, scale), date-times / durations as (floor seconds, nanos), maps in key order.
use crate::sexp::Sexp;
use chrono::{DateTime, TimeDelta, Utc};
use reval::expr::{Expr, Index};
use reval::value::Value;
use rust_decimal::Decimal;
use std::collections::BTreeMap;

pub const NAN_BITS: u64 = 0x7ff8000000000000;

pub fn hex(s: &str) -> String {
    if s.is_empty() {
        "-".into()
    } else {
        let mut o = String::with_capacity(s.len() * 2);
        for b in s.bytes() {
            o.push_str(&format!("{:02x}", b));
        }
        o
    }
}

pub fn unhex(h: &str) -> Option<String> {
    if h == "-" {
        return Some(String::new());
    }
    if h.len() % 2 != 0 {
        return None;
    }
    let mut bytes = Vec::with_capacity(h.len() / 2);
    let hb = h.as_bytes();
    for i in (0..hb.len()).step_by(2) {
        let s = std::str::from_utf8(&hb[i..i + 2]).ok()?;
        bytes.push(u8::from_str_radix(s, 16).ok()?);
    }
    String::from_utf8(bytes).ok()
}

pub fn fbits(f: f64) -> u64 {
    if f.is_nan() {
        NAN_BITS
    } else {
        f.to_bits()
    }
}

pub fn dur_ns(d: &TimeDelta) -> i128 {
    d.num_seconds() as i128 * 1_000_000_000 + d.subsec_nanos() as i128
}

pub fn dur_from_ns(ns: i128) -> Option<TimeDelta> {
    let secs = ns.div_euclid(1_000_000_000);
    let nanos = ns.rem_euclid(1_000_000_000);
    TimeDelta::new(i64::try_from(secs).ok()?, nanos as u32)
}

pub fn enc_value(v: &Value) -> String {
    match v {
        Value::String(s) => format!("(str {})", hex(s)),
        Value::Int(i) => format!("(int {})", i),
        Value::Float(f) => format!("(float {:016x})", fbits(*f)),
        Value::Decimal(d) => format!(
            "(dec {} {} {})",
            if d.is_sign_negative() { 1 } else { 0 },
            d.mantissa().unsigned_abs(),
            d.scale()
        ),
        Value::Bool(b) => format!("(bool {})", *b as u8),
        Value::DateTime(t) => format!("(dt {} {})", t.timestamp(), t.timestamp_subsec_nanos()),
        Value::Duration(d) => {
            let ns = dur_ns(d);
            format!("(dur {} {})", ns.div_euclid(1_000_000_000), ns.rem_euclid(1_000_000_000))
        }
        Value::Vec(v) => format!("(vec{})", v.iter().map(|x| format!(" {}", enc_value(x))).collect::<String>()),
        Value::Map(m) => format!(
            "(map{})",
            m.iter().map(|(k, x)| format!(" ({} {})", hex(k), enc_value(x))).collect::<String>()
        ),
        Value::None => "(none)".into(),
        // a variant added to the public enum must not break the harness build (an additive API change is not a
        // violation by itself); it shows as a value the model does not know
        #[allow(unreachable_patterns)]
        other => format!("(unknown-value {})", hex(&format!("{:?}", other))),
    }
}

pub fn mk_dec(neg: bool, mant: u128, scale: u32) -> Option<Decimal> {
    if mant >= (1u128 << 96) || scale > 28 {
        return None;
    }
    let mut d = Decimal::from_i128_with_scale(mant as i128, scale);
    d.set_sign_negative(neg);
    Some(d)
}

pub fn dec_value(s: &Sexp) -> Option<Value> {
    let l = s.list()?;
    let h = l.first()?.atom()?;
    Some(match h {
        "str" => Value::String(unhex(l.get(1)?.atom()?)?),
        "int" => Value::Int(l.get(1)?.atom()?.parse().ok()?),
        "float" => Value::Float(f64::from_bits(u64::from_str_radix(l.get(1)?.atom()?, 16).ok()?)),
        "dec" => {
            let neg = l.get(1)?.atom()? == "1";
            let mant: u128 = l.get(2)?.atom()?.parse().ok()?;
            let scale: u32 = l.get(3)?.atom()?.parse().ok()?;
            Value::Decimal(mk_dec(neg, mant, scale)?)
        }
        "bool" => Value::Bool(l.get(1)?.atom()? == "1"),
        "dt" => {
            let secs: i64 = l.get(1)?.atom()?.parse().ok()?;
            let nanos: u32 = l.get(2)?.atom()?.parse().ok()?;
            Value::DateTime(DateTime::<Utc>::from_timestamp(secs, nanos)?)
        }
        "dur" => {
            let secs: i128 = l.get(1)?.atom()?.parse().ok()?;
            let nanos: i128 = l.get(2)?.atom()?.parse().ok()?;
            Value::Duration(dur_from_ns(secs * 1_000_000_000 + nanos)?)
        }
        "vec" => Value::Vec(l[1..].iter().map(dec_value).collect::<Option<Vec<_>>>()?),
        "map" => {
            let mut m = BTreeMap::new();
            for kv in &l[1..] {
                let kv = kv.list()?;
                m.insert(unhex(kv.first()?.atom()?)?, dec_value(kv.get(1)?)?);
            }
            Value::Map(m)
        }
        "none" => Value::None,
        _ => return None,
    })
}

fn un(name: &str, e: &Expr) -> String {
    format!("(un {} {})", name, enc_expr(e))
}
fn bin(name: &str, l: &Expr, r: &Expr) -> String {
    format!("(bin {} {} {})", name, enc_expr(l), enc_expr(r))
}

/// reval's 47 constructors -> the model's (constructor, operator tag) pairs
pub fn enc_expr(e: &Expr) -> String {
    match e {
        Expr::Value(v) => format!("(lit {})", enc_value(v)),
        Expr::Reference(n) => format!("(ref {})", hex(n)),
        Expr::Symbol(n) => format!("(sym {})", hex(n)),
        Expr::Function(f, a) => format!("(call {} {})", hex(f), enc_expr(a)),
        Expr::Index(b, Index::Map(k)) => format!("(idxk {} {})", enc_expr(b), hex(k)),
        Expr::Index(b, Index::Vec(n)) => format!("(idxn {} {})", enc_expr(b), n),
        Expr::If(c, t, f) => format!("(if {} {} {})", enc_expr(c), enc_expr(t), enc_expr(f)),
        Expr::Map(m) => format!(
            "(map{})",
            m.iter().map(|(k, x)| format!(" ({} {})", hex(k), enc_expr(x))).collect::<String>()
        ),
        Expr::Vec(v) => format!("(vec{})", v.iter().map(|x| format!(" {}", enc_expr(x))).collect::<String>()),
        Expr::Not(x) => un("not", x),
        Expr::Neg(x) => un("neg", x),
        Expr::Some(x) => un("some", x),
        Expr::None(x) => un("isnone", x),
        Expr::Int(x) => un("toint", x),
        Expr::Float(x) => un("tofloat", x),
        Expr::Dec(x) => un("todec", x),
        Expr::DateTime(x) => un("datetime", x),
        Expr::Duration(x) => un("duration", x),
        Expr::Mult(l, r) => bin("mult", l, r),
        Expr::Div(l, r) => bin("div", l, r),
        Expr::Rem(l, r) => bin("rem", l, r),
        Expr::Add(l, r) => bin("add", l, r),
        Expr::Sub(l, r) => bin("sub", l, r),
        Expr::Equals(l, r) => format!("(eq {} {})", enc_expr(l), enc_expr(r)),
        Expr::NotEquals(l, r) => format!("(neq {} {})", enc_expr(l), enc_expr(r)),
        Expr::GreaterThan(l, r) => bin("gt", l, r),
        Expr::GreaterThanEquals(l, r) => bin("gte", l, r),
        Expr::LessThan(l, r) => bin("lt", l, r),
        Expr::LessThanEquals(l, r) => bin("lte", l, r),
        Expr::And(l, r) => format!("(and {} {})", enc_expr(l), enc_expr(r)),
        Expr::Or(l, r) => format!("(or {} {})", enc_expr(l), enc_expr(r)),
        Expr::BitAnd(l, r) => bin("bitand", l, r),
        Expr::BitOr(l, r) => bin("bitor", l, r),
        Expr::BitXor(l, r) => bin("bitxor", l, r),
        Expr::Contains(l, r) => bin("contains", l, r),
        Expr::UpperCase(x) => un("upper", x),
        Expr::LowerCase(x) => un("lower", x),
        Expr::Trim(x) => un("trim", x),
        Expr::Floor(x) => un("floor", x),
        Expr::Round(x) => un("round", x),
        Expr::Fract(x) => un("fract", x),
        Expr::Year(x) => un("year", x),
        Expr::Month(x) => un("month", x),
        Expr::Week(x) => un("week", x),
        Expr::Day(x) => un("day", x),
        Expr::Hour(x) => un("hour", x),
        Expr::Minute(x) => un("minute", x),
        Expr::Second(x) => un("second", x),
        #[allow(unreachable_patterns)]
        other => format!("(unknown-expr {})", hex(&format!("{:?}", other))),
    }
}

pub const UN_OPS: [&str; 22] = [
    "not", "neg", "some", "isnone", "toint", "tofloat", "todec", "datetime", "duration", "upper", "lower", "trim",
    "round", "floor", "fract", "year", "month", "week", "day", "hour", "minute", "second",
];
pub const BIN_OPS: [&str; 13] =
    ["mult", "div", "rem", "add", "sub", "gt", "gte", "lt", "lte", "bitand", "bitor", "bitxor", "contains"];
/// the lazy / special binary constructors
pub const LAZY_BIN: [&str; 4] = ["eq", "neq", "and", "or"];

pub fn mk_un(op: &str, e: Expr) -> Expr {
    let b = Box::new(e);
    match op {
        "not" => Expr::Not(b),
        "neg" => Expr::Neg(b),
        "some" => Expr::Some(b),
        "isnone" => Expr::None(b),
        "toint" => Expr::Int(b),
        "tofloat" => Expr::Float(b),
        "todec" => Expr::Dec(b),
        "datetime" => Expr::DateTime(b),
        "duration" => Expr::Duration(b),
        "upper" => Expr::UpperCase(b),
        "lower" => Expr::LowerCase(b),
        "trim" => Expr::Trim(b),
        "round" => Expr::Round(b),
        "floor" => Expr::Floor(b),
        "fract" => Expr::Fract(b),
        "year" => Expr::Year(b),
        "month" => Expr::Month(b),
        "week" => Expr::Week(b),
        "day" => Expr::Day(b),
        "hour" => Expr::Hour(b),
        "minute" => Expr::Minute(b),
        "second" => Expr::Second(b),
        _ => panic!("unknown unary op {op}"),
    }
}

pub fn mk_bin(op: &str, l: Expr, r: Expr) -> Expr {
    let (l, r) = (Box::new(l), Box::new(r));
    match op {
        "mult" => Expr::Mult(l, r),
        "div" => Expr::Div(l, r),
        "rem" => Expr::Rem(l, r),
        "add" => Expr::Add(l, r),
        "sub" => Expr::Sub(l, r),
        "gt" => Expr::GreaterThan(l, r),
        "gte" => Expr::GreaterThanEquals(l, r),
        "lt" => Expr::LessThan(l, r),
        "lte" => Expr::LessThanEquals(l, r),
        "bitand" => Expr::BitAnd(l, r),
        "bitor" => Expr::BitOr(l, r),
        "bitxor" => Expr::BitXor(l, r),
        "contains" => Expr::Contains(l, r),
        "eq" => Expr::Equals(l, r),
        "neq" => Expr::NotEquals(l, r),
        "and" => Expr::And(l, r),
        "or" => Expr::Or(l, r),
        _ => panic!("unknown binary op {op}"),
    }
}

pub fn dec_expr(s: &Sexp) -> Option<Expr> {
    let l = s.list()?;
    let h = l.first()?.atom()?;
    Some(match h {
        "lit" => Expr::Value(dec_value(l.get(1)?)?),
        "ref" => Expr::Reference(unhex(l.get(1)?.atom()?)?),
        "sym" => Expr::Symbol(unhex(l.get(1)?.atom()?)?),
        "call" => Expr::Function(unhex(l.get(1)?.atom()?)?, Box::new(dec_expr(l.get(2)?)?)),
        "idxk" => Expr::Index(Box::new(dec_expr(l.get(1)?)?), Index::Map(unhex(l.get(2)?.atom()?)?)),
        "idxn" => Expr::Index(Box::new(dec_expr(l.get(1)?)?), Index::Vec(l.get(2)?.atom()?.parse().ok()?)),
        "if" => Expr::If(
            Box::new(dec_expr(l.get(1)?)?),
            Box::new(dec_expr(l.get(2)?)?),
            Box::new(dec_expr(l.get(3)?)?),
        ),
        "and" | "or" | "eq" | "neq" => mk_bin(h, dec_expr(l.get(1)?)?, dec_expr(l.get(2)?)?),
        "un" => mk_un(l.get(1)?.atom()?, dec_expr(l.get(2)?)?),
        "bin" => mk_bin(l.get(1)?.atom()?, dec_expr(l.get(2)?)?, dec_expr(l.get(3)?)?),
        "vec" => Expr::Vec(l[1..].iter().map(dec_expr).collect::<Option<Vec<_>>>()?),
        "map" => {
            let mut m = BTreeMap::new();
            for kv in &l[1..] {
                let kv = kv.list()?;
                m.insert(unhex(kv.first()?.atom()?)?, dec_expr(kv.get(1)?)?);
            }
            Expr::Map(m)
        }
        _ => return None,
    })
}

pub fn enc_err(e: &reval::Error) -> String {
    use reval::Error::*;
    match e {
        InvalidType => "(err type)".into(),
        InvalidCast(v, _) => format!("(err cast {})", enc_value(v)),
        ValueOutOfBounds(v, _) => format!("(err oob {})", enc_value(v)),
        DivisionByZero => "(err div0)".into(),
        UnknownRef(n) => format!("(err ref {})", hex(n)),
        InvalidSymbol(n) => format!("(err sym {})", hex(n)),
        UnknownUserFunction(n) => format!("(err fn {})", hex(n)),
        UserFunctionError { function, error } => {
            // the harness's functions fail with a `HarnessFailure`: the reported error must still be that object
            let msg = error.to_string();
            let original = !msg.starts_with("fail") || error.downcast_ref::<crate::evalrun::HarnessFailure>().map(|h| h.0 == msg).unwrap_or(false);
            format!("(err userfn {} {}{})", hex(function), hex(&msg), if original { "" } else { " not-the-original-error-object" })
        }
        NumericOverflow(_) => "(err numoverflow)".into(),
        UnexpectedValueType(v, _) => format!("(err unexpected {})", enc_value(v)),
        ValueSerializationError(m) => format!("(err ser {})", hex(m)),
        InvalidFunctionName(n) => format!("(err badfnname {})", hex(n)),
        DuplicateFunctionName(n) => format!("(err dupfn {})", hex(n)),
        DuplicateRuleName(n) => format!("(err duprule {})", hex(n)),
        UnknownIndex(n) => format!("(err unknownindex {})", hex(n)),
        #[allow(unreachable_patterns)]
        other => format!("(err other {})", hex(&other.to_string())),
    }
}

pub fn enc_result(r: &Result<Value, reval::Error>) -> String {
    match r {
        Ok(v) => format!("(ok {})", enc_value(v)),
        Err(e) => enc_err(e),
    }
}

/// the same tree built through the crate's public constructors (`Expr::mult`, `Expr::iif`, …) instead of the enum
/// variants: a constructor that rewrites what it is given shows as a different evaluation result
pub fn via_ctor(e: &Expr) -> Expr {
    let c = |x: &Expr| via_ctor(x);
    match e {
        Expr::Value(Value::None) => Expr::none_value(),
        Expr::Value(v) => Expr::value(v.clone()),
        Expr::Reference(n) => Expr::reff(n),
        Expr::Symbol(n) => Expr::symbol(n),
        Expr::Function(f, a) => Expr::func(f.clone(), c(a)),
        // through the public conversions into `Index` (a &str / String is a field name whatever it looks like, a usize a position)
        Expr::Index(b, Index::Map(k)) => {
            if k.len() % 2 == 0 {
                Expr::index(c(b), Index::from(k.as_str()))
            } else {
                Expr::index(c(b), Index::from(k.clone()))
            }
        }
        Expr::Index(b, Index::Vec(n)) => Expr::index(c(b), Index::from(*n)),
        Expr::If(x, t, f) => Expr::iif(c(x), c(t), c(f)),
        Expr::Map(m) => Expr::Map(m.iter().map(|(k, x)| (k.clone(), c(x))).collect()),
        Expr::Vec(v) => Expr::Vec(v.iter().map(c).collect()),
        Expr::Not(x) => Expr::not(c(x)),
        Expr::Neg(x) => Expr::neg(c(x)),
        Expr::Some(x) => Expr::some(c(x)),
        Expr::None(x) => Expr::none(c(x)),
        Expr::Int(x) => Expr::int(c(x)),
        Expr::Float(x) => Expr::float(c(x)),
        Expr::Dec(x) => Expr::dec(c(x)),
        Expr::DateTime(x) => Expr::datetime(c(x)),
        Expr::Duration(x) => Expr::duration(c(x)),
        Expr::Mult(l, r) => Expr::mult(c(l), c(r)),
        Expr::Div(l, r) => Expr::div(c(l), c(r)),
        Expr::Rem(l, r) => Expr::rem(c(l), c(r)),
        Expr::Add(l, r) => Expr::add(c(l), c(r)),
        Expr::Sub(l, r) => Expr::sub(c(l), c(r)),
        Expr::Equals(l, r) => Expr::eq(c(l), c(r)),
        Expr::NotEquals(l, r) => Expr::neq(c(l), c(r)),
        Expr::GreaterThan(l, r) => Expr::gt(c(l), c(r)),
        Expr::GreaterThanEquals(l, r) => Expr::gte(c(l), c(r)),
        Expr::LessThan(l, r) => Expr::lt(c(l), c(r)),
        Expr::LessThanEquals(l, r) => Expr::lte(c(l), c(r)),
        Expr::And(l, r) => Expr::and(c(l), c(r)),
        Expr::Or(l, r) => Expr::or(c(l), c(r)),
        Expr::BitAnd(l, r) => Expr::bitwise_and(c(l), c(r)),
        Expr::BitOr(l, r) => Expr::bitwise_or(c(l), c(r)),
        Expr::BitXor(l, r) => Expr::bitwise_xor(c(l), c(r)),
        Expr::Contains(l, r) => Expr::contains(c(l), c(r)),
        Expr::UpperCase(x) => Expr::uppercase(c(x)),
        Expr::LowerCase(x) => Expr::lowercase(c(x)),
        Expr::Trim(x) => Expr::trim(c(x)),
        Expr::Floor(x) => Expr::floor(c(x)),
        Expr::Round(x) => Expr::round(c(x)),
        Expr::Fract(x) => Expr::fract(c(x)),
        Expr::Year(x) => Expr::year(c(x)),
        Expr::Month(x) => Expr::month(c(x)),
        Expr::Week(x) => Expr::week(c(x)),
        Expr::Day(x) => Expr::day(c(x)),
        Expr::Hour(x) => Expr::hour(c(x)),
        Expr::Minute(x) => Expr::minute(c(x)),
        Expr::Second(x) => Expr::second(c(x)),
        #[allow(unreachable_patterns)]
        other => other.clone(),
    }
}
