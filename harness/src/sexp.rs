//! Minimal s-expression reader (the wire format of the line protocol).
#[derive(Clone, Debug, PartialEq)]
pub enum Sexp {
    Atom(String),
    List(Vec<Sexp>),
}

pub fn tokenize(s: &str) -> Vec<String> {
    let mut out = Vec::new();
    let mut cur = String::new();
    for c in s.chars() {
        if c == '(' || c == ')' {
            if !cur.is_empty() {
                out.push(std::mem::take(&mut cur));
            }
            out.push(c.to_string());
        } else if c == ' ' || c == '\n' || c == '\r' {
            if !cur.is_empty() {
                out.push(std::mem::take(&mut cur));
            }
        } else {
            cur.push(c);
        }
    }
    if !cur.is_empty() {
        out.push(cur);
    }
    out
}

fn parse_at(toks: &[String], i: usize) -> Option<(Sexp, usize)> {
    let t = toks.get(i)?;
    if t == "(" {
        let mut j = i + 1;
        let mut items = Vec::new();
        loop {
            let u = toks.get(j)?;
            if u == ")" {
                return Some((Sexp::List(items), j + 1));
            }
            let (x, j2) = parse_at(toks, j)?;
            items.push(x);
            j = j2;
        }
    } else if t == ")" {
        None
    } else {
        Some((Sexp::Atom(t.clone()), i + 1))
    }
}

pub fn parse(s: &str) -> Option<Sexp> {
    let toks = tokenize(s);
    parse_at(&toks, 0).map(|x| x.0)
}

impl Sexp {
    pub fn atom(&self) -> Option<&str> {
        match self {
            Sexp::Atom(s) => Some(s),
            _ => None,
        }
    }
    pub fn list(&self) -> Option<&[Sexp]> {
        match self {
            Sexp::List(v) => Some(v),
            _ => None,
        }
    }
    pub fn head(&self) -> Option<&str> {
        self.list()?.first()?.atom()
    }
}
