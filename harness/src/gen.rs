//! Generators: type-directed random expressions over all 47 constructors (mostly well-typed, a share
//! ill-typed on purpose), designed facts, and helpers to build expressions.
use crate::codec::*;
use crate::pool::*;
use crate::rng::Rng;
use reval::expr::{Expr, Index};
use reval::value::Value;
use std::collections::BTreeMap;

pub fn lit(v: Value) -> Expr {
    Expr::Value(v)
}
pub fn call(f: &str, a: Expr) -> Expr {
    Expr::Function(f.into(), Box::new(a))
}
pub fn reff(n: &str) -> Expr {
    Expr::Reference(n.into())
}
pub fn idxk(e: Expr, k: &str) -> Expr {
    Expr::Index(Box::new(e), Index::Map(k.into()))
}
pub fn idxn(e: Expr, n: usize) -> Expr {
    Expr::Index(Box::new(e), Index::Vec(n))
}
pub fn iff(c: Expr, t: Expr, e: Expr) -> Expr {
    Expr::If(Box::new(c), Box::new(t), Box::new(e))
}
pub fn emap(kvs: Vec<(&str, Expr)>) -> Expr {
    Expr::Map(kvs.into_iter().map(|(k, v)| (k.to_string(), v)).collect::<BTreeMap<_, _>>())
}

#[derive(Clone, Copy, PartialEq, Debug)]
pub enum T {
    Str,
    Int,
    Float,
    Dec,
    Bool,
    Dt,
    Dur,
    Vec,
    Map,
    Any,
}

pub struct ExprGen<'a> {
    pub rng: &'a mut Rng,
    pub pool: Vec<Value>,
    /// names of facts fields by type
    pub fields: Vec<(String, T)>,
    pub fns: Vec<String>,
    pub syms: Vec<String>,
}

fn ty_of(v: &Value) -> T {
    match v {
        Value::String(_) => T::Str,
        Value::Int(_) => T::Int,
        Value::Float(_) => T::Float,
        Value::Decimal(_) => T::Dec,
        Value::Bool(_) => T::Bool,
        Value::DateTime(_) => T::Dt,
        Value::Duration(_) => T::Dur,
        Value::Vec(_) => T::Vec,
        Value::Map(_) => T::Map,
        Value::None => T::Any,
    }
}

impl<'a> ExprGen<'a> {
    fn leaf(&mut self, want: T) -> Expr {
        // a field reference with probability 1/4 when one of the right type exists
        if self.rng.chance(1, 4) {
            let c: Vec<&(String, T)> = self.fields.iter().filter(|(_, t)| want == T::Any || *t == want).collect();
            if !c.is_empty() {
                let n = c[self.rng.below(c.len())].0.clone();
                return reff(&n);
            }
        }
        if self.rng.chance(1, 30) && !self.syms.is_empty() {
            let s = self.rng.pick(&self.syms).clone();
            return Expr::Symbol(s);
        }
        let c: Vec<&Value> = self.pool.iter().filter(|v| want == T::Any || ty_of(v) == want).collect();
        if c.is_empty() {
            return lit(Value::None);
        }
        lit(c[self.rng.below(c.len())].clone())
    }

    pub fn gen(&mut self, depth: usize, want: T) -> Expr {
        // ill-typed on purpose with probability 1/8
        let want = if self.rng.chance(1, 8) { T::Any } else { want };
        if depth == 0 || self.rng.chance(1, 6) {
            return self.leaf(want);
        }
        let d = depth - 1;
        let want = if want == T::Any {
            *self.rng.pick(&[T::Str, T::Int, T::Float, T::Dec, T::Bool, T::Dt, T::Dur, T::Vec, T::Map, T::Int, T::Bool])
        } else {
            want
        };
        // generic producers of any type
        match self.rng.below(12) {
            0 => {
                let c = self.gen(d, T::Bool);
                let a = self.gen(d, want);
                let b = self.gen(d, want);
                return iff(c, a, b);
            }
            1 => {
                // index into a list / map literal containing the wanted type
                if self.rng.chance(1, 2) {
                    let items = vec![self.gen(d, want), self.gen(d, want)];
                    let n = self.rng.below(3);
                    return idxn(Expr::Vec(items), n);
                } else {
                    let a = self.gen(d, want);
                    let k = *self.rng.pick(&["a", "b"]);
                    return idxk(emap(vec![("a", a)]), k);
                }
            }
            2 if !self.fns.is_empty() => {
                let f = self.rng.pick(&self.fns).clone();
                let a = self.gen(d, want);
                return call(&f, a);
            }
            _ => {}
        }
        let num = *self.rng.pick(&[T::Int, T::Float, T::Dec]);
        match want {
            T::Int => match self.rng.below(10) {
                0..=3 => {
                    let op = *self.rng.pick(&["add", "sub", "mult", "div", "rem", "bitand", "bitor", "bitxor"]);
                    mk_bin(op, self.gen(d, T::Int), self.gen(d, T::Int))
                }
                4 => mk_un("neg", self.gen(d, T::Int)),
                5 => {
                    let src = *self.rng.pick(&[T::Int, T::Float, T::Dec, T::Str]);
                    mk_un("toint", self.gen(d, src))
                }
                6 => mk_un(*self.rng.pick(&["year", "month", "day", "hour", "minute", "second"]), self.gen(d, T::Dt)),
                _ => mk_un(*self.rng.pick(&["week", "day", "hour", "minute", "second"]), self.gen(d, T::Dur)),
            },
            T::Float => match self.rng.below(8) {
                0..=3 => mk_bin(*self.rng.pick(&["add", "sub", "mult", "div", "rem"]), self.gen(d, T::Float), self.gen(d, T::Float)),
                4 => mk_un("neg", self.gen(d, T::Float)),
                5 => mk_un(*self.rng.pick(&["round", "floor", "fract"]), self.gen(d, T::Float)),
                _ => {
                    let src = *self.rng.pick(&[T::Int, T::Float, T::Dec, T::Str]);
                    mk_un("tofloat", self.gen(d, src))
                }
            },
            T::Dec => match self.rng.below(8) {
                0..=3 => mk_bin(*self.rng.pick(&["add", "sub", "mult", "div", "rem"]), self.gen(d, T::Dec), self.gen(d, T::Dec)),
                4 => mk_un("neg", self.gen(d, T::Dec)),
                5 => mk_un(*self.rng.pick(&["round", "floor", "fract"]), self.gen(d, T::Dec)),
                _ => {
                    let src = *self.rng.pick(&[T::Int, T::Float, T::Dec, T::Str]);
                    mk_un("todec", self.gen(d, src))
                }
            },
            T::Bool => match self.rng.below(10) {
                0..=2 => {
                    let t = *self.rng.pick(&[T::Int, T::Float, T::Dec, T::Dt, T::Dur]);
                    mk_bin(*self.rng.pick(&["gt", "gte", "lt", "lte"]), self.gen(d, t), self.gen(d, t))
                }
                3 | 4 => {
                    let t = *self.rng.pick(&[T::Int, T::Str, T::Bool, T::Any, num]);
                    mk_bin(*self.rng.pick(&["eq", "neq"]), self.gen(d, t), self.gen(d, t))
                }
                5 | 6 => mk_bin(*self.rng.pick(&["and", "or", "bitand", "bitor", "bitxor"]), self.gen(d, T::Bool), self.gen(d, T::Bool)),
                7 => mk_un("not", self.gen(d, T::Bool)),
                8 => mk_un(*self.rng.pick(&["some", "isnone"]), self.gen(d, T::Any)),
                _ => match self.rng.below(4) {
                    0 => mk_bin("contains", self.gen(d, T::Vec), self.gen(d, T::Any)),
                    1 => mk_bin("contains", self.gen(d, T::Map), self.gen(d, T::Str)),
                    2 => mk_bin("contains", self.gen(d, T::Str), self.gen(d, T::Str)),
                    _ => mk_bin("contains", self.gen(d, T::Int), self.gen(d, T::Int)),
                },
            },
            T::Str => mk_un(*self.rng.pick(&["upper", "lower", "trim"]), self.gen(d, T::Str)),
            T::Dt => match self.rng.below(4) {
                0 => {
                    let src = *self.rng.pick(&[T::Int, T::Str, T::Dt]);
                    mk_un("datetime", self.gen(d, src))
                }
                1 => mk_bin("add", self.gen(d, T::Dt), self.gen(d, T::Dur)),
                2 => mk_bin("sub", self.gen(d, T::Dt), self.gen(d, T::Dur)),
                _ => self.leaf(T::Dt),
            },
            T::Dur => match self.rng.below(5) {
                0 => mk_un("duration", self.gen(d, T::Int)),
                1 => mk_un(*self.rng.pick(&["week", "day", "hour", "minute", "second"]), self.gen(d, T::Int)),
                2 => mk_bin("sub", self.gen(d, T::Dt), self.gen(d, T::Dt)),
                3 => mk_bin("sub", self.gen(d, T::Dur), self.gen(d, T::Dur)),
                _ => self.leaf(T::Dur),
            },
            T::Vec => {
                let n = self.rng.below(4);
                let t = *self.rng.pick(&[T::Int, T::Str, T::Any]);
                Expr::Vec((0..n).map(|_| self.gen(d, t)).collect())
            }
            T::Map => {
                let n = self.rng.below(3);
                let keys = ["a", "b", "c"];
                let mut m = BTreeMap::new();
                for k in keys.iter().take(n) {
                    m.insert(k.to_string(), self.gen(d, T::Any));
                }
                Expr::Map(m)
            }
            T::Any => self.leaf(T::Any),
        }
    }
}

pub fn expr_depth(e: &Expr) -> usize {
    use Expr::*;
    match e {
        Value(_) | Reference(_) | Symbol(_) => 0,
        Function(_, a) | Index(a, _) | Not(a) | Neg(a) | Some(a) | None(a) | Int(a) | Float(a) | Dec(a) | DateTime(a)
        | Duration(a) | UpperCase(a) | LowerCase(a) | Trim(a) | Floor(a) | Round(a) | Fract(a) | Year(a) | Month(a)
        | Week(a) | Day(a) | Hour(a) | Minute(a) | Second(a) => 1 + expr_depth(a),
        If(a, b, c) => 1 + expr_depth(a).max(expr_depth(b)).max(expr_depth(c)),
        Map(m) => 1 + m.values().map(expr_depth).max().unwrap_or(0),
        Vec(v) => 1 + v.iter().map(expr_depth).max().unwrap_or(0),
        Mult(a, b) | Div(a, b) | Rem(a, b) | Add(a, b) | Sub(a, b) | Equals(a, b) | NotEquals(a, b) | GreaterThan(a, b)
        | GreaterThanEquals(a, b) | LessThan(a, b) | LessThanEquals(a, b) | And(a, b) | Or(a, b) | BitAnd(a, b)
        | BitOr(a, b) | BitXor(a, b) | Contains(a, b) => 1 + expr_depth(a).max(expr_depth(b)),
        #[allow(unreachable_patterns)]
        _ => 0,
    }
}

/// a facts map with one field per type (values from the pool) for the random stream
pub fn random_facts(rng: &mut Rng, pool: &[Value]) -> (Value, Vec<(String, T)>) {
    let mut m = BTreeMap::new();
    let mut fields = vec![];
    for (name, t) in [("s", T::Str), ("i", T::Int), ("f", T::Float), ("d", T::Dec), ("b", T::Bool), ("t", T::Dt), ("u", T::Dur), ("l", T::Vec), ("m", T::Map)] {
        let c: Vec<&Value> = pool.iter().filter(|v| ty_of(v) == t).collect();
        if c.is_empty() {
            continue;
        }
        m.insert(name.to_string(), c[rng.below(c.len())].clone());
        fields.push((name.to_string(), t));
    }
    m.insert("nothing".to_string(), Value::None);
    fields.push(("nothing".into(), T::Any));
    fields.push(("missing".into(), T::Any));
    (Value::Map(m), fields)
}

pub fn coercion_like_pool() -> Vec<Value> {
    coercion_pool()
}
