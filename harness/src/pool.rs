//! Designed value pools: per type, the extremes the properties name, plus mutation-killing values.
use chrono::{DateTime, TimeDelta};
use reval::value::Value;
use rust_decimal::Decimal;
use std::collections::BTreeMap;

pub fn d(m: i128, s: u32) -> Value {
    Value::Decimal(Decimal::from_i128_with_scale(m, s))
}
pub fn s(x: &str) -> Value {
    Value::String(x.into())
}
pub fn dt(secs: i64, nanos: u32) -> Value {
    Value::DateTime(DateTime::from_timestamp(secs, nanos).unwrap())
}
pub fn dur(secs: i64, nanos: u32) -> Value {
    Value::Duration(TimeDelta::new(secs, nanos).unwrap())
}
pub fn map(kvs: &[(&str, Value)]) -> Value {
    Value::Map(kvs.iter().map(|(k, v)| (k.to_string(), v.clone())).collect::<BTreeMap<_, _>>())
}

/// `full = false`: the quick-tier core (every type's extremes); `full = true`: the whole pool.
pub fn boundary_pool(full: bool) -> Vec<Value> {
    let mut p: Vec<Value> = vec![];
    let core_i: &[i128] = &[
        0, 1, -1, 2, 3, 5, 6, 7, -7, 60, 86400, 604801, (1 << 63) - 1, 1 << 63, 1 << 64, (1 << 96) - 1, 1 << 96,
        9223372036854775, 9223372036854776, -9223372036854776, 8210266876799, 8210266876800, -8334601228800,
        -8334601228801, 15250284452, 15250284453, i128::MAX, i128::MIN,
    ];
    let more_i: &[i128] = &[
        10, 3600, 604800, -604801, 1438226773, (1 << 53) + 1, -(1 << 96), -9223372036854775, 106751991167,
        106751991168, i128::MAX - 1, i128::MIN + 1, 153722867280912, 153722867280913, 2562047788015, 2562047788016,
        -(1 << 63), -(1 << 63) - 1, 12, -12, 255, 6148914691236517205,
    ];
    for i in core_i {
        p.push(Value::Int(*i));
    }
    if full {
        for i in more_i {
            p.push(Value::Int(*i));
        }
    }
    let core_f: &[f64] = &[
        0.0, -0.0, 0.5, -0.5, 1.0, 1.5, -1.5, 2.5, -2.5, 7.0, 2.0, 1e40, f64::INFINITY, f64::NEG_INFINITY, f64::NAN,
        5e-324, f64::MAX, 1.7014118346046923e38, 1.7014118346046925e38, -1.7014118346046925e38, 9007199254740993.0,
    ];
    let more_f: &[f64] = &[
        0.1, -1e40, 1e-7, -1.7014118346046923e38, f64::MIN_POSITIVE, 7.9e28, 8e28, 0.3, 3.5, -3.5, 0.49999999999999994,
        4503599627370496.5, 4503599627370497.0, -7.0, 1e15, 123456.789, 7.922816251426434e28,
    ];
    for f in core_f {
        p.push(Value::Float(*f));
    }
    if full {
        for f in more_f {
            p.push(Value::Float(*f));
        }
    }
    p.extend([
        d(0, 0), d(0, 1), d(5, 1), d(-5, 1), d(15, 1), d(-15, 1), d(25, 1), d(-25, 1), d(100, 2), d(10, 1), d(1, 0),
        d(2, 0), d(75, 1), d(1, 28), d(3, 0), Value::Decimal(Decimal::MAX), Value::Decimal(Decimal::MIN),
        d(79228162514264337593543950335, 28), d(79228162514264337593543950335, 1),
    ]);
    {
        let mut nz = Decimal::from_i128_with_scale(0, 1);
        nz.set_sign_negative(true);
        p.push(Value::Decimal(nz));
    }
    if full {
        p.extend([
            d(-75, 1), d(1, 1), d(79228162514264337593543950334, 0), d(1000000000000000000000000000, 27), d(35, 1),
            d(-35, 1), d(7, 0), d(-7, 0), d(123456789, 4), d(5, 28), d(15, 28), d(99, 2), d(-99, 2),
        ]);
    }
    let core_s = [
        "", " ", "a", "A", " a ", "abc", "b", "ab", "1", "+5", "-0", "i1", "1.5", "1e5", "inf", "NaN",
        "2015-07-30T03:26:13Z", "ß", "\t x\n", "79228162514264337593543950336",
        "170141183460469231731687303715884105728", "-170141183460469231731687303715884105728",
        "170141183460469231731687303715884105727", "-170141183460469231731687303715884105729", "-9223372036854775808",
        "9223372036854775808", "18446744073709551615", "-0x10", "0xff", "0b1", "1e3", "-1e3", "true", "false", "True", " true", "none", "[]",
    ];
    let more_s = [
        " 5", "5 ", "1_000", "0x5", "５", ".5", "5.", "Inf", "nan", "-", "+", "--5", "2015-07-30 03:26:13Z",
        "2015-07-30T03:26:13+02:00", "2015-07-30T03:26:13Z ", "2015-07-30T03:26:13.5Z", "é", "İ", "ǆ", "ﬁ", "µ",
        "\u{a0}x\u{2003}", "x\u{200b}", "ABC", "aBc", "bc", "-170141183460469231731687303715884105728", "1e400",
        "-1e-400", "0.1", "1.10", "-0.0", "79228162514264337593543950335", "0.00000000000000000000000000001",
        "infinity", "+inf", "1e", "e5", "١",
    ];
    for x in core_s {
        p.push(s(x));
    }
    if full {
        for x in more_s {
            p.push(s(x));
        }
    }
    p.push(Value::Bool(true));
    p.push(Value::Bool(false));
    let core_dt: &[(i64, u32)] = &[
        (0, 0), (1438226773, 0), (1438226773, 999_999_999), (-1, 0), (-1, 500_000_000), (951782400, 0),
        (8210266876799, 0), (8210266876799, 999_999_999), (-8334601228800, 0),
    ];
    let more_dt: &[(i64, u32)] = &[
        (-2203891200, 0), (-62198755200, 0), (-62135596801, 0), (68169600, 0), (951868799, 0), (-2206310400, 0),
        (951955200, 0), (-62167219200, 0), (-62167219201, 0), (1704067199, 0), (1704067200, 0), (86399, 0), (86400, 0),
        (-86400, 0), (-86401, 0), (4102444800, 0), (8210266876798, 0), (-8334601228799, 1),
    ];
    for (a, b) in core_dt {
        p.push(dt(*a, *b));
    }
    if full {
        for (a, b) in more_dt {
            p.push(dt(*a, *b));
        }
    }
    let core_du: &[(i64, u32)] = &[
        (0, 0), (1, 0), (-1, 0), (61, 0), (-61, 0), (3600, 0), (86400, 0), (604800, 0), (604801, 0), (-604801, 0),
        (-5, 500_000_000), (5, 500_000_000), (9223372036854775, 0), (-9223372036854775, 0),
    ];
    let more_du: &[(i64, u32)] = &[
        (59, 0), (60, 0), (-59, 0), (-60, 0), (3599, 0), (3601, 0), (-3599, 0), (-3601, 0), (86399, 0), (86401, 0),
        (-86399, 0), (-86401, 0), (604799, 0), (-604799, 0), (-1, 999_999_999), (0, 1), (0, 999_999_999),
        (16544868105600, 0), (1, 500_000_000),
    ];
    for (a, b) in core_du {
        p.push(dur(*a, *b));
    }
    if full {
        for (a, b) in more_du {
            p.push(dur(*a, *b));
        }
    }
    p.push(Value::Duration(TimeDelta::MAX));
    p.push(Value::Duration(TimeDelta::MIN));
    p.push(Value::Vec(vec![]));
    p.push(Value::Vec(vec![Value::None]));
    p.push(Value::Vec(vec![Value::Int(1)]));
    p.push(Value::Vec(vec![Value::Int(1), s("1")]));
    p.push(Value::Vec(vec![Value::Float(f64::NAN)]));
    p.push(Value::Vec(vec![d(10, 1)]));
    p.push(map(&[]));
    p.push(map(&[("a", Value::Int(1))]));
    p.push(map(&[("a", Value::None), ("b", Value::Int(2))]));
    // keys that differ only by surrounding white space, case or a look-alike: nothing may trim, fold or re-parse a key
    p.push(map(&[("a", Value::Int(1)), (" a", Value::Int(2)), ("a ", Value::Int(3)), ("\ta\n", Value::Int(4)), ("A", Value::Int(5)), ("1", Value::Int(6)), ("01", Value::Int(7)), (" 1", Value::Int(8)), ("2024", Value::Int(9))]));
    // large values: anything that abridges, truncates or pages an operand or an error payload shows only on these
    p.push(Value::String("x".repeat(300)));
    p.push(Value::String(format!("a{}", "é日😀".repeat(60))));
    // multi-byte characters straddling the byte offsets 64 / 128 / 256 (a cut at a fixed byte length lands inside one)
    p.push(Value::String(format!("a{}", "é".repeat(200))));
    p.push(Value::String("日".repeat(120)));
    p.push(Value::String(format!("ab{}", "😀".repeat(80))));
    p.push(Value::Vec((0..40).map(Value::Int).collect()));
    p.push(Value::Map((0..40).map(|i| (format!("k{:02}", i), Value::Int(i))).collect()));
    if full {
        p.push(Value::Vec(vec![Value::Vec(vec![Value::Int(1)]), map(&[("a", Value::Int(1))])]));
        p.push(Value::Vec(vec![Value::Float(0.0)]));
        p.push(Value::Vec(vec![s("a"), s("A")]));
        p.push(map(&[("A", Value::Int(1)), ("", Value::Int(0)), ("facts", Value::Int(3))]));
        p.push(map(&[("a", map(&[("a", Value::Vec(vec![Value::Int(7), Value::None]))]))]));
    }
    p.push(Value::None);
    p
}

/// Dense same-type boundary values (C01 / C02 `cells-dense`): every power-of-two boundary a narrower intermediate
/// type would have (2^k − 1, 2^k, 2^k + 1, both signs), the operands whose product / quotient sits at the i128 edge,
/// the mantissa / scale edges of Decimal, and the instants / spans at which the *other* accessors of chrono
/// (nanosecond, microsecond, millisecond and 32-bit counts) overflow — a fast path through a narrower type or another
/// library call is wrong exactly there.
pub fn dense_pool(full: bool) -> Vec<Value> {
    let mut p: Vec<Value> = vec![];
    let ks: &[u32] = if full { &[7, 8, 15, 16, 24, 31, 32, 48, 52, 53, 62, 63, 64, 65, 95, 96, 97, 126, 127] } else { &[31, 32, 53, 63, 64, 96, 127] };
    let mut ints: Vec<i128> = vec![0, 1, -1, 2, -2, 3, 10, -10];
    for k in ks {
        for delta in [-1i128, 0, 1] {
            let base: i128 = if *k == 127 { i128::MAX } else { 1i128 << k };
            let v = base.checked_add(delta).unwrap_or(i128::MAX);
            ints.push(v);
            ints.push(v.checked_neg().unwrap_or(i128::MIN));
        }
    }
    ints.push(i128::MIN);
    // floor(sqrt(2^127)) and neighbours: squares and products that cross the i128 edge although both operands fit 64 bits
    for v in [13043817825332782212i128, 13043817825332782213, 18446744073709551615, 9223372036854775807, 6521908912666391106, 26087635650665564424] {
        ints.push(v);
        ints.push(-v);
    }
    // unit counts at which i64 seconds / milliseconds overflow for week … second constructors
    for v in [9223372036854775i128, 9223372036854776, 153722867280912, 153722867280913, 2562047788015, 2562047788016, 106751991167, 106751991168, 15250284452, 15250284453] {
        ints.push(v);
        ints.push(-v);
    }
    ints.sort();
    ints.dedup();
    for i in ints {
        p.push(Value::Int(i));
    }
    // decimals: mantissa edges × scale edges, both signs
    let mants: &[i128] = if full {
        &[1, 2, 5, 10, (1 << 31) - 1, 1 << 31, (1 << 32) - 1, 1 << 32, (1 << 53), (1 << 63) - 1, 1 << 63, (1 << 63) + 1, (1 << 64) - 1, 1 << 64, (1 << 64) + 1, (1 << 95), (1 << 96) - 2, (1 << 96) - 1, 39614081257132168796771975168, 7922816251426433759354395033]
    } else {
        &[1, 2, 5, (1 << 63) - 1, 1 << 63, (1 << 64) - 1, 1 << 64, (1 << 96) - 1, 7922816251426433759354395033]
    };
    let scales: &[u32] = if full { &[0, 1, 2, 14, 27, 28] } else { &[0, 2, 28] };
    for m in mants {
        for sc in scales {
            p.push(d(*m, *sc));
            p.push(d(-*m, *sc));
        }
    }
    p.push(d(0, 0));
    p.push(d(0, 28));
    // floats at the integer-conversion and precision edges
    for f in [9007199254740991.0f64, 9007199254740992.0, 9007199254740994.0, 9223372036854775807.0, 9223372036854777856.0, 18446744073709551616.0, 1.7014118346046923e38, 1.7014118346046921e38, 4294967296.0, 2147483648.0, 0.1, 1e-320, f64::MIN_POSITIVE, f64::MAX, f64::EPSILON] {
        p.push(Value::Float(f));
        p.push(Value::Float(-f));
    }
    // instants: edges of i64 nanoseconds / microseconds since the epoch, of 32-bit second counts, years 0 / 1 / 9999 / 10000
    let mut secs: Vec<i64> = vec![
        9223372036, 9223372037, -9223372036, -9223372037, 8210266876798, -8334601228799, 4294967295, 4294967296,
        2147483647, 2147483648, -2147483648, -2147483649, 253402300799, 253402300800, -62135596800,
        -62135596801, -62167219200, -62167219201, 8210266876799, -8334601228800, 0, -1,
    ];
    if !full {
        secs.truncate(12);
        secs.extend([253402300799, 253402300800, 8210266876799, -8334601228800, 0]);
    }
    for sec in &secs {
        p.push(dt(*sec, 0));
        if full {
            p.push(dt(*sec, 854_775_807));
            p.push(dt(*sec, 999_999_999));
        }
    }
    p.push(dt(9223372036, 854_775_807));
    p.push(dt(9223372036, 854_775_808));
    p.push(dt(-9223372037, 145_224_192));
    p.push(dt(-9223372037, 145_224_191));
    // spans: edges of i64 nanoseconds / microseconds / milliseconds, 32-bit second / day counts
    let mut dsecs: Vec<i64> = vec![
        9223372036, 9223372037, -9223372036, -9223372037, 9223372036854, 9223372036855, -9223372036854, -9223372036855,
        9223372036854775, -9223372036854775, 2147483647, 2147483648, -2147483648, -2147483649, 185542587187200, 185542587100800,
        -185542587187200, 0, 1, -1, 16544868105599, 16544868105600,
    ];
    if !full {
        dsecs.truncate(10);
        dsecs.extend([2147483648, -2147483649, 0, 1]);
    }
    for sec in &dsecs {
        p.push(dur(*sec, 0));
        if full && *sec != 9223372036854775 && *sec != -9223372036854775 {
            p.push(dur(*sec, 854_775_807));
        }
    }
    p.push(dur(9223372036, 854_775_807));
    p.push(dur(9223372036, 854_775_808));
    p.push(dur(-9223372037, 145_224_192));
    p.push(Value::Duration(TimeDelta::MAX));
    p.push(Value::Duration(TimeDelta::MIN));
    p
}

/// ≥3 values per type chosen to coincide after coercion (C03/C04 tables)
pub fn coercion_pool() -> Vec<Value> {
    vec![
        s("1"), s(""), s("true"),
        Value::Int(1), Value::Int(0), Value::Int(2),
        Value::Float(1.0), Value::Float(0.0), Value::Float(2.0),
        d(1, 0), d(0, 0), d(10, 1),
        Value::Bool(true), Value::Bool(false), Value::Bool(true),
        dt(1, 0), dt(0, 0), dt(2, 0),
        dur(1, 0), dur(0, 0), dur(2, 0),
        Value::Vec(vec![Value::Int(1)]), Value::Vec(vec![]), Value::Vec(vec![Value::None]),
        map(&[("a", Value::Int(1))]), map(&[]), map(&[("1", Value::Int(1))]),
        Value::None,
    ]
}

pub fn ty_name(v: &Value) -> &'static str {
    match v {
        Value::String(_) => "str",
        Value::Int(_) => "int",
        Value::Float(_) => "float",
        Value::Decimal(_) => "dec",
        Value::Bool(_) => "bool",
        Value::DateTime(_) => "datetime",
        Value::Duration(_) => "duration",
        Value::Vec(_) => "vec",
        Value::Map(_) => "map",
        Value::None => "none",
    }
}

/// strings for the string built-ins (`uppercase`, `lowercase`, `trim`, `contains`): context-sensitive and multi-character
/// case mappings, every White_Space character at either end and inside, look-alikes that are not white space
pub fn string_probe_pool() -> Vec<Value> {
    let mut v: Vec<String> = vec![];
    for w in [
        "", "a", "A", "abc XYZ", "ß", "ẞ", "ﬁ", "ﬃ", "ŉ", "ǰ", "ΐ", "İ", "ı", "I", "i̇", "ǅ", "ǆ", "Ǆ", "µ", "ſ", "K", "Å",
        // final sigma: word-final, before punctuation, alone, non-final, after a combining mark
        "Σ", "ΑΣ", "ΟΔΥΣΣΕΥΣ", "ΑΣ ΑΣ", "ΑΣ.", "ΑΣΑ", "Σ Σ", "aΣ", "ΑΣ\u{301}", "ΑΣ\u{301}Α", "ς", "σ",
        "Ა", "ა", "Ꭰ", "ꭰ", "𐐀", "𐐨", "Ⅷ", "ⅷ", "Ⓐ", "ⓐ", "Ǵ", "ǵ", "ᾈ", "ᾀ", "ῼ", "ῳ", "ΰ", "և",
        "日本語", "😀", "a\u{301}", "\u{1F1E9}\u{1F1EA}",
    ] {
        v.push(w.to_string());
    }
    let whites: Vec<char> = vec!['\t', '\n', '\u{b}', '\u{c}', '\r', ' ', '\u{85}', '\u{a0}', '\u{1680}', '\u{2000}', '\u{2001}', '\u{2002}', '\u{2003}', '\u{2004}', '\u{2005}', '\u{2006}', '\u{2007}', '\u{2008}', '\u{2009}', '\u{200a}', '\u{2028}', '\u{2029}', '\u{202f}', '\u{205f}', '\u{3000}'];
    let lookalikes: Vec<char> = vec!['\u{200b}', '\u{feff}', '\u{180e}', '\u{2060}', '\u{1c}', '\u{1f}', '\u{0}', '\u{7f}'];
    for c in whites.iter().chain(lookalikes.iter()) {
        v.push(format!("{}x", c));
        v.push(format!("x{}", c));
        v.push(format!("{}x{}y{}", c, c, c));
        v.push(format!("{}", c));
    }
    v.push(" \t\r\n a b \u{3000}\u{85}".to_string());
    v.into_iter().map(Value::String).collect()
}

/// Calendar instants (C01 / C02 `cells-calendar`): around every month boundary and the leap day of the years next to
/// a century year and the present, the leap day and the turn of every year of 1583..=2417, the years around 0, and — over chrono's
/// whole range, every 13th 400-year era — the years whose position in the era decides leap-ness (0, 1, 3, 4, 99, 100, 101,
/// 399 mod 400).  A table-driven or approximating calendar computation is wrong exactly at some of these.
pub fn calendar_pool(full: bool) -> Vec<Value> {
    use chrono::NaiveDate;
    let mut secs: Vec<i64> = vec![];
    let mut push_day = |y: i32, m: u32, d: u32, rich: bool| {
        if let Some(date) = NaiveDate::from_ymd_opt(y, m, d) {
            let t0 = date.and_hms_opt(0, 0, 0).unwrap().and_utc().timestamp();
            secs.push(t0);
            secs.push(t0 + 86399);
            if rich {
                secs.push(t0 + 3599);
                secs.push(t0 + 3600);
                secs.push(t0 + 43200 + 59 * 60 + 59);
            }
        }
    };
    // every month boundary of the years around the century years and of the present; thorough: of every year 1..4000
    let mut all_months: Vec<i32> = vec![1599, 1600, 1601, 1899, 1900, 1901, 1999, 2000, 2001, 2023, 2024, 2025, 2099, 2100, 2101, -1, 0, 1];
    if full {
        all_months.extend(1..=4000);
    }
    for y in all_months {
        for m in 1..=12u32 {
            push_day(y, m, 1, false);
            for d in [28u32, 29, 30, 31] {
                push_day(y, m, d, false);
            }
        }
    }
    // the leap day and the turn of the year of every year of 1583..=2417
    for y in (1583..=2417).chain(-5..=5) {
        for (m, d) in [(1u32, 1u32), (2, 28), (2, 29), (3, 1), (12, 31)] {
            push_day(y, m, d, m == 2);
        }
    }
    let step = if full { 1 } else { 13 };
    let mut era = -656i32;
    while era <= 655 {
        for off in [0i32, 1, 3, 4, 99, 100, 101, 399] {
            let y = era * 400 + off;
            for (m, d) in [(1u32, 1u32), (2, 28), (2, 29), (3, 1), (12, 31)] {
                push_day(y, m, d, false);
            }
        }
        era += step;
    }
    secs.sort();
    secs.dedup();
    secs.into_iter().filter_map(|s| DateTime::from_timestamp(s, if s % 2 == 0 { 0 } else { 999_999_999 })).map(Value::DateTime).collect()
}
