//! Running the real evaluator (in-process, under catch_unwind) and the model (through the driver,
//! with the frontier/oracle rounds), on expressions and rulesets with instrumented user functions.
use crate::codec::*;
use crate::driver::par_batch;
use crate::oracle;
use crate::sexp;
use async_trait::async_trait;
use reval::prelude::*;
use std::collections::BTreeMap;
use std::future::Future;
use std::panic::{catch_unwind, AssertUnwindSafe};
use std::pin::Pin;
use std::sync::{Arc, Mutex};
use std::task::{Context, Poll, RawWaker, RawWakerVTable, Waker};

#[derive(Clone, Debug)]
pub enum FnKind {
    Id,
    Count,
    Wrap,
    Const(Value),
    /// fails on every call
    Fail,
}

#[derive(Clone, Debug)]
pub struct FnSpec {
    pub name: String,
    pub cacheable: bool,
    pub kind: FnKind,
    pub fail_idx: Vec<usize>,
    pub fail_args: Vec<Value>,
    /// how many times each call returns Pending before completing (C12)
    pub pends: usize,
}

impl FnSpec {
    pub fn new(name: &str, cacheable: bool, kind: FnKind) -> FnSpec {
        FnSpec { name: name.into(), cacheable, kind, fail_idx: vec![], fail_args: vec![], pends: 0 }
    }
    pub fn enc(&self) -> String {
        let kind = match &self.kind {
            FnKind::Id => "id".to_string(),
            FnKind::Count => "count".to_string(),
            FnKind::Wrap => "wrap".to_string(),
            FnKind::Const(v) => format!("(const {})", enc_value(v)),
            FnKind::Fail => "fail".to_string(),
        };
        format!(
            "(fn {} {} {} (fail{}) (failarg{}))",
            hex(&self.name),
            self.cacheable as u8,
            kind,
            self.fail_idx.iter().map(|i| format!(" {}", i)).collect::<String>(),
            self.fail_args.iter().map(|v| format!(" {}", enc_value(v))).collect::<String>()
        )
    }
}

#[derive(Clone, Debug, Default)]
pub struct EnvSpec {
    pub syms: Vec<(String, Value)>,
    pub fns: Vec<FnSpec>,
}

impl EnvSpec {
    pub fn enc(&self) -> String {
        // symbols: last registration wins (the model's `lookup` takes the first match, so send the effective table)
        let mut m: BTreeMap<&str, &Value> = BTreeMap::new();
        for (k, v) in &self.syms {
            m.insert(k, v);
        }
        format!(
            "(env (syms{}) (fns{}))",
            m.iter().map(|(k, v)| format!(" ({} {})", hex(k), enc_value(v))).collect::<String>(),
            self.fns.iter().map(|f| format!(" {}", f.enc())).collect::<String>()
        )
    }
}

#[derive(Default)]
pub struct Shared {
    pub log: Mutex<Vec<(String, Value, usize)>>,
    /// when set, every harness function declares the opposite of `spec.cacheable` (a function's own, current answer)
    pub flip: std::sync::atomic::AtomicBool,
}

pub struct YieldOnce(bool);
impl Future for YieldOnce {
    type Output = ();
    fn poll(mut self: Pin<&mut Self>, _cx: &mut Context<'_>) -> Poll<()> {
        if self.0 {
            Poll::Ready(())
        } else {
            self.0 = true;
            Poll::Pending
        }
    }
}

/// the error object the harness's functions fail with: "carrying the original error" means this very object can be
/// taken out of the reported error again
#[derive(Debug)]
pub struct HarnessFailure(pub String);
impl std::fmt::Display for HarnessFailure {
    fn fmt(&self, f: &mut std::fmt::Formatter<'_>) -> std::fmt::Result {
        f.write_str(&self.0)
    }
}
impl std::error::Error for HarnessFailure {}

pub struct HFn {
    pub name: &'static str,
    pub spec: FnSpec,
    pub shared: Arc<Shared>,
}

#[async_trait]
impl UserFunction for HFn {
    async fn call(&self, params: Value) -> FunctionResult {
        for _ in 0..self.spec.pends {
            YieldOnce(false).await;
        }
        let idx = {
            let mut log = self.shared.log.lock().unwrap();
            let i = log.len();
            log.push((self.spec.name.clone(), params.clone(), i));
            i
        };
        let key = enc_value(&params);
        if matches!(self.spec.kind, FnKind::Fail) {
            return Err(anyhow::Error::new(HarnessFailure("fail".to_string())));
        }
        if self.spec.fail_idx.contains(&idx) || self.spec.fail_args.iter().any(|a| enc_value(a) == key) {
            return Err(anyhow::Error::new(HarnessFailure(format!("fail{}", idx))));
        }
        Ok(match &self.spec.kind {
            FnKind::Id => params,
            FnKind::Count => Value::Int(idx as i128),
            FnKind::Wrap => Value::Vec(vec![params, Value::Int(idx as i128)]),
            FnKind::Const(v) => v.clone(),
            FnKind::Fail => unreachable!(),
        })
    }
    fn name(&self) -> &'static str {
        self.name
    }
    fn cacheable(&self) -> bool {
        self.spec.cacheable != self.shared.flip.load(std::sync::atomic::Ordering::SeqCst)
    }
}

pub fn leak(s: &str) -> &'static str {
    use std::collections::HashMap;
    static INTERN: Mutex<Option<HashMap<String, &'static str>>> = Mutex::new(None);
    let mut g = INTERN.lock().unwrap();
    let m = g.get_or_insert_with(HashMap::new);
    if let Some(x) = m.get(s) {
        return x;
    }
    let l: &'static str = Box::leak(s.to_string().into_boxed_str());
    m.insert(s.to_string(), l);
    l
}

fn noop_waker() -> Waker {
    fn clone(_: *const ()) -> RawWaker {
        RawWaker::new(std::ptr::null(), &VTABLE)
    }
    fn noop(_: *const ()) {}
    static VTABLE: RawWakerVTable = RawWakerVTable::new(clone, noop, noop, noop);
    unsafe { Waker::from_raw(RawWaker::new(std::ptr::null(), &VTABLE)) }
}

/// poll to completion with a no-op waker (user functions of the harness are always re-pollable)
pub fn block_on<F: Future>(f: F) -> F::Output {
    let waker = noop_waker();
    let mut cx = Context::from_waker(&waker);
    let mut f = Box::pin(f);
    loop {
        if let Poll::Ready(x) = f.as_mut().poll(&mut cx) {
            return x;
        }
    }
}

pub fn panic_msg(p: Box<dyn std::any::Any + Send>) -> String {
    p.downcast_ref::<String>().cloned().or(p.downcast_ref::<&str>().map(|s| s.to_string())).unwrap_or_default()
}

/// `Expr::evaluate(facts)` on the real code
pub fn impl_eval(e: &Expr, facts: &Value) -> String {
    let direct = match catch_unwind(AssertUnwindSafe(|| block_on(e.evaluate(facts)))) {
        Err(p) => return format!("PANIC {}", panic_msg(p).replace(['\t', '\n'], " ")),
        Ok(r) => enc_result(&r),
    };
    // "whether parsed from text or built through the public constructors": the same tree built with `Expr::mult`,
    // `Expr::iif`, … must evaluate identically
    let ctor = match catch_unwind(AssertUnwindSafe(|| block_on(via_ctor(e).evaluate(facts)))) {
        Err(p) => return format!("PANIC (built through the public constructors) {}", panic_msg(p).replace(['\t', '\n'], " ")),
        Ok(r) => enc_result(&r),
    };
    if ctor != direct {
        return format!("(constructors-change-the-result direct {} constructed {})", direct, ctor);
    }
    // "a rule parsed from text evaluates like the expression that text denotes": when the rendering of `e` denotes `e`
    // (Expr::parse gives back the same tree, representation included), the rule `Rule::parse` builds from that text,
    // evaluated in a ruleset without symbols or functions, must give what `e` gives
    let text = e.to_string();
    if text.len() < 4000 {
        if let Ok(back) = Expr::parse(&text) {
            if enc_expr(&back) == enc_expr(e) {
                let via_rule = catch_unwind(AssertUnwindSafe(|| match Rule::parse(&format!("// r\n{}", text)) {
                    Err(_) => "(rule-text-rejected)".to_string(),
                    Ok(r) => match ruleset().with_rule(r) {
                        Err(_) => "(rule-rejected)".to_string(),
                        Ok(b) => match block_on(b.build().evaluate_value(facts)) {
                            Ok(outs) if outs.len() == 1 => enc_result(&outs[0].value),
                            Ok(outs) => format!("({} outcomes)", outs.len()),
                            Err(er) => format!("EVALERR {}", enc_err(&er)),
                        },
                    },
                }));
                match via_rule {
                    Err(p) => return format!("PANIC (as a rule parsed from its text) {}", panic_msg(p).replace(['\t', '\n'], " ")),
                    Ok(r) if r != direct => return format!("(rule-parsed-from-text-differs direct {} as-rule {})", direct, r),
                    Ok(_) => {}
                }
            }
        }
    }
    // a clone is the same expression
    let cl = e.clone();
    if format!("{:?}", cl) != format!("{:?}", e) {
        return format!("(clone-differs {})", direct);
    }
    direct
}

/// The ruleset of a case.  Which registration entry points are used (one by one or in a batch; functions by value or
/// boxed; symbols one by one or as a table) is a deterministic function of the case, so that every stream exercises all
/// of them and a failure replays.
pub fn build_ruleset(rules: &[Expr], env: &EnvSpec, shared: &Arc<Shared>) -> Result<RuleSet, reval::Error> {
    use std::hash::{Hash, Hasher};
    let mut hasher = std::collections::hash_map::DefaultHasher::new();
    format!("{:?}", rules.first()).hash(&mut hasher);
    rules.len().hash(&mut hasher);
    env.fns.len().hash(&mut hasher);
    let h = hasher.finish();
    let mut b = ruleset();
    // half of the cases hold the rules as built through the public constructors
    // … and a quarter of them hold rules that went through `Rule::parse` of their own rendering (when that gives the same tree)
    let rs: Vec<Rule> = rules
        .iter()
        .enumerate()
        .map(|(i, e)| {
            if h & 48 == 48 {
                // when the rendering denotes `e` (Expr::parse gives it back, identical down to representation: sign of
                // zero, decimal scale, NaN — `==` alone is too coarse), the rule Rule::parse builds from it stands for `e`
                let text = e.to_string();
                if Expr::parse(&text).map(|b| enc_expr(&b) == enc_expr(e)).unwrap_or(false) {
                    if let Ok(r) = Rule::parse(&format!("// r{}\n{}", i, text)) {
                        if r.name() == format!("r{}", i) {
                            return r;
                        }
                    }
                }
            }
            Rule::new(format!("r{}", i), BTreeMap::new(), if h & 8 == 0 { e.clone() } else { via_ctor(e) })
        })
        .collect();
    if h & 1 == 0 {
        for r in rs {
            b = b.with_rule(r)?;
        }
    } else {
        b = b.with_rules(rs)?;
    }
    if h & 2 == 0 {
        for f in &env.fns {
            b = b.with_function(HFn { name: leak(&f.name), spec: f.clone(), shared: shared.clone() })?;
        }
    } else {
        let boxed: Vec<Box<dyn UserFunction + Send + Sync>> =
            env.fns.iter().map(|f| Box::new(HFn { name: leak(&f.name), spec: f.clone(), shared: shared.clone() }) as Box<dyn UserFunction + Send + Sync>).collect();
        b = b.with_functions(boxed)?;
    }
    if h & 4 == 0 {
        for (k, v) in &env.syms {
            b = b.with_symbol(k, v.clone());
        }
    } else {
        let mut t = Symbols::default();
        t.append(env.syms.iter().map(|(k, v)| (k.clone(), v.clone())));
        b = b.with_symbols(t)?;
    }
    Ok(b.build())
}

pub fn enc_events(log: &[(String, Value, usize)]) -> String {
    format!(
        "(events{})",
        log.iter().map(|(f, a, i)| format!(" (inv {} {} {})", hex(f), enc_value(a), i)).collect::<String>()
    )
}

/// `RuleSet::evaluate_value` on the real code: "(outcomes R…)\t(events …)\tcalls"
pub fn impl_ruleset(rules: &[Expr], facts: &Value, env: &EnvSpec) -> String {
    let shared = Arc::new(Shared::default());
    let r = catch_unwind(AssertUnwindSafe(|| {
        let rs = match build_ruleset(rules, env, &shared) {
            Ok(rs) => rs,
            Err(e) => return format!("BUILD {}", enc_err(&e)),
        };
        match block_on(rs.evaluate_value(facts)) {
            Ok(outs) => format!(
                "(outcomes{})",
                outs.iter().map(|o| format!(" {}", enc_result(&o.value))).collect::<String>()
            ),
            Err(e) => format!("EVALERR {}", enc_err(&e)),
        }
    }));
    let log = shared.log.lock().unwrap().clone();
    match r {
        Err(p) => format!("PANIC {}", panic_msg(p).replace(['\t', '\n'], " ")),
        Ok(s) => format!("{}\t{}\t{}", s, enc_events(&log), log.len()),
    }
}

/// One request to the model, answered with oracle rounds.  `mk(oracle_text)` builds the request line.
pub struct ModelReply {
    pub reply: String,
    pub oracle_used: usize,
    pub unanswered: bool,
}

pub fn model_batch(driver: &str, workers: usize, mk: &(dyn Fn(usize, &str) -> String + Sync), n: usize) -> Vec<ModelReply> {
    let mut tables: Vec<Vec<String>> = vec![vec![]; n];
    let mut out: Vec<Option<ModelReply>> = (0..n).map(|_| None).collect();
    let mut pending: Vec<usize> = (0..n).collect();
    for _round in 0..24 {
        if pending.is_empty() {
            break;
        }
        let reqs: Vec<String> =
            pending.iter().map(|&i| mk(i, &format!("(oracle{})", tables[i].iter().map(|q| format!(" {}", q)).collect::<String>()))).collect();
        let replies = par_batch(driver, workers, &reqs);
        let mut next = vec![];
        for (k, &i) in pending.iter().enumerate() {
            let rep = &replies[k];
            let first = rep.split('\t').next().unwrap_or("");
            // frontier outcomes anywhere in the first field (single result or outcomes list): every one of them is answered
            // in this round (a ruleset of 40 rules may ask 40 questions)
            if first.contains("(frontier ") {
                let mut added = false;
                let mut stuck = false;
                let mut from = 0;
                while let Some(off) = first[from..].find("(frontier ") {
                    let pos = from + off;
                    let sub = &first[pos..];
                    match sexp::parse(sub).and_then(|sx| oracle::answer(&sx)) {
                        Some(q) => {
                            if !tables[i].contains(&q) {
                                tables[i].push(q);
                                added = true;
                            }
                        }
                        None => stuck = true,
                    }
                    from = pos + 10;
                }
                if added {
                    next.push(i);
                } else {
                    let _ = stuck;
                    out[i] = Some(ModelReply { reply: rep.clone(), oracle_used: tables[i].len(), unanswered: true });
                }
                continue;
            }
            out[i] = Some(ModelReply { reply: rep.clone(), oracle_used: tables[i].len(), unanswered: false });
        }
        pending = next;
    }
    for i in pending {
        out[i] = Some(ModelReply { reply: "oracle-rounds-exhausted".into(), oracle_used: tables[i].len(), unanswered: true });
    }
    out.into_iter().map(|x| x.unwrap()).collect()
}
