//! Answers to the model's `frontier` queries, computed by calling the *library* primitive directly
//! (never through reval).
use crate::codec::{dec_value, enc_value};
use crate::sexp::Sexp;
use chrono::{DateTime, Utc};
use reval::value::Value;
use rust_decimal::prelude::*;
use std::str::FromStr;

/// assumptions the theorems make about a library primitive, checked on every answer given here; a violated one is
/// reported by every check that used the oracle (Props/C16 `PP.OracleDecOK`: a decimal literal that the library accepts
/// denotes a decimal in normal form — 96-bit mantissa and scale <= 28 by the type, and no negative zero)
pub static ASSUMPTION_VIOLATIONS: std::sync::Mutex<Vec<String>> = std::sync::Mutex::new(Vec::new());

fn as_dec(v: &Value) -> Option<Decimal> {
    match v {
        Value::Decimal(d) => Some(*d),
        _ => None,
    }
}
fn as_str(v: &Value) -> Option<&str> {
    match v {
        Value::String(s) => Some(s),
        _ => None,
    }
}

/// `(frontier OP V…)` -> the oracle entry `(q OP (args V…) (ans V))` / `(q OP (args V…) (fail))`
pub fn answer(frontier: &Sexp) -> Option<String> {
    let l = frontier.list()?;
    if l.first()?.atom()? != "frontier" {
        return None;
    }
    let op = l.get(1)?.atom()?;
    let args: Vec<Value> = l[2..].iter().map(dec_value).collect::<Option<Vec<_>>>()?;
    let ans: Option<Value> = match op {
        "dec.add" => as_dec(&args[0])?.checked_add(as_dec(&args[1])?).map(Value::Decimal),
        "dec.sub" => as_dec(&args[0])?.checked_sub(as_dec(&args[1])?).map(Value::Decimal),
        "dec.mul" => as_dec(&args[0])?.checked_mul(as_dec(&args[1])?).map(Value::Decimal),
        "dec.div" => as_dec(&args[0])?.checked_div(as_dec(&args[1])?).map(Value::Decimal),
        "dec.rem" => as_dec(&args[0])?.checked_rem(as_dec(&args[1])?).map(Value::Decimal),
        "dec.floor" => Some(Value::Decimal(as_dec(&args[0])?.floor())),
        "dec.round" => Some(Value::Decimal(as_dec(&args[0])?.round())),
        "dec.fract" => Some(Value::Decimal(as_dec(&args[0])?.fract())),
        "dec.tof64" => as_dec(&args[0])?.to_f64().map(Value::Float),
        "f64.todec" => match &args[0] {
            Value::Float(f) => Decimal::try_from(*f).ok().map(Value::Decimal),
            _ => return None,
        },
        "str.todec" => {
            let r = Decimal::from_str(as_str(&args[0])?).ok();
            if let Some(d) = r {
                if (d.is_zero() && d.is_sign_negative()) || d.scale() > 28 {
                    ASSUMPTION_VIOLATIONS.lock().unwrap().push(format!("OracleDecOK: Decimal::from_str({:?}) = {:?} (negative zero or scale > 28)", as_str(&args[0])?, d));
                }
            }
            r.map(Value::Decimal)
        }
        "str.tof64" => f64::from_str(as_str(&args[0])?).ok().map(Value::Float),
        "str.todatetime" => as_str(&args[0])?.parse::<DateTime<Utc>>().ok().map(Value::DateTime),
        "str.upper" => Some(Value::String(as_str(&args[0])?.to_uppercase())),
        "str.lower" => Some(Value::String(as_str(&args[0])?.to_lowercase())),
        "f64.show" => match &args[0] {
            Value::Float(f) => Some(Value::String(format!("{}", f))),
            _ => return None,
        },
        "xid.start" => Some(Value::Bool(as_str(&args[0])?.chars().next().map(unicode_xid::UnicodeXID::is_xid_start).unwrap_or(false))),
        "xid.continue" => Some(Value::Bool(as_str(&args[0])?.chars().next().map(unicode_xid::UnicodeXID::is_xid_continue).unwrap_or(false))),
        _ => return None,
    };
    let args_s: String = args.iter().map(|a| format!(" {}", enc_value(a))).collect();
    Some(match ans {
        Some(v) => format!("(q {} (args{}) (ans {}))", op, args_s, enc_value(&v)),
        None => format!("(q {} (args{}) (fail))", op, args_s),
    })
}
