//! C12: hand-polled real futures.  Every interleaving of two evaluations of one shared RuleSet at suspension
//! points, every abandonment point followed by a fresh evaluation, repeated evaluations — outcomes and
//! per-evaluation invocation order compared with the model's sequential result.
use crate::codec::*;
use crate::driver::par_batch;
use crate::evalrun::*;
use crate::gen::*;
use crate::report::*;
use crate::rng::Rng;
use crate::rs::{field, RsCase};
use reval::expr::Expr;
use reval::prelude::*;
use std::future::Future;
use std::panic::{catch_unwind, AssertUnwindSafe};
use std::pin::Pin;
use std::sync::Arc;
use std::task::{Context, Poll, RawWaker, RawWakerVTable, Waker};

fn noop_waker() -> Waker {
    fn clone(_: *const ()) -> RawWaker {
        RawWaker::new(std::ptr::null(), &VTABLE)
    }
    fn noop(_: *const ()) {}
    static VTABLE: RawWakerVTable = RawWakerVTable::new(clone, noop, noop, noop);
    unsafe { Waker::from_raw(RawWaker::new(std::ptr::null(), &VTABLE)) }
}

type Fut<'a> = Pin<Box<dyn Future<Output = String> + 'a>>;

fn mk_fut<'a>(rs: &'a RuleSet, facts: &'a Value) -> Fut<'a> {
    Box::pin(async move {
        match rs.evaluate_value(facts).await {
            Ok(os) => format!("(outcomes{})", os.iter().map(|o| format!(" {}", enc_result(&o.value))).collect::<String>()),
            Err(e) => format!("EVALERR {}", enc_err(&e)),
        }
    })
}

/// poll `futs[i]` once; returns Some(output) when it completes
fn poll_once(f: &mut Fut<'_>) -> Option<String> {
    let w = noop_waker();
    let mut cx = Context::from_waker(&w);
    match f.as_mut().poll(&mut cx) {
        Poll::Ready(s) => Some(s),
        Poll::Pending => None,
    }
}

/// number of polls an evaluation needs when run alone
fn polls_alone(rs: &RuleSet, facts: &Value) -> usize {
    let mut f = mk_fut(rs, facts);
    let mut n = 0;
    loop {
        n += 1;
        if poll_once(&mut f).is_some() || n > 10_000 {
            return n;
        }
    }
}

fn interleavings(a: usize, b: usize, out: &mut Vec<Vec<u8>>, cur: &mut Vec<u8>) {
    if a == 0 && b == 0 {
        out.push(cur.clone());
        return;
    }
    if a > 0 {
        cur.push(0);
        interleavings(a - 1, b, out, cur);
        cur.pop();
    }
    if b > 0 {
        cur.push(1);
        interleavings(a, b - 1, out, cur);
        cur.pop();
    }
}

pub struct SchedCase {
    pub rules: Vec<Expr>,
    pub env: EnvSpec,
    pub facts: [Value; 2],
}

/// invocation log entries (function, argument) that belong to the evaluation whose facts marker is `m`
fn log_of(log: &[(String, Value, usize)], marker: i128) -> String {
    let key = format!("(int {})", marker);
    log.iter().filter(|(_, a, _)| enc_value(a).contains(&key)).map(|(f, a, _)| format!("({} {})", hex(f), enc_value(a))).collect::<Vec<_>>().join(" ")
}

fn model_log_of(events: &str, marker: i128) -> String {
    // "(events (inv NAME ARG IDX) …)" -> "(NAME ARG) …" restricted to the marker
    let key = format!("(int {})", marker);
    match crate::sexp::parse(events) {
        Some(crate::sexp::Sexp::List(items)) => items[1..]
            .iter()
            .filter_map(|it| {
                let l = it.list()?;
                let name = l.get(1)?.atom()?;
                let arg = show(l.get(2)?);
                if arg.contains(&key) {
                    Some(format!("({} {})", name, arg))
                } else {
                    None
                }
            })
            .collect::<Vec<_>>()
            .join(" "),
        _ => String::new(),
    }
}

fn show(x: &crate::sexp::Sexp) -> String {
    match x {
        crate::sexp::Sexp::Atom(a) => a.clone(),
        crate::sexp::Sexp::List(l) => format!("({})", l.iter().map(show).collect::<Vec<_>>().join(" ")),
    }
}

pub fn cases(rng: &mut Rng, thorough: bool) -> Vec<SchedCase> {
    // facts carry a marker (1 / 2) that every call argument embeds, so that the shared invocation log can be split per evaluation
    let f1 = crate::pool::map(&[("x", Value::Int(1)), ("y", Value::Int(10))]);
    let f2 = crate::pool::map(&[("x", Value::Int(2)), ("y", Value::Int(10))]);
    let arg = |extra: i128| Expr::Vec(vec![reff("x"), lit(Value::Int(extra + 100))]);
    let mut out = vec![];
    let mk_env = |pends: [usize; 3], cacheable: [bool; 3]| EnvSpec {
        syms: vec![],
        fns: vec![
            { let mut f = FnSpec::new("g", cacheable[0], FnKind::Id); f.pends = pends[0]; f },
            { let mut f = FnSpec::new("h", cacheable[1], FnKind::Const(Value::Bool(true))); f.pends = pends[1]; f },
            { let mut f = FnSpec::new("boom", cacheable[2], FnKind::Fail); f.pends = pends[2]; f },
        ],
    };
    let rule_sets: Vec<Vec<Expr>> = vec![
        vec![call("g", arg(0)), call("g", arg(0)), call("g", arg(1))],
        vec![iff(call("h", arg(0)), call("g", arg(1)), call("g", arg(2))), mk_bin("add", idxn(call("g", arg(0)), 0), reff("y"))],
        vec![call("boom", arg(0)), call("g", arg(0)), mk_bin("or", call("h", arg(1)), call("boom", arg(2)))],
        vec![Expr::Vec(vec![call("g", arg(0)), call("h", arg(0)), call("g", arg(0))]), mk_bin("eq", call("g", arg(3)), call("g", arg(3)))],
        vec![reff("x"), mk_bin("div", reff("y"), lit(Value::Int(0)))],
        // references that are missing only on the branch one of the two inputs takes (x = 1 / x = 2)
        vec![
            iff(mk_bin("gt", reff("x"), lit(Value::Int(1))), Expr::Symbol("missing".into()), lit(Value::Int(0))),
            mk_bin("or", mk_bin("lt", reff("x"), lit(Value::Int(2))), call("nofn", arg(0))),
            iff(mk_bin("lt", reff("x"), lit(Value::Int(2))), reff("nofield"), call("g", arg(1))),
        ],
        // many rules: 60 calls over 7 distinct arguments, every third one to the failing function
        (0..60).map(|i| if i % 3 == 2 { call("boom", arg((i % 7) as i128)) } else { call(if i % 2 == 0 { "g" } else { "h" }, arg((i % 7) as i128)) }).collect(),
        // a cacheable call completed before a suspending one (what a dropped evaluation may leave behind)
        vec![call("g", arg(0)), call("h", arg(1)), call("g", arg(0)), call("h", arg(2))],
        // list / map constructors whose entries are computed from the input and from calls on it (what such a rule yields for
        // one input is not what it yields for the other)
        vec![
            Expr::Vec(vec![mk_bin("sub", reff("x"), lit(Value::Int(1))), mk_bin("add", reff("x"), reff("y"))]),
            emap(vec![("t", mk_bin("mult", reff("x"), lit(Value::Int(2)))), ("c", lit(Value::String("EUR".into())))]),
            Expr::Vec(vec![lit(Value::Int(0)), mk_bin("add", idxn(call("g", arg(0)), 0), lit(Value::Int(1)))]),
        ],
    ];
    let pend_sets: Vec<[usize; 3]> = if thorough { vec![[0, 0, 0], [1, 0, 0], [1, 1, 1], [2, 1, 0], [0, 2, 1], [3, 0, 1]] } else { vec![[0, 0, 0], [1, 1, 0], [2, 0, 1]] };
    for rules in &rule_sets {
        for p in &pend_sets {
            for c in [[true, true, true], [false, true, false]] {
                out.push(SchedCase { rules: rules.clone(), env: mk_env(*p, c), facts: [f1.clone(), f2.clone()] });
            }
        }
    }
    let _ = rng;
    out
}

pub fn run(rep: &mut Report, driver: &str, workers: usize, thorough: bool, seed: u64) {
    let mut rng = Rng::new(seed);
    let cs = cases(&mut rng, thorough);
    // the model's sequential result for each (case, facts)
    let mut reqs = vec![];
    for c in &cs {
        for k in 0..2 {
            reqs.push(RsCase { tag: String::new(), rules: c.rules.clone(), facts: c.facts[k].clone(), env: c.env.clone(), evals: 1 }.request("(oracle)"));
        }
    }
    let model = par_batch(driver, workers, &reqs);
    let mut sr = StreamReport::new(
        "poll-schedules",
        "9 rulesets (one of them with 60 rules; cached / uncached / failing user functions, lazy and strict operators, references missing only on the branch one input takes, a cacheable call completed before a suspending one, list / map constructors computed from the input) x suspension patterns (each user-function call returns Pending 0..3 times) x cacheability; two evaluations of ONE shared RuleSet on different inputs polled by a hand-rolled executor (no-op waker) under EVERY interleaving of their polls (up to 924 schedules per case; larger cases: 400 sampled), every abandonment point of one evaluation (dropped after j polls) followed by a fresh evaluation — with a second evaluation in flight, and alone followed by four fresh evaluations —, every sequence of three completed evaluations over the two inputs, 3 consecutive evaluations, two rulesets built from clones of the same rules (different symbols and functions) evaluated alternately, and rules cloned out of one ruleset's outcomes loaded into another; compared per evaluation: outcomes and the order of its own user-function invocations, against the model's sequential result",
        false,
    );
    let max_sched = if thorough { 924 } else { 300 };
    for (ci, c) in cs.iter().enumerate() {
        let shared = Arc::new(Shared::default());
        let rs = match build_ruleset(&c.rules, &c.env, &shared) {
            Ok(r) => r,
            Err(_) => continue,
        };
        let want: Vec<String> = (0..2).map(|k| field(&model[2 * ci + k], 0).to_string()).collect();
        let want_log: Vec<String> = (0..2).map(|k| model_log_of(field(&model[2 * ci + k], 1), k as i128 + 1)).collect();
        let n0 = polls_alone(&rs, &c.facts[0]);
        let n1 = polls_alone(&rs, &c.facts[1]);
        let mut scheds = vec![];
        interleavings(n0.min(6), n1.min(6), &mut scheds, &mut vec![]);
        if scheds.len() > max_sched {
            let mut pick = vec![];
            for _ in 0..max_sched {
                pick.push(scheds[rng.below(scheds.len())].clone());
            }
            scheds = pick;
        }
        let human = format!("rules [{}] pends {:?}", c.rules.iter().map(|e| e.to_string()).collect::<Vec<_>>().join(" ; "), c.env.fns.iter().map(|f| f.pends).collect::<Vec<_>>());
        let mut report = |kind: &str, sched: String, got: String, want: String, sig: &str, rep: &mut Report| {
            rep.add_finding(Finding { kind: "impl-violates-property".into(), stream: "poll-schedules".into(), case: format!("sched\t{}\t{}", ci, sched), human: format!("{} | {} schedule {}", human, kind, sched), impl_out: got, model_out: want, predicate: "outcomes (and each evaluation's own invocation order) do not depend on the poll schedule, on interleaved evaluations or on abandoned ones".into(), signature: sig.into() });
        };
        // (a) every interleaving of two evaluations
        for s in &scheds {
            shared.log.lock().unwrap().clear();
            let r = catch_unwind(AssertUnwindSafe(|| {
                let mut futs = [Some(mk_fut(&rs, &c.facts[0])), Some(mk_fut(&rs, &c.facts[1]))];
                let mut outs: [Option<String>; 2] = [None, None];
                let mut order: Vec<u8> = s.clone();
                // continue round-robin until both are done
                for _ in 0..(n0 + n1 + 40) {
                    order.push(0);
                    order.push(1);
                }
                for t in order {
                    let t = t as usize;
                    if let Some(f) = futs[t].as_mut() {
                        if let Some(o) = poll_once(f) {
                            outs[t] = Some(o);
                            futs[t] = None;
                        }
                    }
                }
                outs
            }));
            sr.count(&format!("{} {:?}", ci, s), true);
            sr.hist("kind", "interleaving");
            match r {
                Err(p) => report("interleaving", format!("{:?}", s), format!("PANIC {}", panic_msg(p)), want[0].clone(), "C12 panic", rep),
                Ok(outs) => {
                    let log = shared.log.lock().unwrap().clone();
                    for k in 0..2 {
                        let got = outs[k].clone().unwrap_or("never-completed".into());
                        if got != want[k] {
                            report("interleaving", format!("{:?}", s), got, want[k].clone(), "C12 outcomes-depend-on-schedule", rep);
                        } else if log_of(&log, k as i128 + 1) != want_log[k] {
                            report("interleaving", format!("{:?}", s), log_of(&log, k as i128 + 1), want_log[k].clone(), "C12 invocations-depend-on-schedule", rep);
                        }
                    }
                }
            }
        }
        // (b) abandon evaluation 0 after j polls (with evaluation 1 interleaved), then a fresh evaluation
        for j in 0..n0 {
            shared.log.lock().unwrap().clear();
            let r = catch_unwind(AssertUnwindSafe(|| {
                let mut a = mk_fut(&rs, &c.facts[0]);
                let mut b = mk_fut(&rs, &c.facts[1]);
                let mut out_b = None;
                for _ in 0..j {
                    let _ = poll_once(&mut a);
                    if out_b.is_none() {
                        out_b = poll_once(&mut b);
                    }
                }
                drop(a);
                while out_b.is_none() {
                    out_b = poll_once(&mut b);
                }
                shared.log.lock().unwrap().clear();
                let fresh = block_on(mk_fut(&rs, &c.facts[0]));
                (out_b.unwrap(), fresh)
            }));
            sr.count(&format!("{} abandon {}", ci, j), true);
            sr.hist("kind", "abandonment");
            match r {
                Err(p) => report("abandon", format!("after {} polls", j), format!("PANIC {}", panic_msg(p)), want[0].clone(), "C12 panic", rep),
                Ok((ob, fresh)) => {
                    let log = shared.log.lock().unwrap().clone();
                    if ob != want[1] {
                        report("abandon", format!("after {} polls", j), ob, want[1].clone(), "C12 abandoned-evaluation-affects-other", rep);
                    }
                    if fresh != want[0] || log_of(&log, 1) != want_log[0] {
                        report("abandon", format!("after {} polls", j), format!("{} | {}", fresh, log_of(&log, 1)), format!("{} | {}", want[0], want_log[0]), "C12 abandoned-evaluation-affects-fresh", rep);
                    }
                }
            }
        }
        // (b2) abandon an evaluation after j polls with nothing else in flight, then FOUR fresh evaluations over both inputs (a resource
        //      handed back dirty by the dropped future may reach the next user of the same input, or a later one)
        for j in 0..n0 {
            let r = catch_unwind(AssertUnwindSafe(|| {
                let mut a = mk_fut(&rs, &c.facts[0]);
                for _ in 0..j {
                    let _ = poll_once(&mut a);
                }
                drop(a);
                let mut res = vec![];
                for k in [0usize, 1, 0, 0] {
                    shared.log.lock().unwrap().clear();
                    let o = block_on(mk_fut(&rs, &c.facts[k]));
                    let log = shared.log.lock().unwrap().clone();
                    res.push((k, o, log_of(&log, k as i128 + 1)));
                }
                res
            }));
            sr.count(&format!("{} abandon-alone {}", ci, j), true);
            sr.hist("kind", "abandonment-alone");
            match r {
                Err(p) => report("abandon-alone", format!("after {} polls", j), format!("PANIC {}", panic_msg(p)), want[0].clone(), "C12 panic", rep),
                Ok(res) => {
                    for (n, (k, o, l)) in res.into_iter().enumerate() {
                        if o != want[k] || l != want_log[k] {
                            report("abandon-alone", format!("after {} polls, fresh evaluation #{}", j, n + 1), format!("{} | {}", o, l), format!("{} | {}", want[k], want_log[k]), "C12 abandoned-evaluation-affects-fresh", rep);
                        }
                    }
                }
            }
        }
        // (d) histories: every sequence of three completed evaluations over the two inputs on the same object; each must
        //     give what that input gives on its own (an earlier evaluation that failed on another input leaves nothing)
        for h in 0..8usize {
            let seq = [h & 1, (h >> 1) & 1, (h >> 2) & 1];
            for (n, k) in seq.iter().enumerate() {
                shared.log.lock().unwrap().clear();
                let got = match catch_unwind(AssertUnwindSafe(|| block_on(mk_fut(&rs, &c.facts[*k])))) {
                    Ok(g) => g,
                    Err(p) => format!("PANIC {}", panic_msg(p)),
                };
                let log = shared.log.lock().unwrap().clone();
                sr.count(&format!("{} history {:?} {}", ci, seq, n), true);
                sr.hist("kind", "history");
                if got != want[*k] || log_of(&log, *k as i128 + 1) != want_log[*k] {
                    report("history", format!("inputs {:?}, evaluation #{}", seq, n + 1), format!("{} | {}", got, log_of(&log, *k as i128 + 1)), format!("{} | {}", want[*k], want_log[*k]), "C12 earlier-evaluation-affects-later", rep);
                }
            }
        }
        // (c) three consecutive evaluations of the same object
        for round in 0..3 {
            shared.log.lock().unwrap().clear();
            let got = block_on(mk_fut(&rs, &c.facts[0]));
            let log = shared.log.lock().unwrap().clone();
            sr.count(&format!("{} repeat {}", ci, round), true);
            sr.hist("kind", "repeat");
            if got != want[0] || log_of(&log, 1) != want_log[0] {
                report("repeat", format!("evaluation #{}", round + 1), format!("{} | {}", got, log_of(&log, 1)), format!("{} | {}", want[0], want_log[0]), "C12 repeated-evaluation-differs", rep);
            }
        }
    }
    // (e) the same `Rule` values loaded into two rulesets with different symbol tables and functions: a rule's outcome
    //     belongs to the ruleset it is evaluated in, whatever another ruleset holding a clone of it has computed before
    {
        let rules: Vec<Expr> = vec![
            mk_bin("mult", Expr::Symbol("net".into()), lit(Value::Int(2))),
            Expr::Symbol("tier".into()),
            iff(Expr::Symbol("flag".into()), Expr::Symbol("net".into()), lit(Value::Int(0))),
            lit(Value::Int(7)),
            call("g", Expr::Symbol("net".into())),
        ];
        let envs = [
            EnvSpec { syms: vec![("net".into(), Value::Int(200)), ("tier".into(), crate::pool::s("gold")), ("flag".into(), Value::Bool(true))], fns: vec![FnSpec::new("g", true, FnKind::Id)] },
            EnvSpec { syms: vec![("net".into(), Value::Int(1000)), ("tier".into(), crate::pool::s("basic"))], fns: vec![FnSpec::new("g", true, FnKind::Const(Value::Int(5)))] },
        ];
        let facts = Value::None;
        let reqs: Vec<String> = envs.iter().map(|e| RsCase { tag: String::new(), rules: rules.clone(), facts: facts.clone(), env: e.clone(), evals: 1 }.request("(oracle)")).collect();
        let model = par_batch(driver, workers, &reqs);
        let shared_rules: Vec<Rule> = rules.iter().enumerate().map(|(i, e)| Rule::new(format!("r{}", i), std::collections::BTreeMap::new(), e.clone())).collect();
        let shareds = [Arc::new(Shared::default()), Arc::new(Shared::default())];
        let built: Vec<RuleSet> = (0..2)
            .map(|k| {
                let mut b = ruleset().with_rules(shared_rules.clone()).expect("rules");
                for f in &envs[k].fns {
                    b = b.with_function(HFn { name: leak(&f.name), spec: f.clone(), shared: shareds[k].clone() }).expect("fn");
                }
                for (n, v) in &envs[k].syms {
                    b = b.with_symbol(n, v.clone());
                }
                b.build()
            })
            .collect();
        for order in [[0usize, 1, 0, 1], [1, 0, 1, 0]] {
            for (n, k) in order.iter().enumerate() {
                let got = match catch_unwind(AssertUnwindSafe(|| block_on(mk_fut(&built[*k], &facts)))) {
                    Ok(g) => g,
                    Err(p) => format!("PANIC {}", panic_msg(p)),
                };
                let want = field(&model[*k], 0).to_string();
                sr.count(&format!("shared-rules {:?} {}", order, n), true);
                sr.hist("kind", "rules-shared-by-two-rulesets");
                if got != want {
                    rep.add_finding(Finding { kind: "impl-violates-property".into(), stream: "poll-schedules".into(), case: format!("shared-rules\t{:?}\t{}", order, n), human: format!("two rulesets built from clones of the same rules, evaluated in the order {:?}: evaluation #{} (ruleset {})", order, n + 1, k), impl_out: got, model_out: want, predicate: "the outcomes of a ruleset do not depend on evaluations of another ruleset that holds clones of the same rules".into(), signature: "C12 shared-rules".into() });
                }
            }
        }
    }
    // (f) rules taken back out of an evaluation (`outcome.rule.clone()`) and loaded into another ruleset with different
    //     symbols and functions: what the first ruleset computed does not travel with the rule
    {
        let rules: Vec<Expr> = vec![
            mk_bin("mult", Expr::Symbol("net".into()), lit(Value::Int(2))),
            Expr::Symbol("tier".into()),
            iff(Expr::Symbol("flag".into()), Expr::Symbol("net".into()), lit(Value::Int(0))),
            lit(Value::Int(7)),
            Expr::Vec(vec![Expr::Symbol("net".into()), lit(Value::Int(1))]),
            call("g", Expr::Symbol("net".into())),
            mk_bin("add", reff("x"), Expr::Symbol("net".into())),
        ];
        let envs = [
            EnvSpec { syms: vec![("net".into(), Value::Int(10)), ("tier".into(), crate::pool::s("gold")), ("flag".into(), Value::Bool(true))], fns: vec![FnSpec::new("g", true, FnKind::Id)] },
            EnvSpec { syms: vec![("net".into(), Value::Int(50)), ("tier".into(), crate::pool::s("basic"))], fns: vec![FnSpec::new("g", true, FnKind::Const(Value::Int(5)))] },
        ];
        let facts = [crate::pool::map(&[("x", Value::Int(1))]), crate::pool::map(&[("x", Value::Int(2))])];
        let reqs: Vec<String> = (0..2).map(|k| RsCase { tag: String::new(), rules: rules.clone(), facts: facts[k].clone(), env: envs[k].clone(), evals: 1 }.request("(oracle)")).collect();
        let model = par_batch(driver, workers, &reqs);
        let mk = |rs: Vec<Rule>, k: usize| {
            let shared = Arc::new(Shared::default());
            let mut b = ruleset().with_rules(rs).expect("rules");
            for f in &envs[k].fns {
                b = b.with_function(HFn { name: leak(&f.name), spec: f.clone(), shared: shared.clone() }).expect("fn");
            }
            for (n, v) in &envs[k].syms {
                b = b.with_symbol(n, v.clone());
            }
            b.build()
        };
        let r = catch_unwind(AssertUnwindSafe(|| {
            let first = mk(rules.iter().enumerate().map(|(i, e)| Rule::new(format!("r{}", i), std::collections::BTreeMap::new(), e.clone())).collect(), 0);
            // evaluated `times` times, then the rules are taken out of the outcomes
            let mut res = vec![];
            for times in [1usize, 2] {
                let mut recycled: Vec<Rule> = vec![];
                for _ in 0..times {
                    let outs = block_on(first.evaluate_value(&facts[0])).expect("evaluate");
                    recycled = outs.iter().map(|o| o.rule.clone()).collect();
                }
                let second = mk(recycled, 1);
                res.push(block_on(mk_fut(&second, &facts[1])));
            }
            res
        }));
        sr.count("recycled-rules", true);
        sr.hist("kind", "rules-taken-out-of-outcomes");
        let want = field(&model[1], 0).to_string();
        match r {
            Err(p) => rep.add_finding(Finding { kind: "impl-violates-property".into(), stream: "poll-schedules".into(), case: "recycled-rules".into(), human: "rules cloned out of the outcomes of one ruleset and loaded into another".into(), impl_out: format!("PANIC {}", panic_msg(p)), model_out: want, predicate: "the outcomes depend only on the ruleset and the input".into(), signature: "C12 recycled-rules".into() }),
            Ok(res) => {
                for (n, got) in res.into_iter().enumerate() {
                    if got != want {
                        rep.add_finding(Finding { kind: "impl-violates-property".into(), stream: "poll-schedules".into(), case: format!("recycled-rules\t{}", n), human: format!("rules cloned out of the outcomes of a ruleset (net = 10) after {} evaluation(s) and loaded into a ruleset with net = 50", n + 1), impl_out: got, model_out: want.clone(), predicate: "the outcomes depend only on the ruleset and the input, not on what another ruleset computed with the same Rule values before".into(), signature: "C12 recycled-rules".into() });
                    }
                }
            }
        }
    }
    // (g) many evaluations in flight at once on this one thread: 800 evaluations of a rule nested 40 operators deep are
    //     each polled up to their suspension inside a user function, and only then resumed — every frame of every one of them
    //     is live at the same time.  A counter, guard or budget that is per thread or per ruleset rather than per evaluation
    //     adds them up.
    {
        let depth = 40usize;
        let mut e = call("g", reff("x"));
        for _ in 0..depth {
            e = mk_bin("add", e, lit(Value::Int(1)));
        }
        let mut e2 = call("g", reff("x"));
        for _ in 0..depth {
            e2 = Expr::Vec(vec![e2]);
        }
        let rules = vec![e, e2];
        let mut g = FnSpec::new("g", false, FnKind::Id);
        g.pends = 1;
        let env = EnvSpec { syms: vec![], fns: vec![g] };
        let facts = crate::pool::map(&[("x", Value::Int(5))]);
        let shared = Arc::new(Shared::default());
        let r = catch_unwind(AssertUnwindSafe(|| {
            let rs = build_ruleset(&rules, &env, &shared).expect("ruleset");
            let alone = block_on(mk_fut(&rs, &facts));
            let n = if thorough { 4000 } else { 800 };
            let mut futs: Vec<Fut<'_>> = (0..n).map(|_| mk_fut(&rs, &facts)).collect();
            let mut outs: Vec<Option<String>> = vec![None; n];
            // first poll of each: all suspended inside g, at depth 40
            for (i, f) in futs.iter_mut().enumerate() {
                outs[i] = poll_once(f);
            }
            let mut rounds = 0;
            while outs.iter().any(|o| o.is_none()) && rounds < 1000 {
                rounds += 1;
                for (i, f) in futs.iter_mut().enumerate() {
                    if outs[i].is_none() {
                        outs[i] = poll_once(f);
                    }
                }
            }
            let bad: Vec<(usize, String)> = outs.into_iter().enumerate().filter_map(|(i, o)| match o { Some(o) if o == alone => None, Some(o) => Some((i, o)), None => Some((i, "never completed".to_string())) }).collect();
            (alone, bad, n)
        }));
        sr.count("mass-interleaving", true);
        sr.hist("kind", "many-evaluations-in-flight");
        match r {
            Err(p) => rep.add_finding(Finding { kind: "impl-violates-property".into(), stream: "poll-schedules".into(), case: "mass-interleaving".into(), human: "800 evaluations of a rule nested 40 deep, all suspended at once on one thread".into(), impl_out: format!("PANIC {}", panic_msg(p)), model_out: String::new(), predicate: "an evaluation's outcomes do not depend on what else is in flight".into(), signature: "C12 mass-interleaving".into() }),
            Ok((alone, bad, n)) => {
                if let Some((i, got)) = bad.first() {
                    rep.add_finding(Finding { kind: "impl-violates-property".into(), stream: "poll-schedules".into(), case: "mass-interleaving".into(), human: format!("{} evaluations of a rule nested {} deep, all suspended at once on one thread: {} of them differ from the evaluation run alone (first: #{})", n, depth, bad.len(), i), impl_out: got.chars().take(300).collect(), model_out: alone.chars().take(300).collect(), predicate: "an evaluation's outcomes do not depend on what else is in flight (schedule independence)".into(), signature: "C12 mass-interleaving".into() });
                }
            }
        }
    }
    // (h) many abandoned evaluations, each dropped while it is suspended 40 operators deep inside a user function, then a
    //     fresh evaluation: whatever an evaluation counted, reserved or guarded on the way down must be released when it is
    //     dropped, however deep it was and however many were dropped before
    {
        let depth = 40usize;
        let mut e = call("g", reff("x"));
        for _ in 0..depth {
            e = mk_un("neg", e);
        }
        let mut e2 = call("g", reff("x"));
        for _ in 0..depth {
            e2 = mk_bin("add", lit(Value::Int(1)), e2);
        }
        let rules = vec![e, e2, call("g", reff("x"))];
        let mut g = FnSpec::new("g", false, FnKind::Id);
        g.pends = 1;
        let env = EnvSpec { syms: vec![], fns: vec![g] };
        let facts = crate::pool::map(&[("x", Value::Int(7))]);
        let shared = Arc::new(Shared::default());
        let r = catch_unwind(AssertUnwindSafe(|| {
            let rs = build_ruleset(&rules, &env, &shared).expect("ruleset");
            let alone = block_on(mk_fut(&rs, &facts));
            let n = if thorough { 3000 } else { 400 };
            let mut first_bad: Option<(usize, String)> = None;
            for k in 0..n {
                // poll once (suspended at depth 40 of rule 0) or three times (inside rule 1), then drop
                let mut f = mk_fut(&rs, &facts);
                for _ in 0..(1 + 2 * (k % 2)) {
                    if poll_once(&mut f).is_some() {
                        break;
                    }
                }
                drop(f);
                if k % 50 == 49 || k < 12 {
                    let got = block_on(mk_fut(&rs, &facts));
                    if got != alone && first_bad.is_none() {
                        first_bad = Some((k + 1, got));
                    }
                }
            }
            (alone, first_bad, n)
        }));
        sr.count("deep-abandonment", true);
        sr.hist("kind", "deep-abandonment");
        match r {
            Err(p) => rep.add_finding(Finding { kind: "impl-violates-property".into(), stream: "poll-schedules".into(), case: "deep-abandonment".into(), human: "evaluations dropped while suspended 40 operators deep, then a fresh evaluation".into(), impl_out: format!("PANIC {}", panic_msg(p)), model_out: String::new(), predicate: "an abandoned evaluation leaves nothing behind".into(), signature: "C12 deep-abandonment".into() }),
            Ok((alone, bad, n)) => {
                if let Some((k, got)) = bad {
                    rep.add_finding(Finding { kind: "impl-violates-property".into(), stream: "poll-schedules".into(), case: "deep-abandonment".into(), human: format!("after {} (of {}) evaluations were dropped while suspended {} operators deep inside a user function, a fresh evaluation of the same ruleset differs from the evaluation run before any was dropped", k, n, depth), impl_out: got.chars().take(300).collect(), model_out: alone.chars().take(300).collect(), predicate: "an abandoned evaluation leaves nothing behind: later evaluations return what they return on a fresh ruleset".into(), signature: "C12 deep-abandonment".into() });
                }
            }
        }
    }
    // (i) a history of evaluations whose INPUT could not be serialized (the failure arises deep inside nested containers),
    //     then an ordinary input: `RuleSet::evaluate(&T)` of the ordinary input gives what it gave before that history — on
    //     this thread, for this ruleset and for another one
    {
        use crate::serval::SerVal as SV;
        let rules = vec![reff("id"), idxk(reff("customer"), "name"), idxn(reff("lines"), 1)];
        let env = EnvSpec { syms: vec![], fns: vec![] };
        let shared = Arc::new(Shared::default());
        let good = SV::Struct("Order".into(), vec![("id".into(), SV::U32(7)), ("customer".into(), SV::Struct("C".into(), vec![("name".into(), SV::Str("Ada".into()))])), ("lines".into(), SV::Seq(vec![SV::I64(5), SV::Map(vec![(SV::Str("k".into()), SV::Seq(vec![SV::F64(1.5)]))])]))]);
        let bads = vec![
            SV::Struct("L".into(), vec![("entries".into(), SV::Seq(vec![SV::I8(1), SV::Struct("E".into(), vec![("amount".into(), SV::U128(u128::MAX))])]))]),
            SV::Seq(vec![SV::Seq(vec![SV::Seq(vec![SV::Map(vec![(SV::U32(1), SV::U32(2))])])])]),
            SV::Map(vec![(SV::Str("a".into()), SV::Tuple(vec![SV::Some(Box::new(SV::Fail("no".into())))]))]),
            SV::StructVariant("E".into(), "V".into(), vec![("f".into(), SV::TupleVariant("E".into(), "W".into(), vec![SV::U128(u128::MAX)]))]),
        ];
        let show = |r: Result<Vec<reval::ruleset::Outcome>, reval::Error>| match r {
            Ok(os) => format!("(outcomes{})", os.iter().map(|o| format!(" {}", enc_result(&o.value))).collect::<String>()),
            Err(e) => format!("EVALERR {}", e),
        };
        let r = catch_unwind(AssertUnwindSafe(|| {
            let rs = build_ruleset(&rules, &env, &shared).expect("ruleset");
            let rs_other = build_ruleset(&rules[..1], &env, &shared).expect("ruleset");
            let before = show(block_on(rs.evaluate(&good)));
            let before_other = show(block_on(rs_other.evaluate(&good)));
            let n = if thorough { 5000 } else { 700 };
            let mut first_bad = None;
            for k in 0..n {
                let _ = block_on(rs.evaluate(&bads[k % bads.len()]));
                if k % 100 == 99 || k < 8 {
                    let now = show(block_on(rs.evaluate(&good)));
                    let now_other = show(block_on(rs_other.evaluate(&good)));
                    if (now != before || now_other != before_other) && first_bad.is_none() {
                        first_bad = Some((k + 1, if now != before { now } else { now_other }));
                    }
                }
            }
            (before, first_bad, n)
        }));
        sr.count("unserializable-history", true);
        sr.hist("kind", "unserializable-history");
        match r {
            Err(p) => rep.add_finding(Finding { kind: "impl-violates-property".into(), stream: "poll-schedules".into(), case: "unserializable-history".into(), human: "evaluate(&T) with inputs that cannot be serialized, then an ordinary input".into(), impl_out: format!("PANIC {}", panic_msg(p)), model_out: String::new(), predicate: "earlier evaluations leave nothing behind".into(), signature: "C12 unserializable-history".into() }),
            Ok((before, bad, n)) => {
                if let Some((k, got)) = bad {
                    rep.add_finding(Finding { kind: "impl-violates-property".into(), stream: "poll-schedules".into(), case: "unserializable-history".into(), human: format!("after {} (of {}) calls of RuleSet::evaluate(&T) whose input fails to serialize inside nested containers, evaluate(&T) of an ordinary input differs from what it gave before", k, n), impl_out: got.chars().take(300).collect(), model_out: before.chars().take(300).collect(), predicate: "the outcomes depend only on the ruleset and the input, not on earlier evaluations (failed ones included)".into(), signature: "C12 unserializable-history".into() });
                }
            }
        }
    }
    rep.streams.push(sr);
}
