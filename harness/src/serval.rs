//! C13: a dynamic value of the serde data model (29 kinds + a failing Serialize impl) driving the real
//! `ValueSerializer`, `RuleSet::evaluate(&T)` and `serde_json::to_value`.
use crate::codec::*;
use crate::driver::par_batch;
use crate::evalrun::*;
use crate::report::*;
use crate::rng::Rng;
use reval::value::ser::ValueSerializer;
use reval::value::Value;
use serde::ser::{SerializeMap, SerializeSeq, SerializeStruct, SerializeStructVariant, SerializeTuple, SerializeTupleStruct, SerializeTupleVariant};
use serde::{Serialize, Serializer};
use std::panic::{catch_unwind, AssertUnwindSafe};

#[derive(Clone, Debug)]
pub enum SerVal {
    Bool(bool),
    I8(i8), I16(i16), I32(i32), I64(i64), I128(i128),
    U8(u8), U16(u16), U32(u32), U64(u64), U128(u128),
    F32(f32),
    F64(f64),
    Char(char),
    Str(String),
    Bytes(Vec<u8>),
    None,
    Some(Box<SerVal>),
    Unit,
    UnitStruct(String),
    UnitVariant(String, String),
    NewtypeStruct(String, Box<SerVal>),
    NewtypeVariant(String, String, Box<SerVal>),
    Seq(Vec<SerVal>),
    Tuple(Vec<SerVal>),
    TupleStruct(String, Vec<SerVal>),
    TupleVariant(String, String, Vec<SerVal>),
    Map(Vec<(SerVal, SerVal)>),
    Struct(String, Vec<(String, SerVal)>),
    StructVariant(String, String, Vec<(String, SerVal)>),
    Fail(String),
    /// a map handed over with `serialize_key` / `serialize_value` instead of `serialize_entry` (same data model kind)
    MapKV(Vec<(SerVal, SerVal)>),
    /// a type whose `Serialize` asks `is_human_readable()` (std's IP / socket addresses, uuid, …): the first form for
    /// human-readable formats — which `ValueSerializer` is, like serde_json — the second for compact ones
    HumanReadable(Box<SerVal>, Box<SerVal>),
    /// a type that hands its `Display` text over with `collect_str` (chrono's date types, std's paths, uuid, url, …): in the
    /// data model that is a string — whatever the text looks like
    DisplayText(String),
}

/// the serializable input that denotes a plain Value (None, Bool, Int, Float, String, lists and string-keyed maps of them);
/// values with no image in the serde data model (Decimal, DateTime, Duration) have none
pub fn from_value(v: &Value) -> Option<SerVal> {
    Some(match v {
        Value::None => SerVal::None,
        Value::Bool(b) => SerVal::Bool(*b),
        Value::Int(i) => SerVal::I128(*i),
        Value::Float(f) => SerVal::F64(*f),
        Value::String(s) => SerVal::Str(s.clone()),
        Value::Vec(xs) => SerVal::Seq(xs.iter().map(from_value).collect::<Option<Vec<_>>>()?),
        Value::Map(m) => SerVal::Map(m.iter().map(|(k, x)| Some((SerVal::Str(k.clone()), from_value(x)?))).collect::<Option<Vec<_>>>()?),
        _ => return None,
    })
}

struct Bytes<'a>(&'a [u8]);
impl Serialize for Bytes<'_> {
    fn serialize<S: Serializer>(&self, s: S) -> Result<S::Ok, S::Error> {
        s.serialize_bytes(self.0)
    }
}

impl Serialize for SerVal {
    fn serialize<S: Serializer>(&self, s: S) -> Result<S::Ok, S::Error> {
        use SerVal::*;
        match self {
            Bool(b) => s.serialize_bool(*b),
            I8(x) => s.serialize_i8(*x),
            I16(x) => s.serialize_i16(*x),
            I32(x) => s.serialize_i32(*x),
            I64(x) => s.serialize_i64(*x),
            I128(x) => s.serialize_i128(*x),
            U8(x) => s.serialize_u8(*x),
            U16(x) => s.serialize_u16(*x),
            U32(x) => s.serialize_u32(*x),
            U64(x) => s.serialize_u64(*x),
            U128(x) => s.serialize_u128(*x),
            F32(x) => s.serialize_f32(*x),
            F64(x) => s.serialize_f64(*x),
            Char(c) => s.serialize_char(*c),
            Str(x) => s.serialize_str(x),
            Bytes(b) => s.serialize_bytes(b),
            None => s.serialize_none(),
            Some(v) => s.serialize_some(&**v),
            Unit => s.serialize_unit(),
            UnitStruct(n) => s.serialize_unit_struct(leak(n)),
            UnitVariant(n, v) => s.serialize_unit_variant(leak(n), 0, leak(v)),
            NewtypeStruct(n, v) => s.serialize_newtype_struct(leak(n), &**v),
            NewtypeVariant(n, va, v) => s.serialize_newtype_variant(leak(n), 0, leak(va), &**v),
            Seq(xs) => {
                let mut q = s.serialize_seq(Option::Some(xs.len()))?;
                for x in xs {
                    q.serialize_element(x)?;
                }
                q.end()
            }
            Tuple(xs) => {
                let mut q = s.serialize_tuple(xs.len())?;
                for x in xs {
                    q.serialize_element(x)?;
                }
                q.end()
            }
            TupleStruct(n, xs) => {
                let mut q = s.serialize_tuple_struct(leak(n), xs.len())?;
                for x in xs {
                    q.serialize_field(x)?;
                }
                q.end()
            }
            TupleVariant(n, va, xs) => {
                let mut q = s.serialize_tuple_variant(leak(n), 0, leak(va), xs.len())?;
                for x in xs {
                    q.serialize_field(x)?;
                }
                q.end()
            }
            Map(kvs) => {
                let mut q = s.serialize_map(Option::Some(kvs.len()))?;
                for (k, v) in kvs {
                    q.serialize_entry(k, v)?;
                }
                q.end()
            }
            Struct(n, fs) => {
                let mut q = s.serialize_struct(leak(n), fs.len())?;
                for (k, v) in fs {
                    q.serialize_field(leak(k), v)?;
                }
                q.end()
            }
            StructVariant(n, va, fs) => {
                let mut q = s.serialize_struct_variant(leak(n), 0, leak(va), fs.len())?;
                for (k, v) in fs {
                    q.serialize_field(leak(k), v)?;
                }
                q.end()
            }
            Fail(msg) => Err(serde::ser::Error::custom(msg)),
            MapKV(kvs) => {
                let mut q = s.serialize_map(Option::Some(kvs.len()))?;
                for (k, v) in kvs {
                    q.serialize_key(k)?;
                    q.serialize_value(v)?;
                }
                q.end()
            }
            DisplayText(x) => s.collect_str(x),
            HumanReadable(a, b) => {
                if s.is_human_readable() {
                    a.serialize(s)
                } else {
                    b.serialize(s)
                }
            }
        }
    }
}

fn list(xs: &[SerVal]) -> String {
    xs.iter().map(|x| format!(" {}", enc_serval(x))).collect()
}
fn fields(fs: &[(String, SerVal)]) -> String {
    fs.iter().map(|(k, v)| format!(" ({} {})", hex(k), enc_serval(v))).collect()
}

pub fn enc_serval(v: &SerVal) -> String {
    use SerVal::*;
    match v {
        Bool(b) => format!("(sbool {})", *b as u8),
        I8(x) => format!("(sint i8 {})", x),
        I16(x) => format!("(sint i16 {})", x),
        I32(x) => format!("(sint i32 {})", x),
        I64(x) => format!("(sint i64 {})", x),
        I128(x) => format!("(sint i128 {})", x),
        U8(x) => format!("(sint u8 {})", x),
        U16(x) => format!("(sint u16 {})", x),
        U32(x) => format!("(sint u32 {})", x),
        U64(x) => format!("(sint u64 {})", x),
        U128(x) => format!("(sint u128 {})", x),
        F32(x) => format!("(sf32 {:08x})", x.to_bits()),
        F64(x) => format!("(sf64 {:016x})", fbits(*x)),
        Char(c) => format!("(schar {})", *c as u32),
        Str(x) => format!("(sstr {})", hex(x)),
        Bytes(b) => format!("(sbytes{})", b.iter().map(|x| format!(" {}", x)).collect::<String>()),
        None => "(snone)".into(),
        Some(v) => format!("(ssome {})", enc_serval(v)),
        Unit => "(sunit)".into(),
        UnitStruct(n) => format!("(sunitstruct {})", hex(n)),
        UnitVariant(n, va) => format!("(sunitvariant {} {})", hex(n), hex(va)),
        NewtypeStruct(n, v) => format!("(snewtypestruct {} {})", hex(n), enc_serval(v)),
        NewtypeVariant(n, va, v) => format!("(snewtypevariant {} {} {})", hex(n), hex(va), enc_serval(v)),
        Seq(xs) => format!("(sseq{})", list(xs)),
        Tuple(xs) => format!("(stuple{})", list(xs)),
        TupleStruct(n, xs) => format!("(stuplestruct {}{})", hex(n), list(xs)),
        TupleVariant(n, va, xs) => format!("(stuplevariant {} {}{})", hex(n), hex(va), list(xs)),
        Map(kvs) => format!("(smap{})", kvs.iter().map(|(k, v)| format!(" ({} {})", enc_serval(k), enc_serval(v))).collect::<String>()),
        Struct(n, fs) => format!("(sstruct {}{})", hex(n), fields(fs)),
        StructVariant(n, va, fs) => format!("(sstructvariant {} {}{})", hex(n), hex(va), fields(fs)),
        Fail(m) => format!("(sfail {})", hex(m)),
        // the model knows one map kind and a human-readable serializer
        MapKV(kvs) => enc_serval(&Map(kvs.clone())),
        HumanReadable(a, _) => enc_serval(a),
        DisplayText(x) => enc_serval(&Str(x.clone())),
    }
}

/// canonical error: serialization errors keep their message only when it is one the harness injected
fn enc_ser_result(r: &Result<Value, reval::Error>) -> String {
    match r {
        Ok(v) => format!("(ok {})", enc_value(v)),
        Err(reval::Error::ValueSerializationError(m)) => {
            if m.starts_with("custom:") {
                format!("(err ser {})", hex(m))
            } else {
                "(err ser -)".to_string()
            }
        }
        Err(e) => enc_err(e),
    }
}

/// canonical text of a `serde_json::Value` (the encoding the Lean driver uses for its `Json`)
pub fn enc_json(j: &serde_json::Value) -> String {
    use serde_json::Value as J;
    match j {
        J::Null => "(jnull)".into(),
        J::Bool(b) => format!("(jbool {})", *b as u8),
        J::Number(n) => {
            if let Option::Some(i) = n.as_i64() {
                format!("(jint {})", i)
            } else if let Option::Some(u) = n.as_u64() {
                format!("(jint {})", u)
            } else {
                format!("(jfloat {:016x})", fbits(n.as_f64().unwrap_or(f64::NAN)))
            }
        }
        J::String(s) => format!("(jstr {})", hex(s)),
        J::Array(xs) => format!("(jarr{})", xs.iter().map(|x| format!(" {}", enc_json(x))).collect::<String>()),
        J::Object(m) => {
            let b: std::collections::BTreeMap<&String, &serde_json::Value> = m.iter().collect();
            format!("(jobj{})", b.iter().map(|(k, x)| format!(" ({} {})", hex(k), enc_json(x))).collect::<String>())
        }
    }
}

pub fn value_to_json(v: &Value) -> Option<serde_json::Value> {
    use serde_json::Value as J;
    Some(match v {
        Value::String(s) => J::String(s.clone()),
        Value::Int(i) => {
            if let Ok(x) = i64::try_from(*i) {
                J::from(x)
            } else if let Ok(x) = u64::try_from(*i) {
                J::from(x)
            } else {
                return Option::None;
            }
        }
        Value::Float(f) => {
            if !f.is_finite() {
                return Option::None;
            }
            J::from(*f)
        }
        Value::Bool(b) => J::Bool(*b),
        Value::Vec(xs) => J::Array(xs.iter().map(value_to_json).collect::<Option<Vec<_>>>()?),
        Value::Map(m) => J::Object(m.iter().map(|(k, x)| value_to_json(x).map(|j| (k.clone(), j))).collect::<Option<serde_json::Map<_, _>>>()?),
        Value::None => J::Null,
        _ => return Option::None,
    })
}

/// JSON-representable *input*: finite floats, integers within 64 bits (i64 or u64), at every depth
pub fn json_representable(v: &SerVal) -> bool {
    use SerVal::*;
    match v {
        I128(x) => i64::try_from(*x).is_ok() || u64::try_from(*x).is_ok(),
        U128(x) => u64::try_from(*x).is_ok(),
        F32(x) => x.is_finite(),
        F64(x) => x.is_finite(),
        Some(v) | NewtypeStruct(_, v) | NewtypeVariant(_, _, v) => json_representable(v),
        Seq(xs) | Tuple(xs) | TupleStruct(_, xs) | TupleVariant(_, _, xs) => xs.iter().all(json_representable),
        Map(kvs) | MapKV(kvs) => kvs.iter().all(|(k, v)| json_representable(k) && json_representable(v)),
        HumanReadable(a, _) => json_representable(a),
        Struct(_, fs) | StructVariant(_, _, fs) => fs.iter().all(|(_, v)| json_representable(v)),
        _ => true,
    }
}

pub struct Gen<'a> {
    pub rng: &'a mut Rng,
}

const NAMES: [&str; 6] = ["a", "b", "A", "k", "Variant", ""];

impl<'a> Gen<'a> {
    fn name(&mut self) -> String {
        self.rng.pick(&NAMES).to_string()
    }
    pub fn scalar(&mut self) -> SerVal {
        use SerVal::*;
        let r = self.rng.next_u64();
        match self.rng.below(22) {
            0 => Bool(r & 1 == 1),
            1 => I8(*self.rng.pick(&[i8::MIN, -1, 0, 1, i8::MAX])),
            2 => I16(*self.rng.pick(&[i16::MIN, -1, 0, 1, i16::MAX])),
            3 => I32(*self.rng.pick(&[i32::MIN, -1, 0, 1, i32::MAX])),
            4 => I64(*self.rng.pick(&[i64::MIN, -1, 0, 1, i64::MAX, 1 << 53])),
            5 => I128(*self.rng.pick(&[i128::MIN, i128::MIN + 1, -1, 0, 1, i128::MAX, i64::MAX as i128 + 1, i64::MIN as i128 - 1, u64::MAX as i128, u64::MAX as i128 + 1])),
            6 => U8(*self.rng.pick(&[0, 1, u8::MAX])),
            7 => U16(*self.rng.pick(&[0, 1, u16::MAX])),
            8 => U32(*self.rng.pick(&[0, 1, u32::MAX])),
            9 => U64(*self.rng.pick(&[0, 1, u64::MAX, i64::MAX as u64, i64::MAX as u64 + 1])),
            10 => U128(*self.rng.pick(&[0, 1, u128::MAX, i128::MAX as u128, i128::MAX as u128 + 1, u64::MAX as u128, u64::MAX as u128 + 1])),
            11 => F32(*self.rng.pick(&[0.0f32, -0.0, 1.5, 0.1, f32::MAX, f32::MIN_POSITIVE, 1e-45, f32::INFINITY, f32::NEG_INFINITY, f32::NAN])),
            12 => F64(*self.rng.pick(&[0.0f64, -0.0, 1.5, 0.1, f64::MAX, 5e-324, f64::INFINITY, f64::NEG_INFINITY, f64::NAN, 1e300])),
            13 => Char(*self.rng.pick(&['a', '\0', 'é', '\u{10FFFF}', '"', '\\'])),
            14 => Str(self.rng.pick(&["", "a", "b", "é\"\\\n", "k"]).to_string()),
            15 => Bytes((0..self.rng.below(4)).map(|_| (r >> 3) as u8).collect()),
            16 => None,
            17 => Unit,
            18 => UnitStruct(self.name()),
            19 => UnitVariant(self.name(), self.name()),
            20 => Fail(format!("custom:{}", self.rng.below(3))),
            _ => I64((r % 1000) as i64 - 500),
        }
    }
    pub fn gen(&mut self, depth: usize) -> SerVal {
        use SerVal::*;
        if depth == 0 || self.rng.chance(2, 5) {
            return self.scalar();
        }
        let d = depth - 1;
        let n = self.rng.below(4);
        match self.rng.below(11) {
            0 => Some(Box::new(self.gen(d))),
            1 => NewtypeStruct(self.name(), Box::new(self.gen(d))),
            2 => NewtypeVariant(self.name(), self.name(), Box::new(self.gen(d))),
            3 => Seq((0..n).map(|_| self.gen(d)).collect()),
            4 => Tuple((0..n).map(|_| self.gen(d)).collect()),
            5 => TupleStruct(self.name(), (0..n).map(|_| self.gen(d)).collect()),
            6 => TupleVariant(self.name(), self.name(), (0..n).map(|_| self.gen(d)).collect()),
            7 | 8 => Map((0..n)
                .map(|_| {
                    // mostly string keys; sometimes a key of any other kind
                    let k = if self.rng.chance(5, 6) { Str(self.name()) } else { self.gen(1) };
                    (k, self.gen(d))
                })
                .collect()),
            9 => Struct(self.name(), (0..n).map(|_| (self.name(), self.gen(d))).collect()),
            _ => StructVariant(self.name(), self.name(), (0..n).map(|_| (self.name(), self.gen(d))).collect()),
        }
    }
}

pub fn designed() -> Vec<SerVal> {
    use SerVal::*;
    let mut out = vec![];
    // every integer width at MIN / MAX / +-1
    macro_rules! lim {
        ($v:ident, $t:ty) => {
            for x in [<$t>::MIN, <$t>::MIN + 1, 0 as $t, 1 as $t, <$t>::MAX - 1, <$t>::MAX] {
                out.push($v(x));
            }
        };
    }
    lim!(I8, i8); lim!(I16, i16); lim!(I32, i32); lim!(I64, i64); lim!(I128, i128);
    lim!(U8, u8); lim!(U16, u16); lim!(U32, u32); lim!(U64, u64); lim!(U128, u128);
    out.push(U128(i128::MAX as u128));
    out.push(U128(i128::MAX as u128 + 1));
    // a key of every kind
    let mut g_rng = Rng::new(7);
    let mut g = Gen { rng: &mut g_rng };
    for _ in 0..200 {
        let k = g.scalar();
        out.push(Map(vec![(k, U8(1))]));
    }
    for k in [Some(Box::new(Str("a".into()))), NewtypeStruct("N".into(), Box::new(Str("a".into()))), Seq(vec![]), Map(vec![]), Tuple(vec![Str("a".into())])] {
        out.push(Map(vec![(Str("x".into()), U8(0)), (k, U8(1))]));
    }
    // duplicate keys / fields: the last one wins; insertion order vs key order
    out.push(Map(vec![(Str("b".into()), U8(1)), (Str("a".into()), U8(2)), (Str("b".into()), U8(3))]));
    out.push(Struct("S".into(), vec![("b".into(), U8(1)), ("a".into(), U8(2)), ("b".into(), U8(3))]));
    out.push(StructVariant("E".into(), "V".into(), vec![("b".into(), U8(1)), ("a".into(), U8(2)), ("b".into(), U8(3))]));
    // an out-of-range integer later overwritten by a duplicate key (succeeds with reval? no: the error comes first)
    out.push(Map(vec![(Str("a".into()), U128(u128::MAX)), (Str("a".into()), U8(1))]));
    // failure at every position
    for pos in 0..3 {
        let mut xs = vec![U8(1), U8(2), U8(3)];
        xs[pos] = Fail(format!("custom:pos{}", pos));
        out.push(Seq(xs.clone()));
        out.push(Tuple(xs.clone()));
        out.push(TupleVariant("E".into(), "V".into(), xs.clone()));
        out.push(Struct("S".into(), xs.iter().enumerate().map(|(i, x)| (format!("f{}", i), x.clone())).collect()));
        out.push(Map(xs.iter().enumerate().map(|(i, x)| (Str(format!("f{}", i)), x.clone())).collect()));
    }
    out.push(Map(vec![(Fail("custom:key".into()), U8(1))]));
    // long failure messages, ASCII and multi-byte, of every length around the usual buffer sizes: the original error
    // must come back whole (and building it must not panic)
    for unit in ["x", "é", "日", "😀"] {
        for target in [60usize, 64, 120, 128, 250, 256, 260, 512, 1024, 4096] {
            for shift in 0..4 {
                let msg = format!("custom:{}{}", "a".repeat(shift), unit.repeat(target / unit.len() + 2));
                out.push(Fail(msg.clone()));
                out.push(Struct("S".into(), vec![("ok".into(), U8(1)), ("bad".into(), Fail(msg))]));
            }
        }
    }
    // large unsorted maps / structs with a repeated key at every kind of position: the last occurrence wins at any size
    for n in [8usize, 21, 25, 40, 100, 300] {
        let order: Vec<usize> = (0..n).map(|i| (i * 7 + 3) % n).collect();
        for dup_at in [0usize, 1, n / 2, n - 2, n - 1] {
            let mut kvs: Vec<(String, SerVal)> = order.iter().map(|i| (format!("k{:03}", i), U32(*i as u32))).collect();
            let dup_key = kvs[dup_at].0.clone();
            // the duplicate is emitted first and last, around the scattered rest
            kvs.insert(0, (dup_key.clone(), U32(7_000_000)));
            kvs.push((dup_key.clone(), U32(9_000_000 + dup_at as u32)));
            let as_map: Vec<(SerVal, SerVal)> = kvs.iter().map(|(k, v)| (Str(k.clone()), v.clone())).collect();
            out.push(Map(as_map.clone()));
            out.push(MapKV(as_map));
            out.push(Struct("S".into(), kvs.clone()));
            out.push(StructVariant("E".into(), "V".into(), kvs));
        }
    }
    // types that branch on `is_human_readable` (the shapes std's Ipv4Addr / SocketAddr / uuid produce)
    out.push(HumanReadable(Box::new(Str("192.168.1.10".into())), Box::new(Tuple(vec![U8(192), U8(168), U8(1), U8(10)]))));
    out.push(HumanReadable(Box::new(Str("10.0.0.1:80".into())), Box::new(Tuple(vec![Tuple(vec![U8(10), U8(0), U8(0), U8(1)]), U16(80)]))));
    out.push(Struct("Conn".into(), vec![("peer".into(), HumanReadable(Box::new(Str("::1".into())), Box::new(NewtypeVariant("IpAddr".into(), "V6".into(), Box::new(Bytes(vec![0; 16])))))), ("port".into(), U16(443))]));
    out.push(Map(vec![(HumanReadable(Box::new(Str("k".into())), Box::new(U8(1))), HumanReadable(Box::new(U8(1)), Box::new(Str("x".into()))))]));
    // Display texts handed over with `collect_str`, and plain strings, that read like values of other kinds: a timestamp
    // (with and without offset), a duration, a number, a boolean, none, a list — they are strings
    for t in ["2015-07-30T03:26:13Z", "2015-07-30T05:26:13+02:00", "2015-07-30T03:26:13.123456789Z", "2015-07-30", "03:26:13", "PT3600S", "P1D", "1h30m", "42", "-1", "1.5", "d1.5", "i42", "f1e5", "true", "false", "none", "null", "[1, 2]", "{\"a\": 1}", "", " "] {
        out.push(DisplayText(t.into()));
        out.push(Str(t.into()));
        out.push(Struct("Event".into(), vec![("at".into(), DisplayText(t.into())), ("label".into(), Str(t.into()))]));
        out.push(Seq(vec![DisplayText(t.into()), Some(Box::new(DisplayText(t.into())))]));
        out.push(Map(vec![(DisplayText(t.into()), DisplayText(t.into()))]));
        out.push(NewtypeStruct("Stamp".into(), Box::new(DisplayText(t.into()))));
    }
    // long strings, keys and collections (nothing is abridged)
    out.push(Str("é日😀".repeat(400)));
    out.push(Map(vec![(Str("k".repeat(300)), Str("v".repeat(300)))]));
    out.push(Seq((0..300).map(|i| U16(i as u16)).collect()));
    out.push(Map((0..300).map(|i| (Str(format!("k{:03}", i)), U16(i as u16))).collect()));
    out.push(Bytes((0..=255u8).collect()));
    out.push(Some(Box::new(Some(Box::new(None)))));
    out.push(Unit); out.push(None); out.push(UnitStruct("U".into()));
    out
}

pub fn impl_serialize(v: &SerVal) -> String {
    match catch_unwind(AssertUnwindSafe(|| v.serialize(ValueSerializer))) {
        Err(p) => format!("PANIC {}", panic_msg(p).replace(['\t', '\n'], " ")),
        Ok(r) => enc_ser_result(&r),
    }
}

/// integers of the input in traversal order (to check "never alters a number")
pub fn run(rep: &mut Report, driver: &str, workers: usize, thorough: bool, seed: u64) {
    let mut rng = Rng::new(seed);
    let mut vals = designed();
    {
        let mut g = Gen { rng: &mut rng };
        for _ in 0..(if thorough { 300000 } else { 30000 }) {
            let d = g.rng.below(6);
            vals.push(g.gen(d));
        }
    }
    let reqs: Vec<String> = vals.iter().map(|v| format!("ser\t{}", enc_serval(v))).collect();
    let replies = par_batch(driver, workers, &reqs);
    let mut sr = StreamReport::new(
        "serde-data-model",
        "values of the serde data model: all 29 kinds, every integer width at MIN/MAX/+-1 (incl. u128 above i128::MAX), non-finite floats, nesting to depth 5, empty containers, maps with a key of every kind, all four variant shapes, duplicate keys/fields, failing Serialize impls at every position; compared: T::serialize(ValueSerializer) under catch_unwind vs the model, and vs serde_json::to_value whenever the input is JSON-representable and both succeed; on those cases the Lean model of serde_json::to_value (Spec.jsonOf) and of the JSON reading of a Value (Spec.toJson) are compared with serde_json itself",
        false,
    );
    let mut json_compared = 0u64;
    let mut json_model_compared = 0u64;
    let jreqs: Vec<String> = vals.iter().map(|v| format!("json\t{}", enc_serval(v))).collect();
    let jreplies = par_batch(driver, workers, &jreqs);
    for ((v, m), jm) in vals.iter().zip(replies.iter()).zip(jreplies.iter()) {
        let imp = impl_serialize(v);
        let canon = enc_serval(v);
        sr.count(&canon, true);
        sr.hist("impl_outcome", if imp.starts_with("(ok") { "ok" } else if imp.starts_with("PANIC") { "panic" } else { imp.split(' ').nth(1).unwrap_or("?").trim_end_matches(')') });
        sr.hist("top_kind", canon.split(' ').next().unwrap_or("").trim_start_matches('('));
        // the model's ser message for a non-string key is empty; same canonical form
        let model = m.clone();
        let mut push = |kind: &str, pred: &str, sig: String, model_out: &str| {
            rep.add_finding(Finding { kind: kind.into(), stream: "serde-data-model".into(), case: format!("ser\t{}", canon), human: format!("{:?}", v).chars().take(200).collect(), impl_out: imp.clone(), model_out: model_out.into(), predicate: pred.into(), signature: sig })
        };
        if imp.starts_with("PANIC") {
            push("impl-violates-property", "serialization never panics", "C13 panic".into(), &model);
            continue;
        }
        if imp != model {
            push("impl-violates-property", "the image must be the faithful image (the model's, proved to have the listed features)", format!("C13 image {}", canon.split(' ').next().unwrap_or("")), &model);
            continue;
        }
        if imp.starts_with("(ok") && json_representable(v) {
            if let (Ok(val), Ok(j)) = (v.serialize(ValueSerializer), serde_json::to_value(v)) {
                if let Option::Some(mine) = value_to_json(&val) {
                    json_compared += 1;
                    if mine != j {
                        push("impl-violates-property", "on JSON-representable data the image coincides with serde_json's", "C13 json".into(), &j.to_string());
                    }
                    // the two functions the theorem `ser_matches_json` relates, against what they model:
                    // Spec.jsonOf vs serde_json::to_value, Spec.toJson vs the JSON reading of the real image
                    let want = format!("{}\t{}", enc_json(&j), enc_json(&mine));
                    json_model_compared += 1;
                    if &want != jm {
                        rep.add_finding(Finding { kind: "model-disagreement".into(), stream: "serde-data-model".into(), case: format!("json\t{}", canon), human: format!("{:?}", v).chars().take(200).collect(), impl_out: want, model_out: jm.clone(), predicate: "Spec/Json.lean must describe serde_json::to_value and the JSON reading of a Value (the theorem ser_matches_json is about these two functions)".into(), signature: "C13 json-model".into() });
                    }
                }
            }
        }
    }
    // real library types whose `Serialize` consults `is_human_readable()`: the image must be serde_json's
    {
        use std::net::{IpAddr, Ipv4Addr, Ipv6Addr, SocketAddr};
        fn cmp<T: Serialize + std::fmt::Debug>(x: &T, rep: &mut Report, sr: &mut StreamReport) {
            sr.count(&format!("std {:?}", x), true);
            sr.hist("top_kind", "std-type");
            let mine = catch_unwind(AssertUnwindSafe(|| x.serialize(ValueSerializer)));
            let j = serde_json::to_value(x);
            let ok = match (&mine, &j) {
                (Ok(Ok(v)), Ok(j)) => value_to_json(v).as_ref() == Option::Some(j),
                _ => false,
            };
            if !ok {
                rep.add_finding(Finding { kind: "impl-violates-property".into(), stream: "serde-data-model".into(), case: format!("std\t{:?}", x), human: format!("{:?}", x), impl_out: format!("{:?}", mine.as_ref().map(|r| r.as_ref().map(enc_value).map_err(|e| e.to_string())).map_err(|_| "PANIC")), model_out: format!("{:?}", j.as_ref().map(|j| j.to_string()).map_err(|e| e.to_string())), predicate: "on JSON-representable data the image coincides with serde_json's".into(), signature: "C13 json std-type".into() });
            }
        }
        let v4 = Ipv4Addr::new(192, 168, 1, 10);
        let v6 = Ipv6Addr::new(0x2001, 0xdb8, 0, 0, 0, 0, 0, 1);
        cmp(&v4, rep, &mut sr);
        cmp(&v6, rep, &mut sr);
        cmp(&IpAddr::V4(v4), rep, &mut sr);
        cmp(&IpAddr::V6(v6), rep, &mut sr);
        cmp(&SocketAddr::new(IpAddr::V4(v4), 8080), rep, &mut sr);
        cmp(&vec![(String::from("peer"), IpAddr::V6(v6))].into_iter().collect::<std::collections::BTreeMap<_, _>>(), rep, &mut sr);
        cmp(&std::time::Duration::new(5, 7), rep, &mut sr);
        // the standard library's own time types at the edges of chrono's (a serializer that recognises them by shape must
        // stay total): whole seconds at TimeDelta::MAX with every sub-second part, u64::MAX seconds, the epoch and far instants
        for secs in [0u64, 1, 9_223_372_036_854_774, 9_223_372_036_854_775, 9_223_372_036_854_776, i64::MAX as u64, u64::MAX, 8_210_266_876_799, 8_210_266_876_800] {
            for nanos in [0u32, 1, 806_999_999, 807_000_000, 807_000_001, 900_000_000, 999_999_999] {
                cmp(&std::time::Duration::new(secs, nanos), rep, &mut sr);
            }
        }
        for d in [0u64, 1, 1_438_226_773, 8_210_266_876_799, 8_210_266_876_800, 9_223_372_036, 9_223_372_037] {
            if let Some(t) = std::time::UNIX_EPOCH.checked_add(std::time::Duration::new(d, 999_999_999)) {
                cmp(&t, rep, &mut sr);
            }
            if let Some(t) = std::time::UNIX_EPOCH.checked_sub(std::time::Duration::new(d.min(8_000_000_000), 1)) {
                let _ = catch_unwind(AssertUnwindSafe(|| t.serialize(ValueSerializer))).map_err(|_| rep.add_finding(Finding { kind: "impl-violates-property".into(), stream: "serde-data-model".into(), case: format!("std\t{:?}", t), human: format!("{:?}", t), impl_out: "PANIC".into(), model_out: "a value or an error".into(), predicate: "serialization is total".into(), signature: "C13 panic std-type".into() }));
            }
        }
        cmp(&vec![std::time::Duration::new(9_223_372_036_854_775, 900_000_000)], rep, &mut sr);
        cmp(&std::collections::BTreeMap::from([("timeout", std::time::Duration::new(9_223_372_036_854_775, 999_999_999))]), rep, &mut sr);
        cmp(&std::num::Wrapping(u64::MAX), rep, &mut sr);
        cmp(&std::ops::Bound::Included(i64::MIN), rep, &mut sr);
        cmp(&std::ffi::CString::new("abc").unwrap(), rep, &mut sr);
        cmp(&Some(std::sync::atomic::AtomicU64::new(u64::MAX)), rep, &mut sr);
        cmp(&std::path::PathBuf::from("/a/b"), rep, &mut sr);
        cmp(&(1u8..4u8), rep, &mut sr);
        cmp(&std::num::NonZeroU8::new(3), rep, &mut sr);
        cmp(&std::cmp::Reverse(5i32), rep, &mut sr);
    }
    sr.hist("json", "compared_with_serde_json");
    *sr.histograms.get_mut("json").unwrap().get_mut("compared_with_serde_json").unwrap() = json_compared;
    sr.hist("json", "json_model_compared_with_serde_json");
    *sr.histograms.get_mut("json").unwrap().get_mut("json_model_compared_with_serde_json").unwrap() = json_model_compared;
    rep.streams.push(sr);
}

/// C09's last clause: `evaluate(&T)` gives the outcomes of `evaluate_value(serialize(T))`, and fails only
/// when the input cannot be serialized
pub fn run_evaluate(rep: &mut Report, driver: &str, workers: usize, thorough: bool, seed: u64) {
    use crate::gen::*;
    use reval::expr::Expr;
    let mut rng = Rng::new(seed ^ 0x5e7);
    let mut vals = designed();
    {
        let mut g = Gen { rng: &mut rng };
        for _ in 0..(if thorough { 40000 } else { 4000 }) {
            let d = g.rng.below(4);
            vals.push(g.gen(d));
        }
    }
    let full_rules: Vec<Expr> = vec![
        reff("facts"),
        crate::codec::mk_un("some", reff("facts")),
        reff("a"),
        idxk(reff("facts"), "b"),
        crate::codec::mk_bin("add", lit(Value::Int(1)), lit(Value::Int(1))),
        call("g", reff("facts")),
    ];
    // rulesets in which the input is read in exactly one syntactic position (inside a list / map literal, a branch, an
    // operand, an argument, an access path …), or not at all: a shortcut that decides from the shape of the rules whether
    // the input is needed at all must be right for every shape
    let one = |e: Expr| vec![e];
    let mut rulesets: Vec<Vec<Expr>> = vec![full_rules];
    for r in [reff("a"), reff("facts")] {
        rulesets.push(one(Expr::Vec(vec![lit(Value::Int(1)), r.clone()])));
        rulesets.push(one(emap(vec![("k", r.clone())])));
        rulesets.push(one(Expr::Vec(vec![Expr::Vec(vec![emap(vec![("k", r.clone())])])])));
        rulesets.push(one(iff(lit(Value::Bool(true)), r.clone(), lit(Value::Int(1)))));
        rulesets.push(one(iff(lit(Value::Bool(false)), lit(Value::Int(1)), r.clone())));
        rulesets.push(one(crate::codec::mk_bin("eq", r.clone(), lit(Value::Int(1)))));
        rulesets.push(one(crate::codec::mk_bin("eq", lit(Value::Int(1)), r.clone())));
        rulesets.push(one(crate::codec::mk_bin("or", lit(Value::Bool(false)), crate::codec::mk_un("some", r.clone()))));
        rulesets.push(one(crate::codec::mk_bin("contains", Expr::Vec(vec![r.clone()]), lit(Value::Int(1)))));
        rulesets.push(one(crate::codec::mk_bin("contains", r.clone(), lit(Value::Int(1)))));
        rulesets.push(one(crate::codec::mk_un("isnone", r.clone())));
        rulesets.push(one(crate::codec::mk_un("not", crate::codec::mk_un("some", r.clone()))));
        rulesets.push(one(call("g", r.clone())));
        rulesets.push(one(call("g", Expr::Vec(vec![r.clone()]))));
        rulesets.push(one(idxk(r.clone(), "b")));
        rulesets.push(one(idxn(Expr::Vec(vec![r.clone()]), 0)));
        rulesets.push(vec![lit(Value::Int(7)), crate::codec::mk_bin("div", lit(Value::Int(1)), lit(Value::Int(0))), Expr::Vec(vec![r.clone()])]);
    }
    rulesets.push(one(lit(Value::Int(7))));
    rulesets.push(one(crate::codec::mk_bin("add", lit(Value::Int(1)), lit(Value::Int(1)))));
    rulesets.push(one(call("g", lit(Value::Int(1)))));
    rulesets.push(vec![]);
    let env = EnvSpec { syms: vec![], fns: vec![FnSpec::new("g", true, FnKind::Wrap)] };
    let designed_n = designed().len();
    let mut sr = StreamReport::new("evaluate-serializable", "RuleSet::evaluate(&T) for T over the serde data model (designed + random, incl. inputs that serialize to None, to non-maps, and that fail to serialize) with rules that read the input (facts, is_some(facts), a field, facts.b, a constant, a user function of facts) and 39 further rulesets that read the input in exactly one syntactic position (inside list / map literals, branches, operands, arguments, access paths) or not at all (constants, empty ruleset); compared with evaluate_value on the separately serialized value (the property's own clause) and with the model", false);
    for (ri, rules) in rulesets.iter().enumerate() {
    let vals_here: Vec<&SerVal> = if ri == 0 { vals.iter().collect() } else { vals.iter().take(designed_n + 60).collect() };
    let rules_s: String = rules.iter().map(|e| format!(" {}", enc_expr(e))).collect();
    let reqs: Vec<String> = vals_here.iter().map(|v| format!("evalser\t(rules{})\t{}\t{}\t(oracle)", rules_s, enc_serval(v), env.enc())).collect();
    let replies = par_batch(driver, workers, &reqs);
    for (v, m) in vals_here.iter().zip(replies.iter()) {
        let v: &SerVal = v;
        let canon = format!("{}|{}", rules_s, enc_serval(v));
        sr.count(&canon, true);
        let shared = std::sync::Arc::new(Shared::default());
        let out = catch_unwind(AssertUnwindSafe(|| {
            let rs = build_ruleset(&rules, &env, &shared).expect("ruleset");
            let direct = block_on(rs.evaluate(v));
            let direct_s = match &direct {
                Ok(os) => format!("(outcomes{})", os.iter().map(|o| format!(" {}", enc_result(&o.value))).collect::<String>()),
                Err(e) => format!("EVALERR {}", enc_ser_result(&Err(clone_err(e)))),
            };
            shared.log.lock().unwrap().clear();
            let via = match v.serialize(ValueSerializer) {
                Ok(val) => match block_on(rs.evaluate_value(&val)) {
                    Ok(os) => format!("(outcomes{})", os.iter().map(|o| format!(" {}", enc_result(&o.value))).collect::<String>()),
                    Err(e) => format!("EVALERR {}", enc_err(&e)),
                },
                Err(e) => format!("EVALERR {}", enc_ser_result(&Err(e))),
            };
            (direct_s, via)
        }));
        let (direct, via) = match out {
            Ok(x) => x,
            Err(p) => (format!("PANIC {}", panic_msg(p)), String::new()),
        };
        sr.hist("impl_outcome", if direct.starts_with("(outcomes") { "outcomes" } else if direct.starts_with("PANIC") { "panic" } else { "call-failed" });
        let model_vals = m.split('\t').next().unwrap_or("");
        let prop = rep.property.clone();
        let mut push = |pred: &str, sig: &str, model_out: &str| {
            let sig = &sig.replace("C09", &prop);
            rep.add_finding(Finding { kind: "impl-violates-property".into(), stream: "evaluate-serializable".into(), case: format!("evalser\t(rules{})\t{}", rules_s, enc_serval(v)), human: format!("{:?}", v).chars().take(200).collect(), impl_out: direct.clone(), model_out: model_out.into(), predicate: pred.into(), signature: sig.into() })
        };
        if direct.starts_with("PANIC") {
            push("evaluate(&T) must not panic", "C09 evaluate panic", model_vals);
        } else if direct != via {
            push("passing a serializable input gives the same outcomes as passing its serialized value; the call fails only when serialization fails", "C09 evaluate-vs-evaluate_value", &via);
        } else if direct != model_vals && impl_serialize(v) == model_ser(v, driver) {
            // the serializer agrees with its model (C13's business otherwise) but the outcomes do not
            push("outcomes must equal the model's", "C09 evaluate model", model_vals);
        }
    }
    }
    rep.streams.push(sr);
}

fn model_ser(v: &SerVal, driver: &str) -> String {
    let mut d = crate::driver::Driver::spawn(driver).expect("driver");
    d.one(&format!("ser\t{}", enc_serval(v)))
}

fn clone_err(e: &reval::Error) -> reval::Error {
    match e {
        reval::Error::ValueSerializationError(m) => reval::Error::ValueSerializationError(m.clone()),
        reval::Error::NumericOverflow(_) => match i8::try_from(300i32) {
            Err(x) => reval::Error::NumericOverflow(x),
            Ok(_) => unreachable!(),
        },
        _ => reval::Error::InvalidType,
    }
}
