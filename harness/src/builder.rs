//! C15: builder histories — real Builder vs model; predicates of the property evaluated on the real code.
use crate::codec::*;
use crate::driver::par_batch;
use crate::evalrun::*;
use crate::report::*;
use crate::rng::Rng;
use reval::expr::Expr;
use reval::prelude::*;
use std::collections::{BTreeMap, BTreeSet};
use std::panic::{catch_unwind, AssertUnwindSafe};
use std::sync::Arc;
use unicode_xid::UnicodeXID;

#[derive(Clone, Debug)]
pub enum Op {
    Rule(String),
    Rules(Vec<String>),
    Fn(String),
    Fns(Vec<String>),
    Sym(String, Value),
    Syms(Vec<(String, Value)>),
    /// `with_symbols` of a table filled with `Symbols::append` from an iterator in the given (arbitrary) order
    SymsAppend(Vec<(String, Value)>),
}

pub const KEYWORDS: [&str; 38] = [
    "and", "or", "if", "then", "else", "is_some", "is_none", "some", "int", "float", "dec", "true", "false", "none", "contains",
    "in", "to_upper", "to_lower", "uppercase", "lowercase", "starts", "ends", "trim", "round", "floor", "fract", "date_time",
    "datetime", "duration", "year", "month", "week", "day", "hour", "minute", "second", "key", "val",
];

fn enc_op(o: &Op) -> String {
    match o {
        Op::Rule(n) => format!("(rule {})", hex(n)),
        Op::Rules(ns) => format!("(rules{})", ns.iter().map(|n| format!(" {}", hex(n))).collect::<String>()),
        Op::Fn(n) => format!("(fn {})", hex(n)),
        Op::Fns(ns) => format!("(fns{})", ns.iter().map(|n| format!(" {}", hex(n))).collect::<String>()),
        Op::Sym(k, v) => format!("(sym {} {})", hex(k), enc_value(v)),
        Op::Syms(kvs) | Op::SymsAppend(kvs) => {
            // a Symbols table is a BTreeMap: effective entries, in key order
            let m: BTreeMap<&String, &Value> = kvs.iter().map(|(k, v)| (k, v)).collect();
            format!("(syms{})", m.iter().map(|(k, v)| format!(" ({} {})", hex(k), enc_value(v))).collect::<String>())
        }
    }
}

fn rule(name: &str) -> Rule {
    Rule::new(name, BTreeMap::new(), Expr::Value(Value::None))
}

fn hfn(name: &str, shared: &Arc<Shared>) -> HFn {
    HFn { name: leak(name), spec: FnSpec::new(name, false, FnKind::Const(Value::String(name.to_string()))), shared: shared.clone() }
}

/// the property's own notion of a well-formed name (from its statement), computed with `unicode-xid` directly
pub fn well_formed(n: &str) -> bool {
    let mut cs = n.chars();
    match cs.next() {
        None => false,
        Some(c) => (c == '_' || c.is_xid_start()) && cs.all(|d| d.is_xid_continue()),
    }
}

pub struct BuilderRun {
    pub steps: Vec<String>,
    /// "(rules …)\t(fns …)\t(syms …)" when every step succeeded
    pub fin: Option<String>,
}

pub fn impl_builder(ops: &[Op], probe_fns: &[String], probe_syms: &[String]) -> Result<BuilderRun, String> {
    catch_unwind(AssertUnwindSafe(|| {
        let shared = Arc::new(Shared::default());
        let mut b = ruleset();
        let mut steps = vec![];
        for op in ops {
            let r = match op {
                Op::Rule(n) => b.with_rule(rule(n)),
                Op::Rules(ns) => b.with_rules(ns.iter().map(|n| rule(n)).collect::<Vec<_>>()),
                Op::Fn(n) => b.with_function(hfn(n, &shared)),
                Op::Fns(ns) => b.with_functions(ns.iter().map(|n| Box::new(hfn(n, &shared)) as Box<dyn UserFunction + Send + Sync>).collect::<Vec<_>>()),
                Op::Sym(k, v) => Ok(b.with_symbol(k, v.clone())),
                Op::Syms(kvs) => b.with_symbols(Symbols::from(kvs.clone())),
                Op::SymsAppend(kvs) => {
                    let mut t = Symbols::default();
                    t.append(kvs.clone());
                    b.with_symbols(t)
                }
            };
            match r {
                Ok(nb) => {
                    b = nb;
                    steps.push("ok".to_string());
                }
                Err(e) => {
                    steps.push(enc_err(&e));
                    return BuilderRun { steps, fin: None };
                }
            }
        }
        // probes: is each candidate function invocable under its own name, what does each symbol resolve to
        for (i, f) in probe_fns.iter().enumerate() {
            b = b.with_rule(Rule::new(format!("\u{1}probe-fn-{}", i), BTreeMap::new(), Expr::Function(f.clone(), Box::new(Expr::Value(Value::Int(1)))))).expect("probe rule");
        }
        for (i, s) in probe_syms.iter().enumerate() {
            b = b.with_rule(Rule::new(format!("\u{1}probe-sym-{}", i), BTreeMap::new(), Expr::Symbol(s.clone()))).expect("probe rule");
        }
        // … and under its own name as written in rule text: where the text `name(i1)` is accepted by the parser at all
        // (the lexer's identifiers are a subset of the builder's), it must reach the same function
        for (i, f) in probe_fns.iter().enumerate() {
            if let Ok(e) = Expr::parse(&format!("{}(i1)", f)) {
                b = b.with_rule(Rule::new(format!("\u{1}probe-fntext-{}", i), BTreeMap::new(), e)).expect("probe rule");
            }
        }
        let rs = b.build();
        let outs = block_on(rs.evaluate_value(&Value::None)).expect("evaluate_value");
        let mut rules = vec![];
        let mut fns = BTreeSet::new();
        let mut syms = BTreeMap::new();
        let mut text_results: BTreeMap<usize, bool> = BTreeMap::new();
        for o in &outs {
            let name = o.rule.name();
            if let Some(rest) = name.strip_prefix("\u{1}probe-fntext-") {
                let i = rest.parse::<usize>().unwrap();
                text_results.insert(i, matches!(&o.value, Ok(Value::String(s)) if s == &probe_fns[i]));
                continue;
            }
            if let Some(rest) = name.strip_prefix("\u{1}probe-fn-") {
                let f = &probe_fns[rest.parse::<usize>().unwrap()];
                if let Ok(Value::String(s)) = &o.value {
                    if s == f {
                        fns.insert(f.clone());
                    }
                }
            } else if let Some(rest) = name.strip_prefix("\u{1}probe-sym-") {
                let s = &probe_syms[rest.parse::<usize>().unwrap()];
                if let Ok(v) = &o.value {
                    syms.insert(s.clone(), v.clone());
                }
            } else {
                rules.push(name.to_string());
            }
        }
        let fin = format!(
            "(rules{})\t(fns{})\t(syms{})",
            rules.iter().map(|n| format!(" {}", hex(n))).collect::<String>(),
            fns.iter().map(|n| format!(" {}", hex(n))).collect::<String>(),
            syms.iter().map(|(k, v)| format!(" ({} {})", hex(k), enc_value(v))).collect::<String>()
        );
        let not_from_text: Vec<String> = text_results.iter().filter(|(i, ok)| fns.contains(&probe_fns[**i]) && !**ok).map(|(i, _)| hex(&probe_fns[*i])).collect();
        let fin = if not_from_text.is_empty() { fin } else { format!("{}\t(accepted-but-rule-text-reaches-something-else {})", fin, not_from_text.join(" ")) };
        BuilderRun { steps, fin: Some(fin) }
    }))
    .map_err(|p| format!("PANIC {}", panic_msg(p)))
}

fn xid_table(names: &[String]) -> String {
    let mut cs = BTreeSet::new();
    for n in names {
        for c in n.chars() {
            if (c as u32) >= 128 {
                cs.insert(c);
            }
        }
    }
    format!("(xid{})", cs.iter().map(|c| format!(" ({} {} {})", *c as u32, c.is_xid_start() as u8, c.is_xid_continue() as u8)).collect::<String>())
}

pub fn candidate_names() -> Vec<String> {
    let mut v: Vec<String> = vec![];
    for k in KEYWORDS {
        v.push(k.to_string());
        v.push(format!("{}x", k));
        v.push(format!("_{}", k));
        v.push(k.to_uppercase());
    }
    for base in ["a", "ab", "a1", "_", "_a", "__", "_1", "A", "aB", "a_b", "f", "i1", "d5", "f1e5", "x9_", "i18n", "i2c_read", "f1_score", "f64_bits", "d3_layout", "d20roll", "i1_0", "finf", "fNaN", "Year", "INT", "Int", "isNone", "DateTime", "upper", "lower", "to_uppercase", "date", "time", "is", "to", "not", "ceil", "abs"] {
        v.push(base.to_string());
    }
    // names a later release might turn into a built-in or an operator: today they are ordinary function names, invocable
    // from rule text under exactly that name
    for base in ["len", "length", "size", "count", "sum", "min", "max", "avg", "sqrt", "pow", "exp", "log", "sign", "ceiling", "truncate", "now", "today", "string", "str", "bool", "boolean", "number", "matches", "starts_with", "ends_with", "startswith", "split", "join", "replace", "substring", "concat", "any", "all", "map", "filter", "keys", "values", "first", "last", "is_empty", "empty", "coalesce", "default", "format", "parse", "type_of", "exists", "between", "like", "xor", "mod", "div", "weekday", "millisecond", "timestamp", "days", "hours", "weeks", "months", "years", "list", "vec", "dict", "set", "len_", "lenx"] {
        v.push(base.to_string());
    }
    for bad in ["", "1", "1a", "9_", " a", "a ", "a b", "a-b", "a.b", "a(b", "-", "- a"] {
        v.push(bad.to_string());
    }
    // leading underscore followed by each ASCII punctuation / space; punctuation inside and at the end
    for c in " !\"#$%&'()*+,-./:;<=>?@[\\]^`{|}~\t\n".chars() {
        v.push(format!("_{}", c));
        v.push(format!("_a{}", c));
        v.push(format!("a{}b", c));
        v.push(format!("{}a", c));
    }
    // non-ASCII: XID_Start, XID_Continue-only, neither
    for c in ['é', 'ß', 'λ', 'Ж', '中', 'ａ', '\u{0301}', '\u{00B7}', '٣', '０', '\u{200D}', '€', '→', '\u{A0}', '\u{2003}', '😀', 'ǆ', 'ﬁ', 'µ', 'ª', '\u{1885}', '\u{2118}'] {
        v.push(c.to_string());
        v.push(format!("a{}", c));
        v.push(format!("_{}", c));
        v.push(format!("{}a", c));
    }
    v
}

/// every Unicode scalar value as the first and as a later character of a function name, through `with_function`, against
/// the definition of a well-formed identifier computed directly from the unicode-xid tables (the crate the repository
/// itself uses): accepted exactly when well formed (none of these names is reserved or a duplicate)
pub fn codepoint_sweep(rep: &mut Report, workers: usize, thorough: bool) {
    let mut cps: Vec<char> = vec![];
    for c in 0u32..0x110000 {
        if thorough || c < 0x3400 || c % 16 == 0 || (0xFE00..0xFE10).contains(&c) || (0xFF00..0xFFF0).contains(&c) || (0x1D400..0x1D800).contains(&c) || (0xE0100..0xE01F0).contains(&c) {
            if let Some(ch) = char::from_u32(c) {
                cps.push(ch);
            }
        }
    }
    let mut sr = StreamReport::new("identifier-codepoints", "every Unicode scalar value below U+3400, every 16th above, the variation selectors, full-width forms and mathematical alphanumerics (thorough: every scalar value) as the first character (`<c>a`), as a later character (`a<c>`, `_<c>`) and after a non-ASCII start (`é<c>`) of a function name through with_function: accepted exactly when the name is a well-formed identifier by the unicode-xid tables", true);
    let chunk = (cps.len() + workers - 1) / workers.max(1);
    let bad: Vec<(String, bool, String)> = std::thread::scope(|sc| {
        let hs: Vec<_> = cps
            .chunks(chunk.max(1))
            .map(|cs| {
                sc.spawn(move || {
                    let mut bad = vec![];
                    let shared = Arc::new(Shared::default());
                    for c in cs {
                        for name in [format!("{}a", c), format!("a{}", c), format!("_{}", c), format!("\u{e9}{}", c)] {
                            if KEYWORDS.contains(&name.as_str()) {
                                continue;
                            }
                            let want = well_formed(&name);
                            let got = std::panic::catch_unwind(std::panic::AssertUnwindSafe(|| ruleset().with_function(hfn(&name, &shared)).is_ok()));
                            match got {
                                Ok(g) if g == want => {}
                                Ok(g) => bad.push((name, want, format!("accepted = {}", g))),
                                Err(_) => bad.push((name, want, "PANIC".to_string())),
                            }
                        }
                    }
                    bad
                })
            })
            .collect();
        hs.into_iter().flat_map(|h| h.join().unwrap_or_default()).collect()
    });
    for _ in 0..cps.len() {
        sr.evaluations += 4;
    }
    sr.distinct_nontrivial += cps.len() as u64 * 4;
    for (name, want, got) in bad.iter().take(20) {
        rep.add_finding(Finding { kind: "impl-violates-property".into(), stream: "identifier-codepoints".into(), case: format!("fnname\t{}", crate::codec::hex(name)), human: format!("with_function of a function named {:?} (U+{:04X} …)", name, name.chars().find(|c| !c.is_ascii()).map(|c| c as u32).unwrap_or(0)), impl_out: got.clone(), model_out: format!("well-formed = {}", want), predicate: "a function name is accepted exactly when it is a well-formed identifier (XID_Start or `_`, then XID_Continue) that is not reserved and not a duplicate".into(), signature: format!("C15 codepoint {}", if *want { "well-formed-refused" } else { "ill-formed-accepted" }) });
    }
    rep.streams.push(sr);
}

pub fn run(rep: &mut Report, driver: &str, workers: usize, thorough: bool, seed: u64) {
    codepoint_sweep(rep, workers, thorough);
    let mut rng = Rng::new(seed);
    let rule_names = ["r1", "r2", "R1"];
    let fn_names = ["f", "g", "_h", "if"];
    let sym_names = ["s", "t", "S"];
    let mut atoms: Vec<Op> = vec![];
    for r in rule_names {
        atoms.push(Op::Rule(r.into()));
    }
    atoms.push(Op::Rules(vec!["r1".into(), "r2".into()]));
    atoms.push(Op::Rules(vec!["r2".into(), "R1".into(), "r2".into()]));
    for f in fn_names {
        atoms.push(Op::Fn(f.into()));
    }
    atoms.push(Op::Fns(vec!["f".into(), "g".into()]));
    atoms.push(Op::Fns(vec!["g".into(), "_h".into(), "g".into()]));
    atoms.push(Op::Sym("s".into(), Value::Int(1)));
    atoms.push(Op::Sym("s".into(), Value::Int(2)));
    atoms.push(Op::Sym("t".into(), Value::Int(3)));
    atoms.push(Op::Syms(vec![("s".into(), Value::Int(4)), ("S".into(), Value::Int(5))]));
    atoms.push(Op::Syms(vec![]));
    let mut seqs: Vec<Vec<Op>> = vec![vec![]];
    // all operation sequences up to length 3 (thorough 4), random up to 6
    let maxlen = if thorough { 4 } else { 3 };
    let mut cur: Vec<Vec<usize>> = vec![vec![]];
    for _ in 0..maxlen {
        let mut next = vec![];
        for t in &cur {
            for i in 0..atoms.len() {
                let mut u = t.clone();
                u.push(i);
                next.push(u);
            }
        }
        for t in &next {
            seqs.push(t.iter().map(|i| atoms[*i].clone()).collect());
        }
        cur = next;
    }
    for _ in 0..(if thorough { 30000 } else { 5000 }) {
        let n = 4 + rng.below(3);
        seqs.push((0..n).map(|_| atoms[rng.below(atoms.len())].clone()).collect());
    }
    // long histories: whatever indexes, sorts or pages the accepted names must stay exact at every size
    let big = 70usize;
    let rn = |i: usize| format!("rule {}", i);
    let fnn = |i: usize| format!("fn_{}", i);
    // after every number n of accepted names, a duplicate of the first, the last, the one before and a middle one:
    // an index / sorted table / filter that is built or switched at some size misses exactly the name added there
    for n in 1..=big {
        let mut ks = vec![0usize, n - 1, n.saturating_sub(2), n / 2];
        ks.dedup();
        for k in ks {
            let mut h: Vec<Op> = (0..n).map(|i| Op::Rule(rn(i))).collect();
            h.push(Op::Rule(rn(k)));
            seqs.push(h);
            let mut h: Vec<Op> = (0..n).map(|i| Op::Fn(fnn((i * 7) % big))).collect();
            h.push(Op::Fn(fnn((k * 7) % big)));
            seqs.push(h);
            if n % 8 == 1 || n == 17 || n == 33 || n == 65 {
                let mut h: Vec<Op> = (0..n).map(|i| Op::Rule(rn(i))).collect();
                h.push(Op::Rules(vec![rn(n), rn(k)]));
                seqs.push(h);
            }
        }
    }
    for k in 0..big {
        let mut h: Vec<Op> = (0..big).map(|i| Op::Rule(rn(i))).collect();
        h.push(Op::Rule(rn(k)));
        seqs.push(h);
        seqs.push(vec![Op::Rules((0..big).map(rn).collect()), Op::Rule(rn(k))]);
        seqs.push(vec![Op::Rules((0..big).map(rn).chain([rn(k)]).collect())]);
        let mut h: Vec<Op> = (0..big).map(|i| Op::Fn(fnn((i * 7) % big))).collect();
        h.push(Op::Fn(fnn(k)));
        seqs.push(h);
        seqs.push(vec![Op::Fns((0..big).map(|i| fnn((i * 7) % big)).collect()), Op::Fn(fnn(k))]);
    }
    {
        // symbols registered in descending, ascending and scattered order, one by one and through `append`
        let order: Vec<usize> = (0..big).map(|i| (i * 17 + 5) % big).collect();
        let name = |i: usize| format!("s{:02}", i);
        seqs.push(order.iter().map(|i| Op::Sym(name(*i), Value::Int(*i as i128))).collect());
        seqs.push(vec![Op::SymsAppend(order.iter().map(|i| (name(*i), Value::Int(*i as i128))).collect())]);
        seqs.push(vec![Op::SymsAppend((0..big).rev().map(|i| (name(i), Value::Int(i as i128))).collect())]);
        seqs.push(vec![Op::SymsAppend(vec![("zeta".into(), Value::Int(1)), ("mid".into(), Value::Int(2)), ("alpha".into(), Value::Int(3))])]);
        seqs.push(vec![Op::Sym("m".into(), Value::Int(0)), Op::SymsAppend(vec![("zeta".into(), Value::Int(1)), ("mid".into(), Value::Int(2)), ("alpha".into(), Value::Int(3)), ("m".into(), Value::Int(9))])]);
        seqs.push(vec![Op::Syms(order.iter().map(|i| (name(*i), Value::Int(*i as i128))).collect()), Op::SymsAppend(vec![(name(3), Value::Int(-3)), ("zz".into(), Value::Int(7)), (name(1), Value::Int(-1))])]);
    }
    let n_hist = seqs.len();
    // candidate function names: one `with_function` each, after an accepted `f`
    let cands = candidate_names();
    for c in &cands {
        seqs.push(vec![Op::Fn("f".into()), Op::Fn(c.clone())]);
        seqs.push(vec![Op::Fns(vec![c.clone(), c.clone()])]);
    }
    let probe_fns_base: Vec<String> = fn_names.iter().map(|s| s.to_string()).collect();
    let probe_syms: Vec<String> = sym_names.iter().map(|s| s.to_string()).chain(["zz".to_string()]).collect();

    let mut reqs = vec![];
    let mut probes = vec![];
    let mut sym_probes = vec![];
    for ops in &seqs {
        let mut ps = probe_syms.clone();
        for o in ops {
            match o {
                Op::Sym(k, _) => {
                    if !ps.contains(k) {
                        ps.push(k.clone())
                    }
                }
                Op::Syms(kvs) | Op::SymsAppend(kvs) => {
                    for (k, _) in kvs {
                        if !ps.contains(k) {
                            ps.push(k.clone())
                        }
                    }
                }
                _ => {}
            }
        }
        sym_probes.push(ps);
        let mut names: Vec<String> = vec![];
        for o in ops {
            match o {
                Op::Fn(n) => names.push(n.clone()),
                Op::Fns(ns) => names.extend(ns.iter().cloned()),
                _ => {}
            }
        }
        let mut pf = probe_fns_base.clone();
        for n in &names {
            if !pf.contains(n) {
                pf.push(n.clone());
            }
        }
        reqs.push(format!("builder\t(ops{})\t{}", ops.iter().map(|o| format!(" {}", enc_op(o))).collect::<String>(), xid_table(&names)));
        probes.push(pf);
    }
    let replies = par_batch(driver, workers, &reqs);
    let mut sr = StreamReport::new(
        "builder-histories",
        "every sequence of <= 3 (thorough 4) builder calls over 17 atoms (with_rule x3 names, with_rules batches incl. an inner duplicate, with_function x4 names incl. a reserved word and a leading underscore, with_functions batches incl. an inner duplicate, with_symbol / with_symbols incl. re-registration) exhaustively, random longer ones; long histories (after every number n ≤ 70 of accepted rules / functions a duplicate of the first, last, last-but-one and middle name; 70 rules / functions one by one and in batches followed by a duplicate of each of the 70 names; 40 symbols in scattered / descending order one by one, through `Symbols::from` and through `Symbols::append`); then every candidate function name (all 38 reserved words and their near-misses, identifiers, leading digit, `_` + every ASCII punctuation/space, embedded space/dash, empty, non-ASCII XID_Start / XID_Continue-only / neither) through with_function and with_functions. Observed: Ok/Err and the name in the error of every call; the built ruleset evaluated with probe rules (accepted rules in order via Outcome.rule.name(), each function invocable under its own name, each symbol's value)",
        false,
    );
    for (i, ops) in seqs.iter().enumerate() {
        let canon = &reqs[i];
        sr.count(canon, !ops.is_empty());
        sr.hist("part", if i < n_hist { "history" } else { "candidate-name" });
        let imp = impl_builder(ops, &probes[i], &sym_probes[i]);
        let model_full = &replies[i];
        let mut push = |pred: &str, sig: String, imp_s: &str| {
            rep.add_finding(Finding { kind: "impl-violates-property".into(), stream: "builder-histories".into(), case: canon.clone(), human: format!("{:?}", ops).chars().take(200).collect(), impl_out: imp_s.into(), model_out: model_full.clone(), predicate: pred.into(), signature: sig })
        };
        let run = match imp {
            Err(p) => {
                push("builder calls never panic", "C15 panic".into(), &p);
                continue;
            }
            Ok(r) => r,
        };
        // property predicate on the real code alone, for single with_function candidates
        if i >= n_hist {
            if let [Op::Fn(_), Op::Fn(c)] = ops.as_slice() {
                let should = well_formed(c) && !KEYWORDS.contains(&c.as_str()) && c != "f";
                let did = run.steps.len() == 2 && run.steps[1] == "ok";
                if should != did {
                    push("with_function succeeds exactly when the name is a well-formed identifier, not reserved, not added before", format!("C15 {} name", if did { "accepted-ill-formed" } else { "refused-well-formed" }), &run.steps.join(" "));
                    continue;
                }
                if !did && !run.steps[1].contains(&hex(c)) && !c.is_empty() {
                    push("a refusal reports the offending name", "C15 refusal-name".into(), &run.steps.join(" "));
                    continue;
                }
            }
        }
        // model comparison: model's fns list is what is stored; the probe reports the invocable ones among the probed names
        let imp_s = format!("(steps {}){}", run.steps.join(" "), run.fin.as_ref().map(|f| format!("\t{}", f)).unwrap_or_default());
        let imp_s = imp_s.replace("(steps )", "(steps)");
        // the symbols the model holds but the probe list does not cover cannot be observed: restrict the model's syms to probed names
        if &imp_s != model_full {
            push("every call's Ok/Err (+ name), the accepted rules in order, the invocable functions and the symbol values must equal the model's", "C15 history".into(), &imp_s);
        }
        sr.hist("impl_outcome", if run.fin.is_some() { "built" } else { "refused" });
    }
    rep.streams.push(sr);
}
