//! The compiled Lean driver as a child process: one request line in, one reply line out.
use std::io::{BufRead, BufReader, Write};
use std::process::{Child, ChildStdin, ChildStdout, Command, Stdio};

pub struct Driver {
    child: Child,
    stdin: Option<ChildStdin>,
    stdout: BufReader<ChildStdout>,
}

impl Driver {
    pub fn spawn(path: &str) -> std::io::Result<Driver> {
        let mut child = Command::new(path).stdin(Stdio::piped()).stdout(Stdio::piped()).stderr(Stdio::inherit()).spawn()?;
        let stdin = child.stdin.take();
        let stdout = BufReader::new(child.stdout.take().unwrap());
        Ok(Driver { child, stdin, stdout })
    }

    /// send all requests (from a writer thread, so that neither pipe can fill up) and collect the replies
    pub fn batch(&mut self, reqs: &[String]) -> Vec<String> {
        let mut out = Vec::with_capacity(reqs.len());
        let mut stdin = self.stdin.take().expect("driver stdin");
        let stdout = &mut self.stdout;
        std::thread::scope(|sc| {
            let h = sc.spawn(move || {
                for r in reqs {
                    debug_assert!(!r.contains('\n'));
                    if stdin.write_all(r.as_bytes()).is_err() || stdin.write_all(b"\n").is_err() {
                        break;
                    }
                }
                let _ = stdin.flush();
                stdin
            });
            for _ in 0..reqs.len() {
                let mut line = String::new();
                match stdout.read_line(&mut line) {
                    Ok(0) | Err(_) => {
                        out.push("driver-died".to_string());
                    }
                    Ok(_) => {
                        while line.ends_with('\n') || line.ends_with('\r') {
                            line.pop();
                        }
                        out.push(line);
                    }
                }
            }
            self.stdin = Some(h.join().unwrap());
        });
        out
    }

    pub fn one(&mut self, req: &str) -> String {
        self.batch(&[req.to_string()]).pop().unwrap()
    }
}

impl Drop for Driver {
    fn drop(&mut self) {
        self.stdin.take();
        let _ = self.child.wait();
    }
}

/// Run `reqs` through `workers` driver processes in parallel, preserving order.
pub fn par_batch(path: &str, workers: usize, reqs: &[String]) -> Vec<String> {
    if reqs.is_empty() {
        return vec![];
    }
    let workers = workers.max(1).min((reqs.len() + 255) / 256).max(1);
    let chunk = (reqs.len() + workers - 1) / workers;
    let mut results: Vec<Vec<String>> = Vec::new();
    std::thread::scope(|sc| {
        let hs: Vec<_> = reqs
            .chunks(chunk)
            .map(|c| {
                sc.spawn(move || {
                    let mut d = Driver::spawn(path).expect("spawn driver");
                    d.batch(c)
                })
            })
            .collect();
        for h in hs {
            results.push(h.join().unwrap());
        }
    });
    results.into_iter().flatten().collect()
}
