import sys
sys.path.insert(0,'/tmp')
from refparse import *
WSCH = set(chr(c) for c in WS)
def rs_lines(s):
    # str::lines: split on \n, strip one trailing \r per line, no trailing empty line
    parts = s.split('\n')
    if parts and parts[-1] == '': parts = parts[:-1]
    return [p[:-1] if p.endswith('\r') else p for p in parts]
def trim_start(s):
    i=0
    while i<len(s) and s[i] in WSCH: i+=1
    return s[i:]
def trim(s):
    s=trim_start(s); j=len(s)
    while j>0 and s[j-1] in WSCH: j-=1
    return s[:j]
def comment_lines(text):
    out=[]
    for l in rs_lines(text):
        t=trim_start(l)
        if t.startswith('//'): out.append(trim(t[2:]))
    return out
class Flat(Exception): pass
def flatten(e):
    if e[0]=='lit': return e[1]
    if e[0]=='vec': return ('vec',[flatten(x) for x in e[1]])
    if e[0]=='map': return ('map',[(k,flatten(v)) for k,v in e[1]])
    raise Flat()
def dbg(v):
    k=v[0]
    if k=='str':
        s=v[1]; o='"'
        for c in s:
            if c=='"': o+='\\"'
            elif c=='\\': o+='\\\\'
            elif c=='\n': o+='\\n'
            elif c=='\r': o+='\\r'
            elif c=='\t': o+='\\t'
            else: o+=c
        return 'String('+o+'")'
    if k=='int': return 'Int(%d)'%v[1]
    if k=='float':
        import struct
        f=struct.unpack('>d',struct.pack('>Q',v[1]))[0]
        r=repr(f)
        return 'Float(%s)'%r
    if k=='dec': return 'Decimal(%s)'%disp_dec(v[1])
    if k=='bool': return 'Bool(%s)'%('true' if v[1] else 'false')
    if k=='none': return 'None'
    if k=='vec': return 'Vec(['+', '.join(dbg(x) for x in v[1])+'])'
    if k=='map': return 'Map({'+', '.join('"%s": %s'%(kk,dbg(x)) for kk,x in v[1])+'})'
def parse_rule(text):
    toks=lex(text)           # may raise LexError
    p=P(toks)
    metas=[]
    while p.isp('@'):
        p.i+=1
        q=p.peek()
        if q is None or q[0]!='IDENT': p.fail()
        p.i+=1; p.expect_p(':'); e=p.expr(); p.expect_p(';')
        metas.append((q[1],e))
    e=p.expr()
    if p.peek() is not None: raise ParseError('E-tok')
    # RuleBuilder::parse
    md={}; name=None
    for k,me in metas:
        try: v=flatten(me); ok=True
        except Flat: ok=False
        if k=='name' and ok and v[0]=='str': name=v[1]
        elif k=='name' and ok: raise ParseError('E-nameval')
        elif ok: md[k]=v
        else: raise ParseError('E-meta')
    cl=comment_lines(text)
    if cl:
        if name is None: name=cl[0]
        if len(cl)>1 and 'description' not in md: md['description']=('str','\n'.join(cl[1:]))
    if name is None: raise ParseError('E-missing')
    desc = md['description'][1] if 'description' in md and md['description'][0]=='str' else None
    return name,desc,sorted(md.items()),e
n=bad=0; shown=0
for line in open('/tmp/rules_out.tsv'):
    parts=line.rstrip('\n').split('\t')
    text=bytes.fromhex(parts[0]).decode('utf-8'); real=parts[1:]
    n+=1
    try:
        name,desc,md,e=parse_rule(text)
        mine=['OK',hx(name),hx(desc) if desc is not None else '-',hx(''.join('%s=%s;'%(k,dbg(v)) for k,v in md)),sexp(e)]
    except LexError: mine=['E-parse']
    except ParseError as pe: mine=[pe.cls if pe.cls in ('E-missing','E-nameval','E-meta') else 'E-parse']
    if mine!=real:
        bad+=1
        if shown<15:
            shown+=1
            print('MISMATCH',repr(text),'\n   real:',real[:1], [bytes.fromhex(x).decode() if i in(1,2,3) and x!='-' else x for i,x in enumerate(real)][1:4],'\n   mine:',mine[:1],[bytes.fromhex(x).decode() if i in(1,2,3) and x!='-' else x for i,x in enumerate(mine)][1:4])
print('cases',n,'mismatches',bad)
