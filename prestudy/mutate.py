import subprocess, os, sys, time, shutil
R='/tmp/repo_mut'
EV=R+'/src/expr/eval/mod.rs'; GR=R+'/src/reval.lalrpop'; UN=R+'/src/parse/unescape.rs'; HP=R+'/src/parse/helpers.rs'; RU=R+'/src/parse/rule.rs'
FN=R+'/src/function.rs'; RS=R+'/src/ruleset/mod.rs'; EX=R+'/src/expr/mod.rs'; VA=R+'/src/value/mod.rs'
M=[
 ('E01 gt Int > to >=', EV, '(Value::Int(left), Value::Int(right)) => Ok(Value::Bool(left > right)),', '(Value::Int(left), Value::Int(right)) => Ok(Value::Bool(left >= right)),'),
 ('E02 sub Decimal swapped', EV, '(Value::Decimal(left), Value::Decimal(right)) => Ok(Value::Decimal(left - right)),', '(Value::Decimal(left), Value::Decimal(right)) => Ok(Value::Decimal(right - left)),'),
 ('E03 round Decimal midpoint away', EV, 'Value::Decimal(inner) => Ok(Value::Decimal(inner.round())),', 'Value::Decimal(inner) => Ok(Value::Decimal(inner.round_dp_with_strategy(0, RoundingStrategy::MidpointAwayFromZero))),'),
 ('E04 add (Int,Float) coercion arm', EV, '(Value::DateTime(left), Value::Duration(right)) => Ok(Value::DateTime(left + right)),', '(Value::DateTime(left), Value::Duration(right)) => Ok(Value::DateTime(left + right)),\n        (Value::Int(left), Value::Float(right)) => Ok(Value::Float(left as f64 + right)),'),
 ('E05 contains None coll errors', EV, '(Value::None, _) => Ok(Value::Bool(false)),\n        _ => Err(Error::InvalidType),\n    }\n}\n\nfn uppercase', '_ => Err(Error::InvalidType),\n    }\n}\n\nfn uppercase'),
 ('E06 mult None arm removed', EV, '(Value::Decimal(left), Value::Decimal(right)) => Ok(Value::Decimal(left * right)),\n\n        (Value::None, _) | (_, Value::None) => Ok(Value::None),', '(Value::Decimal(left), Value::Decimal(right)) => Ok(Value::Decimal(left * right)),\n'),
 ('E07 div Int unchecked', EV, '(Value::Int(left), Value::Int(right)) => match left.checked_div(right) {\n            Some(result) => Ok(Value::Int(result)),\n            None => Err(Error::DivisionByZero),\n        },', '(Value::Int(left), Value::Int(right)) => Ok(Value::Int(left / right)),'),
 ('E08 index off by one', EV, 'Ok(vec.get(*index).cloned().unwrap_or(Value::None))', 'Ok(vec.get(*index + 1).cloned().unwrap_or(Value::None))'),
 ('E09 eq early return removed', EV, '    if left == Value::None {\n        // Nothing equals Value::None, not even Value::None, so early return\n        return Ok(false);\n    }\n', ''),
 ('E10 lte Duration < ', EV, '(Value::Duration(left), Value::Duration(right)) => Ok(Value::Bool(left <= right)),', '(Value::Duration(left), Value::Duration(right)) => Ok(Value::Bool(left < right)),'),
 ('E11 hour(Duration) num_minutes', EV, 'Value::Duration(inner) => Ok(Value::Int(inner.num_hours() as i128)),', 'Value::Duration(inner) => Ok(Value::Int(inner.num_minutes() as i128)),'),
 ('E12 int(String) trims', EV, 'Value::String(val) => i128::from_str(&val)', 'Value::String(val) => i128::from_str(val.trim())'),
 ('E13 lowercase uppercases', EV, 'Value::String(value) => Ok(Value::String(value.to_lowercase())),', 'Value::String(value) => Ok(Value::String(value.to_uppercase())),'),
 ('E14 xor Bool is or', EV, '(Value::Bool(left), Value::Bool(right)) => Ok(Value::Bool(left ^ right)),', '(Value::Bool(left), Value::Bool(right)) => Ok(Value::Bool(left | right)),'),
 ('E15 day(Int) try_hours', EV, 'Value::Int(inner) => TimeDelta::try_days(*inner as i64)', 'Value::Int(inner) => TimeDelta::try_hours(*inner as i64)'),
 ('E16 second(DateTime) minute', EV, 'Value::DateTime(inner) => Ok(Value::Int(inner.second() as i128)),', 'Value::DateTime(inner) => Ok(Value::Int(inner.minute() as i128)),'),
 ('E17 neg Float abs', EV, 'Value::Float(value) => Ok(Value::Float(-value)),', 'Value::Float(value) => Ok(Value::Float(value.abs())),'),
 ('E18 floor Float ceil', EV, 'Value::Float(inner) => Ok(Value::Float(inner.floor())),', 'Value::Float(inner) => Ok(Value::Float(inner.ceil())),'),
 ('E19 fract Decimal trunc', EV, 'Value::Decimal(inner) => Ok(Value::Decimal(inner.fract())),', 'Value::Decimal(inner) => Ok(Value::Decimal(inner.trunc())),'),
 ('E20 gte Float via !lt', EV, '(Value::Float(left), Value::Float(right)) => Ok(Value::Bool(left >= right)),', '(Value::Float(left), Value::Float(right)) => Ok(Value::Bool(!(left < right))),'),
 ('E21 rem Int euclid', EV, '(Value::Int(left), Value::Int(right)) => match left.checked_rem(right) {', '(Value::Int(left), Value::Int(right)) => match left.checked_rem_euclid(right) {'),
 ('E22 float(Int) via i64', EV, 'Value::Int(val) => Ok((val as f64).into()),', 'Value::Int(val) => Ok(((val as i64) as f64).into()),'),
 ('E23 contains flags == flag', EV, '(Value::Int(flags), Value::Int(flag)) => Ok(Value::Bool((flags & flag) != 0)),', '(Value::Int(flags), Value::Int(flag)) => Ok(Value::Bool((flags & flag) == flag)),'),
 ('E24 contains String starts_with', EV, '(Value::String(coll), Value::String(item)) => Ok(Value::Bool(coll.contains(&item))),', '(Value::String(coll), Value::String(item)) => Ok(Value::Bool(coll.starts_with(&item))),'),
 ('E25 trim is trim_start', EV, 'Value::String(inner) => Ok(Value::String(inner.trim().to_string())),', 'Value::String(inner) => Ok(Value::String(inner.trim_start().to_string())),'),
 ('E26 and eager', EV, '    Ok(if !eval_to_bool(context, left).await? {\n        // If left evaluates to false bypass right and return false immediately\n        false', '    let l = eval_to_bool(context, left).await?;\n    let r0 = eval_to_bool(context, right).await?;\n    Ok(if !l {\n        let _ = r0;\n        false'),
 ('E27 if evaluates both', EV, '    match switch.eval_rec(context).await? {\n        Value::Bool(true) => left.eval_rec(context).await,\n        Value::Bool(false) => right.eval_rec(context).await,', '    let l = left.eval_rec(context).await;\n    let r = right.eval_rec(context).await;\n    match switch.eval_rec(context).await? {\n        Value::Bool(true) => l,\n        Value::Bool(false) => r,'),
 ('E28 add right operand first', EV, '            Expr::Add(left, right) => add(\n                left.eval_rec(context).await?,\n                right.eval_rec(context).await?,\n            ),', '            Expr::Add(left, right) => {\n                let r = right.eval_rec(context).await?;\n                let l = left.eval_rec(context).await?;\n                add(l, r)\n            }'),
 ('E29 week(Duration) num_days', EV, 'Value::Duration(value) => Ok(Value::Int(value.num_weeks() as i128)),', 'Value::Duration(value) => Ok(Value::Int(value.num_days() as i128)),'),
 ('E30 year as month', EV, 'Value::DateTime(value) => Ok(Value::Int(value.year() as i128)),', 'Value::DateTime(value) => Ok(Value::Int(value.month() as i128)),'),
 ('E31 dec(Int) via i64', EV, 'Value::Int(val) => Ok(Value::Decimal(val.into())),', 'Value::Int(val) => Ok(Value::Decimal((val as i64).into())),'),
 ('E32 bitand Int is or', EV, '(Value::Int(left), Value::Int(right)) => Ok(Value::Int(left & right)),', '(Value::Int(left), Value::Int(right)) => Ok(Value::Int(left | right)),'),
 ('C01 cache key by name only', FN, 'let cache_key = format!("{name}-{param:?}");', 'let cache_key = format!("{name}");'),
 ('C02 cache failures / ignore cacheable', FN, 'if function.cacheable() {', 'if true {'),
 ('C03 ruleset stops at first error', RS, '        for rule in self.rules.iter() {\n            results.push(Outcome {\n                value: rule\n                    .expr()\n                    .eval_rule(self, &mut function_cache, facts)\n                    .await,\n                rule,\n            });\n        }', '        for rule in self.rules.iter() {\n            let value = rule.expr().eval_rule(self, &mut function_cache, facts).await;\n            let stop = value.is_err();\n            results.push(Outcome { value, rule });\n            if stop { break; }\n        }'),
 ('C04 cache per rule not per evaluation', RS, '        let mut function_cache = FunctionCache::new();\n        let mut results = Vec::new();\n\n        for rule in self.rules.iter() {', '        let mut results = Vec::new();\n\n        for rule in self.rules.iter() {\n            let mut function_cache = FunctionCache::new();'),
 ('P01 swap + and * levels', GR, None, None),
 ('P02 bit level right assoc', GR, '<l:BitExpr> OP_BIT_AND <r:ContainsExpr> => Expr::bitwise_and(l, r),', '<l:ContainsExpr> OP_BIT_AND <r:BitExpr> => Expr::bitwise_and(l, r),'),
 ('P03 in not flipped', GR, '<l:IndexExpr> KWD_IN <r:IndexExpr> => Expr::contains(r, l),', '<l:IndexExpr> KWD_IN <r:IndexExpr> => Expr::contains(l, r),'),
 ('P04 \\r decodes to \\n', UN, "'r' => Ok('\\r'),", "'r' => Ok('\\n'),"),
 ('P05 hex parsed radix 8', HP, 'Ok(Value::Int(i128::from_str_radix(&value[2..], 16)?))', 'Ok(Value::Int(i128::from_str_radix(&value[2..], 8)?))'),
 ('P06 IDENT allows leading underscore', GR, 'r"[a-zA-Z][_a-zA-Z0-9]*" => IDENT,', 'r"[a-zA-Z_][_a-zA-Z0-9]*" => IDENT,'),
 ('P07 single = is neq', GR, '<l:EqExpr> OP_EQ1 <r:AddExpr> => Expr::eq(l, r),', '<l:EqExpr> OP_EQ1 <r:AddExpr> => Expr::neq(l, r),'),
 ('P08 >= and <= swapped', GR, '<l:EqExpr> OP_GTE <r:AddExpr> => Expr::gte(l, r),\n    <l:EqExpr> OP_LTE <r:AddExpr> => Expr::lte(l, r),', '<l:EqExpr> OP_GTE <r:AddExpr> => Expr::lte(l, r),\n    <l:EqExpr> OP_LTE <r:AddExpr> => Expr::gte(l, r),'),
 ('P09 unary minus binds index only', GR, 'OP_SUB <e:UnaryExpr> => Expr::neg(e),', 'OP_SUB <e:IndexExpr> => Expr::neg(e),'),
 ('P10 contains chainable (left rec)', GR, '<l:IndexExpr> KWD_CONTAINS <r:IndexExpr> => Expr::contains(l, r),', '<l:ContainsExpr> KWD_CONTAINS <r:IndexExpr> => Expr::contains(l, r),'),
 ('P11 and binds tighter than or? (or own level)', GR, None, None),
 ('P12 INT regex drops sign', GR, 'r"i[+-]?[0-9]+" => INT,', 'r"i[0-9]+" => INT,'),
 ('P13 comment skip narrowed (no \\r)', GR, 'r"//[^\\n\\r]*[\\n\\r]*" => { },', 'r"//[^\\n]*[\\n]*" => { },'),
 ('P14 Display drops parens of Add', EX, 'Expr::Add(left, right) => write!(formatter, "({left} + {right})"),', 'Expr::Add(left, right) => write!(formatter, "{left} + {right}"),'),
 ('P15 Display int prefix missing for negative', VA, 'Value::Int(value) => write!(formatter, "i{value}"),', 'Value::Int(value) => if *value < 0 { write!(formatter, "{value}") } else { write!(formatter, "i{value}") },'),
 ('R01 name from second comment line', RU, '.filter_map(|line| line.trim_start().strip_prefix("//").map(str::trim));', '.filter_map(|line| line.trim_start().strip_prefix("//").map(str::trim)).skip(1);'),
 ('R02 description joined by space', RU, 'format!("{acc}\\n{next}")', 'format!("{acc} {next}")'),
 ('R03 flatten drops nested maps', RU, '        Expr::Map(values) => Ok(Value::Map(\n            values\n                .into_iter()\n                .map(flatten_keyvalue)\n                .collect::<Result<BTreeMap<String, Value>, FlattenError>>()?,\n        )),', '        Expr::Map(values) => Ok(Value::Map(\n            values\n                .into_iter()\n                .filter(|(_, e)| !matches!(e, Expr::Map(_)))\n                .map(flatten_keyvalue)\n                .collect::<Result<BTreeMap<String, Value>, FlattenError>>()?,\n        )),'),
 ('R04 comment name overrides @name', RU, '        if self.name.is_none() {\n            self.name = Some(name.to_string())\n        }', '        self.name = Some(name.to_string());'),
 ('R05 metadata first wins', RU, '                (_, Ok(value)) => {\n                    metadata.insert(key, value);\n                }', '                (_, Ok(value)) => {\n                    metadata.entry(key).or_insert(value);\n                }'),
 ('R06 name not trimmed', RU, '.filter_map(|line| line.trim_start().strip_prefix("//").map(str::trim));', '.filter_map(|line| line.trim_start().strip_prefix("//"));'),
]
def special(name, src):
    if name.startswith('P01'):
        # swap operator sets between AddExpr and MultExpr
        a='<l:AddExpr> OP_ADD <r:MultExpr> => Expr::add(l, r),\n    <l:AddExpr> OP_SUB <r:MultExpr> => Expr::sub(l, r),'
        m='<l:MultExpr> OP_MULT <r:BitExpr> => Expr::mult(l, r),\n    <l:MultExpr> OP_DIV <r:BitExpr> => Expr::div(l, r),\n    <l:MultExpr> OP_REM <r:BitExpr> => Expr::rem(l, r),'
        assert a in src and m in src
        src=src.replace(a,'@@A@@').replace(m,'@@M@@')
        src=src.replace('@@A@@','<l:AddExpr> OP_MULT <r:MultExpr> => Expr::mult(l, r),\n    <l:AddExpr> OP_DIV <r:MultExpr> => Expr::div(l, r),\n    <l:AddExpr> OP_REM <r:MultExpr> => Expr::rem(l, r),')
        src=src.replace('@@M@@','<l:MultExpr> OP_ADD <r:BitExpr> => Expr::add(l, r),\n    <l:MultExpr> OP_SUB <r:BitExpr> => Expr::sub(l, r),')
        return src
    if name.startswith('P11'):
        old='LogExpr: Expr = {\n    <l:LogExpr> KWD_AND <r:EqExpr> => Expr::and(l, r),\n    <l:LogExpr> KWD_OR <r:EqExpr> => Expr::or(l, r),\n    EqExpr\n}'
        new='LogExpr: Expr = {\n    <l:LogExpr> KWD_OR <r:AndExpr> => Expr::or(l, r),\n    AndExpr\n}\n\nAndExpr: Expr = {\n    <l:AndExpr> KWD_AND <r:EqExpr> => Expr::and(l, r),\n    EqExpr\n}'
        assert old in src
        return src.replace(old,new)
streams=[('eval',['eval','/tmp/mut/m_eval.tsv'],'/tmp/mut/base_eval.tsv','/tmp/mut/m_eval.tsv'),
         ('toks',['toks','3','/tmp/mut/m_toks.tsv'],'/tmp/mut/base_toks.tsv','/tmp/mut/m_toks.tsv'),
         ('chars2',['chars2','3','/tmp/mut/m_chars2.tsv'],'/tmp/mut/base_chars2.tsv','/tmp/mut/m_chars2.tsv'),
         ('chars3',['chars3','4','/tmp/mut/m_chars3.tsv'],'/tmp/mut/base_chars3.tsv','/tmp/mut/m_chars3.tsv'),
         ('rules',['rules','/tmp/rules_in.txt','/tmp/mut/m_rules.tsv'],'/tmp/mut/base_rules.tsv','/tmp/mut/m_rules.tsv'),
         ('lazy',['lazy','/tmp/mut/m_lazy.tsv'],'/tmp/mut/base_lazy.tsv','/tmp/mut/m_lazy.tsv'),
         ('prec',['texts','/tmp/prec_in.txt','/tmp/mut/m_prec.tsv'],'/tmp/mut/base_prec.tsv','/tmp/mut/m_prec.tsv'),
         ('rules2',['rules','/tmp/rules2_in.txt','/tmp/mut/m_rules2.tsv'],'/tmp/mut/base_rules2.tsv','/tmp/mut/m_rules2.tsv')]
def ndiff(a,b):
    la=open(a).read().split('\n'); lb=open(b).read().split('\n')
    if len(la)!=len(lb): return -1, None
    d=[(x,y) for x,y in zip(la,lb) if x!=y]
    return len(d), (d[0] if d else None)
only=sys.argv[1:] 
env=dict(os.environ, CARGO_NET_OFFLINE='true')
results=[]
for name,f,old,new in M:
    if only and not any(name.startswith(o) for o in only): continue
    src=open(f).read()
    if old is None: msrc=special(name,src)
    else:
        if src.count(old)!=1:
            print('SKIP (pattern count %d)'%src.count(old), name); continue
        msrc=src.replace(old,new)
    if 'RoundingStrategy' in msrc and 'use rust_decimal::RoundingStrategy' not in msrc and f==EV:
        msrc=msrc.replace('use rust_decimal::prelude::*;','use rust_decimal::prelude::*;\nuse rust_decimal::RoundingStrategy;')
    open(f,'w').write(msrc)
    t=time.time()
    b=subprocess.run(['cargo','build','--release','--offline'],cwd='/tmp/probe',env=env,capture_output=True,text=True)
    if b.returncode!=0:
        print('BUILD-FAIL',name, b.stderr[-600:]); open(f,'w').write(src); continue
    out=[]
    for sname,args,base,mf in streams:
        subprocess.run(['/tmp/probe/target/release/probe']+args,capture_output=True)
        n,ex=ndiff(base,mf)
        if n!=0: out.append((sname,n,ex))
    open(f,'w').write(src)
    print('%-45s %s  (%.0fs)'%(name, ' '.join('%s:%d'%(s,n) for s,n,_ in out) if out else 'NOT-DETECTED', time.time()-t), flush=True)
    results.append((name,out))
# run the repo's own test-suite? (not here)
