from fractions import Fraction
import sys
M=(1<<96)-1
def parse(t):
    if t=='none': return None
    s,m,sc=t.split(':'); return (int(s),int(m),int(sc))
def val(d): s,m,sc=d; return Fraction(-m if s else m, 10**sc)
def rhe(q):  # round half even of nonneg Fraction to int
    n,d=q.numerator,q.denominator
    f=n//d; r=Fraction(n,d)-f
    if r>Fraction(1,2) or (r==Fraction(1,2) and f%2==1): f+=1
    return f
def fit(q, start_scale, min_scale=0):
    """largest scale<=start_scale s.t. round_half_even(|q|*10^s) <= M ; returns (neg,mant,scale) or None"""
    neg = q<0; a=abs(q)
    s=start_scale
    while s>=min_scale:
        m=rhe(a*10**s)
        if m<=M: return (1 if neg else 0, m, s)
        s-=1
    return None
stats={}
def note(k,ok,ex=None):
    st=stats.setdefault(k,[0,0,[]]); st[0]+=1
    if not ok:
        st[1]+=1
        if len(st[2])<4: st[2].append(ex)
for line in open('/tmp/dec.txt'):
    parts=line.split()
    a=parse(parts[0]); b=parse(parts[1])
    kv=dict(p.split('=') for p in parts[2:] if '=' in p and not p.startswith('tof64'))
    va,vb=val(a),val(b)
    # add/sub
    for op,q in (('add',va+vb),('sub',va-vb)):
        got=parse(kv[op]); exp=fit(q,max(a[2],b[2]))
        # sign of zero / sign conventions: compare value+scale, and sign only if mant!=0
        def norm(d): return None if d is None else ((d[0] if d[1]!=0 else 0), d[1], d[2])
        exact = (exp is not None and val(exp)==q and exp[2]==max(a[2],b[2]))
        note(op+('-exact' if exact else '-rounded'), norm(got)==norm(exp), (parts[0],parts[1],kv[op],exp))
    q=va*vb
    got=parse(kv['mul']); exp=fit(q,min(a[2]+b[2],28))
    exact=(exp is not None and val(exp)==q and exp[2]==a[2]+b[2])
    note('mul'+('-exact' if exact else '-rounded'), norm(got)==norm(exp), (parts[0],parts[1],kv['mul'],exp))
    # rem
    if vb!=0:
        got=parse(kv['rem'])
        # truncated remainder
        qt = abs(va)//abs(vb) if True else 0
        import math
        n = int(abs(va)/abs(vb))
        r = abs(va) - n*abs(vb)
        if va<0: r=-r
        sc=max(a[2],b[2])
        m=abs(r)*10**sc
        exp=(1 if r<0 else 0,int(m),sc) if m.denominator==1 else None
        note('rem', got is not None and exp is not None and val(got)==r, (parts[0],parts[1],kv['rem'],exp))
        note('rem-scale', got is not None and exp is not None and got[2]==exp[2], (parts[0],parts[1],kv['rem'],exp))
    # div: value check: within rounding at scale got
    if vb!=0:
        got=parse(kv['div']); q=va/vb
        if got is None:
            note('div-overflow', fit(q,28) is None, (parts[0],parts[1]))
        else:
            exp=fit(q,28)
            # library strips trailing zeros down to ideal scale? check value equality after rounding at max fitting scale
            note('div-value', exp is not None and val(got)==val(exp), (parts[0],parts[1],kv['div'],exp))
            # scale rule: minimal scale representing val(exp) but >= ?
            if exp is not None and val(got)==val(exp):
                m,sc=exp[1],exp[2]
                while sc>0 and m%10==0: m//=10; sc-=1
                note('div-scale-min', got[2]==sc, (parts[0],parts[1],kv['div'],(exp[0],m,sc)))
    # floor/round/fract
    import math
    fl=parse(kv['floor']); note('floor', val(fl)==math.floor(va) and fl[2]==0, (parts[0],kv['floor']))
    rd=parse(kv['round']); 
    er=rhe(abs(va)); er=-er if va<0 else er
    note('round', val(rd)==er and rd[2]==0, (parts[0],kv['round']))
    fr=parse(kv['fract']); tr=int(abs(va)); tr=-tr if va<0 else tr
    note('fract', val(fr)==va-tr, (parts[0],kv['fract']))
    note('fract-scale', fr[2]==a[2], (parts[0],kv['fract']))
for k,(n,bad,ex) in sorted(stats.items()):
    print(f"{k:16} n={n:6} mismatches={bad:6}  {ex[:2] if bad else ''}")
print("---- refinement")
stats={}
remcls={}
for line in open('/tmp/dec.txt'):
    parts=line.split()
    a=parse(parts[0]); b=parse(parts[1])
    kv=dict(p.split('=') for p in parts[2:] if '=' in p and not p.startswith('tof64'))
    va,vb=val(a),val(b)
    for op,q,bb in (('add',va+vb,b),('sub',va-vb,(1-b[0],b[1],b[2]))):
        got=parse(kv[op])
        if b[1]==0: exp=a
        elif a[1]==0: exp=bb
        else: exp=fit(q,max(a[2],b[2]))
        if exp is not None and exp[1]==0: pass
        note(op+'2', got==exp or (got is not None and exp is not None and got[1]==0 and exp[1]==0 and got[2]==exp[2]), (parts[0],parts[1],kv[op],exp))
        if got is not None and got[1]==0: note(op+'-zero-sign-scale', True); stats.setdefault(op+'-zero:'+str(got[0])+':'+('same' if exp and got[2]==exp[2] else 'diff'),[0,0,[]])[0]+=1
    q=va*vb; got=parse(kv['mul']); exp=fit(q,min(a[2]+b[2],28))
    if exp is not None and exp[1]==0: exp=(0,0,0)
    note('mul2', got==exp, (parts[0],parts[1],kv['mul'],exp))
    if vb!=0:
        got=parse(kv['rem'])
        sc=max(a[2],b[2])
        cls=('a<b' if abs(va)<abs(vb) else 'a>=b', 'sa>sb' if a[2]>b[2] else ('sa<sb' if a[2]<b[2] else 'sa=sb'), 'got=sa' if got[2]==a[2] else ('got=sb' if got[2]==b[2] else ('got=max' if got[2]==sc else 'other:%d'%(got[2]-sc))), 'zero' if got[1]==0 else 'nz')
        remcls[cls]=remcls.get(cls,0)+1
for k,(n,bad,ex) in sorted(stats.items()):
    print(f"{k:28} n={n:6} mismatches={bad:6}  {ex[:3] if bad else ''}")
for k,v in sorted(remcls.items()): print(k,v)
print("---- mul hypothesis 3")
bad=0; n=0; ex=[]
for line in open('/tmp/dec.txt'):
    parts=line.split()
    a=parse(parts[0]); b=parse(parts[1])
    kv=dict(p.split('=') for p in parts[2:] if '=' in p and not p.startswith('tof64'))
    va,vb=val(a),val(b)
    got=parse(kv['mul'])
    if a[1]==0 or b[1]==0: exp=(0,0,0)
    else:
        q=abs(va*vb); e=fit(q,min(a[2]+b[2],28))
        exp=None if e is None else ((a[0]^b[0]), e[1], e[2])
    n+=1
    if got!=exp:
        bad+=1
        if len(ex)<5: ex.append((parts[0],parts[1],kv['mul'],exp))
print(n,bad,ex)
