#!/usr/bin/env python3
"""Throwaway reference lexer/parser/printer for reval's DSL (pre-study; mirrors the formulation planned for Lean)."""
import struct, sys
from fractions import Fraction

WS = set([0x9,0xA,0xB,0xC,0xD,0x20,0x85,0xA0,0x1680,0x2028,0x2029,0x202F,0x205F,0x3000] + list(range(0x2000,0x200B)))
KEYWORDS = ["and","or","if","then","else","is_some","is_none","none","some","int","float","dec","contains","in",
            "date_time","datetime","duration","to_upper","to_lower","uppercase","lowercase","trim","round","floor","fract",
            "year","month","week","day","hour","minute","second","true","false"]
PUNCT2 = ["==","!=",">=","<="]
PUNCT1 = list("=><+-*/%!&|^@,:;.()[]{}")

def is_alpha(c): return ('a' <= c <= 'z') or ('A' <= c <= 'Z')
def is_digit(c): return '0' <= c <= '9'
def is_idc(c): return is_alpha(c) or is_digit(c) or c == '_'

class LexError(Exception): pass
class ParseError(Exception):
    def __init__(self, cls): self.cls = cls

def span(s, i, pred):
    j = i
    while j < len(s) and pred(s[j]): j += 1
    return j

def match_numlit(s, i):
    """s[i] in 'ifd'. returns (kind, end) of the longest numeric literal starting at i, or None."""
    c = s[i]; j = i + 1
    if j < len(s) and s[j] in '+-': j += 1
    if c == 'i':
        k = span(s, j, is_digit)
        return ('INT', k) if k > j else None
    # f / d : [0-9]*\.?[0-9]+  (longest)
    k = span(s, j, is_digit)          # integer digits
    best = k if k > j else None       # digits only (\.? empty, [0-9]+ = these digits)  (needs at least one digit)
    if k < len(s) and s[k] == '.':
        m = span(s, k + 1, is_digit)
        if m > k + 1: best = m
    if best is None: return None
    if c == 'd': return ('DECIMAL', best)
    # float exponent
    e = best
    if e < len(s) and s[e] in 'eE':
        q = e + 1
        if q < len(s) and s[q] in '+-': q += 1
        r = span(s, q, is_digit)
        if r > q: best = r
    return ('FLOAT', best)

def match_string(s, i):
    """s[i] == '"'. regex "[^"\\]*(?:\\.[^"\\]*)*"  where . excludes \n"""
    j = i + 1
    while j < len(s):
        c = s[j]
        if c == '"': return j + 1
        if c == '\\':
            if j + 1 >= len(s) or s[j+1] == '\n': return None
            j += 2
        else: j += 1
    return None

def lex(s):
    toks = []; i = 0
    while i < len(s):
        c = s[i]
        if ord(c) in WS:
            i = span(s, i, lambda ch: ord(ch) in WS); continue
        if c == '/' and s.startswith('//', i):
            j = span(s, i + 2, lambda ch: ch not in '\n\r')
            j = span(s, j, lambda ch: ch in '\n\r')
            i = j; continue
        if is_alpha(c):
            w_end = span(s, i, is_idc)
            word = s[i:w_end]
            num = match_numlit(s, i) if c in 'ifd' else None
            if num is not None and num[1] >= w_end:
                toks.append((num[0], s[i:num[1]])); i = num[1]; continue
            if word in KEYWORDS: toks.append(('KW', word))
            else: toks.append(('IDENT', word))
            i = w_end; continue
        if is_digit(c):
            d_end = span(s, i, is_digit)
            best = ('INDEX', d_end)
            if c == '0' and i + 1 < len(s) and s[i+1] in 'xob':
                p = s[i+1]
                pred = {'x': lambda ch: ch in '0123456789abcdefABCDEF', 'o': lambda ch: ch in '012345678', 'b': lambda ch: ch in '01'}[p]
                k = span(s, i + 2, pred)
                if k > i + 2 and k >= d_end: best = ({'x':'HEX','o':'OCT','b':'BIN'}[p], k)
            toks.append((best[0], s[i:best[1]])); i = best[1]; continue
        if c == '"':
            e = match_string(s, i)
            if e is None: raise LexError()
            toks.append(('STRING', s[i:e])); i = e; continue
        two = s[i:i+2]
        if two in PUNCT2: toks.append(('P', two)); i += 2; continue
        if c in PUNCT1: toks.append(('P', c)); i += 1; continue
        raise LexError()
    return toks

# ---- literal conversion
I128_MIN, I128_MAX = -(1 << 127), (1 << 127) - 1
def conv_int(txt, radix):
    if radix == 10:
        v = int(txt)            # txt like +5 / -5 / 5
    else:
        if any(ch not in '0123456789abcdefABCDEF'[:max(radix,10)] + ('abcdefABCDEF' if radix == 16 else '') for ch in txt): raise ParseError('E-int')
        try: v = int(txt, radix)
        except ValueError: raise ParseError('E-int')
    if not (I128_MIN <= v <= I128_MAX): raise ParseError('E-int')
    return v
def conv_float(txt):
    return struct.unpack('>Q', struct.pack('>d', float(txt)))[0]
def conv_dec(txt):
    neg = txt.startswith('-'); t = txt.lstrip('+-')
    if '.' in t: ip, fp = t.split('.')
    else: ip, fp = t, ''
    digits = (ip + fp)
    m = int(digits) if digits else 0
    if len(fp) <= 28 and m < (1 << 96): return (1 if neg else 0, m, len(fp))
    return 'FRONTIER'
def unescape(body):
    out = []; i = 0
    while i < len(body):
        c = body[i]
        if c != '\\': out.append(c); i += 1; continue
        if i + 1 >= len(body): raise ParseError('E-str')
        c2 = body[i+1]; i += 2
        if c2 in 'nrt\\\'"': out.append({'n':'\n','r':'\r','t':'\t','\\':'\\',"'":"'",'"':'"'}[c2]); continue
        if c2 == 'u':
            if i >= len(body) or body[i] != '{': raise ParseError('E-str')
            i += 1; j = i
            while j < len(body) and body[j] != '}': j += 1
            hx = body[i:j]; i = j + 1
            h = hx[1:] if hx.startswith('+') else hx
            if h == '' or any(ch not in '0123456789abcdefABCDEF' for ch in h): raise ParseError('E-str')
            v = int(h, 16)
            if v > 0xFFFFFFFF: raise ParseError('E-str')
            if v > 0x10FFFF or 0xD800 <= v <= 0xDFFF: raise ParseError('E-str')
            out.append(chr(v)); continue
        raise ParseError('E-str')
    return ''.join(out)

# ---- parser (recursive descent, loops for left recursion)
FUNCS = {"int":"toint","float":"tofloat","dec":"todec","date_time":"datetime","datetime":"datetime","duration":"duration",
         "is_some":"some","is_none":"isnone","some":"some","none":"isnone","to_upper":"upper","to_lower":"lower",
         "uppercase":"upper","lowercase":"lower","trim":"trim","round":"round","floor":"floor","fract":"fract",
         "year":"year","month":"month","week":"week","day":"day","hour":"hour","minute":"minute","second":"second"}
class P:
    def __init__(self, toks): self.t = toks; self.i = 0
    def peek(self): return self.t[self.i] if self.i < len(self.t) else None
    def isp(self, s): p = self.peek(); return p is not None and p[0] == 'P' and p[1] == s
    def iskw(self, s): p = self.peek(); return p is not None and p[0] == 'KW' and p[1] == s
    def fail(self): raise ParseError('E-eof' if self.peek() is None else 'E-tok')
    def expect_p(self, s):
        if not self.isp(s): self.fail()
        self.i += 1
    def expect_kw(self, s):
        if not self.iskw(s): self.fail()
        self.i += 1
    def expr(self): return self.ifexpr()
    def ifexpr(self):
        if self.iskw('if'):
            self.i += 1; c = self.ifexpr(); self.expect_kw('then'); t = self.ifexpr(); self.expect_kw('else'); e = self.ifexpr()
            return ('if', c, t, e)
        return self.logexpr()
    def logexpr(self):
        l = self.eqexpr()
        while True:
            if self.iskw('and'): self.i += 1; l = ('and', l, self.eqexpr())
            elif self.iskw('or'): self.i += 1; l = ('or', l, self.eqexpr())
            else: return l
    def eqexpr(self):
        l = self.addexpr()
        ops = {'=':'eq','==':'eq','!=':'neq','>':'gt','<':'lt','>=':'gte','<=':'lte'}
        while True:
            p = self.peek()
            if p is not None and p[0] == 'P' and p[1] in ops: self.i += 1; l = (ops[p[1]], l, self.addexpr())
            else: return l
    def addexpr(self):
        l = self.multexpr()
        while True:
            if self.isp('+'): self.i += 1; l = ('add', l, self.multexpr())
            elif self.isp('-'): self.i += 1; l = ('sub', l, self.multexpr())
            else: return l
    def multexpr(self):
        l = self.bitexpr()
        ops = {'*':'mult','/':'div','%':'rem'}
        while True:
            p = self.peek()
            if p is not None and p[0] == 'P' and p[1] in ops: self.i += 1; l = (ops[p[1]], l, self.bitexpr())
            else: return l
    def bitexpr(self):
        l = self.containsexpr()
        ops = {'&':'bitand','|':'bitor','^':'bitxor'}
        while True:
            p = self.peek()
            if p is not None and p[0] == 'P' and p[1] in ops: self.i += 1; l = (ops[p[1]], l, self.containsexpr())
            else: return l
    def containsexpr(self):
        if self.isp('-') or self.isp('!'):
            return self.unaryexpr()
        l = self.indexexpr()
        if self.iskw('contains'): self.i += 1; r = self.indexexpr(); return ('contains', l, r)
        if self.iskw('in'): self.i += 1; r = self.indexexpr(); return ('contains', r, l)
        return l
    def unaryexpr(self):
        if self.isp('-'): self.i += 1; return ('neg', self.unaryexpr())
        if self.isp('!'): self.i += 1; return ('not', self.unaryexpr())
        return self.indexexpr()
    def indexexpr(self):
        l = self.term()
        while self.isp('.'):
            self.i += 1
            p = self.peek()
            if p is not None and p[0] == 'IDENT': self.i += 1; l = ('idxk', l, p[1])
            elif p is not None and p[0] == 'INDEX':
                self.i += 1; v = int(p[1])
                if v > (1 << 64) - 1: raise ParseError('PANIC')
                l = ('idxn', l, v)
            else: self.fail()
        return l
    def term(self):
        p = self.peek()
        if p is None: self.fail()
        k, x = p
        if k == 'KW' and x in FUNCS and not (x == 'none' and not self.nextis_lp()):
            self.i += 1; self.expect_p('('); e = self.expr(); self.expect_p(')'); return (FUNCS[x], e)
        if k == 'KW' and x == 'none': self.i += 1; return ('lit', ('none',))
        if k == 'KW' and x in ('true', 'false'): self.i += 1; return ('lit', ('bool', 1 if x == 'true' else 0))
        if k == 'IDENT':
            self.i += 1
            if self.isp('('): self.i += 1; e = self.expr(); self.expect_p(')'); return ('call', x, e)
            return ('ref', x)
        if k == 'P' and x == ':':
            self.i += 1; q = self.peek()
            if q is None or q[0] != 'IDENT': self.fail()
            self.i += 1; return ('sym', q[1])
        if k == 'P' and x == '[':
            self.i += 1; items = []
            while not self.isp(']'):
                items.append(self.expr())
                if self.isp(','): self.i += 1
                elif not self.isp(']'): self.fail()
            self.i += 1; return ('vec', items)
        if k == 'P' and x == '{':
            self.i += 1; items = {}
            while not self.isp('}'):
                q = self.peek()
                if q is None or q[0] != 'IDENT': self.fail()
                self.i += 1; self.expect_p(':'); items[q[1]] = self.expr()
                if self.isp(','): self.i += 1
                elif not self.isp('}'): self.fail()
            self.i += 1; return ('map', sorted(items.items()))
        if k == 'P' and x == '(':
            self.i += 1; e = self.expr(); self.expect_p(')'); return e
        if k == 'STRING': self.i += 1; return ('lit', ('str', unescape(x[1:-1])))
        if k == 'INT': self.i += 1; return ('lit', ('int', conv_int(x[1:], 10)))
        if k == 'HEX': self.i += 1; return ('lit', ('int', conv_int(x[2:], 16)))
        if k == 'OCT': self.i += 1; return ('lit', ('int', conv_int(x[2:], 8)))
        if k == 'BIN': self.i += 1; return ('lit', ('int', conv_int(x[2:], 2)))
        if k == 'FLOAT': self.i += 1; return ('lit', ('float', conv_float(x[1:])))
        if k == 'DECIMAL': self.i += 1; return ('lit', ('dec', conv_dec(x[1:])))
        self.fail()
    def nextis_lp(self):
        return self.i + 1 < len(self.t) and self.t[self.i+1] == ('P', '(')

def parse_text(s):
    toks = lex(s)
    p = P(toks)
    e = p.expr()
    if p.peek() is not None: raise ParseError('E-tok')
    return e

def hx(s): return s.encode('utf-8').hex()
def sexp(e):
    k = e[0]
    if k == 'lit':
        v = e[1]
        if v[0] == 'str': return '(lit (str %s))' % hx(v[1])
        if v[0] == 'int': return '(lit (int %d))' % v[1]
        if v[0] == 'float': return '(lit (float %016x))' % v[1]
        if v[0] == 'dec': return '(lit (dec FRONTIER))' if v[1] == 'FRONTIER' else '(lit (dec %d %d %d))' % v[1]
        if v[0] == 'bool': return '(lit (bool %d))' % v[1]
        if v[0] == 'none': return '(lit (none))'
    if k in ('ref', 'sym'): return '(%s %s)' % (k, hx(e[1]))
    if k == 'call': return '(call %s %s)' % (hx(e[1]), sexp(e[2]))
    if k == 'idxk': return '(idxk %s %s)' % (sexp(e[1]), hx(e[2]))
    if k == 'idxn': return '(idxn %s %d)' % (sexp(e[1]), e[2])
    if k == 'vec': return '(vec' + ''.join(' ' + sexp(x) for x in e[1]) + ')'
    if k == 'map': return '(map' + ''.join(' (%s %s)' % (hx(kk), sexp(v)) for kk, v in e[1]) + ')'
    return '(' + k + ''.join(' ' + sexp(x) for x in e[1:]) + ')'

# ---- Display model
DISP_UN = {'not':'!(%s)','neg':'-(%s)','some':'some(%s)','isnone':'none(%s)','toint':'int(%s)','tofloat':'float(%s)','todec':'dec(%s)',
           'datetime':'datetime(%s)','duration':'duration(%s)','upper':'uppercase(%s)','lower':'lowercase(%s)','trim':'trim(%s)',
           'floor':'floor(%s)','round':'round(%s)','fract':'fract(%s)','year':'year(%s)','month':'month(%s)','week':'week(%s)',
           'day':'day(%s)','hour':'hour(%s)','minute':'minute(%s)','second':'second(%s)'}
DISP_BIN = {'mult':'(%s * %s)','div':'(%s / %s)','rem':'(%s %% %s)','add':'(%s + %s)','sub':'(%s - %s)','eq':'(%s == %s)','neq':'(%s != %s)',
            'gt':'(%s > %s)','gte':'(%s >= %s)','lt':'(%s < %s)','lte':'(%s <= %s)','and':'(%s and %s)','or':'(%s or %s)',
            'bitand':'%s & %s','bitor':'%s | %s','bitxor':'%s ^ %s','contains':'(%s contains %s)'}
def disp_dec(d):
    neg, m, sc = d
    s = str(m)
    if sc > 0:
        s = s.rjust(sc + 1, '0'); s = s[:-sc] + '.' + s[-sc:]
    return ('-' if neg else '') + s   # sign shown even for zero? checked against dump
def disp_float(bits):
    f = struct.unpack('>d', struct.pack('>Q', bits))[0]
    if f != f: return 'NaN'
    if f in (float('inf'), float('-inf')): return 'inf' if f > 0 else '-inf'
    # Rust Display: shortest repr, never exponent
    r = repr(f)
    from decimal import Decimal
    t = format(Decimal(r), 'f')
    if t.endswith('.0'): t = t[:-2]
    if t == '-0': t = '-0'
    return t
def display(e):
    k = e[0]
    if k == 'lit':
        v = e[1]
        if v[0] == 'str': return '"' + v[1] + '"'
        if v[0] == 'int': return 'i%d' % v[1]
        if v[0] == 'float': return 'f' + disp_float(v[1])
        if v[0] == 'dec': return 'd?' if v[1] == 'FRONTIER' else 'd' + disp_dec(v[1])
        if v[0] == 'bool': return 'true' if v[1] else 'false'
        if v[0] == 'none': return 'none'
    if k == 'ref': return e[1]
    if k == 'sym': return ':' + e[1]
    if k == 'call': return '%s(%s)' % (e[1], display(e[2]))
    if k == 'idxk': return '(%s.%s)' % (display(e[1]), e[2])
    if k == 'idxn': return '(%s.%d)' % (display(e[1]), e[2])
    if k == 'if': return '(if %s then %s else %s)' % (display(e[1]), display(e[2]), display(e[3]))
    if k == 'vec': return '[' + ', '.join(display(x) for x in e[1]) + ']'
    if k == 'map': return '{' + ', '.join('%s: %s' % (kk, display(v)) for kk, v in e[1]) + '}'
    if k in DISP_UN: return DISP_UN[k] % display(e[1])
    return DISP_BIN[k] % (display(e[1]), display(e[2]))

if __name__ == '__main__':
    path = sys.argv[1]
    n = 0; bad = 0; shown = 0; cls_agree = 0; cls_dis = {}; dbad = 0; frontier = 0
    for line in open(path):
        parts = line.rstrip('\n').split('\t')
        text = bytes.fromhex(parts[0]).decode('utf-8'); real = parts[1]
        n += 1
        try:
            e = parse_text(text); mine = sexp(e)
        except LexError: mine = 'E-lex'
        except ParseError as pe: mine = pe.cls
        except RecursionError: mine = 'E-rec'
        if 'FRONTIER' in mine: frontier += 1; continue
        r_ok = real.startswith('('); m_ok = mine.startswith('(')
        if r_ok != m_ok or (r_ok and real != mine):
            if not (real == 'PANIC' and mine == 'PANIC'):
                bad += 1
                if shown < 25: print('MISMATCH', repr(text), '| real:', real[:100], '| mine:', mine[:100]); shown += 1
        elif not r_ok:
            if real == mine: cls_agree += 1
            else: cls_dis[(real, mine)] = cls_dis.get((real, mine), 0) + 1
        if r_ok and m_ok and real == mine and len(parts) > 2:
            d = bytes.fromhex(parts[2]).decode('utf-8')
            if display(e) != d:
                dbad += 1
                if dbad <= 10: print('DISPLAY', repr(text), '| real:', repr(d), '| mine:', repr(display(e)))
    print('cases', n, 'tree/accept mismatches', bad, 'display mismatches', dbad, 'frontier', frontier, 'error-class agree', cls_agree, 'disagree', sorted(cls_dis.items(), key=lambda x: -x[1])[:12])
