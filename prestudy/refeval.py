#!/usr/bin/env python3
"""Throwaway reference evaluator for reval's operator table (pre-study). Mirrors the CURRENT code, incl. its panics."""
import sys, math, struct, re
from fractions import Fraction
sys.setrecursionlimit(10000)
I128_MIN, I128_MAX = -(1 << 127), (1 << 127) - 1
M96 = (1 << 96) - 1
WSC = set([0x9,0xA,0xB,0xC,0xD,0x20,0x85,0xA0,0x1680,0x2028,0x2029,0x202F,0x205F,0x3000] + list(range(0x2000,0x200B)))
DT_MIN = -8334601228800 * 10**9
DT_MAX = 8210266876799 * 10**9 + 999_999_999
DUR_MAX_MS = (1 << 63) - 1
DUR_MAX = DUR_MAX_MS * 10**6
class Panic(Exception): pass
class Err(Exception):
    def __init__(self, s): self.s = s
class Frontier(Exception): pass

# ---------- s-expr reader
def tokenize(s): return s.replace('(', ' ( ').replace(')', ' ) ').split()
def read(toks, i=0):
    assert toks[i] == '('
    head = toks[i+1]; i += 2; args = []
    while toks[i] != ')':
        if toks[i] == '(':
            v, i = read(toks, i); args.append(v)
        else: args.append(toks[i]); i += 1
    return build(head, args), i + 1
def unhex(h): return '' if h == '-' else bytes.fromhex(h).decode('utf-8')
def build(h, a):
    if h == 'str': return ('str', unhex(a[0]))
    if h == 'int': return ('int', int(a[0]))
    if h == 'float': return ('float', int(a[0], 16))
    if h == 'dec': return ('dec', int(a[0]), int(a[1]), int(a[2]))
    if h == 'bool': return ('bool', int(a[0]))
    if h == 'dt': return ('dt', int(a[0]), int(a[1]))
    if h == 'dur': return ('dur', int(a[0]), int(a[1]))
    if h == 'vec': return ('vec', a)
    if h == 'map': return ('map', a)
    if h == 'none': return ('none',)
    return (unhex(h), a[0])     # map entry (key value)
def parse_val(s): return read(tokenize(s))[0]
def hx(s): return '-' if s == '' else s.encode('utf-8').hex()
def show(v):
    k = v[0]
    if k == 'str': return '(str %s)' % hx(v[1])
    if k == 'int': return '(int %d)' % v[1]
    if k == 'float': return '(float %016x)' % v[1]
    if k == 'dec': return '(dec %d %d %d)' % v[1:]
    if k == 'bool': return '(bool %d)' % v[1]
    if k == 'dt': return '(dt %d %d)' % v[1:]
    if k == 'dur': return '(dur %d %d)' % v[1:]
    if k == 'vec': return '(vec' + ''.join(' ' + show(x) for x in v[1]) + ')'
    if k == 'map': return '(map' + ''.join(' (%s %s)' % (hx(kk), show(x)) for kk, x in v[1]) + ')'
    return '(none)'

# ---------- floats
NAN = 0x7ff8000000000000
def f2b(f): return NAN if f != f else struct.unpack('>Q', struct.pack('>d', f))[0]
def b2f(b): return struct.unpack('>d', struct.pack('>Q', b))[0]
def fdiv(a, b):
    if b == 0:
        if a != a or a == 0: return float('nan')
        return math.copysign(float('inf'), a) * math.copysign(1.0, b)
    return a / b
def frem(a, b):
    try: return math.fmod(a, b)
    except ValueError: return float('nan')
def fmul(a, b):
    try: return a * b
    except OverflowError: return float('inf')
def ftrunc(x): return x if (x != x or math.isinf(x) or abs(x) >= 2**52 or x == 0) else math.copysign(float(math.floor(abs(x))), x)
def ffloor(x): return x if (x != x or math.isinf(x) or abs(x) >= 2**52 or x == 0) else float(math.floor(x))
def fround(x):
    if x != x or math.isinf(x) or abs(x) >= 2**52 or x == 0: return x
    t = math.floor(abs(x)); r = t + 1 if abs(x) - t >= 0.5 else t
    return math.copysign(float(r), x)
def f_to_i128(x):
    if x != x: return 0
    if x >= 2.0**127: return I128_MAX
    if x <= -2.0**127: return I128_MIN
    return int(x)

# ---------- decimals
def dval(d): return Fraction(-d[2] if d[1] else d[2], 10 ** d[3])
def rhe(q):
    f = q.numerator // q.denominator; r = q - f
    if r > Fraction(1, 2) or (r == Fraction(1, 2) and f % 2 == 1): f += 1
    return f
def dfit(q, start):
    neg = q < 0; a = abs(q); s = start
    while s >= 0:
        m = rhe(a * 10**s)
        if m <= M96: return ('dec', 1 if neg else 0, m, s)
        s -= 1
    return None
def dec_add(a, b, sub=False):
    bb = ('dec', b[1] ^ (1 if sub else 0), b[2], b[3])
    if b[2] == 0: return a
    if a[2] == 0: return bb
    q = dval(a) + dval(bb)
    r = dfit(q, max(a[3], b[3]))
    if r is not None and r[2] == 0: raise Frontier()
    return r
def dec_mul(a, b):
    if a[2] == 0 or b[2] == 0: return ('dec', 0, 0, 0)
    r = dfit(abs(dval(a) * dval(b)), min(a[3] + b[3], 28))
    if r is None: return None
    if r[2] == 0: raise Frontier()
    return ('dec', a[1] ^ b[1], r[2], r[3])

# ---------- chrono
def dt_n(v): return v[1] * 10**9 + v[2]
def n_dt(n): return ('dt', n // 10**9, n % 10**9)
def dur_n(v): return v[1] * 10**9 + v[2]
def n_dur(n): return ('dur', n // 10**9, n % 10**9)
def civil(days):
    z = days + 719468; era = z // 146097; doe = z - era * 146097
    yoe = (doe - doe // 1460 + doe // 36524 - doe // 146096) // 365
    y = yoe + era * 400; doy = doe - (365 * yoe + yoe // 4 - yoe // 100); mp = (5 * doy + 2) // 153
    d = doy - (153 * mp + 2) // 5 + 1; m = mp + 3 if mp < 10 else mp - 9
    return (y + 1 if m <= 2 else y, m, d)
def tdiv(a, b): q = abs(a) // abs(b); return q if (a >= 0) == (b >= 0) else -q
def as_i64(v): v &= (1 << 64) - 1; return v - (1 << 64) if v >= (1 << 63) else v
def num_seconds(d): return d[1] + 1 if (d[1] < 0 and d[2] > 0) else d[1]

# ---------- equality
def peq(a, b):
    if a[0] != b[0]: return False
    k = a[0]
    if k == 'float': x, y = b2f(a[1]), b2f(b[1]); return x == y
    if k == 'dec': return dval(a) == dval(b)
    if k == 'vec': return len(a[1]) == len(b[1]) and all(peq(x, y) for x, y in zip(a[1], b[1]))
    if k == 'map': return len(a[1]) == len(b[1]) and all(k1 == k2 and peq(x, y) for (k1, x), (k2, y) in zip(a[1], b[1]))
    return a == b

NONE = ('none',)
def B(x): return ('bool', 1 if x else 0)
def T(): raise Err('E:type')

def un(op, v):
    k = v[0]
    if op == 'some': return B(k != 'none')
    if op == 'isnone': return B(k == 'none')
    if op == 'not': return B(not v[1]) if k == 'bool' else (NONE if k == 'none' else T())
    if op == 'neg':
        if k == 'int':
            if v[1] == I128_MIN: raise Panic()
            return ('int', -v[1])
        if k == 'float': return ('float', f2b(-b2f(v[1])) if b2f(v[1]) == b2f(v[1]) else NAN)
        if k == 'dec': return ('dec', v[1] ^ 1, v[2], v[3])
        return NONE if k == 'none' else T()
    if op == 'toint':
        if k == 'int': return v
        if k == 'float': return ('int', f_to_i128(b2f(v[1])))
        if k == 'dec': return ('int', tdiv(dval(v).numerator, dval(v).denominator))
        if k == 'str':
            if re.fullmatch(r'[+-]?[0-9]+', v[1]) and I128_MIN <= int(v[1]) <= I128_MAX: return ('int', int(v[1]))
            raise Err('E:cast ' + show(v))
        return NONE if k == 'none' else T()
    if op == 'tofloat':
        if k == 'int': return ('float', f2b(float(v[1])))
        if k == 'float': return v
        if k == 'dec': raise Frontier()
        if k == 'str':
            s = v[1]
            if re.fullmatch(r'[+-]?(inf|infinity|nan)', s, re.I): return ('float', f2b(float(s)))
            if re.fullmatch(r'[+-]?([0-9]+\.?[0-9]*|\.[0-9]+)([eE][+-]?[0-9]+)?', s): return ('float', f2b(float(s)))
            raise Err('E:cast ' + show(v))
        return NONE if k == 'none' else T()
    if op == 'todec':
        if k == 'int':
            if abs(v[1]) > M96: raise Panic()
            return ('dec', 1 if v[1] < 0 else 0, abs(v[1]), 0)
        if k == 'float': raise Frontier()
        if k == 'dec': return v
        if k == 'str': raise Frontier()
        return NONE if k == 'none' else T()
    if op == 'datetime':
        if k == 'str': raise Frontier()
        if k == 'int':
            s = as_i64(v[1])
            if DT_MIN <= s * 10**9 <= DT_MAX: return ('dt', s, 0)
            raise Err('E:cast ' + show(v))
        if k == 'dt': return v
        return NONE if k == 'none' else T()
    if op == 'duration':
        if k == 'int':
            s = as_i64(v[1])
            if abs(s) * 1000 <= DUR_MAX_MS: return ('dur', s, 0)
            raise Err('E:cast ' + show(v))
        if k == 'dur': return v
        return NONE if k == 'none' else T()
    if op in ('upper', 'lower', 'trim'):
        if k == 'str':
            s = v[1]
            if op == 'upper': return ('str', s.upper())
            if op == 'lower': return ('str', s.lower())
            i = 0; j = len(s)
            while i < j and ord(s[i]) in WSC: i += 1
            while j > i and ord(s[j-1]) in WSC: j -= 1
            return ('str', s[i:j])
        return NONE if k == 'none' else T()
    if op in ('round', 'floor', 'fract'):
        if k == 'float':
            x = b2f(v[1])
            if op == 'round': return ('float', f2b(fround(x)))
            if op == 'floor': return ('float', f2b(ffloor(x)))
            t = ftrunc(x)
            return ('float', f2b(x - t if not math.isinf(x) else float('nan')))
        if k == 'dec':
            q = dval(v); neg = q < 0
            tr = tdiv(q.numerator, q.denominator)
            if op == 'floor':
                fl = tr - 1 if (neg and q != tr) else tr
                if fl == 0: raise Frontier()
                return ('dec', 1 if fl < 0 else 0, abs(fl), 0)
            if op == 'round':
                r = rhe(abs(q)); r = -r if neg else r
                if r == 0: raise Frontier()
                return ('dec', 1 if r < 0 else 0, abs(r), 0)
            fr = q - tr
            if fr == 0: raise Frontier()
            return ('dec', 1 if fr < 0 else 0, abs(fr * 10**v[3]).numerator, v[3])
        return NONE if k == 'none' else T()
    if op in ('year', 'month'):
        if k == 'dt':
            y, m, d = civil(v[1] // 86400); return ('int', y if op == 'year' else m)
        return NONE if k == 'none' else T()
    if op in ('week', 'day', 'hour', 'minute', 'second'):
        unit = {'week': 604800, 'day': 86400, 'hour': 3600, 'minute': 60, 'second': 1}[op]
        if k == 'int':
            n = as_i64(v[1]); s = n * unit
            if abs(s) * 1000 <= DUR_MAX_MS and abs(s) < (1 << 63): return ('dur', s, 0)
            raise Err('E:oob %s %s' % (show(v), op))
        if k == 'dt' and op != 'week':
            sod = v[1] % 86400
            if op == 'day': return ('int', civil(v[1] // 86400)[2])
            return ('int', {'hour': sod // 3600, 'minute': sod % 3600 // 60, 'second': sod % 60}[op])
        if k == 'dur': return ('int', tdiv(num_seconds(v), unit))
        return NONE if k == 'none' else T()
    raise Exception(op)

def arith(op, a, b):
    ka, kb = a[0], b[0]
    if ka == 'int' and kb == 'int':
        x, y = a[1], b[1]
        if op in ('div', 'rem'):
            if y == 0 or (x == I128_MIN and y == -1): raise Err('E:div0')
            q = tdiv(x, y); return ('int', q if op == 'div' else x - q * y)
        r = {'add': x + y, 'sub': x - y, 'mult': x * y}[op]
        if not (I128_MIN <= r <= I128_MAX): raise Panic()
        return ('int', r)
    if ka == 'float' and kb == 'float':
        x, y = b2f(a[1]), b2f(b[1])
        r = {'add': lambda: x + y, 'sub': lambda: x - y, 'mult': lambda: fmul(x, y), 'div': lambda: fdiv(x, y), 'rem': lambda: frem(x, y)}[op]()
        return ('float', f2b(r))
    if ka == 'dec' and kb == 'dec':
        if op in ('add', 'sub'):
            r = dec_add(a, b, op == 'sub')
            if r is None: raise Panic()
            return r
        if op == 'mult':
            r = dec_mul(a, b)
            if r is None: raise Panic()
            return r
        if b[2] == 0: raise Err('E:div0')
        raise Frontier()
    if op == 'add' and ka == 'dt' and kb == 'dur':
        n = dt_n(a) + dur_n(b)
        if not (DT_MIN <= n <= DT_MAX): raise Panic()
        return n_dt(n)
    if op == 'sub' and ka == 'dt' and kb == 'dt': return n_dur(dt_n(a) - dt_n(b))
    if op == 'sub' and ka == 'dt' and kb == 'dur':
        n = dt_n(a) - dur_n(b)
        if not (DT_MIN <= n <= DT_MAX): raise Panic()
        return n_dt(n)
    if op == 'sub' and ka == 'dur' and kb == 'dur':
        n = dur_n(a) - dur_n(b)
        if abs(n) > DUR_MAX: raise Panic()
        return n_dur(n)
    if ka == 'none' or kb == 'none': return NONE
    T()
def cmp(op, a, b):
    ka, kb = a[0], b[0]
    f = {'gt': lambda x, y: x > y, 'gte': lambda x, y: x >= y, 'lt': lambda x, y: x < y, 'lte': lambda x, y: x <= y}[op]
    if ka == kb == 'int': return B(f(a[1], b[1]))
    if ka == kb == 'float': return B(f(b2f(a[1]), b2f(b[1])))
    if ka == kb == 'dec': return B(f(dval(a), dval(b)))
    if ka == kb == 'dt': return B(f(dt_n(a), dt_n(b)))
    if ka == kb == 'dur': return B(f(dur_n(a), dur_n(b)))
    if ka == 'none' or kb == 'none': return B(False)
    T()
def bitw(op, a, b):
    ka, kb = a[0], b[0]
    if ka == kb == 'int': return ('int', {'bitand': a[1] & b[1], 'bitor': a[1] | b[1], 'bitxor': a[1] ^ b[1]}[op])
    if ka == kb == 'bool': return B({'bitand': a[1] & b[1], 'bitor': a[1] | b[1], 'bitxor': a[1] ^ b[1]}[op])
    if ka == 'none' or kb == 'none': return NONE
    T()
def contains(c, i):
    if c[0] == 'map' and i[0] == 'str': return B(any(k == i[1] for k, _ in c[1]))
    if c[0] == 'vec': return B(any(peq(x, i) for x in c[1]))
    if c[0] == 'str' and i[0] == 'str': return B(i[1] in c[1])
    if c[0] == 'int' and i[0] == 'int': return B((c[1] & i[1]) != 0)
    if c[0] == 'none': return B(False)
    T()
def tobool(v):
    if v[0] == 'bool': return bool(v[1])
    T()
def binop(op, a, b):
    if op in ('mult', 'div', 'rem', 'add', 'sub'): return arith(op, a, b)
    if op in ('gt', 'gte', 'lt', 'lte'): return cmp(op, a, b)
    if op in ('bitand', 'bitor', 'bitxor'): return bitw(op, a, b)
    if op == 'contains': return contains(a, b)
    if op in ('eq', 'neq'):
        r = False if a[0] == 'none' else peq(a, b)
        return B(r if op == 'eq' else not r)
    if op == 'and': return B(tobool(b)) if tobool(a) else B(False)
    if op == 'or': return B(True) if tobool(a) else B(tobool(b))
    raise Exception(op)
def index(v, kind):
    if kind == 'idxk':
        if v[0] == 'map':
            for k, x in v[1]:
                if k == 'a': return x
            return NONE
    else:
        n = 0 if kind == 'idx0' else 1
        if v[0] == 'vec': return v[1][n] if n < len(v[1]) else NONE
    if v[0] == 'none': return NONE
    T()

if __name__ == '__main__':
    n = bad = fr = 0; shown = {}; frops = {}
    for line in open(sys.argv[1]):
        op, sa, sb, real = line.rstrip('\n').split('\t')
        a = parse_val(sa); b = parse_val(sb) if sb != '-' else None
        n += 1
        try:
            if op in ('idxk', 'idx0', 'idx1'): r = show(index(a, op))
            elif op == 'if': r = show(('int', 1) if tobool(a) else ('int', 2))
            elif b is None: r = show(un(op, a))
            else: r = show(binop(op, a, b))
        except Panic: r = 'PANIC'
        except Err as e: r = e.s
        except Frontier: fr += 1; frops[op] = frops.get(op, 0) + 1; continue
        rr = 'PANIC' if real.startswith('PANIC') else real
        if r != rr:
            bad += 1
            key = op + ':' + a[0] + (':' + b[0] if b else '')
            if shown.get(key, 0) < 2 and len(shown) < 40:
                shown[key] = shown.get(key, 0) + 1
                print('MISMATCH', op, sa, sb, '| real:', real[:80], '| mine:', r[:80])
    print('cases', n, 'mismatches', bad, 'frontier', fr, frops)
