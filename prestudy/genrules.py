import random, sys
sys.path.insert(0,'/tmp')
random.seed(7)
comments = ["// name one", "//n", "  // indented name  ", "//", "\t//\tdescr a ", "// descr b", "//  ", "/// triple", "// @name: \"fake\";"]
metas = ['@name: "meta name";', '@name: i5;', '@description: "meta descr";', '@description: i5;', '@k: i1;', '@k: i2;', '@k: [i1, {a: ["x", none]}];',
         '@tags: {b: true, a: [d1.5, f2]};', '@k: a;', '@k: i1 + i2;', '@k: -i1;', '@k: [i1, a];', '@j: "s";', '@name: "second";', '@k: none;', '@k: [];', '@k: {};']
exprs = ["i1", "a + b", "if a then b else c", "\"x\n//inside\n\"", "i1 // trailing", "[i1,\n i2]", "f(x)", "a.b.0", "i1 +", "34", ""]
eols = ["\n", "\r\n"]
out = open('/tmp/rules_in.txt','w')
seen=set()
for _ in range(60000):
    parts=[]
    nlines = random.randint(0,6)
    items=[]
    for _ in range(nlines):
        r=random.random()
        if r<0.45: items.append(random.choice(comments))
        elif r<0.85: items.append(random.choice(metas))
        else: items.append("")
    pos = random.randint(0,len(items))
    e = random.choice(exprs)
    lines = items[:pos]+[e]+[x for x in items[pos:] if not x.startswith('@')]  # metas only before expr (else parse error; keep some)
    if random.random()<0.1: lines = items[:pos]+[e]+items[pos:]
    eol = random.choice(eols)
    # sometimes put two metas on one line, or a comment after a meta on the same line
    text=""
    for i,l in enumerate(lines):
        if random.random()<0.15 and text and not text.endswith(eol): pass
        text += l
        if random.random()<0.12: text += " "
        else: text += eol if (i < len(lines)-1 or random.random()<0.7) else ""
    if text in seen: continue
    seen.add(text)
    out.write(text.encode('utf-8').hex()+"\n")
print(len(seen))
