//! C18: (a) Send / Sync of the public types and Send of the evaluation futures — decided by rustc when this
//! file is compiled (a violation is a compile error naming the offending type);  (b) N concurrent evaluations of
//! one shared Arc<RuleSet> (OS threads and a multi-threaded tokio runtime) return the outcomes of running
//! them one after another.
use async_trait::async_trait;
use reval::prelude::*;
use serde::Serialize;
use std::collections::BTreeMap;
use std::sync::atomic::{AtomicUsize, Ordering};
use std::sync::Arc;

/// a deeply nested, long input: serializing it takes long enough for the serializations of many threads to overlap
#[derive(Serialize, Clone)]
enum Nest {
    Leaf(Vec<u32>),
    Node(Box<Nest>, u8),
}

#[derive(Serialize, Clone)]
struct DeepInput {
    x: i64,
    deep: Nest,
}

fn deep_input(x: i64, depth: usize, leaf: usize) -> DeepInput {
    let mut n = Nest::Leaf((0..leaf as u32).collect());
    for i in 0..depth {
        n = Nest::Node(Box::new(n), i as u8);
    }
    DeepInput { x, deep: n }
}

fn assert_send_sync<T: Send + Sync>() {}
fn assert_send<T: Send>(_: &T) {}

#[derive(Serialize, Clone)]
struct Input {
    x: i64,
    name: String,
    tags: Vec<String>,
}

struct Slow {
    name: &'static str,
    calls: Arc<AtomicUsize>,
    cacheable: bool,
}

#[async_trait]
impl UserFunction for Slow {
    async fn call(&self, params: Value) -> FunctionResult {
        self.calls.fetch_add(1, Ordering::SeqCst);
        tokio::task::yield_now().await;
        match params {
            Value::Int(i) if i % 7 == 3 => Err(anyhow::anyhow!("unlucky {}", i)),
            Value::Int(i) => Ok(Value::Int(i * 2)),
            other => Ok(Value::Vec(vec![other])),
        }
    }
    fn name(&self) -> &'static str {
        self.name
    }
    fn cacheable(&self) -> bool {
        self.cacheable
    }
}

/// an *impure* cacheable function: every real invocation returns a fresh ticket.  Within one evaluation the cache makes
/// every call with the same argument observe the first ticket — in every sequential order of evaluations — so
/// `[stamp(x), nc(x), stamp(x)]` is `[t, _, t]` and a later rule's `stamp(x)` is `t` again.  A cache that is shared
/// between concurrent evaluations (or reset by another one) breaks exactly that.
struct Stamp {
    next: Arc<AtomicUsize>,
}

#[async_trait]
impl UserFunction for Stamp {
    async fn call(&self, _params: Value) -> FunctionResult {
        tokio::task::yield_now().await;
        Ok(Value::Int(self.next.fetch_add(1, Ordering::SeqCst) as i128))
    }
    fn name(&self) -> &'static str {
        "stamp"
    }
    fn cacheable(&self) -> bool {
        true
    }
}

/// a function that, while the gate is closed, never completes (the evaluation calling it stays parked until it is
/// cancelled) or panics; with the gate open it returns its argument
struct Park {
    gate: Arc<std::sync::atomic::AtomicU8>,
    parked: Arc<AtomicUsize>,
}

#[async_trait]
impl UserFunction for Park {
    async fn call(&self, params: Value) -> FunctionResult {
        match self.gate.load(Ordering::SeqCst) {
            1 => {
                self.parked.fetch_add(1, Ordering::SeqCst);
                std::future::pending::<()>().await;
            }
            2 => {
                self.parked.fetch_add(1, Ordering::SeqCst);
                tokio::task::yield_now().await;
                panic!("user function panics inside a spawned evaluation");
            }
            _ => tokio::task::yield_now().await,
        }
        Ok(params)
    }
    fn name(&self) -> &'static str {
        "park"
    }
    fn cacheable(&self) -> bool {
        false
    }
}

/// a function in which every caller waits until `need` callers have arrived (or a deadline passes): all the evaluations
/// of a batch are suspended inside it at the same moment, each at its own nesting depth
struct Hold {
    arrived: Arc<AtomicUsize>,
    need: Arc<AtomicUsize>,
}

#[async_trait]
impl UserFunction for Hold {
    async fn call(&self, params: Value) -> FunctionResult {
        self.arrived.fetch_add(1, Ordering::SeqCst);
        let t0 = std::time::Instant::now();
        while self.arrived.load(Ordering::SeqCst) < self.need.load(Ordering::SeqCst) && t0.elapsed().as_secs() < 20 {
            tokio::task::yield_now().await;
        }
        Ok(params)
    }
    fn name(&self) -> &'static str {
        "hold"
    }
    fn cacheable(&self) -> bool {
        false
    }
}

/// None = consistent; Some(description) otherwise
fn stamp_inconsistency(os: &Result<Vec<reval::ruleset::Outcome>, reval::Error>) -> Option<String> {
    let os = match os {
        Ok(os) => os,
        Err(e) => return Some(format!("evaluation failed: {}", e)),
    };
    let first = match os.first().map(|o| &o.value) {
        Some(Ok(Value::Vec(xs))) if xs.len() == 3 => xs.clone(),
        other => return Some(format!("unexpected first outcome {:?}", other.map(|r| r.as_ref().map_err(|e| e.to_string())))),
    };
    if first[0] != first[2] {
        return Some(format!("[stamp(x), nc(x), stamp(x)] = [{}, _, {}]: the second call did not observe the first result", first[0], first[2]));
    }
    match os.get(1).map(|o| &o.value) {
        Some(Ok(v)) if *v == first[0] => None,
        other => Some(format!("a later rule's stamp(x) = {:?}, the first rule's was {}", other.map(|r| r.as_ref().map_err(|e| e.to_string())), first[0])),
    }
}

fn static_assertions(rs: &RuleSet, e: &Expr, facts: &Value, input: &Input) {
    assert_send_sync::<RuleSet>();
    assert_send_sync::<Rule>();
    assert_send_sync::<Expr>();
    assert_send_sync::<Value>();
    assert_send_sync::<Symbols>();
    assert_send_sync::<reval::Error>();
    assert_send_sync::<reval::expr::Index>();
    assert_send_sync::<reval::parse::Error>();
    assert_send(&e.evaluate(facts));
    assert_send(&rs.evaluate_value(facts));
    assert_send(&rs.evaluate(input));
}

fn enc(os: &Result<Vec<reval::ruleset::Outcome>, reval::Error>) -> String {
    match os {
        Ok(os) => os.iter().map(|o| format!("{}={:?}", o.rule.name(), o.value.as_ref().map_err(|e| e.to_string()))).collect::<Vec<_>>().join(" | "),
        Err(e) => format!("ERR {}", e),
    }
}

fn main() {
    let quick = std::env::args().nth(1).map(|a| a == "quick").unwrap_or(true);
    let out_path = std::env::args().nth(2).unwrap_or("/dev/stdout".into());
    let calls = Arc::new(AtomicUsize::new(0));
    let texts = [
        "// r0\ndouble(x) + i1",
        "// r1\nif x > i10 then double(x) else [double(x), double(i5)]",
        "// r2\nname contains \"a\" and (tags.0 == \"t\" or nc(x) == nc(x))",
        "// r3\ndouble(i3)",
        "// r4\n{a: x * i2, b: :limit, c: uppercase(name)}",
        "// r5\nmissing + i1",
    ];
    let mut b = ruleset();
    for t in texts {
        b = b.with_rule(Rule::parse(t).expect("rule")).expect("with_rule");
    }
    let rs = b
        .with_function(Slow { name: "double", calls: calls.clone(), cacheable: true })
        .unwrap()
        .with_function(Slow { name: "nc", calls: calls.clone(), cacheable: false })
        .unwrap()
        .with_symbol("limit", Value::Int(21))
        .build();
    let rs = Arc::new(rs);
    let inputs: Vec<Input> = (0..16).map(|i| Input { x: i, name: format!("na{}", i), tags: vec!["t".into(), format!("{}", i)] }).collect();
    let e = Expr::parse("x + i1").unwrap();
    let facts: Value = BTreeMap::from([("x", 1)]).into();
    static_assertions(&rs, &e, &facts, &inputs[0]);

    let rt1 = tokio::runtime::Builder::new_current_thread().build().unwrap();
    // sequential baseline
    let seq: Vec<String> = inputs.iter().map(|i| enc(&rt1.block_on(rs.evaluate(i)))).collect();
    let mut mismatches: Vec<String> = vec![];
    let mut runs = 0usize;
    let rounds = if quick { 20 } else { 200 };
    // (1) OS threads, each with its own single-threaded runtime
    for n in [2usize, 4, 8, 16] {
        for _ in 0..rounds {
            let hs: Vec<_> = (0..n)
                .map(|t| {
                    let rs = rs.clone();
                    let inp = inputs[t % inputs.len()].clone();
                    std::thread::spawn(move || {
                        let rt = tokio::runtime::Builder::new_current_thread().build().unwrap();
                        let mut outs = vec![];
                        for _ in 0..3 {
                            outs.push(enc(&rt.block_on(rs.evaluate(&inp))));
                        }
                        (t, outs)
                    })
                })
                .collect();
            for h in hs {
                let (t, outs) = match h.join() {
                    Ok(x) => x,
                    Err(p) => {
                        runs += 1;
                        let msg = p.downcast_ref::<String>().cloned().or_else(|| p.downcast_ref::<&str>().map(|s| s.to_string())).unwrap_or_default();
                        mismatches.push(format!("threads={} one evaluating thread panicked ({}) where the sequential run returns outcomes", n, msg));
                        continue;
                    }
                };
                for o in outs {
                    runs += 1;
                    if o != seq[t % inputs.len()] {
                        mismatches.push(format!("threads={} input={} got {} want {}", n, t % inputs.len(), o, seq[t % inputs.len()]));
                    }
                }
            }
        }
    }
    // (2) a multi-threaded tokio runtime: tasks spawned (requires Send futures) and migrating between workers
    let rt = tokio::runtime::Builder::new_multi_thread().worker_threads(8).build().unwrap();
    for _ in 0..rounds {
        let hs: Vec<_> = (0..32)
            .map(|t| {
                let rs = rs.clone();
                let inp = inputs[t % inputs.len()].clone();
                rt.spawn(async move { (t, enc(&rs.evaluate(&inp).await)) })
            })
            .collect();
        for h in hs {
            let (t, o) = match rt.block_on(h) {
                Ok(x) => x,
                Err(e) => {
                    runs += 1;
                    mismatches.push(format!("tokio: a spawned evaluation panicked ({}) where the sequential run returns outcomes", e));
                    continue;
                }
            };
            runs += 1;
            if o != seq[t % inputs.len()] {
                mismatches.push(format!("tokio input={} got {} want {}", t % inputs.len(), o, seq[t % inputs.len()]));
            }
        }
    }
    // (3) an impure cacheable function: each evaluation must be self-consistent, as it is in every sequential order
    let rs2 = Arc::new(
        ruleset()
            .with_rule(Rule::parse("// s0\n[stamp(x), nc(x), stamp(x)]").unwrap())
            .unwrap()
            .with_rule(Rule::parse("// s1\nstamp(x)").unwrap())
            .unwrap()
            .with_function(Stamp { next: Arc::new(AtomicUsize::new(0)) })
            .unwrap()
            .with_function(Slow { name: "nc", calls: calls.clone(), cacheable: false })
            .unwrap()
            .build(),
    );
    for i in inputs.iter().take(3) {
        runs += 1;
        if let Some(why) = stamp_inconsistency(&rt1.block_on(rs2.evaluate(i))) {
            mismatches.push(format!("sequential stamp run: {}", why));
        }
    }
    for _ in 0..rounds {
        // tasks on the multi-threaded runtime, all on the same input (same cache key)
        let hs: Vec<_> = (0..32)
            .map(|t| {
                let rs2 = rs2.clone();
                let inp = inputs[t % 2].clone();
                rt.spawn(async move { stamp_inconsistency(&rs2.evaluate(&inp).await) })
            })
            .collect();
        for h in hs {
            runs += 1;
            match rt.block_on(h) {
                Ok(None) => {}
                Ok(Some(why)) => mismatches.push(format!("tokio, impure cacheable function: {}", why)),
                Err(e) => mismatches.push(format!("tokio: a spawned evaluation panicked ({})", e)),
            }
        }
        // interleaved on ONE thread (join of several evaluations): no parallelism needed to expose shared state
        let outs = rt1.block_on(async {
            let (a, b, c) = tokio::join!(rs2.evaluate(&inputs[0]), rs2.evaluate(&inputs[0]), rs2.evaluate(&inputs[1]));
            vec![stamp_inconsistency(&a), stamp_inconsistency(&b), stamp_inconsistency(&c)]
        });
        for o in outs {
            runs += 1;
            if let Some(why) = o {
                mismatches.push(format!("one thread, three interleaved evaluations, impure cacheable function: {}", why));
            }
        }
    }
    // (4) deep, long inputs serialized by many threads at once (`RuleSet::evaluate(&T)` = serialize, then evaluate):
    //     whatever the serializer keeps while it works must be per call, not per process
    {
        let rs3 = Arc::new(
            ruleset()
                .with_rule(Rule::parse("// d0\nx + i1").unwrap())
                .unwrap()
                .with_rule(Rule::parse("// d1\nsome(deep)").unwrap())
                .unwrap()
                .build(),
        );
        let deep: Vec<DeepInput> = (0..4).map(|i| deep_input(i, 40 + 10 * i as usize, 60_000)).collect();
        let seq3: Vec<String> = deep.iter().map(|i| enc(&rt1.block_on(rs3.evaluate(i)))).collect();
        for _ in 0..(if quick { 6 } else { 40 }) {
            let barrier = Arc::new(std::sync::Barrier::new(12));
            let hs: Vec<_> = (0..12)
                .map(|t| {
                    let rs3 = rs3.clone();
                    let inp = deep[t % deep.len()].clone();
                    let barrier = barrier.clone();
                    std::thread::spawn(move || {
                        let rt = tokio::runtime::Builder::new_current_thread().build().unwrap();
                        barrier.wait();
                        (t, enc(&rt.block_on(rs3.evaluate(&inp))))
                    })
                })
                .collect();
            for h in hs {
                runs += 1;
                match h.join() {
                    Ok((t, o)) => {
                        if o != seq3[t % deep.len()] {
                            mismatches.push(format!("12 threads serializing deep inputs at once: input={} got {} want {}", t % deep.len(), o.chars().take(200).collect::<String>(), seq3[t % deep.len()].chars().take(200).collect::<String>()));
                        }
                    }
                    Err(_) => mismatches.push("12 threads serializing deep inputs at once: a thread panicked".to_string()),
                }
            }
        }
    }
    // (5) evaluations that never complete — cancelled while parked in a user function, or unwinding from a panicking
    //     user function inside a spawned task — next to and before evaluations that do: the ones that complete return what
    //     they return one after another (an impure cacheable function: every evaluation draws its own fresh ticket, and
    //     sees only that one)
    {
        let next = Arc::new(AtomicUsize::new(0));
        let gate = Arc::new(std::sync::atomic::AtomicU8::new(0));
        let parked = Arc::new(AtomicUsize::new(0));
        let rs5 = Arc::new(
            ruleset()
                .with_rule(Rule::parse("// s0\n[stamp(x), nc(x), stamp(x)]").unwrap())
                .unwrap()
                .with_rule(Rule::parse("// s1\nstamp(x)").unwrap())
                .unwrap()
                .with_rule(Rule::parse("// p\npark(x)").unwrap())
                .unwrap()
                .with_rule(Rule::parse("// s2\nstamp(x)").unwrap())
                .unwrap()
                .with_function(Stamp { next: next.clone() })
                .unwrap()
                .with_function(Slow { name: "nc", calls: calls.clone(), cacheable: false })
                .unwrap()
                .with_function(Park { gate: gate.clone(), parked: parked.clone() })
                .unwrap()
                .build(),
        );
        let ticket_of = |os: &Result<Vec<reval::ruleset::Outcome>, reval::Error>| -> Option<i128> {
            match os.as_ref().ok()?.get(1).map(|o| &o.value) {
                Some(Ok(Value::Int(t))) => Some(*t),
                _ => None,
            }
        };
        for round in 0..(if quick { 6 } else { 40 }) {
            let mode = if round % 2 == 0 { 1u8 } else { 2u8 };
            gate.store(mode, Ordering::SeqCst);
            parked.store(0, Ordering::SeqCst);
            let n = 8;
            let doomed: Vec<_> = (0..n)
                .map(|t| {
                    let rs5 = rs5.clone();
                    let inp = inputs[t % 2].clone();
                    rt.spawn(async move {
                        let _ = rs5.evaluate(&inp).await;
                    })
                })
                .collect();
            let t0 = std::time::Instant::now();
            while parked.load(Ordering::SeqCst) < n && t0.elapsed().as_secs() < 10 {
                std::thread::sleep(std::time::Duration::from_millis(1));
            }
            // a few healthy evaluations are in flight while the doomed ones are cancelled / unwinding
            gate.store(0, Ordering::SeqCst);
            let floor = next.load(Ordering::SeqCst) as i128;
            let healthy: Vec<_> = (0..n)
                .map(|t| {
                    let rs5 = rs5.clone();
                    let inp = inputs[t % 2].clone();
                    rt.spawn(async move {
                        let os = rs5.evaluate(&inp).await;
                        (stamp_inconsistency(&os), os.as_ref().ok().and_then(|v| v.get(1).and_then(|o| o.value.as_ref().ok().cloned())), os.as_ref().ok().and_then(|v| v.get(3).and_then(|o| o.value.as_ref().ok().cloned())))
                    })
                })
                .collect();
            for h in &doomed {
                h.abort();
            }
            for h in doomed {
                let _ = rt.block_on(h);
            }
            let mut seen = std::collections::BTreeSet::new();
            let what = if mode == 1 { "cancelled while parked in a user function" } else { "unwinding from a panicking user function" };
            let mut check = |why: Option<String>, t1: Option<Value>, t2: Option<Value>, when: &str, mismatches: &mut Vec<String>| {
                if let Some(w) = why {
                    mismatches.push(format!("evaluations {} ({}): {}", when, what, w));
                    return;
                }
                match (t1, t2) {
                    (Some(Value::Int(a)), Some(Value::Int(b))) => {
                        if a != b {
                            mismatches.push(format!("evaluations {} ({}): the rules before and after park(x) saw different tickets {} / {}", when, what, a, b));
                        } else if a < floor {
                            mismatches.push(format!("evaluations {} ({}): stamp(x) = {}, a ticket drawn before this evaluation started (tickets from {} on were free): a result cached by an evaluation that never completed", when, what, a, floor));
                        } else if !seen.insert(a) {
                            mismatches.push(format!("evaluations {} ({}): two evaluations saw the same ticket {}", when, what, a));
                        }
                    }
                    other => mismatches.push(format!("evaluations {} ({}): unexpected outcomes {:?}", when, what, other)),
                }
            };
            for h in healthy {
                runs += 1;
                match rt.block_on(h) {
                    Ok((why, t1, t2)) => check(why, t1, t2, "in flight next to ones that never complete", &mut mismatches),
                    Err(e) => mismatches.push(format!("a healthy spawned evaluation panicked ({})", e)),
                }
            }
            // … and afterwards, from this thread
            for t in 0..4 {
                runs += 1;
                let os = rt1.block_on(rs5.evaluate(&inputs[t % 2]));
                let t1 = ticket_of(&os).map(Value::Int);
                let t2 = os.as_ref().ok().and_then(|v| v.get(3).and_then(|o| o.value.as_ref().ok().cloned()));
                check(stamp_inconsistency(&os), t1, t2, "after ones that never completed", &mut mismatches);
            }
        }
    }
    // (6) mass suspension: thousands of evaluations of one shared ruleset, each nested 40 operators deep, all parked in a
    //     user function at the same moment — on one thread (every frame of every evaluation is live on that thread) and on
    //     a 4-worker runtime.  Whatever an evaluation counts, guards or budgets must be its own: each returns what it
    //     returns alone.
    {
        let arrived = Arc::new(AtomicUsize::new(0));
        let need = Arc::new(AtomicUsize::new(1));
        let depth = 40usize;
        let text = format!("// deep\n{}hold(x){}", "(".repeat(depth), " + i1)".repeat(depth));
        let text2 = format!("// deep2\n{}hold(x){}", "!(".repeat(depth), ")".repeat(depth));
        let rs6 = Arc::new(
            ruleset()
                .with_rule(Rule::parse(&text).unwrap())
                .unwrap()
                .with_rule(Rule::parse(&text2).unwrap())
                .unwrap()
                .with_function(Hold { arrived: arrived.clone(), need: need.clone() })
                .unwrap()
                .build(),
        );
        let alone: Vec<String> = inputs.iter().take(4).map(|i| enc(&rt1.block_on(rs6.evaluate(i)))).collect();
        for (label, n, multi) in [("one thread", if quick { 1500usize } else { 6000 }, false), ("4 workers", if quick { 1500 } else { 6000 }, true)] {
            arrived.store(0, Ordering::SeqCst);
            // two calls of hold per evaluation (one per rule): the first rule's calls gather everybody
            need.store(n, Ordering::SeqCst);
            let rt6 = if multi { tokio::runtime::Builder::new_multi_thread().worker_threads(4).build().unwrap() } else { tokio::runtime::Builder::new_current_thread().build().unwrap() };
            let outs: Vec<(usize, Result<String, String>)> = rt6.block_on(async {
                let hs: Vec<_> = (0..n)
                    .map(|t| {
                        let rs6 = rs6.clone();
                        let inp = inputs[t % 4].clone();
                        tokio::spawn(async move { enc(&rs6.evaluate(&inp).await) })
                    })
                    .collect();
                let mut outs = vec![];
                for (t, h) in hs.into_iter().enumerate() {
                    outs.push((t, h.await.map_err(|e| e.to_string())));
                }
                outs
            });
            let mut bad = 0usize;
            for (t, o) in outs {
                runs += 1;
                match o {
                    Ok(o) if o == alone[t % 4] => {}
                    Ok(o) => {
                        bad += 1;
                        if bad <= 2 {
                            mismatches.push(format!("{} evaluations nested {} deep suspended at once on {}: input={} got {} want {}", n, depth, label, t % 4, o.chars().take(160).collect::<String>(), alone[t % 4].chars().take(160).collect::<String>()));
                        }
                    }
                    Err(e) => {
                        bad += 1;
                        if bad <= 2 {
                            mismatches.push(format!("{} evaluations suspended at once on {}: a task panicked ({})", n, label, e));
                        }
                    }
                }
            }
            if bad > 2 {
                mismatches.push(format!("… and {} more of the {} evaluations suspended at once on {}", bad - 2, n, label));
            }
        }
    }
    // (7) first use: a freshly built ruleset (nothing has looked anything up in it yet) hit by 8 threads at the same
    //     instant, again and again with new rulesets — whatever a ruleset prepares lazily on first use is prepared under
    //     contention, and every thread must still get the sequential outcomes
    {
        let n_fresh = if quick { 3000 } else { 30000 };
        let names: Vec<&'static str> = vec!["g00", "g01", "g02", "g03", "g04", "g05", "g06", "g07", "g08", "g09", "g10", "g11", "g12", "g13", "g14", "g15", "g16", "g17", "g18", "g19", "g20", "g21", "g22", "g23"];
        let build = || {
            let mut b = ruleset();
            for (i, nm) in names.iter().enumerate() {
                b = b.with_function(Slow { name: nm, calls: calls.clone(), cacheable: i % 2 == 0 }).unwrap();
            }
            b = b.with_symbol("limit", Value::Int(21)).with_symbol("zeta", Value::Int(5));
            b.with_rule(Rule::parse("// first\ng23(g00(x)) + g11(:limit) + :zeta").unwrap())
                .unwrap()
                .with_rule(Rule::parse("// second\n[g07(x), g12(x), name, tags.0]").unwrap())
                .unwrap()
                .build()
        };
        let want = enc(&rt1.block_on(build().evaluate(&inputs[1])));
        let facts7: Value = {
            use serde::Serialize;
            inputs[1].serialize(reval::value::ser::ValueSerializer).expect("facts")
        };
        let mut bad = 0usize;
        // 8 persistent threads; per round they spin on a generation counter, then all evaluate the SAME fresh ruleset at once
        let n_threads = 8usize;
        let slot: Arc<std::sync::RwLock<Option<Arc<RuleSet>>>> = Arc::new(std::sync::RwLock::new(None));
        let generation = Arc::new(AtomicUsize::new(0));
        let ready = Arc::new(AtomicUsize::new(0));
        let done = Arc::new(AtomicUsize::new(0));
        let results: Arc<std::sync::Mutex<Vec<String>>> = Arc::new(std::sync::Mutex::new(vec![]));
        let stop = Arc::new(std::sync::atomic::AtomicBool::new(false));
        let hs: Vec<_> = (0..n_threads)
            .map(|_| {
                let (slot, generation, ready, done, results, stop, facts7) = (slot.clone(), generation.clone(), ready.clone(), done.clone(), results.clone(), stop.clone(), facts7.clone());
                std::thread::spawn(move || {
                    let rt = tokio::runtime::Builder::new_current_thread().build().unwrap();
                    let mut seen = 0usize;
                    loop {
                        ready.fetch_add(1, Ordering::SeqCst);
                        // spin until the next generation is published
                        let t0 = std::time::Instant::now();
                        while generation.load(Ordering::SeqCst) == seen {
                            if stop.load(Ordering::SeqCst) {
                                return;
                            }
                            if t0.elapsed().as_secs() > 30 {
                                return;
                            }
                            std::hint::spin_loop();
                        }
                        seen = generation.load(Ordering::SeqCst);
                        let rs = slot.read().unwrap().clone().unwrap();
                        let out = std::panic::catch_unwind(std::panic::AssertUnwindSafe(|| enc(&rt.block_on(rs.evaluate_value(&facts7))))).unwrap_or_else(|_| "PANIC".to_string());
                        results.lock().unwrap().push(out);
                        done.fetch_add(1, Ordering::SeqCst);
                    }
                })
            })
            .collect();
        for round in 0..n_fresh {
            // wait until every thread spins at the gate
            let t0 = std::time::Instant::now();
            while ready.load(Ordering::SeqCst) < n_threads * (round + 1) && t0.elapsed().as_secs() < 30 {
                std::hint::spin_loop();
            }
            *slot.write().unwrap() = Some(Arc::new(build()));
            generation.fetch_add(1, Ordering::SeqCst);
            let t0 = std::time::Instant::now();
            while done.load(Ordering::SeqCst) < n_threads * (round + 1) && t0.elapsed().as_secs() < 30 {
                std::thread::yield_now();
            }
            for o in results.lock().unwrap().drain(..) {
                runs += 1;
                if o != want {
                    bad += 1;
                    if bad <= 2 {
                        mismatches.push(format!("first use of a freshly built ruleset by {} threads at once (round {}): got {} want {}", n_threads, round, o.chars().take(200).collect::<String>(), want.chars().take(200).collect::<String>()));
                    }
                }
            }
        }
        stop.store(true, Ordering::SeqCst);
        generation.fetch_add(1, Ordering::SeqCst);
        for h in hs {
            let _ = h.join();
        }
        if bad > 2 {
            mismatches.push(format!("… and {} more first-use evaluations differ", bad - 2));
        }
    }
    let report = serde_json::json!({
        "runs": runs,
        "distinct_inputs": inputs.len(),
        "mismatches": mismatches.len(),
        "first_mismatches": mismatches.iter().take(5).collect::<Vec<_>>(),
        "sample_sequential": seq.iter().take(2).collect::<Vec<_>>(),
        "function_invocations": calls.load(Ordering::SeqCst),
    });
    std::fs::write(&out_path, serde_json::to_string_pretty(&report).unwrap()).unwrap();
    if !mismatches.is_empty() {
        std::process::exit(1);
    }
}
