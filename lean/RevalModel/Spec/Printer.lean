/-
  Spec/Printer.lean — `impl Display for Expr` at the token level: the token list the printed text consists of.
  (`Disp.showExpr` is the character-level model compared with the implementation; that its text lexes to exactly
  these tokens is checked on every correspondence case by the driver.)
-/
import RevalModel.Spec.Grammar

namespace Reval.G
open Reval Reval.Disp

/-- the keyword a built-in function node is printed with -/
def unKw : UnOp → Str
  | .not => ['!'] | .neg => ['-'] | .some => ['s', 'o', 'm', 'e'] | .isNone => ['n', 'o', 'n', 'e']
  | .toInt => ['i', 'n', 't'] | .toFloat => ['f', 'l', 'o', 'a', 't'] | .toDec => ['d', 'e', 'c']
  | .dateTime => ['d', 'a', 't', 'e', 't', 'i', 'm', 'e'] | .duration => ['d', 'u', 'r', 'a', 't', 'i', 'o', 'n']
  | .upper => ['u', 'p', 'p', 'e', 'r', 'c', 'a', 's', 'e'] | .lower => ['l', 'o', 'w', 'e', 'r', 'c', 'a', 's', 'e']
  | .trim => ['t', 'r', 'i', 'm'] | .round => ['r', 'o', 'u', 'n', 'd'] | .floor => ['f', 'l', 'o', 'o', 'r']
  | .fract => ['f', 'r', 'a', 'c', 't'] | .year => ['y', 'e', 'a', 'r'] | .month => ['m', 'o', 'n', 't', 'h']
  | .week => ['w', 'e', 'e', 'k'] | .day => ['d', 'a', 'y'] | .hour => ['h', 'o', 'u', 'r']
  | .minute => ['m', 'i', 'n', 'u', 't', 'e'] | .second => ['s', 'e', 'c', 'o', 'n', 'd']

def unTok : UnOp → Tok
  | .neg => minus
  | .not => bang
  | op => .kw (unKw op)

/-- the operator token a binary node is printed with -/
def binTok : BinOp → Tok
  | .mult => .p ['*'] | .div => .p ['/'] | .rem => .p ['%'] | .add => .p ['+'] | .sub => .p ['-']
  | .gt => .p ['>'] | .gte => .p ['>', '='] | .lt => .p ['<'] | .lte => .p ['<', '=']
  | .bitAnd => .p ['&'] | .bitOr => .p ['|'] | .bitXor => .p ['^'] | .contains => kwContains

def idxTok : Index → Tok
  | .key k => .ident k
  | .pos n => .index (Disp.showNat n)

def wrap (T : List Tok) : List Tok := lp :: (T ++ [rp])

mutual
def dispToks (sf : F64 → Str) : Expr → List Tok
  | .lit v => [litTok sf v]
  | .ref n => [.ident n]
  | .sym n => [colon, .ident n]
  | .call f a => .ident f :: lp :: (dispToks sf a ++ [rp])
  | .index e i => wrap ((if needsParens e then wrap (dispToks sf e) else dispToks sf e) ++ [dot, idxTok i])
  | .ite c t e => wrap (kwIf :: (dispToks sf c ++ kwThen :: (dispToks sf t ++ kwElse :: dispToks sf e)))
  | .and l r => wrap (dispToks sf l ++ .kw ['a', 'n', 'd'] :: dispToks sf r)
  | .or l r => wrap (dispToks sf l ++ .kw ['o', 'r'] :: dispToks sf r)
  | .eq l r => wrap (dispToks sf l ++ .p ['=', '='] :: dispToks sf r)
  | .neq l r => wrap (dispToks sf l ++ .p ['!', '='] :: dispToks sf r)
  | .un op e => unTok op :: lp :: (dispToks sf e ++ [rp])
  | .bin op l r =>
    if isBitwise op then
      dispToks sf l ++ binTok op :: (if needsParens r then wrap (dispToks sf r) else dispToks sf r)
    else if op = .contains then
      wrap ((if needsParens l then wrap (dispToks sf l) else dispToks sf l) ++ kwContains ::
        (if needsParens r then wrap (dispToks sf r) else dispToks sf r))
    else wrap (dispToks sf l ++ binTok op :: dispToks sf r)
  | .vec xs => .p ['['] :: dispList sf xs
  | .map kvs => .p ['{'] :: dispEntries sf kvs
/-- list items after `[`, through `]` -/
def dispList (sf : F64 → Str) : List Expr → List Tok
  | [] => [.p [']']]
  | [e] => dispToks sf e ++ [.p [']']]
  | e :: e2 :: es => dispToks sf e ++ comma :: dispList sf (e2 :: es)
/-- map entries after `{`, through `}` -/
def dispEntries (sf : F64 → Str) : List (Str × Expr) → List Tok
  | [] => [.p ['}']]
  | [(k, e)] => .ident k :: colon :: (dispToks sf e ++ [.p ['}']])
  | (k, e) :: kv2 :: kvs => .ident k :: colon :: (dispToks sf e ++ comma :: dispEntries sf (kv2 :: kvs))
end

end Reval.G
