/-
  Spec/OperatorTable.lean — the operator table the properties C02–C04 speak about, written
  declaratively and organised *by operand type* (the implementation is organised by operator):

  * `UnOp.sig` / `BinOp.sig`   : the explicitly supported operand types / ordered type pairs,
  * `cellUn` / `cellBin`       : what a supported cell computes, from the type's own primitives,
  * `UnOp.noneRule` / `BinOp.noneRule` : what an operator does with a `None` operand,
  * `tableUn` / `tableBin`     : signature lookup, then the cell, else the None rule, else a type error.

  `Lemmas/Table.lean` proves `applyUn = tableUn` and `applyBin = tableBin`.
-/
import RevalModel.Impl.Eval

namespace Reval

/-! ### Signatures -/

def UnOp.sig : UnOp → List Ty
  | .not => [.bool]
  | .neg => [.int, .float, .dec]
  | .some | .isNone => Ty.all
  | .toInt | .toFloat | .toDec => [.int, .float, .dec, .str]
  | .dateTime => [.str, .int, .dateTime]
  | .duration => [.int, .duration]
  | .upper | .lower | .trim => [.str]
  | .round | .floor | .fract => [.float, .dec]
  | .year | .month => [.dateTime]
  | .week => [.int, .duration]
  | .day | .hour | .minute | .second => [.int, .dateTime, .duration]

def BinOp.sig : BinOp → List (Ty × Ty)
  | .mult | .div | .rem => [(.int, .int), (.float, .float), (.dec, .dec)]
  | .add => [(.int, .int), (.float, .float), (.dec, .dec), (.dateTime, .duration)]
  | .sub => [(.int, .int), (.float, .float), (.dec, .dec), (.dateTime, .dateTime), (.dateTime, .duration),
             (.duration, .duration)]
  | .gt | .gte | .lt | .lte =>
      [(.int, .int), (.float, .float), (.dec, .dec), (.dateTime, .dateTime), (.duration, .duration)]
  | .bitAnd | .bitOr | .bitXor => [(.int, .int), (.bool, .bool)]
  | .contains => [(.map, .str), (.str, .str), (.int, .int)] ++ Ty.all.map (fun t => (.vec, t))

/-- What an operator does with a `None` operand that is not covered by its signature. -/
inductive NoneRule where
  | propagate      -- None in either position gives None
  | isFalse        -- None in either position gives false
  | collFalse      -- (membership) a None collection gives false; a None item is an ordinary operand
deriving DecidableEq, Repr

def BinOp.noneRule : BinOp → NoneRule
  | .mult | .div | .rem | .add | .sub | .bitAnd | .bitOr | .bitXor => .propagate
  | .gt | .gte | .lt | .lte => .isFalse
  | .contains => .collFalse

/-! ### Cells, by operand type -/

def ofOpt (r : Option Int) (e : Err) (mk : Int → Value) : Res Value :=
  match r with
  | some x => .ok (mk x)
  | none => .err e

def cmpInt : BinOp → Int → Int → Bool
  | .gt, a, b => decide (a > b)
  | .gte, a, b => decide (a ≥ b)
  | .lt, a, b => decide (a < b)
  | .lte, a, b => decide (a ≤ b)
  | _, _, _ => false

/-- Int × Int -/
def intCell : BinOp → Int → Int → Res Value
  | .add, a, b => ofOpt (I128.checked (a + b)) (.outOfBounds (.int a)) .int
  | .sub, a, b => ofOpt (I128.checked (a - b)) (.outOfBounds (.int a)) .int
  | .mult, a, b => ofOpt (I128.checked (a * b)) (.outOfBounds (.int a)) .int
  | .div, a, b => ofOpt (I128.checkedDiv a b) .divByZero .int
  | .rem, a, b => ofOpt (I128.checkedRem a b) .divByZero .int
  | .bitAnd, a, b => .ok (.int (I128.land a b))
  | .bitOr, a, b => .ok (.int (I128.lor a b))
  | .bitXor, a, b => .ok (.int (I128.xor a b))
  | .contains, a, b => .ok (.bool (I128.land a b != 0))
  | op, a, b => .ok (.bool (cmpInt op a b))

/-- Float × Float (IEEE-754) -/
def floatCell : BinOp → F64 → F64 → Res Value
  | .add, a, b => .ok (.float (F64.add a b))
  | .sub, a, b => .ok (.float (F64.sub a b))
  | .mult, a, b => .ok (.float (F64.mul a b))
  | .div, a, b => .ok (.float (F64.div a b))
  | .rem, a, b => .ok (.float (F64.rem a b))
  | .gt, a, b => .ok (.bool (F64.gt a b))
  | .gte, a, b => .ok (.bool (F64.ge a b))
  | .lt, a, b => .ok (.bool (F64.lt a b))
  | .lte, a, b => .ok (.bool (F64.le a b))
  | _, _, _ => .err .invalidType

/-- Decimal × Decimal (96-bit decimal arithmetic; rounding cases are the library's) -/
def decCell (o : Oracle) : BinOp → Dec → Dec → Res Value
  | .add, a, b => Impl.decOut o .decAdd [.dec a, .dec b] (.outOfBounds (.dec a)) (Dec.add a b)
  | .sub, a, b => Impl.decOut o .decSub [.dec a, .dec b] (.outOfBounds (.dec a)) (Dec.sub a b)
  | .mult, a, b => Impl.decOut o .decMul [.dec a, .dec b] (.outOfBounds (.dec a)) (Dec.mul a b)
  | .div, a, b => if b.mant = 0 then .err .divByZero else o.ask .decDiv [.dec a, .dec b] (.err .divByZero)
  | .rem, a, b => if b.mant = 0 then .err .divByZero else o.ask .decRem [.dec a, .dec b] (.err .divByZero)
  | .gt, a, b => .ok (.bool (Dec.lt b a))
  | .gte, a, b => .ok (.bool (Dec.le b a))
  | .lt, a, b => .ok (.bool (Dec.lt a b))
  | .lte, a, b => .ok (.bool (Dec.le a b))
  | _, _, _ => .err .invalidType

def boolCell : BinOp → Bool → Bool → Res Value
  | .bitAnd, a, b => .ok (.bool (a && b))
  | .bitOr, a, b => .ok (.bool (a || b))
  | .bitXor, a, b => .ok (.bool (a != b))
  | _, _, _ => .err .invalidType

/-- what a supported cell computes -/
def cellBin (o : Oracle) (op : BinOp) : Value → Value → Res Value
  | .int a, .int b => intCell op a b
  | .float a, .float b => floatCell op a b
  | .dec a, .dec b => decCell o op a b
  | .bool a, .bool b => boolCell op a b
  | .dateTime a, .duration b =>
    match op with
    | .add => if Time.dtInRange (a + b) then .ok (.dateTime (a + b)) else .err (.outOfBounds (.dateTime a))
    | .sub => if Time.dtInRange (a - b) then .ok (.dateTime (a - b)) else .err (.outOfBounds (.dateTime a))
    | _ => .err .invalidType
  | .dateTime a, .dateTime b =>
    match op with
    | .sub => .ok (.duration (a - b))
    | op => .ok (.bool (cmpInt op a b))
  | .duration a, .duration b =>
    match op with
    | .sub => if Time.durInRange (a - b) then .ok (.duration (a - b)) else .err (.outOfBounds (.duration a))
    | op => .ok (.bool (cmpInt op a b))
  | .map m, .str k => .ok (.bool (lookup m k).isSome)
  | .str c, .str i => .ok (.bool (Str.isInfix i c))
  | .vec xs, item => .ok (.bool (xs.any (fun x => Value.peq x item)))
  | _, _ => .err .invalidType

def tableBin (o : Oracle) (op : BinOp) (a b : Value) : Res Value :=
  if (a.ty, b.ty) ∈ op.sig then cellBin o op a b
  else
    match op.noneRule with
    | .propagate => if a.ty = .none ∨ b.ty = .none then .ok .none else .err .invalidType
    | .isFalse => if a.ty = .none ∨ b.ty = .none then .ok (.bool false) else .err .invalidType
    | .collFalse => if a.ty = .none then .ok (.bool false) else .err .invalidType

/-- unary cells, by operand type -/
def cellUn (o : Oracle) (op : UnOp) (v : Value) : Res Value :=
  match op, v with
  | .some, .none => .ok (.bool false)
  | .some, _ => .ok (.bool true)
  | .isNone, .none => .ok (.bool true)
  | .isNone, _ => .ok (.bool false)
  | .not, .bool b => .ok (.bool (!b))
  | .neg, .int i => ofOpt (I128.checked (-i)) (.outOfBounds (.int i)) .int
  | .neg, .float f => .ok (.float (F64.neg f))
  | .neg, .dec d => .ok (.dec (Dec.negate d))
  -- casts
  | .toInt, .int i => .ok (.int i)
  | .toInt, .float f =>
    match F64.truncToInt f with
    | some n => if I128.inRange n then .ok (.int n) else .err (.invalidCast v)
    | none => .err (.invalidCast v)
  | .toInt, .dec d => .ok (.int (Dec.toInt d))
  | .toInt, .str s => ofOpt (Str.parseI128 s) (.invalidCast v) .int
  | .toFloat, .int i => .ok (.float (F64.ofInt i))
  | .toFloat, .float f => .ok (.float f)
  | .toFloat, .dec _ => o.ask .decToF64 [v] (.err (.invalidCast v))
  | .toFloat, .str _ => o.ask .strToF64 [v] (.err (.invalidCast v))
  | .toDec, .int i =>
    match Dec.ofInt i with
    | some d => .ok (.dec d)
    | none => .err (.invalidCast v)
  | .toDec, .float _ => o.ask .f64ToDec [v] (.err (.invalidCast v))
  | .toDec, .dec d => .ok (.dec d)
  | .toDec, .str _ => o.ask .strToDec [v] (.err (.invalidCast v))
  | .dateTime, .str _ => o.ask .strToDateTime [v] (.err (.invalidCast v))
  | .dateTime, .int i =>
    if I64.inRange i then ofOpt (Time.fromTimestamp i) (.invalidCast v) .dateTime else .err (.invalidCast v)
  | .dateTime, .dateTime t => .ok (.dateTime t)
  | .duration, .int i =>
    if I64.inRange i then ofOpt (Time.trySeconds i) (.invalidCast v) .duration else .err (.invalidCast v)
  | .duration, .duration d => .ok (.duration d)
  -- strings
  | .upper, .str s => if Str.isAscii s then .ok (.str (s.map Str.asciiUpper)) else o.ask .strUpper [v] (.frontier .strUpper [v])
  | .lower, .str s => if Str.isAscii s then .ok (.str (s.map Str.asciiLower)) else o.ask .strLower [v] (.frontier .strLower [v])
  | .trim, .str s => .ok (.str (Str.trim s))
  -- rounding
  | .round, .float f => .ok (.float (F64.round f))
  | .floor, .float f => .ok (.float (F64.floor f))
  | .fract, .float f => .ok (.float (F64.fract f))
  | .round, .dec d => Impl.decOut o .decRound [v] .invalidType (Dec.round d)
  | .floor, .dec d => Impl.decOut o .decFloor [v] .invalidType (Dec.floor d)
  | .fract, .dec d => Impl.decOut o .decFract [v] .invalidType (Dec.fract d)
  -- date/time
  | .year, .dateTime t => .ok (.int (Time.year t))
  | .month, .dateTime t => .ok (.int (Time.month t))
  | .day, .dateTime t => .ok (.int (Time.day t))
  | .hour, .dateTime t => .ok (.int (Time.hour t))
  | .minute, .dateTime t => .ok (.int (Time.minute t))
  | .second, .dateTime t => .ok (.int (Time.second t))
  | .week, .duration d => .ok (.int (Time.numUnits 604800 d))
  | .day, .duration d => .ok (.int (Time.numUnits 86400 d))
  | .hour, .duration d => .ok (.int (Time.numUnits 3600 d))
  | .minute, .duration d => .ok (.int (Time.numUnits 60 d))
  | .second, .duration d => .ok (.int (Time.numUnits 1 d))
  | .week, .int i => Impl.mkDuration 604800 v i
  | .day, .int i => Impl.mkDuration 86400 v i
  | .hour, .int i => Impl.mkDuration 3600 v i
  | .minute, .int i => Impl.mkDuration 60 v i
  | .second, .int i => Impl.mkDuration 1 v i
  | _, _ => .err .invalidType

def tableUn (o : Oracle) (op : UnOp) (v : Value) : Res Value :=
  if v.ty ∈ op.sig then cellUn o op v
  else if v.ty = .none then .ok .none
  else .err .invalidType

end Reval
