/-
  Spec/Denote.lean — declarative counterparts of evaluation used by C05, C09, C10, C12:
  * `sites`    : the static, left-to-right post-order of the call sites of an expression
                 (map entries in key order = list order of the sorted entry list),
  * `denote`   : a state-free, cache-free denotation for deterministic user functions
                 ("evaluating that rule's expression on its own"),
  * `resolve`  : addressing nested data by a list of steps; `pathExpr` builds `base.s₁.s₂…`.
-/
import RevalModel.Impl.RuleSet
import RevalModel.Spec.OperatorTable

namespace Reval

/-! ### call sites in evaluation order -/

mutual
def sites : List Nat → Expr → List (List Nat)
  | _, .lit _ => []
  | _, .ref _ => []
  | _, .sym _ => []
  | rp, .index e _ => sites (0 :: rp) e
  | rp, .call _ a => sites (0 :: rp) a ++ [rp]
  | rp, .ite c t e => sites (0 :: rp) c ++ (sites (1 :: rp) t ++ sites (2 :: rp) e)
  | rp, .and l r => sites (0 :: rp) l ++ sites (1 :: rp) r
  | rp, .or l r => sites (0 :: rp) l ++ sites (1 :: rp) r
  | rp, .eq l r => sites (0 :: rp) l ++ sites (1 :: rp) r
  | rp, .neq l r => sites (0 :: rp) l ++ sites (1 :: rp) r
  | rp, .un _ e => sites (0 :: rp) e
  | rp, .bin _ l r => sites (0 :: rp) l ++ sites (1 :: rp) r
  | rp, .vec xs => sitesList rp 0 xs
  | rp, .map kvs => sitesMap rp 0 kvs
def sitesList : List Nat → Nat → List Expr → List (List Nat)
  | _, _, [] => []
  | rp, i, e :: es => sites (i :: rp) e ++ sitesList rp (i + 1) es
def sitesMap : List Nat → Nat → List (Str × Expr) → List (List Nat)
  | _, _, [] => []
  | rp, i, (_, e) :: es => sites (i :: rp) e ++ sitesMap rp (i + 1) es
end

/-- the call sites reached, in the order they were reached -/
def reached : List Event → List (List Nat)
  | [] => []
  | .reach rp _ _ :: es => rp :: reached es
  | .invoke _ _ _ _ _ :: es => reached es

/-- (function, argument) of every call node reached -/
def reachedCalls : List Event → List (Str × Value)
  | [] => []
  | .reach _ f a :: es => (f, a) :: reachedCalls es
  | .invoke _ _ _ _ _ :: es => reachedCalls es

/-- (function, argument) of every actual invocation -/
def invokedCalls : List Event → List (Str × Value)
  | [] => []
  | .reach _ _ _ :: es => invokedCalls es
  | .invoke f a _ _ _ :: es => (f, a) :: invokedCalls es

/-! ### state-free denotation (deterministic functions) -/

/-- every function's result depends on its argument only -/
def Deterministic (env : Env) : Prop :=
  ∀ f fm, lookup env.fns f = some fm → ∀ i a, fm.behave i a = fm.behave 0 a

def callPure (env : Env) (f : Str) (a : Value) : Res Value :=
  match lookup env.fns f with
  | none => .err (.unknownFn f)
  | some fm =>
    match fm.behave 0 a with
    | .ok v => .ok v
    | .error msg => .err (.userFn f msg)

mutual
def denote (env : Env) : Expr → Res Value
  | .lit v => .ok v
  | .ref n => reference env n
  | .sym n => symbol env n
  | .index e i =>
    match denote env e with
    | .ok v => Impl.index v i
    | other => other
  | .call f a =>
    match denote env a with
    | .ok v => callPure env f v
    | other => other
  | .ite c t e =>
    match denote env c with
    | .ok (.bool true) => denote env t
    | .ok (.bool false) => denote env e
    | .ok _ => .err .invalidType
    | other => other
  | .and l r =>
    match denote env l with
    | .ok (.bool false) => .ok (.bool false)
    | .ok (.bool true) =>
      match denote env r with
      | .ok (.bool b) => .ok (.bool b)
      | .ok _ => .err .invalidType
      | other => other
    | .ok _ => .err .invalidType
    | other => other
  | .or l r =>
    match denote env l with
    | .ok (.bool true) => .ok (.bool true)
    | .ok (.bool false) =>
      match denote env r with
      | .ok (.bool b) => .ok (.bool b)
      | .ok _ => .err .invalidType
      | other => other
    | .ok _ => .err .invalidType
    | other => other
  | .eq l r =>
    match denote env l with
    | .ok .none => .ok (.bool false)
    | .ok a =>
      match denote env r with
      | .ok b => .ok (.bool (Value.peq a b))
      | other => other
    | other => other
  | .neq l r =>
    match denote env l with
    | .ok .none => .ok (.bool true)
    | .ok a =>
      match denote env r with
      | .ok b => .ok (.bool (!Value.peq a b))
      | other => other
    | other => other
  | .un op e =>
    match denote env e with
    | .ok v => tableUn env.oracle op v
    | other => other
  | .bin op l r =>
    match denote env l with
    | .ok a =>
      match denote env r with
      | .ok b => tableBin env.oracle op a b
      | other => other
    | other => other
  | .vec xs =>
    match denoteList env xs with
    | .ok vs => .ok (.vec vs)
    | .err e => .err e
    | .panic s => .panic s
    | .frontier o a => .frontier o a
  | .map kvs =>
    match denoteMap env kvs with
    | .ok vs => .ok (.map vs)
    | .err e => .err e
    | .panic s => .panic s
    | .frontier o a => .frontier o a
def denoteList (env : Env) : List Expr → Res (List Value)
  | [] => .ok []
  | e :: es =>
    match denote env e with
    | .ok v =>
      match denoteList env es with
      | .ok vs => .ok (v :: vs)
      | other => other
    | .err x => .err x
    | .panic s => .panic s
    | .frontier o a => .frontier o a
def denoteMap (env : Env) : List (Str × Expr) → Res (List (Str × Value))
  | [] => .ok []
  | (k, e) :: es =>
    match denote env e with
    | .ok v =>
      match denoteMap env es with
      | .ok vs => .ok ((k, v) :: vs)
      | other => other
    | .err x => .err x
    | .panic s => .panic s
    | .frontier o a => .frontier o a
end

/-! ### addressing -/

/-- one step of an access path: exact key in a map, exact position in a list, None for absent / out of
    range / into None, a type error for a step into a scalar or of the wrong kind -/
def resolveStep (v : Value) (i : Index) : Res Value :=
  match i with
  | .key k =>
    match v with
    | .map m => .ok ((lookup m k).getD .none)
    | .none => .ok .none
    | _ => .err .invalidType
  | .pos n =>
    match v with
    | .vec xs => .ok ((xs[n]?).getD .none)
    | .none => .ok .none
    | _ => .err .invalidType

def resolve (v : Value) : List Index → Res Value
  | [] => .ok v
  | i :: rest =>
    match resolveStep v i with
    | .ok v' => resolve v' rest
    | other => other

/-- `base.s₁.s₂…sₙ` -/
def pathExpr (base : Expr) : List Index → Expr
  | [] => base
  | i :: rest => pathExpr (.index base i) rest

end Reval
