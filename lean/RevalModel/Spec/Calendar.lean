/-
  Spec/Calendar.lean — the proleptic Gregorian calendar, as a specification: which day number (days since
  1970-01-01) a date y-m-d has.  `Lemmas/Calendar.lean` proves that it counts days consecutively from the epoch
  (so it IS the calendar) and that the evaluator's `civil` (behind `year` / `month` / `day`) inverts it.
-/
import RevalModel.Prim.DecTime

namespace Reval
namespace Time

/-- days since 1970-01-01 of the proleptic Gregorian date y-m-d (the inverse direction, `days_from_civil`) -/
def daysFromCivil (y m d : Int) : Int :=
  let y' := if m ≤ 2 then y - 1 else y
  let era := y' / 400
  let yoe := y' - era * 400
  let mp := if m > 2 then m - 3 else m + 9
  let doy := (153 * mp + 2) / 5 + d - 1
  let doe := yoe * 365 + yoe / 4 - yoe / 100 + doy
  era * 146097 + doe - 719468

def isLeap (y : Int) : Bool := (y % 4 == 0 && y % 100 != 0) || y % 400 == 0

def lastDay (y m : Int) : Int :=
  if m = 2 then (if isLeap y then 29 else 28)
  else if m = 4 ∨ m = 6 ∨ m = 9 ∨ m = 11 then 30 else 31

/-- a date of the proleptic Gregorian calendar -/
def ValidDate (y m d : Int) : Prop := 1 ≤ m ∧ m ≤ 12 ∧ 1 ≤ d ∧ d ≤ lastDay y m

instance (y m d : Int) : Decidable (ValidDate y m d) := by unfold ValidDate; infer_instance

end Time
end Reval
