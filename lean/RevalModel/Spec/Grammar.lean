/-
  Spec/Grammar.lean — the precedence table of the language as data, and what it means for a token list to be a
  *rendering* of a syntax tree under that table (with the parentheses the table requires, plus any redundant ones).

  Levels, loosest to tightest: 0 if/then/else · 1 and or · 2 == = != > < >= <= · 3 + - · 4 * / % · 5 & | ^ ·
  6 contains/in (non-associative, operands at level 8) · 7 unary - ! · 8 .field/.index · 9 atoms.
-/
import RevalModel.Impl.Parser
import RevalModel.Impl.Display

namespace Reval.G

def lp : Tok := .p ['(']
def rp : Tok := .p [')']
def dot : Tok := .p ['.']
def comma : Tok := .p [',']
def colon : Tok := .p [':']
def kwIf : Tok := .kw ['i', 'f']
def kwThen : Tok := .kw ['t', 'h', 'e', 'n']
def kwElse : Tok := .kw ['e', 'l', 's', 'e']
def kwContains : Tok := .kw ['c', 'o', 'n', 't', 'a', 'i', 'n', 's']
def kwIn : Tok := .kw ['i', 'n']
def minus : Tok := .p ['-']
def bang : Tok := .p ['!']

def binLvl : BinOp → Nat
  | .gt | .gte | .lt | .lte => 2
  | .add | .sub => 3
  | .mult | .div | .rem => 4
  | .bitAnd | .bitOr | .bitXor => 5
  | .contains => 6

/-- the level of the production that derives a node -/
def lvl : Expr → Nat
  | .ite _ _ _ => 0
  | .and _ _ => 1
  | .or _ _ => 1
  | .eq _ _ => 2
  | .neq _ _ => 2
  | .bin op _ _ => binLvl op
  | .un .neg _ => 7
  | .un .not _ => 7
  | .index _ _ => 8
  | _ => 9

/-- the token of a literal leaf (`showF` = the library's text of a float) -/
def litTok (showF : F64 → Str) : Value → Tok
  | .int n => .int ('i' :: Disp.showInt n)
  | .str s => .str ('"' :: Disp.escapeStr s ++ ['"'])
  | .float f => .float ('f' :: showF f)
  | .dec d => .dec ('d' :: Disp.showDec d)
  | .bool true => .kw ['t', 'r', 'u', 'e']
  | .bool false => .kw ['f', 'a', 'l', 's', 'e']
  | _ => .kw ['n', 'o', 'n', 'e']

/-- a literal leaf the parser can produce, whose token converts back to it -/
def LitOK (o : Oracle) (showF : F64 → Str) : Value → Prop
  | .bool _ => True
  | .none => True
  | .int n => Lit.ofTok o (litTok showF (.int n)) = .ok (.int n) []
  | .str s => Lit.ofTok o (litTok showF (.str s)) = .ok (.str s) []
  | .float f => Lit.ofTok o (litTok showF (.float f)) = .ok (.float f) []
  | .dec d => Lit.ofTok o (litTok showF (.dec d)) = .ok (.dec d) []
  | _ => False

/-- the map a map literal with these entries denotes (`BTreeMap` collect: sorted, a later duplicate wins) -/
def collectMap (kvs : List (Str × Expr)) : List (Str × Expr) := kvs.foldl (fun m kv => insertSorted kv.1 kv.2 m) []

/-- literal tokens (everything but keywords, identifiers, punctuation and INDEX) -/
def IsLitTok : Tok → Prop
  | .int _ | .hex _ | .oct _ | .bin _ | .float _ | .dec _ | .str _ => True
  | _ => False

mutual
/-- `Body e T`: `T` renders the node `e` itself (no outer parentheses), its children rendered at the level the table
    requires for their position -/
inductive Body (o : Oracle) : Expr → List Tok → Prop
  | litTok (t : Tok) (v : Value) (x : List Tok) : IsLitTok t → Lit.ofTok o t = .ok v x → Body o (.lit v) [t]
  | litTrue : Body o (.lit (.bool true)) [.kw ['t', 'r', 'u', 'e']]
  | litFalse : Body o (.lit (.bool false)) [.kw ['f', 'a', 'l', 's', 'e']]
  | litNone : Body o (.lit .none) [.kw ['n', 'o', 'n', 'e']]
  | ref (n : Str) : Body o (.ref n) [.ident n]
  | sym (n : Str) : Body o (.sym n) [colon, .ident n]
  | indexKey (e : Expr) (T : List Tok) (k : Str) : R o 8 e T → Body o (.index e (.key k)) (T ++ [dot, .ident k])
  | indexPos (e : Expr) (T : List Tok) (ds : Str) : R o 8 e T → Str.ofDigits ds ≤ u64Max →
      Body o (.index e (.pos (Str.ofDigits ds))) (T ++ [dot, .index ds])
  | call (f : Str) (a : Expr) (T : List Tok) : R o 0 a T → Body o (.call f a) (.ident f :: lp :: (T ++ [rp]))
  | func (k : Str) (op : UnOp) (e : Expr) (T : List Tok) : funcOfKw k = some op → R o 0 e T →
      Body o (.un op e) (.kw k :: lp :: (T ++ [rp]))
  | ite (c t e : Expr) (Tc Tt Te : List Tok) : R o 0 c Tc → R o 0 t Tt → R o 0 e Te →
      Body o (.ite c t e) (kwIf :: (Tc ++ kwThen :: (Tt ++ kwElse :: Te)))
  | bin (k : Nat) (t : Tok) (mk : Expr → Expr → Expr) (l r : Expr) (Tl Tr : List Tok) :
      1 ≤ k → k ≤ 5 → binOpAt k t = some mk → R o k l Tl → R o (k + 1) r Tr →
      Body o (mk l r) (Tl ++ t :: Tr)
  | contains (l r : Expr) (Tl Tr : List Tok) : R o 8 l Tl → R o 8 r Tr →
      Body o (.bin .contains l r) (Tl ++ kwContains :: Tr)
  | isIn (l r : Expr) (Tl Tr : List Tok) : R o 8 l Tl → R o 8 r Tr →
      Body o (.bin .contains l r) (Tr ++ kwIn :: Tl)
  | neg (e : Expr) (T : List Tok) : R o 7 e T → Body o (.un .neg e) (minus :: T)
  | not (e : Expr) (T : List Tok) : R o 7 e T → Body o (.un .not e) (bang :: T)
  | vec (xs : List Expr) (T : List Tok) : RList o xs T → Body o (.vec xs) (.p ['['] :: T)
  | map (kvs : List (Str × Expr)) (T : List Tok) : RMap o kvs T → Body o (.map (collectMap kvs)) (.p ['{'] :: T)
/-- `R k e T`: `T` renders `e` where the table requires level `k`: bare when `e` binds at least that tightly,
    or in parentheses (always allowed, any number of times) -/
inductive R (o : Oracle) : Nat → Expr → List Tok → Prop
  | bare (k : Nat) (e : Expr) (T : List Tok) : k ≤ lvl e → Body o e T → R o k e T
  | paren (k : Nat) (e : Expr) (T : List Tok) : R o 0 e T → R o k e (lp :: (T ++ [rp]))
/-- items of a list literal after `[`, up to and including `]` (optional trailing comma) -/
inductive RList (o : Oracle) : List Expr → List Tok → Prop
  | nil : RList o [] [.p [']']]
  | last (e : Expr) (T : List Tok) : R o 0 e T → RList o [e] (T ++ [.p [']']])
  | cons (e : Expr) (es : List Expr) (T Ts : List Tok) : R o 0 e T → RList o es Ts →
      RList o (e :: es) (T ++ comma :: Ts)
/-- entries of a map literal after `{`, up to and including `}` -/
inductive RMap (o : Oracle) : List (Str × Expr) → List Tok → Prop
  | nil : RMap o [] [.p ['}']]
  | last (k : Str) (e : Expr) (T : List Tok) : R o 0 e T → RMap o [(k, e)] (.ident k :: colon :: (T ++ [.p ['}']]))
  | cons (k : Str) (e : Expr) (es : List (Str × Expr)) (T Ts : List Tok) : R o 0 e T → RMap o es Ts →
      RMap o ((k, e) :: es) (.ident k :: colon :: (T ++ comma :: Ts))
end

end Reval.G
