/-
  Spec/Grammar.lean — the precedence table of the language as data, and what it means for a token list to be a
  *rendering* of a syntax tree under that table (with the parentheses the table requires, plus any redundant ones).

  Levels, loosest to tightest: 0 if/then/else · 1 and or · 2 == = != > < >= <= · 3 + - · 4 * / % · 5 & | ^ ·
  6 contains/in (non-associative, operands at level 8) · 7 unary - ! · 8 .field/.index · 9 atoms.
-/
import RevalModel.Impl.Parser
import RevalModel.Impl.Display

namespace Reval.G

def lp : Tok := .p ['(']
def rp : Tok := .p [')']
def dot : Tok := .p ['.']
def comma : Tok := .p [',']
def colon : Tok := .p [':']
def kwIf : Tok := .kw ['i', 'f']
def kwThen : Tok := .kw ['t', 'h', 'e', 'n']
def kwElse : Tok := .kw ['e', 'l', 's', 'e']
def kwContains : Tok := .kw ['c', 'o', 'n', 't', 'a', 'i', 'n', 's']
def kwIn : Tok := .kw ['i', 'n']
def minus : Tok := .p ['-']
def bang : Tok := .p ['!']

def binLvl : BinOp → Nat
  | .gt | .gte | .lt | .lte => 2
  | .add | .sub => 3
  | .mult | .div | .rem => 4
  | .bitAnd | .bitOr | .bitXor => 5
  | .contains => 6

/-- the level of the production that derives a node -/
def lvl : Expr → Nat
  | .ite _ _ _ => 0
  | .and _ _ => 1
  | .or _ _ => 1
  | .eq _ _ => 2
  | .neq _ _ => 2
  | .bin op _ _ => binLvl op
  | .un .neg _ => 7
  | .un .not _ => 7
  | .index _ _ => 8
  | _ => 9

/-- the token of a literal leaf (`showF` = the library's text of a float) -/
def litTok (showF : F64 → Str) : Value → Tok
  | .int n => .int ('i' :: Disp.showInt n)
  | .str s => .str ('"' :: Disp.escapeStr s ++ ['"'])
  | .float f => .float ('f' :: showF f)
  | .dec d => .dec ('d' :: Disp.showDec d)
  | .bool true => .kw ['t', 'r', 'u', 'e']
  | .bool false => .kw ['f', 'a', 'l', 's', 'e']
  | _ => .kw ['n', 'o', 'n', 'e']

/-- a literal leaf the parser can produce, whose token converts back to it -/
def LitOK (o : Oracle) (showF : F64 → Str) : Value → Prop
  | .bool _ => True
  | .none => True
  | .int n => Lit.ofTok o (litTok showF (.int n)) = .ok (.int n) []
  | .str s => Lit.ofTok o (litTok showF (.str s)) = .ok (.str s) []
  | .float f => Lit.ofTok o (litTok showF (.float f)) = .ok (.float f) []
  | .dec d => Lit.ofTok o (litTok showF (.dec d)) = .ok (.dec d) []
  | _ => False

/-- the map a map literal with these entries denotes (`BTreeMap` collect: sorted, a later duplicate wins) -/
def collectMap (kvs : List (Str × Expr)) : List (Str × Expr) := kvs.foldl (fun m kv => insertSorted kv.1 kv.2 m) []

mutual
/-- `Body e T`: `T` renders the node `e` itself (no outer parentheses), its children rendered at the level the table
    requires for their position -/
inductive Body (o : Oracle) (showF : F64 → Str) : Expr → List Tok → Prop
  | lit (v : Value) : LitOK o showF v → Body o showF (.lit v) [litTok showF v]
  | ref (n : Str) : Body o showF (.ref n) [.ident n]
  | sym (n : Str) : Body o showF (.sym n) [colon, .ident n]
  | indexKey (e : Expr) (T : List Tok) (k : Str) : R o showF 8 e T → Body o showF (.index e (.key k)) (T ++ [dot, .ident k])
  | indexPos (e : Expr) (T : List Tok) (n : Nat) : R o showF 8 e T → n ≤ u64Max →
      Body o showF (.index e (.pos n)) (T ++ [dot, .index (Disp.showNat n)])
  | call (f : Str) (a : Expr) (T : List Tok) : R o showF 0 a T → Body o showF (.call f a) (.ident f :: lp :: (T ++ [rp]))
  | func (k : Str) (op : UnOp) (e : Expr) (T : List Tok) : funcOfKw k = some op → R o showF 0 e T →
      Body o showF (.un op e) (.kw k :: lp :: (T ++ [rp]))
  | ite (c t e : Expr) (Tc Tt Te : List Tok) : R o showF 0 c Tc → R o showF 0 t Tt → R o showF 0 e Te →
      Body o showF (.ite c t e) (kwIf :: (Tc ++ kwThen :: (Tt ++ kwElse :: Te)))
  | bin (k : Nat) (t : Tok) (mk : Expr → Expr → Expr) (l r : Expr) (Tl Tr : List Tok) :
      1 ≤ k → k ≤ 5 → binOpAt k t = some mk → R o showF k l Tl → R o showF (k + 1) r Tr →
      Body o showF (mk l r) (Tl ++ t :: Tr)
  | contains (l r : Expr) (Tl Tr : List Tok) : R o showF 8 l Tl → R o showF 8 r Tr →
      Body o showF (.bin .contains l r) (Tl ++ kwContains :: Tr)
  | isIn (l r : Expr) (Tl Tr : List Tok) : R o showF 8 l Tl → R o showF 8 r Tr →
      Body o showF (.bin .contains l r) (Tr ++ kwIn :: Tl)
  | neg (e : Expr) (T : List Tok) : R o showF 7 e T → Body o showF (.un .neg e) (minus :: T)
  | not (e : Expr) (T : List Tok) : R o showF 7 e T → Body o showF (.un .not e) (bang :: T)
  | vec (xs : List Expr) (T : List Tok) : RList o showF xs T → Body o showF (.vec xs) (.p ['['] :: T)
  | map (kvs : List (Str × Expr)) (T : List Tok) : RMap o showF kvs T → Body o showF (.map (collectMap kvs)) (.p ['{'] :: T)
/-- `R k e T`: `T` renders `e` where the table requires level `k`: bare when `e` binds at least that tightly,
    or in parentheses (always allowed, any number of times) -/
inductive R (o : Oracle) (showF : F64 → Str) : Nat → Expr → List Tok → Prop
  | bare (k : Nat) (e : Expr) (T : List Tok) : k ≤ lvl e → Body o showF e T → R o showF k e T
  | paren (k : Nat) (e : Expr) (T : List Tok) : R o showF 0 e T → R o showF k e (lp :: (T ++ [rp]))
/-- items of a list literal after `[`, up to and including `]` (optional trailing comma) -/
inductive RList (o : Oracle) (showF : F64 → Str) : List Expr → List Tok → Prop
  | nil : RList o showF [] [.p [']']]
  | last (e : Expr) (T : List Tok) : R o showF 0 e T → RList o showF [e] (T ++ [.p [']']])
  | cons (e : Expr) (es : List Expr) (T Ts : List Tok) : R o showF 0 e T → RList o showF es Ts →
      RList o showF (e :: es) (T ++ comma :: Ts)
/-- entries of a map literal after `{`, up to and including `}` -/
inductive RMap (o : Oracle) (showF : F64 → Str) : List (Str × Expr) → List Tok → Prop
  | nil : RMap o showF [] [.p ['}']]
  | last (k : Str) (e : Expr) (T : List Tok) : R o showF 0 e T → RMap o showF [(k, e)] (.ident k :: colon :: (T ++ [.p ['}']]))
  | cons (k : Str) (e : Expr) (es : List (Str × Expr)) (T Ts : List Tok) : R o showF 0 e T → RMap o showF es Ts →
      RMap o showF ((k, e) :: es) (.ident k :: colon :: (T ++ comma :: Ts))
end

end Reval.G
