/-
  Spec/Range.lean — "lies in the range of its type": the values a Rust `Value` can hold.

  The model computes over unbounded `Int` / `Nat`; a Rust `Value` holds an `i128`, a `rust_decimal`
  (96-bit mantissa, scale ≤ 28), a chrono `DateTime<Utc>` / `TimeDelta` within chrono's bounds.
  `Value.inRange` says that a model value is one of those — at every depth of a list / map.
  `Lemmas/InRange.lean` proves that evaluation never yields a value outside it.
-/
import RevalModel.Impl.Eval

namespace Reval

mutual
def Value.inRange : Value → Bool
  | .int i => I128.inRange i
  | .dec d => Dec.wf d
  | .dateTime t => Time.dtInRange t
  | .duration d => Time.durInRange d
  | .vec xs => Value.inRangeList xs
  | .map kvs => Value.inRangeFields kvs
  | .str _ => true
  | .float _ => true
  | .bool _ => true
  | .none => true
def Value.inRangeList : List Value → Bool
  | [] => true
  | v :: vs => Value.inRange v && Value.inRangeList vs
def Value.inRangeFields : List (Str × Value) → Bool
  | [] => true
  | (_, v) :: kvs => Value.inRange v && Value.inRangeFields kvs
end

mutual
/-- every literal of the expression is in range (true of every tree the parser or the public constructors
    can build, since the literals are Rust `Value`s) -/
def Expr.litsInRange : Expr → Bool
  | .lit v => v.inRange
  | .ref _ => true
  | .sym _ => true
  | .index e _ => e.litsInRange
  | .call _ a => a.litsInRange
  | .ite c t e => c.litsInRange && t.litsInRange && e.litsInRange
  | .and l r => l.litsInRange && r.litsInRange
  | .or l r => l.litsInRange && r.litsInRange
  | .eq l r => l.litsInRange && r.litsInRange
  | .neq l r => l.litsInRange && r.litsInRange
  | .un _ e => e.litsInRange
  | .bin _ l r => l.litsInRange && r.litsInRange
  | .vec xs => Expr.litsInRangeList xs
  | .map kvs => Expr.litsInRangeFields kvs
def Expr.litsInRangeList : List Expr → Bool
  | [] => true
  | e :: es => e.litsInRange && Expr.litsInRangeList es
def Expr.litsInRangeFields : List (Str × Expr) → Bool
  | [] => true
  | (_, e) :: es => e.litsInRange && Expr.litsInRangeFields es
end

/-- every answer of the library oracle is a Rust `Value` -/
def Oracle.InRange (o : Oracle) : Prop := ∀ op args v, o op args = some (some v) → v.inRange = true

/-- what the environment hands to the evaluator is in range: the input, the symbols, whatever a user
    function returns, whatever the library oracle answers (all of them are Rust `Value`s) -/
structure Env.InRange (env : Env) : Prop where
  facts : env.facts.inRange = true
  symbols : ∀ k v, lookup env.symbols k = some v → v.inRange = true
  fns : ∀ f fm, lookup env.fns f = some fm → ∀ n a v, fm.behave n a = .ok v → v.inRange = true
  oracle : env.oracle.InRange

def St.InRange (st : St) : Prop := ∀ k v, cacheGet st.cache k = some v → v.inRange = true

end Reval
