/-
  Spec/Depth.lean — nesting depth of a syntax tree: the number of nested calls every structurally recursive
  operation on the tree (render, clone, compare, drop, evaluate) makes on it.
-/
import RevalModel.Impl.Eval

namespace Reval

mutual
def depth : Expr → Nat
  | .lit _ => 0
  | .ref _ => 0
  | .sym _ => 0
  | .index e _ => depth e + 1
  | .call _ a => depth a + 1
  | .ite c t e => max (depth c) (max (depth t) (depth e)) + 1
  | .and l r => max (depth l) (depth r) + 1
  | .or l r => max (depth l) (depth r) + 1
  | .eq l r => max (depth l) (depth r) + 1
  | .neq l r => max (depth l) (depth r) + 1
  | .un _ e => depth e + 1
  | .bin _ l r => max (depth l) (depth r) + 1
  | .vec xs => depthList xs + 1
  | .map kvs => depthMap kvs + 1
def depthList : List Expr → Nat
  | [] => 0
  | e :: es => max (depth e) (depthList es)
def depthMap : List (Str × Expr) → Nat
  | [] => 0
  | (_, e) :: es => max (depth e) (depthMap es)
end

/-- the recursive constructs of the property, as trees of depth `n` -/
def negChain : Nat → Expr
  | 0 => .ref ['a']
  | n + 1 => .un .neg (negChain n)
def addChain : Nat → Expr
  | 0 => .ref ['a']
  | n + 1 => .bin .add (addChain n) (.ref ['a'])
def callChain : Nat → Expr
  | 0 => .ref ['a']
  | n + 1 => .call ['f'] (callChain n)
def listChain : Nat → Expr
  | 0 => .lit (.int 1)
  | n + 1 => .vec [listChain n]
def mapChain : Nat → Expr
  | 0 => .lit (.int 1)
  | n + 1 => .map [(['a'], mapChain n)]
def elseChain : Nat → Expr
  | 0 => .ref ['c']
  | n + 1 => .ite (.ref ['a']) (.ref ['b']) (elseChain n)
def indexChain : Nat → Expr
  | 0 => .ref ['a']
  | n + 1 => .index (indexChain n) (.key ['b'])

end Reval
