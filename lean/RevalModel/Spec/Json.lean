/-
  Spec/Json.lean — the JSON side of C13's last clause.
  * `Json`      : `serde_json::Value` (objects as key-sorted association lists, a later equal key wins — `Map` without
                  `preserve_order`; `unrep` = "no JSON value": the library returns an error / the harness's conversion
                  returns `None`),
  * `jsonOf`    : `serde_json::to_value` on the serde data model (`SerVal`),
  * `toJson`    : the harness's `value_to_json`: the JSON reading of a reval `Value`,
  * `JsonRep`   : JSON-representable data: every float finite, every integer within 64 bits (i64 or u64).
  Both functions are compared with the real `serde_json` on every case of the C13 stream (`json` driver command).
-/
import RevalModel.Impl.Ser

namespace Reval

inductive Json where
  | null
  | bool (b : Bool)
  | int (n : Int)
  | float (f : F64)
  | str (s : Str)
  | arr (xs : List Json)
  | obj (kvs : List (Str × Json))
  | unrep
deriving Repr, Inhabited

def in64 (n : Int) : Bool := IntKind.i64.inRange n || IntKind.u64.inRange n
def F64.isFinite (f : F64) : Bool := !(f.isNaN || f.isInf)

namespace JsonSpec

mutual
/-- `value_to_json` (harness): how a reval `Value` reads as JSON -/
def toJson : Value → Json
  | .str s => .str s
  | .int i => if in64 i then .int i else .unrep
  | .float f => if f.isFinite then .float f else .unrep
  | .bool b => .bool b
  | .vec xs => .arr (toJsonList xs)
  | .map kvs => .obj (toJsonFields kvs)
  | .none => .null
  | .dec _ => .unrep
  | .dateTime _ => .unrep
  | .duration _ => .unrep
def toJsonList : List Value → List Json
  | [] => []
  | v :: vs => toJson v :: toJsonList vs
def toJsonFields : List (Str × Value) → List (Str × Json)
  | [] => []
  | (k, v) :: kvs => (k, toJson v) :: toJsonFields kvs
end

mutual
/-- `serde_json::to_value(&T)` on the data model -/
def jsonOf : SerVal → Json
  | .bool b => .bool b
  | .int _ n => if in64 n then .int n else .unrep               -- "number out of range"
  | .f32 b => if (F64.ofF32Bits b).isFinite then .float (F64.ofF32Bits b) else .null
  | .f64 f => if f.isFinite then .float f else .null
  | .char c => .str [c]
  | .str s => .str s
  | .bytes bs => .arr (bs.map (fun (b : Nat) => if in64 (Int.ofNat b) then Json.int (Int.ofNat b) else .unrep))   -- bytes are < 256
  | .none => .null
  | .some v => jsonOf v
  | .unit => .null
  | .unitStruct _ => .null
  | .unitVariant _ variant => .str variant
  | .newtypeStruct _ v => jsonOf v
  | .newtypeVariant _ variant v => .obj [(variant, jsonOf v)]
  | .seq xs => .arr (jsonOfList xs)
  | .tuple xs => .arr (jsonOfList xs)
  | .tupleStruct _ xs => .arr (jsonOfList xs)
  | .tupleVariant _ variant xs => .obj [(variant, .arr (jsonOfList xs))]
  | .map kvs => jsonOfEntries kvs []
  | .struct _ fields => .obj (jsonOfFields fields [])
  | .structVariant _ variant fields => .obj [(variant, .obj (jsonOfFields fields []))]
  | .fail _ => .unrep
def jsonOfList : List SerVal → List Json
  | [] => []
  | x :: xs => jsonOf x :: jsonOfList xs
/-- string keys only (serde_json also accepts numbers / booleans / chars as keys, by writing them as strings;
    `ValueSerializer` rejects those, so the clause never compares them) -/
def jsonOfEntries : List (SerVal × SerVal) → List (Str × Json) → Json
  | [], acc => .obj acc
  | (.str k, v) :: rest, acc => jsonOfEntries rest (insertSorted k (jsonOf v) acc)
  | _ :: _, _ => .unrep
def jsonOfFields : List (Str × SerVal) → List (Str × Json) → List (Str × Json)
  | [], acc => acc
  | (k, v) :: rest, acc => jsonOfFields rest (insertSorted k (jsonOf v) acc)
end

mutual
/-- JSON-representable input: finite floats, integers within 64 bits, at every depth (keys included) -/
def JsonRep : SerVal → Bool
  | .int _ n => in64 n
  | .f32 b => (F64.ofF32Bits b).isFinite
  | .f64 f => f.isFinite
  | .some v => JsonRep v
  | .newtypeStruct _ v => JsonRep v
  | .newtypeVariant _ _ v => JsonRep v
  | .seq xs => JsonRepList xs
  | .tuple xs => JsonRepList xs
  | .tupleStruct _ xs => JsonRepList xs
  | .tupleVariant _ _ xs => JsonRepList xs
  | .map kvs => JsonRepEntries kvs
  | .struct _ fields => JsonRepFields fields
  | .structVariant _ _ fields => JsonRepFields fields
  | _ => true
def JsonRepList : List SerVal → Bool
  | [] => true
  | x :: xs => JsonRep x && JsonRepList xs
def JsonRepEntries : List (SerVal × SerVal) → Bool
  | [] => true
  | (k, v) :: rest => JsonRep k && JsonRep v && JsonRepEntries rest
def JsonRepFields : List (Str × SerVal) → Bool
  | [] => true
  | (_, v) :: rest => JsonRep v && JsonRepFields rest
end

end JsonSpec
end Reval
