/-
  Prim/DecTime.lean — `rust_decimal::Decimal`, `chrono::DateTime<Utc>` / `TimeDelta`, and the string
  primitives, as far as the evaluator uses them.

  Decimal `+ − ×` follow one rule (validated against rust_decimal 1.43 in the pre-study): the exact
  rational result, rounded half-even at the largest scale not above the natural one at which the
  mantissa fits 96 bits; no such scale = overflow.  Results that are (or round to) zero, `÷`, `%` and
  conversions with floats are *not* predicted (`none` here = "ask the library").
-/
import RevalModel.Prim.Num

namespace Reval

/-! ### Decimal -/

namespace Dec

def maxMant : Nat := 2 ^ 96 - 1
def maxScale : Nat := 28

def wf (d : Dec) : Bool := decide (d.mant ≤ maxMant) && decide (d.scale ≤ maxScale)

/-- numerator of the value over the denominator `10^scale` -/
def num (d : Dec) : Int := if d.neg then -(d.mant : Int) else (d.mant : Int)

/-- round-half-even of `n / d` for naturals -/
def rhe (n d : Nat) : Nat :=
  let q := n / d
  let r := n % d
  if 2 * r > d then q + 1 else if 2 * r = d then (if q % 2 = 1 then q + 1 else q) else q

/-- largest scale `s' ≤ start` such that `rhe (n / 10^(s - s'))` fits 96 bits; `n / 10^s` is the value -/
def fit (n : Nat) (s : Nat) : (start : Nat) → Option (Nat × Nat)
  | 0 =>
    let m := rhe n (10 ^ s)
    if m ≤ maxMant then some (m, 0) else none
  | start + 1 =>
    let m := rhe n (10 ^ (s - (start + 1)))
    if m ≤ maxMant then some (m, start + 1) else fit n s start

inductive Out where
  | val (d : Dec)
  | overflow
  | unknown     -- the model declines (zero-valued result: sign/scale are the library's)
deriving Repr, DecidableEq

def addSigned (a : Dec) (bneg : Bool) (b : Dec) : Out :=
  if a.mant = 0 ∧ b.mant = 0 then .unknown
  else if b.mant = 0 then .val a
  else if a.mant = 0 then .val ⟨bneg, b.mant, b.scale⟩
  else
    let s := if a.scale ≥ b.scale then a.scale else b.scale
    let A : Int := a.num * 10 ^ (s - a.scale)
    let B : Int := (if bneg then -(b.mant : Int) else (b.mant : Int)) * 10 ^ (s - b.scale)
    let sum := A + B
    match fit sum.natAbs s s with
    | none => .overflow
    | some (m, sc) => if m = 0 then .unknown else .val ⟨decide (sum < 0), m, sc⟩

def add (a b : Dec) : Out := addSigned a b.neg b
def sub (a b : Dec) : Out := addSigned a (!b.neg) b

def mul (a b : Dec) : Out :=
  if a.mant = 0 || b.mant = 0 then .val ⟨false, 0, 0⟩
  else
    let sp := a.scale + b.scale
    let start := if sp ≤ 28 then sp else 28
    match fit (a.mant * b.mant) sp start with
    | none => .overflow
    | some (m, sc) => if m = 0 then .unknown else .val ⟨a.neg != b.neg, m, sc⟩

/-- `-d` (flips the sign flag, also of zero) -/
def negate (d : Dec) : Dec := ⟨!d.neg, d.mant, d.scale⟩

/-- numeric comparison by cross-multiplication -/
def cmpNum (a b : Dec) : Int × Int :=
  let s := if a.scale ≥ b.scale then a.scale else b.scale
  (a.num * 10 ^ (s - a.scale), b.num * 10 ^ (s - b.scale))
def lt (a b : Dec) : Bool := let (x, y) := cmpNum a b; decide (x < y)
def le (a b : Dec) : Bool := let (x, y) := cmpNum a b; decide (x ≤ y)
/-- `PartialEq for Decimal`: numeric (`1.0 == 1.00`, `0 == -0`) -/
def eqNum (a b : Dec) : Bool := let (x, y) := cmpNum a b; decide (x = y)

/-- `Decimal::to_i128`: truncation toward zero -/
def toInt (d : Dec) : Int := Int.tdiv d.num (10 ^ d.scale)

/-- `Decimal::try_from_i128_with_scale(n, 0)` -/
def ofInt (n : Int) : Option Dec :=
  if n.natAbs ≤ maxMant then some ⟨decide (n < 0), n.natAbs, 0⟩ else none

def floor (d : Dec) : Out :=
  let tr := d.toInt
  let fl := if d.neg && decide (tr * 10 ^ d.scale ≠ d.num) then tr - 1 else tr
  if fl = 0 then .unknown else .val ⟨decide (fl < 0), fl.natAbs, 0⟩

def round (d : Dec) : Out :=
  let r := rhe d.mant (10 ^ d.scale)
  if r = 0 then .unknown else .val ⟨d.neg, r, 0⟩

def fract (d : Dec) : Out :=
  let fr := d.mant % 10 ^ d.scale
  if fr = 0 then .unknown else .val ⟨d.neg, fr, d.scale⟩

end Dec

/-! ### chrono -/

namespace Time

def nsPerSec : Int := 1000000000
/-- first / last representable `DateTime<Utc>`, in nanoseconds since the epoch
    (−262143-01-01T00:00:00Z … +262142-12-31T23:59:59.999999999Z) -/
def dtMin : Int := -8334601228800 * nsPerSec
def dtMax : Int := 8210266876799 * nsPerSec + 999999999
/-- `TimeDelta::MAX` = `i64::MAX` milliseconds, in nanoseconds; `MIN = -MAX` -/
def durMax : Int := (2 ^ 63 - 1) * 1000000

def dtInRange (ns : Int) : Bool := decide (dtMin ≤ ns) && decide (ns ≤ dtMax)
def durInRange (ns : Int) : Bool := decide (-durMax ≤ ns) && decide (ns ≤ durMax)

/-- `DateTime::from_timestamp(secs, 0)` -/
def fromTimestamp (secs : Int) : Option Int :=
  if dtInRange (secs * nsPerSec) then some (secs * nsPerSec) else none

/-- `TimeDelta::try_seconds` -/
def trySeconds (secs : Int) : Option Int :=
  if durInRange (secs * nsPerSec) then some (secs * nsPerSec) else none

/-- `TimeDelta::try_weeks/days/hours/minutes`: `checked_mul` in i64, then `try_seconds` -/
def tryUnits (unit : Int) (n : Int) : Option Int :=
  if I64.inRange (n * unit) then trySeconds (n * unit) else none

/-- `TimeDelta::num_seconds` (toward zero) -/
def numSeconds (ns : Int) : Int := Int.tdiv ns nsPerSec
def numUnits (unit : Int) (ns : Int) : Int := Int.tdiv (numSeconds ns) unit

/-- whole seconds since the epoch (floor) -/
def secsOf (ns : Int) : Int := ns / nsPerSec    -- Int `/` is floor division for a positive divisor

/-- civil date from days since 1970-01-01 (proleptic Gregorian) -/
def civil (days : Int) : Int × Int × Int :=
  let z := days + 719468
  let era := z / 146097
  let doe := z - era * 146097
  let yoe := (doe - doe / 1460 + doe / 36524 - doe / 146096) / 365
  let y := yoe + era * 400
  let doy := doe - (365 * yoe + yoe / 4 - yoe / 100)
  let mp := (5 * doy + 2) / 153
  let d := doy - (153 * mp + 2) / 5 + 1
  let m := if mp < 10 then mp + 3 else mp - 9
  (if m ≤ 2 then y + 1 else y, m, d)

def year (ns : Int) : Int := (civil (secsOf ns / 86400)).1
def month (ns : Int) : Int := (civil (secsOf ns / 86400)).2.1
def day (ns : Int) : Int := (civil (secsOf ns / 86400)).2.2
def hour (ns : Int) : Int := (secsOf ns % 86400) / 3600
def minute (ns : Int) : Int := (secsOf ns % 3600) / 60
def second (ns : Int) : Int := secsOf ns % 60

end Time

/-! ### Strings -/

namespace Str

/-- Unicode `White_Space` (what `str::trim` and the lexer's `\s` use) -/
def isWhite (c : Char) : Bool :=
  let n := c.toNat
  (9 ≤ n && n ≤ 13) || n == 0x20 || n == 0x85 || n == 0xA0 || n == 0x1680 ||
  (0x2000 ≤ n && n ≤ 0x200A) || n == 0x2028 || n == 0x2029 || n == 0x202F || n == 0x205F || n == 0x3000

def trimStart (s : Str) : Str := s.dropWhile isWhite
def trimEnd (s : Str) : Str := (s.reverse.dropWhile isWhite).reverse
def trim (s : Str) : Str := trimEnd (trimStart s)

def isAscii (s : Str) : Bool := s.all (fun c => c.toNat < 128)
def asciiUpper (c : Char) : Char := if 'a' ≤ c ∧ c ≤ 'z' then Char.ofNat (c.toNat - 32) else c
def asciiLower (c : Char) : Char := if 'A' ≤ c ∧ c ≤ 'Z' then Char.ofNat (c.toNat + 32) else c

def isPrefix : Str → Str → Bool
  | [], _ => true
  | _ :: _, [] => false
  | a :: as, b :: bs => a == b && isPrefix as bs

/-- `str::contains(&str)` -/
def isInfix (needle : Str) : Str → Bool
  | [] => needle.isEmpty
  | c :: cs => isPrefix needle (c :: cs) || isInfix needle cs

def isDigit (c : Char) : Bool := '0' ≤ c && c ≤ '9'
def digitVal (c : Char) : Nat := c.toNat - '0'.toNat

/-- most-significant-first digits → number -/
def ofDigits (ds : Str) : Nat := ds.foldl (fun a c => a * 10 + digitVal c) 0

/-- `i128::from_str`: optional sign, at least one ASCII digit, value within i128 -/
def parseI128 (s : Str) : Option Int :=
  let (neg, ds) := match s with
    | '-' :: r => (true, r)
    | '+' :: r => (false, r)
    | r => (false, r)
  if ds.isEmpty || !ds.all isDigit then none
  else
    let n : Int := if neg then -(ofDigits ds : Int) else (ofDigits ds : Int)
    I128.checked n

end Str

end Reval
