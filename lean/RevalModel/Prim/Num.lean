/-
  Prim/Num.lean — integer ranges (i128 / i64 / u64 …), two's-complement bitwise operators,
  and the IEEE-754 binary64 operations the evaluator uses.

  Float arithmetic (+ − × ÷ floor ceil round, comparisons) is Lean's `Float` on the bit pattern
  (hardware IEEE-754 doubles, the same operations Rust's `f64` uses; opaque to the kernel — no theorem
  unfolds it).  What Lean has no primitive for is computed *exactly* on the bit pattern with `Nat`
  arithmetic: `fmod`, `i128 → f64` (round to nearest even), `f64 → i128` (truncation), and
  decimal text → nearest double.
-/
import RevalModel.Prim.Basic

namespace Reval

/-! ### Integer ranges -/

namespace I128
def min : Int := -(2 ^ 127)
def max : Int := 2 ^ 127 - 1
def inRange (n : Int) : Bool := decide (min ≤ n) && decide (n ≤ max)
/-- the result of a `checked_*` operation whose mathematical result is `n` -/
def checked (n : Int) : Option Int := if inRange n then some n else none

/-- two's-complement encoding into 128 bits -/
def toU (n : Int) : Nat := (n % (2 ^ 128)).toNat
def ofU (u : Nat) : Int := if u < 2 ^ 127 then (u : Int) else (u : Int) - 2 ^ 128
def land (a b : Int) : Int := ofU (Nat.land (toU a) (toU b))
def lor (a b : Int) : Int := ofU (Nat.lor (toU a) (toU b))
def xor (a b : Int) : Int := ofU (Nat.xor (toU a) (toU b))

/-- `i128::checked_div`: `None` for a zero divisor and for `MIN / -1` -/
def checkedDiv (a b : Int) : Option Int :=
  if b = 0 then none else if a = min ∧ b = -1 then none else some (Int.tdiv a b)
/-- `i128::checked_rem` -/
def checkedRem (a b : Int) : Option Int :=
  if b = 0 then none else if a = min ∧ b = -1 then none else some (Int.tmod a b)
end I128

/-- `T::try_from(i128)` for the integer types of `value/convert.rs` and `ser.rs` -/
structure IntKind where
  signed : Bool
  bits : Nat
deriving DecidableEq, Repr, Inhabited

namespace IntKind
def lo (k : IntKind) : Int := if k.signed then -(2 ^ (k.bits - 1)) else 0
def hi (k : IntKind) : Int := if k.signed then 2 ^ (k.bits - 1) - 1 else 2 ^ k.bits - 1
def inRange (k : IntKind) (n : Int) : Bool := decide (k.lo ≤ n) && decide (n ≤ k.hi)
def i8 : IntKind := ⟨true, 8⟩
def i16 : IntKind := ⟨true, 16⟩
def i32 : IntKind := ⟨true, 32⟩
def i64 : IntKind := ⟨true, 64⟩
def i128 : IntKind := ⟨true, 128⟩
def u8 : IntKind := ⟨false, 8⟩
def u16 : IntKind := ⟨false, 16⟩
def u32 : IntKind := ⟨false, 32⟩
def u64 : IntKind := ⟨false, 64⟩
def u128 : IntKind := ⟨false, 128⟩
end IntKind

def I64.inRange (n : Int) : Bool := IntKind.i64.inRange n

/-! ### binary64 -/

namespace F64

def nan : F64 := ⟨0x7ff8000000000000⟩
def posInf : F64 := ⟨0x7ff0000000000000⟩
def negInf : F64 := ⟨0xfff0000000000000⟩
def zero : F64 := ⟨0⟩
def negZero : F64 := ⟨0x8000000000000000⟩

def toFloat (x : F64) : Float := Float.ofBits x.bits
def ofFloat (f : Float) : F64 := if f.isNaN then nan else ⟨f.toBits⟩

def isNaN (x : F64) : Bool :=
  let b := x.bits.toNat
  (b / 2 ^ 52) % 2 ^ 11 == 2047 && b % 2 ^ 52 != 0
def isInf (x : F64) : Bool :=
  let b := x.bits.toNat
  (b / 2 ^ 52) % 2 ^ 11 == 2047 && b % 2 ^ 52 == 0
def signBit (x : F64) : Bool := x.bits.toNat / 2 ^ 63 == 1
def isZero (x : F64) : Bool := x.bits.toNat % 2 ^ 63 == 0

/-- canonical form: every NaN is `nan` -/
def canon (x : F64) : F64 := if x.isNaN then nan else x

def add (a b : F64) : F64 := ofFloat (a.toFloat + b.toFloat)
def sub (a b : F64) : F64 := ofFloat (a.toFloat - b.toFloat)
def mul (a b : F64) : F64 := ofFloat (a.toFloat * b.toFloat)
def div (a b : F64) : F64 := ofFloat (a.toFloat / b.toFloat)
def neg (a : F64) : F64 := if a.isNaN then nan else ⟨a.bits ^^^ 0x8000000000000000⟩
def floor (a : F64) : F64 := ofFloat a.toFloat.floor
/-- Rust `f64::round`: half away from zero (C `round`) -/
def round (a : F64) : F64 := ofFloat a.toFloat.round
def trunc (a : F64) : F64 := if a.signBit then ofFloat a.toFloat.ceil else ofFloat a.toFloat.floor
/-- Rust `f64::fract` = `self - self.trunc()` -/
def fract (a : F64) : F64 := sub a (trunc a)

def lt (a b : F64) : Bool := a.toFloat < b.toFloat
def le (a b : F64) : Bool := a.toFloat ≤ b.toFloat
def gt (a b : F64) : Bool := b.toFloat < a.toFloat
def ge (a b : F64) : Bool := b.toFloat ≤ a.toFloat
/-- IEEE equality: NaN ≠ NaN, 0.0 = −0.0 -/
def feq (a b : F64) : Bool := a.toFloat == b.toFloat

/-- a finite double as `(-1)^neg · m · 2^e` -/
structure Parts where
  neg : Bool
  m : Nat
  e : Int
deriving Repr

def parts (x : F64) : Option Parts :=
  let b : Nat := x.bits.toNat
  let ef : Nat := (b / 2 ^ 52) % 2 ^ 11
  let fr : Nat := b % 2 ^ 52
  if ef = 2047 then none
  else if ef = 0 then some ⟨x.signBit, fr, -1074⟩
  else some ⟨x.signBit, fr + 2 ^ 52, (ef : Int) - 1075⟩

/-- The double nearest (ties to even) to `(-1)^neg · (m + ε) · 2^e`, where `ε ∈ (0,1)` is present iff
    `sticky`.  Precondition for `sticky = true`: `m ≥ 2^54` or `e ≤ -1076` (so that ε is below half an ulp
    of the result); without sticky the conversion is exact rounding of `m · 2^e`. -/
def ofScaled (neg : Bool) (m : Nat) (e : Int) (sticky : Bool) : F64 :=
  let sign : Nat := if neg then 2 ^ 63 else 0
  if m = 0 then ⟨UInt64.ofNat sign⟩
  else
    let bl : Int := (Nat.log2 m : Int) + 1
    let e' : Int := if e + bl - 53 < -1074 then -1074 else e + bl - 53
    if e' ≤ e then
      -- exact: q = m · 2^(e - e') < 2^53
      let q := m * 2 ^ (e - e').toNat
      let ef : Int := if q < 2 ^ 52 then 0 else e' + 1075
      if ef ≥ 2047 then ⟨UInt64.ofNat (sign + 2047 * 2 ^ 52)⟩
      else if q < 2 ^ 52 then ⟨UInt64.ofNat (sign + q)⟩
      else ⟨UInt64.ofNat (sign + ef.toNat * 2 ^ 52 + (q - 2 ^ 52))⟩
    else
      let d := (e' - e).toNat
      let q0 := m / 2 ^ d
      let r := m % 2 ^ d
      let half := 2 ^ (d - 1)
      let up : Bool := decide (r > half) || (r == half && (sticky || q0 % 2 == 1))
      let q := if up then q0 + 1 else q0
      if q < 2 ^ 52 then ⟨UInt64.ofNat (sign + q)⟩
      else
        let ef : Int := e' + 1075
        let bitsN := ef.toNat * 2 ^ 52 + (q - 2 ^ 52)
        if bitsN ≥ 2047 * 2 ^ 52 then ⟨UInt64.ofNat (sign + 2047 * 2 ^ 52)⟩
        else ⟨UInt64.ofNat (sign + bitsN)⟩

/-- `i128 as f64` (round to nearest, ties to even) -/
def ofInt (n : Int) : F64 := ofScaled (decide (n < 0)) n.natAbs 0 false

/-- the integer part (truncation toward zero) of a finite double, exactly -/
def truncToInt (x : F64) : Option Int :=
  match x.parts with
  | none => none
  | some p =>
    let a : Nat := if p.e ≥ 0 then p.m * 2 ^ p.e.toNat else p.m / 2 ^ (-p.e).toNat
    some (if p.neg then -(a : Int) else (a : Int))

/-- Rust `%` on `f64` (C `fmod`), exact. -/
def rem (x y : F64) : F64 :=
  if x.isNaN || y.isNaN || x.isInf || y.isZero then nan
  else if y.isInf then x
  else
    match x.parts, y.parts with
    | some px, some py =>
      if px.m = 0 then x
      else
        let e := if px.e ≤ py.e then px.e else py.e
        let X := px.m * 2 ^ (px.e - e).toNat
        let Y := py.m * 2 ^ (py.e - e).toNat
        ofScaled px.neg (X % Y) e false
    | _, _ => nan

/-- the double nearest to `(-1)^neg · digits · 10^exp10` (what `f64::from_str` returns for a decimal
    numeral; Rust's conversion is correctly rounded). -/
def ofDecimal (neg : Bool) (digits : Nat) (exp10 : Int) : F64 :=
  if digits = 0 then (if neg then negZero else zero)
  else
    let nd : Int := (Nat.log2 digits : Int) / 3 + 1      -- ≥ number of decimal digits / ~1.1
    if exp10 > 400 then (if neg then negInf else posInf)
    else if exp10 + nd < -400 then (if neg then negZero else zero)
    else if exp10 ≥ 0 then ofScaled neg (digits * 10 ^ exp10.toNat) 0 false
    else
      let D := 10 ^ (-exp10).toNat
      let k : Nat := if 66 + Nat.log2 D + 1 > 1080 then 66 + Nat.log2 D + 1 else 1080
      let num := digits * 2 ^ k
      ofScaled neg (num / D) (-(k : Int)) (num % D != 0)

end F64

end Reval
