/-
  Prim/Basic.lean — the value domain of the model.

  `Value` mirrors `reval::Value` (10 variants).  Strings are `List Char` everywhere.
  Floats are carried by their IEEE-754 bit pattern (all NaNs identified with one pattern),
  decimals by (sign, 96-bit mantissa, scale), date-times and durations by a single integer
  number of nanoseconds (since the Unix epoch / signed length).
  Import-free on purpose: the protocol driver links against this file.
-/
namespace Reval

abbrev Str := List Char

/-- IEEE-754 binary64 by bit pattern.  Invariant kept by every model operation: a NaN is `F64.nan`. -/
structure F64 where
  bits : UInt64
deriving DecidableEq, Repr, Inhabited

/-- `rust_decimal::Decimal`: sign, 96-bit mantissa, scale 0..28. -/
structure Dec where
  neg : Bool
  mant : Nat
  scale : Nat
deriving DecidableEq, Repr, Inhabited

inductive Value where
  | str (s : Str)
  | int (i : Int)
  | float (f : F64)
  | dec (d : Dec)
  | bool (b : Bool)
  | dateTime (ns : Int)
  | duration (ns : Int)
  | vec (xs : List Value)
  | map (kvs : List (Str × Value))
  | none
deriving Repr, Inhabited

/-- The ten value types. -/
inductive Ty where
  | str | int | float | dec | bool | dateTime | duration | vec | map | none
deriving DecidableEq, Repr, Inhabited

def Value.ty : Value → Ty
  | .str _ => .str | .int _ => .int | .float _ => .float | .dec _ => .dec | .bool _ => .bool
  | .dateTime _ => .dateTime | .duration _ => .duration | .vec _ => .vec | .map _ => .map | .none => .none

def Ty.all : List Ty := [.str, .int, .float, .dec, .bool, .dateTime, .duration, .vec, .map, .none]

theorem Ty.mem_all (t : Ty) : t ∈ Ty.all := by cases t <;> simp [Ty.all]

/-! ### Decidable structural equality (the `deriving` handler refuses nested inductives) -/

mutual
def Value.beq : Value → Value → Bool
  | .str a, .str b => a == b
  | .int a, .int b => a == b
  | .float a, .float b => a == b
  | .dec a, .dec b => a == b
  | .bool a, .bool b => a == b
  | .dateTime a, .dateTime b => a == b
  | .duration a, .duration b => a == b
  | .vec a, .vec b => Value.beqList a b
  | .map a, .map b => Value.beqFields a b
  | .none, .none => true
  | _, _ => false
def Value.beqList : List Value → List Value → Bool
  | [], [] => true
  | a :: as, b :: bs => Value.beq a b && Value.beqList as bs
  | _, _ => false
def Value.beqFields : List (Str × Value) → List (Str × Value) → Bool
  | [], [] => true
  | (k, a) :: as, (l, b) :: bs => k == l && Value.beq a b && Value.beqFields as bs
  | _, _ => false
end

mutual
theorem Value.beq_eq : ∀ (a b : Value), Value.beq a b = true ↔ a = b
  | .str a, b => by cases b <;> simp [Value.beq]
  | .int a, b => by cases b <;> simp [Value.beq]
  | .float a, b => by cases b <;> simp [Value.beq]
  | .dec a, b => by cases b <;> simp [Value.beq]
  | .bool a, b => by cases b <;> simp [Value.beq]
  | .dateTime a, b => by cases b <;> simp [Value.beq]
  | .duration a, b => by cases b <;> simp [Value.beq]
  | .vec a, b => by
      cases b <;> simp [Value.beq]
      exact Value.beqList_eq a _
  | .map a, b => by
      cases b <;> simp [Value.beq]
      exact Value.beqFields_eq a _
  | .none, b => by cases b <;> simp [Value.beq]
theorem Value.beqList_eq : ∀ (a b : List Value), Value.beqList a b = true ↔ a = b
  | [], [] => by simp [Value.beqList]
  | [], _ :: _ => by simp [Value.beqList]
  | _ :: _, [] => by simp [Value.beqList]
  | a :: as, b :: bs => by
      simp [Value.beqList, Value.beq_eq a b, Value.beqList_eq as bs]
theorem Value.beqFields_eq : ∀ (a b : List (Str × Value)), Value.beqFields a b = true ↔ a = b
  | [], [] => by simp [Value.beqFields]
  | [], _ :: _ => by simp [Value.beqFields]
  | _ :: _, [] => by simp [Value.beqFields]
  | (k, a) :: as, (l, b) :: bs => by
      simp [Value.beqFields, Value.beq_eq a b, Value.beqFields_eq as bs, and_assoc]
end

instance : DecidableEq Value := fun a b =>
  if h : Value.beq a b = true then isTrue ((Value.beq_eq a b).1 h)
  else isFalse (fun e => h ((Value.beq_eq a b).2 e))

instance : BEq Value := ⟨Value.beq⟩

/-! ### Errors and outcomes -/

/-- `reval::Error`, with the payloads the properties speak about (names, offending values) and
    without reval's message texts. -/
inductive Err where
  | invalidType
  | invalidCast (v : Value)
  | outOfBounds (v : Value)
  | divByZero
  | unknownRef (n : Str)
  | invalidSymbol (n : Str)
  | unknownFn (n : Str)
  | userFn (f : Str) (msg : Str)
  | numericOverflow
  | unexpectedValue (v : Value)
  | ser (msg : Str)
  | invalidFunctionName (n : Str)
  | duplicateFunctionName (n : Str)
  | duplicateRuleName (n : Str)
deriving DecidableEq, Repr, Inhabited

/-- Where the Rust code could panic. -/
inductive Site where
  | overflow | unwrap | slice | todo | expect
deriving DecidableEq, Repr, Inhabited

/-- Library primitives the model does not compute itself (answered by the library, never by reval). -/
inductive FOp where
  | decAdd | decSub | decMul | decDiv | decRem | decFloor | decRound | decFract
  | decToF64 | f64ToDec | strToDec | strToF64 | strToDateTime | strUpper | strLower
  | f64Show | xidStart | xidContinue
deriving DecidableEq, Repr, Inhabited

/-- Outcome of a modelled operation: a result, an error value, a panic (with its site), or
    `frontier`: the model declines to predict (a library primitive outside the modelled region). -/
inductive Res (α : Type) where
  | ok (a : α)
  | err (e : Err)
  | panic (s : Site)
  | frontier (op : FOp) (args : List Value)
deriving Repr, Inhabited

instance {α} [DecidableEq α] : DecidableEq (Res α) := fun a b => by
  cases a <;> cases b <;> first
    | (apply isFalse; intro h; cases h; done)
    | skip
  · rename_i x y; exact if h : x = y then isTrue (by rw [h]) else isFalse (fun e => by cases e; exact h rfl)
  · rename_i x y; exact if h : x = y then isTrue (by rw [h]) else isFalse (fun e => by cases e; exact h rfl)
  · rename_i x y; exact if h : x = y then isTrue (by rw [h]) else isFalse (fun e => by cases e; exact h rfl)
  · rename_i o1 a1 o2 a2
    exact if h : o1 = o2 ∧ a1 = a2 then isTrue (by rw [h.1, h.2])
      else isFalse (fun e => by cases e; exact h ⟨rfl, rfl⟩)

namespace Res
def isPanic {α} : Res α → Bool
  | .panic _ => true
  | _ => false
def isOk {α} : Res α → Bool
  | .ok _ => true
  | _ => false
def isErr {α} : Res α → Bool
  | .err _ => true
  | _ => false
def isFrontier {α} : Res α → Bool
  | .frontier _ _ => true
  | _ => false
@[simp] theorem isPanic_ok {α} (a : α) : (Res.ok a).isPanic = false := rfl
@[simp] theorem isPanic_err {α} (e : Err) : (Res.err e : Res α).isPanic = false := rfl
@[simp] theorem isPanic_frontier {α} (o : FOp) (a : List Value) : (Res.frontier o a : Res α).isPanic = false := rfl
@[simp] theorem isPanic_panic {α} (s : Site) : (Res.panic s : Res α).isPanic = true := rfl

def bind {α β} (r : Res α) (f : α → Res β) : Res β :=
  match r with
  | .ok a => f a
  | .err e => .err e
  | .panic s => .panic s
  | .frontier o a => .frontier o a

def map {α β} (f : α → β) (r : Res α) : Res β :=
  match r with
  | .ok a => .ok (f a)
  | .err e => .err e
  | .panic s => .panic s
  | .frontier o a => .frontier o a

/-- change the type of a non-ok outcome -/
def cast {α β} (r : Res α) (d : Res β) : Res β :=
  match r with
  | .ok _ => d
  | .err e => .err e
  | .panic s => .panic s
  | .frontier o a => .frontier o a
end Res

/-- The oracle: answers of library primitives supplied from outside (by the harness, calling the
    library directly).  `none` = not supplied; `some none` = the primitive fails / returns `None`. -/
abbrev Oracle := FOp → List Value → Option (Option Value)

def Oracle.empty : Oracle := fun _ _ => none

/-- Ask the oracle; an unanswered query is a `frontier` outcome, a failing primitive is `onFail`. -/
def Oracle.ask (o : Oracle) (op : FOp) (args : List Value) (onFail : Res Value) : Res Value :=
  match o op args with
  | some (some v) => .ok v
  | some none => onFail
  | none => .frontier op args

/-! ### Keys, sorted association lists (`BTreeMap<String, _>`) -/

/-- Lexicographic order on strings by code point = Rust's `Ord for String` (byte-wise on UTF-8,
    which preserves code-point order). -/
def Str.lt : Str → Str → Bool
  | [], [] => false
  | [], _ :: _ => true
  | _ :: _, [] => false
  | a :: as, b :: bs => if a.toNat < b.toNat then true else if b.toNat < a.toNat then false else Str.lt as bs

def AList (α : Type) := List (Str × α)

/-- `BTreeMap::get` -/
def lookup {α} : List (Str × α) → Str → Option α
  | [], _ => none
  | (k, v) :: rest, n => if k = n then some v else lookup rest n

/-- `BTreeMap::insert` on a key-sorted list: replace an equal key, otherwise insert in order. -/
def insertSorted {α} (k : Str) (v : α) : List (Str × α) → List (Str × α)
  | [] => [(k, v)]
  | (k', v') :: rest =>
    if k = k' then (k, v) :: rest
    else if Str.lt k k' then (k, v) :: (k', v') :: rest
    else (k', v') :: insertSorted k v rest

/-- keys strictly increasing -/
def SortedKeys {α} : List (Str × α) → Prop
  | [] => True
  | [_] => True
  | (k₁, _) :: (k₂, v₂) :: rest => Str.lt k₁ k₂ = true ∧ SortedKeys ((k₂, v₂) :: rest)

end Reval
