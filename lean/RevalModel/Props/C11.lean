/-
  Props/C11.lean — user-function caching is transparent, per evaluation and per argument.
-/
import RevalModel.Lemmas.Cache
import RevalModel.Lemmas.Transparent
import RevalModel.Impl.RuleSet

namespace Reval.C11

theorem nodup_of_reverse {α} {l : List α} (h : l.reverse.Nodup) : l.Nodup := by
  unfold List.Nodup at *
  rw [List.pairwise_reverse] at h
  exact h.imp (fun h e => h e.symm)

/-- nothing is remembered from one evaluation to the next: every ruleset evaluation starts from the empty
    cache, so its outcomes are a function of (rules, input, functions) only -/
theorem fresh_per_evaluation (env : Env) (rules : List Expr) :
    evaluateValue env rules = evalRules env 0 rules ⟨[], 0⟩ := rfl

/-- within one ruleset evaluation the cache is exactly the list of successful invocations of cacheable
    functions (most recent first) … -/
theorem cache_is_the_successful_cacheable_invocations (env : Env) (rules : List Expr) :
    (evaluateValue env rules).2.1.cache = (cachedEntries (evaluateValue env rules).2.2).reverse := by
  have := (evalRules_cache env rules 0 St.init).1
  simpa [evaluateValue, St.init] using this

/-- … and no (function, argument) occurs twice among them: a cacheable function is invoked successfully at
    most once per distinct (function, argument) -/
theorem at_most_once (env : Env) (rules : List Expr) :
    ((cachedEntries (evaluateValue env rules).2.2).map Prod.fst).Nodup := by
  have h := evalRules_cache env rules 0 St.init
  have hn : KeysNodup (evalRules env 0 rules St.init).2.1 := h.2 (by simp [KeysNodup, St.init])
  unfold KeysNodup at hn
  rw [h.1] at hn
  simp only [St.init, List.append_nil, List.map_reverse] at hn
  exact nodup_of_reverse hn

/-- a call whose (function, argument) is in the cache returns the cached result and invokes nothing -/
theorem hit_returns_cached_without_invoking (env : Env) (f : Str) (fm : FnModel) (a v : Value) (st : St)
    (hf : lookup env.fns f = some fm) (hc : fm.cacheable = true) (h : cacheGet st.cache (f, a) = some v) :
    callFn env f a st = (.ok v, st, []) := by
  simp [callFn, hf, hc, h]

/-- … and an entry, once made, stays for the rest of the evaluation (through any sub-expression and any
    number of further rules): later calls observe the first result -/
theorem later_calls_observe_first (env : Env) (rp : List Nat) (e : Expr) (rules : List Expr) (i : Nat) (st : St)
    (k : Str × Value) (v : Value) (hn : (st.cache.map Prod.fst).Nodup) (h : cacheGet st.cache k = some v) :
    cacheGet (eval env rp e st).2.1.cache k = some v ∧ cacheGet (evalRules env i rules st).2.1.cache k = some v :=
  ⟨eval_cache_persist env rp e st k v hn h, evalRules_cache_persist env rules i st k v hn h⟩

/-- a result is never reused for a different function or argument: what a hit returns is stored under
    exactly that (function, argument), and every stored entry was produced by an invocation of that function
    with that argument returning that value -/
theorem no_cross_reuse (env : Env) (rules : List Expr) (f : Str) (a v : Value)
    (h : cacheGet (evaluateValue env rules).2.1.cache (f, a) = some v) :
    ((f, a), v) ∈ cachedEntries (evaluateValue env rules).2.2 := by
  have hm := cacheGet_mem _ _ _ h
  rw [cache_is_the_successful_cacheable_invocations] at hm
  exact List.mem_reverse.1 hm

/-- a miss invokes the function with exactly this argument; success is cached, failure is not -/
theorem miss_invokes_and_caches_success_only (env : Env) (f : Str) (fm : FnModel) (a : Value) (st : St)
    (hf : lookup env.fns f = some fm) (hc : fm.cacheable = true) (h : cacheGet st.cache (f, a) = none) :
    callFn env f a st =
      match fm.behave st.calls a with
      | .ok v => (.ok v, ⟨((f, a), v) :: st.cache, st.calls + 1⟩, [.invoke f a st.calls (some v) true])
      | .error msg => (.err (.userFn f msg), ⟨st.cache, st.calls + 1⟩, [.invoke f a st.calls none false]) := by
  cases hb : fm.behave st.calls a <;> simp [callFn, hf, hc, h, hb]

/-- failed calls are not remembered: the cache is unchanged, so the next call invokes again -/
theorem failures_not_cached (env : Env) (f : Str) (fm : FnModel) (a : Value) (st : St) (msg : Str)
    (hf : lookup env.fns f = some fm) (hb : fm.behave st.calls a = .error msg) :
    (callFn env f a st).2.1.cache = st.cache ∧ (callFn env f a st).1 = .err (.userFn f msg) ∨
    (∃ v, cacheGet st.cache (f, a) = some v) := by
  by_cases hc : fm.cacheable = true
  · cases hg : cacheGet st.cache (f, a) with
    | some v => exact Or.inr ⟨v, rfl⟩
    | none => left; simp [callFn, hf, hc, hg, hb]
  · left; simp [callFn, invokeFn, hf, hc, hb]

/-- a function that declares itself non-cacheable is invoked on every call, and never touches the cache -/
theorem non_cacheable_always_invoked (env : Env) (f : Str) (fm : FnModel) (a : Value) (st : St)
    (hf : lookup env.fns f = some fm) (hc : fm.cacheable = false) :
    invokedCalls (callFn env f a st).2.2 = [(f, a)] ∧ (callFn env f a st).2.1.cache = st.cache := by
  cases hb : fm.behave st.calls a <;> simp [callFn, hf, hc, invokeFn, hb, invokedCalls]

/-- a user function's failure surfaces as an error naming the function and carrying the original error -/
theorem error_wraps_name (env : Env) (f : Str) (fm : FnModel) (a : Value) (st : St) (msg : Str)
    (hf : lookup env.fns f = some fm) (hmiss : cacheGet st.cache (f, a) = none)
    (hb : fm.behave st.calls a = .error msg) :
    (callFn env f a st).1 = .err (.userFn f msg) := by
  by_cases hc : fm.cacheable = true
  · simp [callFn, hf, hc, hmiss, hb]
  · simp [callFn, invokeFn, hf, hc, hb]

/-- transparency: with functions whose result depends on the argument only, the outcomes of a ruleset are the same whichever
    functions are declared cacheable — all of them, none of them, or any other assignment `c`; caching can only save
    invocations, never change a result -/
theorem caching_is_transparent (env : Env) (hd : Deterministic env) (c : Str → Bool) (rules : List Expr) :
    (evaluateValue (env.withCacheable c) rules).1 = (evaluateValue env rules).1 := by
  unfold evaluateValue
  rw [evalRules_denote _ (deterministic_withCacheable env c hd) rules 0 St.init (consistent_init _),
      evalRules_denote env hd rules 0 St.init (consistent_init env)]
  exact List.map_congr_left (fun e _ => (denote_withCacheable_all env c).1 e)

/-- … and a single expression likewise, from any cache state consistent with the functions -/
theorem caching_is_transparent_expr (env : Env) (hd : Deterministic env) (c : Str → Bool) (rp : List Nat) (e : Expr) :
    (eval (env.withCacheable c) rp e St.init).1 = (eval env rp e St.init).1 := by
  rw [(eval_denote _ (deterministic_withCacheable env c hd) rp e St.init (consistent_init _)).1,
      (eval_denote env hd rp e St.init (consistent_init env)).1]
  exact (denote_withCacheable_all env c).1 e

/-! non-vacuity: g(i1), g("1"), g(i1) with a counting cacheable g — two invocations, third call is a hit -/
def demoEnv : Env := ⟨.none, [], [(['g'], ⟨true, fun i _ => .ok (.int i)⟩)], Oracle.empty⟩
example :
    (evaluateValue demoEnv [.vec [.call ['g'] (.lit (.int 1)), .call ['g'] (.lit (.str ['1'])), .call ['g'] (.lit (.int 1))]]).1
      = [.ok (.vec [.int 0, .int 1, .int 0])] := by decide

/-- the hypothesis of `caching_is_transparent` is satisfiable: an environment whose function ignores the call counter -/
def pureEnv : Env := ⟨.none, [], [(['g'], ⟨true, fun _ v => .ok v⟩)], Oracle.empty⟩
example : Deterministic pureEnv := by
  intro f fm h i a
  simp only [pureEnv, lookup] at h
  split at h
  · simp only [Option.some.injEq] at h; subst h; rfl
  · simp at h
example : (evaluateValue (pureEnv.withCacheable (fun _ => false)) [.call ['g'] (.lit (.int 4))]).1 = [.ok (.int 4)] := by decide

end Reval.C11
