/-
  Props/C14.lean — a rule's name, description, metadata and expression are extracted exactly.
  Theorems about `parseRuleText` = lex ∘ `pRule` ∘ `builderParse` ∘ comment scan, stated on its stages.
-/
import RevalModel.Impl.RuleParse
import RevalModel.Lemmas.Sorted
import RevalModel.Lemmas.Lines

namespace Reval.C14
open RuleParse

/-- `Rule::parse` factors into its stages (and fails with RuleParseError when any stage does) -/
theorem parse_factors (o : Oracle) (s : Str) (ts : List Tok) (metas : List (Str × Expr)) (e : Expr) (rest : List Tok)
    (name : Option Str) (md : List (Str × Value))
    (hl : lex s = some ts) (hp : pRule o (ts.length + 2) ts [] = .ok (metas, e) rest)
    (hb : builderParse metas none [] = some (name, md)) :
    parseRuleText o s = assemble name md e (commentLines s) := by
  simp only [parseRuleText, hl, hp, hb]

/-- the name: `@name` (the last one) wins over the comments; otherwise the first comment line (already trimmed
    by `commentLines`); neither ⇒ the missing-name error -/
theorem name_precedence (n : Str) (md : List (Str × Value)) (e : Expr) (cl : List Str) (c : Str) :
    (∃ md', assemble (some n) md e cl = .ok ⟨n, md', e⟩) ∧
    (∃ md', assemble none md e (c :: cl) = .ok ⟨c, md', e⟩) ∧
    assemble none md e [] = .missingName := by
  refine ⟨?_, ?_, by simp [assemble]⟩
  · cases cl with
    | nil => exact ⟨md, by simp [assemble]⟩
    | cons a t => cases t <;> simp [assemble]
  · cases cl <;> simp [assemble]

/-- the description: an `@description` entry is kept as written (whatever its type); otherwise the comment
    lines after the first, joined by newlines; `Rule::description()` is `Some` only for a string -/
theorem description_rule (name : Option Str) (md : List (Str × Value)) (e : Expr) (c d : Str) (ds : List Str) (n : Str) (r : RuleOut) :
    (lookup md descKey = none → assemble name md e (c :: d :: ds) = .ok r →
      r.description = some (joinNl (d :: ds))) ∧
    ((lookup md descKey).isSome = true → assemble (some n) md e (c :: d :: ds) = .ok r → r.metadata = md) ∧
    (assemble (some n) md e [c] = .ok r → r.metadata = md) := by
  refine ⟨?_, ?_, ?_⟩
  · intro hn h
    cases name <;> simp [assemble, hn] at h <;> subst h <;>
      simp [RuleOut.description, lookup_insertSorted_self]
  · intro hs h; simp [assemble, hs] at h; subst h; rfl
  · intro h; simp [assemble] at h; subst h; rfl

theorem joinNl_two (a b : Str) : joinNl [a, b] = a ++ '\n' :: b := rfl

/-- metadata: one entry per `@key` other than `name`, holding the constant written; the last occurrence of a key
    wins; `@name` must be a string; a non-constant value is rejected -/
theorem metadata_step (k : Str) (e : Expr) (rest : List (Str × Expr)) (name : Option Str) (md : List (Str × Value)) (v : Value) (s : Str) :
    (k ≠ nameKey → flatten e = some v →
      builderParse ((k, e) :: rest) name md = builderParse rest name (insertSorted k v md)) ∧
    (flatten e = some (.str s) → builderParse ((nameKey, e) :: rest) name md = builderParse rest (some s) md) ∧
    (flatten e = some v → (∀ s, v ≠ .str s) → builderParse ((nameKey, e) :: rest) name md = none) ∧
    (flatten e = none → builderParse ((k, e) :: rest) name md = none) := by
  refine ⟨?_, ?_, ?_, ?_⟩
  · intro hk hf; simp [builderParse, hf, hk]
  · intro hf; simp [builderParse, hf]
  · intro hf hv; cases v <;> simp_all [builderParse]
  · intro hf; simp [builderParse, hf]

/-- `flatten` is the identity embedding of constants: literals, lists of constants, maps of constants (collected
    into a sorted map, a later duplicate key winning); anything else is not a constant -/
theorem flatten_constants (v : Value) (xs : List Expr) (kvs : List (Str × Expr)) :
    flatten (.lit v) = some v ∧
    flatten (.vec xs) = (flattenList xs).map .vec ∧
    flatten (.map kvs) = (flattenMap kvs).map (fun m => .map (m.foldl (fun acc kv => insertSorted kv.1 kv.2 acc) [])) := by
  simp [flatten]

theorem flattenList_cons (e : Expr) (es : List Expr) (v : Value) (h : flatten e = some v) :
    flattenList (e :: es) = (flattenList es).map (v :: ·) := by simp [flattenList, h]

theorem nonconstant_rejected (l r c t f : Expr) (op : BinOp) (uop : UnOp) (n : Str) (i : Index) :
    flatten (.bin op l r) = none ∧ flatten (.un uop l) = none ∧ flatten (.ref n) = none ∧ flatten (.sym n) = none ∧
    flatten (.call n l) = none ∧ flatten (.ite c t f) = none ∧ flatten (.index l i) = none ∧
    flatten (.and l r) = none ∧ flatten (.eq l r) = none := by
  simp [flatten]

/-- the expression: once the `@key: value;` prefix is consumed, what is parsed is the remaining tokens as one
    stand-alone expression (same parser, whole input); the rule parse fails when that expression does -/
theorem expr_is_standalone (o : Oracle) (f : Nat) (ts : List Tok) (acc : List (Str × Expr))
    (h : ∀ k r, ts ≠ .p ['@'] :: .ident k :: .p [':'] :: r) :
    (∀ e, pIf o (parseFuel ts) ts = .ok e [] → pRule o (f + 1) ts acc = .ok (acc.reverse, e) []) ∧
    (pIf o (parseFuel ts) ts = .error → pRule o (f + 1) ts acc = .error) ∧
    (∀ e t r, pIf o (parseFuel ts) ts = .ok e (t :: r) → pRule o (f + 1) ts acc = .error) := by
  refine ⟨?_, ?_, ?_⟩ <;> (intros; rw [pRule]) <;>
    first
      | (intro k r e; exact h k r e)
      | (split <;> first | (rename_i k r; exact absurd rfl (h k r)) | simp_all)

/-- a metadata item `@k: e;` in front: its expression is parsed by the same expression parser, then the rest -/
theorem meta_item_step (o : Oracle) (f : Nat) (k : Str) (r r2 : List Tok) (acc : List (Str × Expr)) (e : Expr)
    (h : pIf o (parseFuel (.p ['@'] :: .ident k :: .p [':'] :: r)) r = .ok e (.p [';'] :: r2)) :
    pRule o (f + 1) (.p ['@'] :: .ident k :: .p [':'] :: r) acc = pRule o f r2 ((k, e) :: acc) := by
  rw [pRule]; simp [h]

/-- the line scan of `Rule::parse` loses nothing and never looks across a line end: the pieces concatenate to the text,
    and no line handed to the comment test contains a line feed -/
theorem lines_partition (s : Str) :
    (splitInclusive s []).flatten = s ∧ ∀ l ∈ lines s, '\n' ∉ l := by
  refine ⟨by simpa using splitInclusive_flatten s [], ?_⟩
  intro l hl
  unfold lines at hl
  simp only [List.mem_map] at hl
  obtain ⟨p, hp, rfl⟩ := hl
  obtain ⟨body, hb, hn⟩ := splitInclusive_pieces s [] (by simp) p hp
  rcases hb with hb | hb
  · rw [hb]; exact (stripEol_no_newline body hn).1
  · rw [hb]; exact (stripEol_no_newline body hn).2


/-- a text is a comment line of the rule exactly when some line of it, after its leading white space, starts with `//`;
    the comment is the rest of that line, trimmed -/
theorem comment_line_iff (s c : Str) :
    c ∈ commentLines s ↔ ∃ l ∈ lines s, ∃ r, Str.trimStart l = '/' :: '/' :: r ∧ c = Str.trim r := by
  unfold commentLines
  simp only [List.mem_filterMap]
  constructor
  · rintro ⟨l, hl, h⟩
    split at h
    · rename_i r heq; cases h; exact ⟨l, hl, r, heq, rfl⟩
    · cases h
  · rintro ⟨l, hl, r, heq, rfl⟩
    exact ⟨l, hl, by rw [heq]; rfl⟩

/-! comment scan, as tests on concrete texts (the scan is line-based: `str::lines`, `trim_start`, `//`, `trim`) -/
example : commentLines "  // a b  \r\n@k: i1; //not\n\t//\tc\n//\nx // y".toList = ["a b".toList, "c".toList, []] := by decide
example : lines "a\r\nb\n\nc\r".toList = ["a".toList, "b".toList, [], "c\r".toList] := by decide

end Reval.C14
