/-
  Props/C12.lean — evaluation is deterministic, free of side effects and schedule-independent.
  The theorems are about the resumption model (`Impl/Async.lean`): tasks share the immutable environment and
  nothing else — that this describes the code is what the hand-polled executor runs of the harness establish.
-/
import RevalModel.Lemmas.Adequacy
import RevalModel.Lemmas.Denote
import RevalModel.Lemmas.Liveness

namespace Reval.C12

/-- the resumption semantics (what the async evaluation does between suspension points) run to completion is the
    big-step semantics — for an expression and for a whole ruleset -/
theorem adequacy (env : Env) (e : Expr) (rules : List Expr) :
    run env (exprTask env e) = eval env [] e St.init ∧
    run env (rulesetTask env rules) = evaluateValue env rules :=
  ⟨Reval.adequacy env e, ruleset_adequacy env rules⟩

/-- a poll never changes what a task will finish with -/
theorem poll_preserves_outcome {α : Type} (env : Env) (susp : Str → Value → Nat → Nat) (t : Task α) :
    run env (pollTask env susp t).res = run env t.res := by
  unfold pollTask
  cases hr : t.res with
  | done a => simp [hr]
  | await f arg idx k =>
    simp only []
    cases hp : t.pending with
    | succ n => simp [hr]
    | zero =>
      simp only []
      cases hk : k (answer env f idx arg) with
      | done a => simp [run, hk]
      | await f' a' i' k' => simp [run, hk]

theorem pollAt_preserves {α : Type} (env : Env) (susp : Str → Value → Nat → Nat) :
    ∀ (i : Nat) (ts : List (Task α)), (pollAt env susp i ts).map (fun t => run env t.res) = ts.map (fun t => run env t.res) := by
  intro i ts
  induction ts generalizing i with
  | nil => simp [pollAt]
  | cons t ts ih =>
    cases i with
    | zero => simp [pollAt, poll_preserves_outcome]
    | succ j => simp [pollAt, ih]

/-- schedule independence: whatever the poll schedule (any interleaving of any number of evaluations, any number
    of suspensions per user-function call), every task finishes with the outcome of running it alone -/
theorem schedule_independent {α : Type} (env : Env) (susp : Str → Value → Nat → Nat) (sched : List Nat) (ts : List (Task α)) :
    (runSched env susp sched ts).map (fun t => run env t.res) = ts.map (fun t => run env t.res) := by
  induction sched generalizing ts with
  | nil => rfl
  | cons i rest ih => simp only [runSched]; rw [ih, pollAt_preserves]

/-- … in particular a task that has completed under some schedule holds exactly the sequential result -/
theorem completed_task_has_sequential_result (env : Env) (susp : Str → Value → Nat → Nat) (sched : List Nat)
    (rulesets : List (List Expr)) (i : Nat) (outs : List (Res Value) × St × List Event) (p : Nat)
    (h : (runSched env susp sched (rulesets.map (fun rs => ⟨rulesetTask env rs, 0⟩)))[i]? = some ⟨.done outs, p⟩) :
    ∃ rs, rulesets[i]? = some rs ∧ outs = evaluateValue env rs := by
  have hs := schedule_independent env susp sched (rulesets.map (fun rs => (⟨rulesetTask env rs, 0⟩ : Task _)))
  have h1 := congrArg (fun l => l[i]?) hs
  simp only [List.getElem?_map, h, Option.map_some, List.map_map] at h1
  cases hr : rulesets[i]? with
  | none => simp [hr, run] at h1
  | some rs =>
    refine ⟨rs, rfl, ?_⟩
    simp [hr, run, ruleset_adequacy] at h1
    exact h1

theorem map_eraseIdx {α β} (f : α → β) : ∀ (l : List α) (i : Nat), (l.eraseIdx i).map f = (l.map f).eraseIdx i := by
  intro l
  induction l with
  | nil => intro i; rfl
  | cons a l ih => intro i; cases i with
    | zero => rfl
    | succ j => simp [List.eraseIdx, ih]

/-- abandoning an evaluation midway (dropping its task at any point of any schedule) leaves every other task's
    outcome what it would have been -/
theorem cancellation_harmless {α : Type} (env : Env) (susp : Str → Value → Nat → Nat) (sched sched' : List Nat)
    (ts : List (Task α)) (i : Nat) :
    (runSched env susp sched' ((runSched env susp sched ts).eraseIdx i)).map (fun t => run env t.res) =
      (ts.map (fun t => run env t.res)).eraseIdx i := by
  rw [schedule_independent]
  have := schedule_independent env susp sched ts
  rw [← this]
  rw [map_eraseIdx]

/-- a fresh evaluation started after any history of completed, failed or abandoned evaluations gives the
    sequential outcome: it is a function of the ruleset, the input and the functions only -/
theorem fresh_evaluation_unaffected (env : Env) (susp : Str → Value → Nat → Nat) (sched sched' : List Nat)
    (old : List (Task (List (Res Value) × St × List Event))) (rules : List Expr) :
    ((runSched env susp sched' (runSched env susp sched old ++ [⟨rulesetTask env rules, 0⟩])).map (fun t => run env t.res)).getLast? =
      some (evaluateValue env rules) := by
  rw [schedule_independent]
  simp [ruleset_adequacy]

/-- determinism with deterministic user functions: the outcome list is the list of state-free denotations —
    the same on every evaluation, whatever ran before -/
theorem deterministic (env : Env) (hd : Deterministic env) (rules : List Expr) :
    (run env (rulesetTask env rules)).1 = rules.map (denote env) := by
  rw [ruleset_adequacy]
  exact evalRules_denote env hd rules 0 St.init (consistent_init env)

/-- progress: an evaluation finishes once the schedule has polled it `need` times — a number fixed by that task
    alone (one poll per user-function call plus the suspensions of each call) — whatever else is polled in between,
    in whatever order; and it then holds exactly the sequential result. No evaluation can be starved or blocked by
    another one. -/
theorem fair_schedule_completes {α : Type} (env : Env) (susp : Str → Value → Nat → Nat) (sched : List Nat)
    (ts : List (Task α)) (i : Nat) (t : Task α) (h : ts[i]? = some t) (hf : need env susp t ≤ sched.count i) :
    ∃ p, (runSched env susp sched ts)[i]? = some ⟨.done (run env t.res), p⟩ := by
  obtain ⟨t', h1, h2⟩ := need_runSched env susp sched ts i t h
  obtain ⟨a, ha⟩ := need_zero_done env susp t' (by omega)
  have hs := congrArg (fun l => l[i]?) (schedule_independent env susp sched ts)
  simp only [List.getElem?_map, h1, h, Option.map_some, Option.some.injEq, ha, run] at hs
  obtain ⟨res, p⟩ := t'
  simp only at ha
  subst ha
  exact ⟨p, by rw [h1, hs]⟩

/-- … and not before: polled fewer times than that, it is still waiting on a user function (the count is exact) -/
theorem completes_exactly_then {α : Type} (env : Env) (susp : Str → Value → Nat → Nat) (sched : List Nat)
    (ts : List (Task α)) (i : Nat) (t : Task α) (h : ts[i]? = some t) (hf : sched.count i < need env susp t) :
    ∃ t', (runSched env susp sched ts)[i]? = some t' ∧ ∀ a, t'.res ≠ .done a := by
  obtain ⟨t', h1, h2⟩ := need_runSched env susp sched ts i t h
  refine ⟨t', h1, ?_⟩
  intro a ha
  have : need env susp t' = 0 := by simp [need, ha]
  omega

/-! non-vacuity: two evaluations of a ruleset with a suspending function, interleaved -/
def demoEnv : Env := ⟨.map [(['x'], .int 2)], [], [(['g'], ⟨true, fun _ v => .ok v⟩)], Oracle.empty⟩
def demoTasks : List (Task (List (Res Value) × St × List Event)) :=
  [⟨rulesetTask demoEnv [.call ['g'] (.ref ['x']), .call ['g'] (.lit (.int 7))], 1⟩,
   ⟨rulesetTask demoEnv [.bin .add (.call ['g'] (.ref ['x'])) (.lit (.int 1))], 2⟩]
example : ((runSched demoEnv (fun _ _ _ => 1) [0, 1, 1, 0, 1, 0, 0, 1, 0, 1] demoTasks).map (fun t => (run demoEnv t.res).1)) =
    [[.ok (.int 2), .ok (.int 7)], [.ok (.int 3)]] := by decide

example : demoTasks.map (need demoEnv (fun _ _ _ => 1)) = [4, 3] := by decide
example : ((runSched demoEnv (fun _ _ _ => 1) [0, 1, 1, 0, 1, 0] demoTasks).map (fun t => match t.res with | .done _ => true | _ => false)) =
    [false, true] := by decide
example : ((runSched demoEnv (fun _ _ _ => 1) [0, 1, 1, 0, 1, 0, 0] demoTasks).map (fun t => match t.res with | .done _ => true | _ => false)) =
    [true, true] := by decide

end Reval.C12
