/-
  Props/C13.lean — serializing input data into a Value is total and faithful.
  (`Ser.serialize` transcribes `ValueSerializer` over the serde data model; the theorems below are the
  features of a "structurally faithful image" the property lists.  The serde_json clause is `ser_matches_json`:
  `Spec/Json.lean` models `serde_json::to_value` on the data model and the JSON reading of a `Value`; both are
  compared with the real `serde_json` on every case of the correspondence run.)
-/
import RevalModel.Impl.Ser
import RevalModel.Lemmas.Sorted
import RevalModel.Lemmas.Json
import RevalModel.Lemmas.SerRange

namespace Reval.C13
open Ser

@[simp] theorem keyString_ne_panic (k : SerVal) (s : Site) : keyString k ≠ .panic s := by
  cases k <;> simp [keyString]
@[simp] theorem keyString_ne_frontier (k : SerVal) (o : FOp) (a : List Value) : keyString k ≠ .frontier o a := by
  cases k <;> simp [keyString]

/-- never a panic, for every value of the data model (including failing `Serialize` impls) -/
theorem ser_total_all :
    (∀ v, (serialize v).isPanic = false) ∧
    (∀ fs acc, (serializeFields fs acc).isPanic = false) ∧
    (∀ kvs acc, (serializeEntries kvs acc).isPanic = false) ∧
    (∀ xs, (serializeList xs).isPanic = false) := by
  apply serialize.mutual_induct
    (motive_1 := fun v => (serialize v).isPanic = false)
    (motive_2 := fun fs acc => (serializeFields fs acc).isPanic = false)
    (motive_3 := fun kvs acc => (serializeEntries kvs acc).isPanic = false)
    (motive_4 := fun xs => (serializeList xs).isPanic = false)
  all_goals (intros; simp only [serialize, serializeList, serializeEntries, serializeFields])
  all_goals first
    | (simp_all; done)
    | (split <;> simp_all; done)
    | (simp only [Res.map]; split <;> simp_all; done)
    | (split <;> (try split) <;> simp_all; done)

theorem ser_total (v : SerVal) : (serialize v).isPanic = false := ser_total_all.1 v

/-- integers keep their exact numeric value, or the call fails: it never yields another number -/
theorem int_exact (k : IntKind) (n : Int) :
    serialize (.int k n) = (if I128.inRange n then .ok (.int n) else .err .numericOverflow) := by
  simp [serialize]

theorem never_alters_a_number (k : IntKind) (n : Int) (v : Value) (h : serialize (.int k n) = .ok v) : v = .int n := by
  simp only [serialize] at h; split at h <;> simp_all

/-- a u128 above i128::MAX is an error (it is not wrapped to a negative Int) -/
theorem u128_out_of_range_is_error (n : Int) (h : n > I128.max) : serialize (.int IntKind.u128 n) = .err .numericOverflow := by
  have : I128.inRange n = false := by
    simp only [I128.inRange, Bool.and_eq_false_iff, decide_eq_false_iff_not]; right; omega
  simp [serialize, this]

/-- floats, booleans and strings are unchanged; a char is the one-character string; bytes are their numbers -/
theorem scalars_unchanged (b : Bool) (f : F64) (s : Str) (c : Char) :
    serialize (.bool b) = .ok (.bool b) ∧ serialize (.f64 f) = .ok (.float f) ∧
    serialize (.str s) = .ok (.str s) ∧ serialize (.char c) = .ok (.str [c]) := by
  simp [serialize]

/-- options collapse to the inner value or None; unit and unit structs are None -/
theorem option_collapses (v : SerVal) (name : Str) :
    serialize (.some v) = serialize v ∧ serialize .none = .ok .none ∧
    serialize .unit = .ok .none ∧ serialize (.unitStruct name) = .ok .none ∧
    serialize (.newtypeStruct name v) = serialize v := by
  simp [serialize]

/-- sequences and tuples keep their length and order: item `i` of the image is the image of item `i` -/
theorem seq_order : ∀ (xs : List SerVal) (vs : List Value), serializeList xs = .ok vs →
    vs.length = xs.length ∧ ∀ i (h : i < xs.length) (h' : i < vs.length), serialize xs[i] = .ok vs[i] := by
  intro xs
  induction xs with
  | nil => intro vs h; simp [serializeList] at h; subst h; simp
  | cons x xs ih =>
    intro vs h
    simp only [serializeList] at h
    split at h <;> try (simp at h; done)
    rename_i v hv
    split at h <;> try (simp at h; done)
    · rename_i vs' hvs
      simp at h; subst h
      have := ih vs' hvs
      refine ⟨by simp [this.1], ?_⟩
      intro i h1 h2
      cases i with
      | zero => simpa using hv
      | succ j => simpa using this.2 j (by simpa using h1) (by simpa using h2)
    · rename_i other hne hother
      cases other <;> simp_all

theorem seq_is_list (xs : List SerVal) (name : Str) :
    serialize (.seq xs) = (serializeList xs).map .vec ∧ serialize (.tuple xs) = (serializeList xs).map .vec ∧
    serialize (.tupleStruct name xs) = (serializeList xs).map .vec := by
  simp [serialize]

/-- enum variants are tagged by name: a one-entry map from the variant name to the payload's image -/
theorem variant_tagged (name variant : Str) (v : SerVal) (x : Value) (xs : List SerVal) (fs : List (Str × SerVal))
    (h : serialize v = .ok x) :
    serialize (.unitVariant name variant) = .ok (.str variant) ∧
    serialize (.newtypeVariant name variant v) = .ok (.map [(variant, x)]) ∧
    serialize (.tupleVariant name variant xs) = (serializeList xs).map (fun vs => .map [(variant, .vec vs)]) ∧
    serialize (.structVariant name variant fs) = (serializeFields fs []).map (fun m => .map [(variant, .map m)]) := by
  simp [serialize, h]

/-- structs keep every entry: after serialising the fields the image maps each field name to the image of
    the (last) field of that name, and names not among the fields are untouched -/
theorem struct_keeps_entries : ∀ (fs : List (Str × SerVal)) (acc m : List (Str × Value)),
    serializeFields fs acc = .ok m →
    ∀ k, lookup m k =
      match fs.reverse.find? (fun kv => kv.1 = k) with
      | some kv => (match serialize kv.2 with | .ok x => some x | _ => none)
      | none => lookup acc k := by
  intro fs
  induction fs with
  | nil => intro acc m h k; simp [serializeFields] at h; subst h; simp
  | cons f fs ih =>
    intro acc m h k
    obtain ⟨fk, fv⟩ := f
    simp only [serializeFields] at h
    split at h <;> try (simp at h; done)
    rename_i x hx
    have := ih _ m h k
    rw [this]
    simp only [List.reverse_cons, List.find?_append]
    cases hfind : fs.reverse.find? (fun kv => kv.1 = k) with
    | some kv => simp
    | none =>
      simp only [Option.none_or, List.find?_cons, List.find?_nil]
      by_cases hk : fk = k
      · subst hk; simp [hx, lookup_insertSorted_self]
      · simp [hk, lookup_insertSorted_other _ _ _ _ (Ne.symm hk)]

/-- a map key that is not a string is an error — keys are never stringified -/
theorem nonstring_key_is_error (k v : SerVal) (rest : List (SerVal × SerVal)) (hk : ∀ s, k ≠ .str s) :
    ∃ msg, serialize (.map ((k, v) :: rest)) = .err (.ser msg) := by
  cases k <;> simp_all [serialize, serializeEntries, keyString, Res.map]

/-- string-keyed maps keep every entry (insert = BTreeMap insert: sorted, a later equal key wins) -/
theorem map_entry_step (ks : Str) (v : SerVal) (x : Value) (rest : List (SerVal × SerVal)) (acc : List (Str × Value))
    (h : serialize v = .ok x) :
    serializeEntries ((.str ks, v) :: rest) acc = serializeEntries rest (insertSorted ks x acc) := by
  simp [serializeEntries, keyString, h]

/-- a failure raised by the value's own `Serialize` impl is returned as the error of the whole call, from any depth -/
theorem inner_failure_propagates (msg : Str) (name variant : Str) (pre post : List SerVal) (vs : List Value)
    (hpre : serializeList pre = .ok vs) :
    serialize (.fail msg) = .err (.ser msg) ∧
    serialize (.some (.fail msg)) = .err (.ser msg) ∧
    serialize (.newtypeVariant name variant (.fail msg)) = .err (.ser msg) ∧
    serializeList (pre ++ .fail msg :: post) = .err (.ser msg) := by
  refine ⟨by simp [serialize], by simp [serialize], by simp [serialize], ?_⟩
  induction pre generalizing vs with
  | nil => simp [serializeList, serialize]
  | cons p ps ih =>
    simp only [serializeList] at hpre
    split at hpre <;> try (simp at hpre; done)
    rename_i v hv
    split at hpre <;> try (simp at hpre; done)
    · rename_i vs' hvs
      simp [serializeList, hv, ih vs' hvs]
    · rename_i other hne hother
      cases other <;> simp_all

/-- `evaluate(&T)` = serialize, then `evaluate_value` on the image; it fails only when the input cannot be
    serialized (C09's last clause) -/
theorem evaluate_factors (env : Env) (rules : List Expr) (input : SerVal) :
    (∀ facts, serialize input = .ok facts →
      evaluate env rules input = .ok (evaluateValue { env with facts := facts } rules)) ∧
    (∀ e, serialize input = .err e → evaluate env rules input = .err e) ∧
    (∀ e, evaluate env rules input = .err e → serialize input = .err e) := by
  refine ⟨fun facts h => by simp [evaluate, h], fun e h => by simp [evaluate, h], ?_⟩
  intro e h
  simp only [evaluate] at h
  split at h <;> simp_all

/-- **the serde_json clause**: whenever serialization succeeds on JSON-representable data (finite floats, integers
    within 64 bits, at every depth), the image read as JSON is exactly `serde_json`'s image of the same data — for
    every value of the data model, of any size and nesting -/
theorem ser_matches_json (v : SerVal) (x : Value) (h : serialize v = .ok x) (hr : JsonSpec.JsonRep v = true) :
    JsonSpec.jsonOf v = JsonSpec.toJson x := JsonSpec.json_all.1 v x h hr

/-- … in particular for sequences, element by element -/
theorem ser_matches_json_list (xs : List SerVal) (vs : List Value) (h : serializeList xs = .ok vs)
    (hr : JsonSpec.JsonRepList xs = true) : JsonSpec.jsonOfList xs = JsonSpec.toJsonList vs :=
  JsonSpec.json_all.2.2.2 xs vs h hr

/-! non-vacuity -/
example : JsonSpec.JsonRep (.structVariant ['E'] ['V'] [(['b'], .int IntKind.u8 2), (['a'], .some (.seq [.bool true, .none]))]) = true ∧
    JsonSpec.jsonOf (.structVariant ['E'] ['V'] [(['b'], .int IntKind.u8 2), (['a'], .some (.seq [.bool true, .none]))]) =
      .obj [(['V'], .obj [(['a'], .arr [.bool true, .null]), (['b'], .int 2)])] := ⟨rfl, rfl⟩
example : serialize (.structVariant ['E'] ['V'] [(['b'], .int IntKind.u8 2), (['a'], .some (.seq [.bool true, .none]))])
    = .ok (.map [(['V'], .map [(['a'], .vec [.bool true, .none]), (['b'], .int 2)])]) := by decide
example : serialize (.map [(.int IntKind.u8 1, .unit)]) = .err (.ser []) := by decide
example : serialize (.int IntKind.u128 (2 ^ 128 - 1)) = .err .numericOverflow := by decide


/-- the image never holds a number outside the range of its `Value` variant — at every depth — and neither does any
    outcome of `RuleSet::evaluate(&T)` computed from it (C13 composed with C01's `results_in_range`) -/
theorem image_in_range (v : SerVal) (x : Value) (hb : v.bytesOK = true) (h : Ser.serialize v = .ok x) :
    x.inRange = true := serialize_inRange hb h

theorem evaluate_outcomes_in_range (env : Env) (he : env.InRange) (rules : List Expr) (input : SerVal)
    (hb : input.bytesOK = true) (hl : ∀ e ∈ rules, e.litsInRange = true)
    (out : List (Res Value) × St × List Event) (h : evaluate env rules input = .ok out) :
    ∀ r ∈ out.1, ∀ v, r = .ok v → v.inRange = true := evaluate_inRange he rules input hb hl h

example : (SerVal.struct "S".toList [("a".toList, .int IntKind.u64 (2 ^ 64 - 1)), ("b".toList, .bytes [0, 255])]).bytesOK = true := by decide

end Reval.C13
