/-
  Props/C07.lean — text is structured by one fixed precedence and associativity table.

  `Spec/Grammar.lean` states the table as data (`lvl`, `binOpAt`, `funcOfKw`) and says what it means for a token list
  to *render* a tree under the table (`G.R k e T`: the children of every node rendered at the level the table
  requires for their position, plus any number of redundant parentheses).  The theorems below are about the
  code-shaped recursive-descent model `pIf` (Impl/Parser.lean, compared with the LALRPOP parser on every
  correspondence case): every rendering of every tree parses back to exactly that tree.  Associativity, relative
  precedence, `in` = flipped `contains`, non-chaining and "parentheses only group" are instances.

  Fuel: the model's parser is fuel-indexed (structural recursion).  `Lemmas/Fuel.lean` proves that the fuel
  `parseFuel T = 14 * (|T| + 2)` used by the executable `parseToks` is sufficient for every token list (one more unit
  of fuel never changes any result from there on), so "for every sufficiently large fuel" and "for `parseToks`" are
  the same statement (`fuel_is_sufficient`, `parsesTo_iff_parseToks`, `parseToks_iff_derived`).
-/
import RevalModel.Lemmas.RoundTrip
import RevalModel.Lemmas.ParseComplete
import RevalModel.Lemmas.Fuel

namespace Reval.C07
open Reval.G

/-- "for every sufficiently large fuel, parsing `T` consumes it entirely and returns `e`" -/
def ParsesTo (o : Oracle) (T : List Tok) (e : Expr) : Prop := ∃ f0, ∀ f, f0 ≤ f → pIf o f T = .ok e []

/-- **the tree of every derivation is returned**: whatever tree `e` and whatever rendering `T` of it under the
    table (minimal, full or any redundant parenthesisation), the parser accepts `T` and returns `e` -/
theorem renderings_parse_back (o : Oracle) (e : Expr) (T : List Tok) (h : R o 0 e T) :
    ParsesTo o T e := parse_render h

/-- **only derivations are accepted**: if the parser, at any fuel, consumes all of `T` and returns `e`, then `T` is a
    rendering of `e` under the table -/
theorem accepted_is_derived (o : Oracle) (f : Nat) (e : Expr) (T : List Tok) (h : pIf o f T = .ok e []) : R o 0 e T :=
  parse_sound h

/-- **a token sequence is accepted exactly when the table grammar derives it, with that tree** -/
theorem accepted_iff_derived (o : Oracle) (e : Expr) (T : List Tok) : (∃ f, pIf o f T = .ok e []) ↔ R o 0 e T := by
  constructor
  · intro ⟨f, h⟩; exact parse_sound h
  · intro h; obtain ⟨f0, p⟩ := parse_render h; exact ⟨f0, p f0 (Nat.le_refl _)⟩

/-- what `parseToks` (the parser with its own fuel) returns is derived by the table, and acceptance at one fuel is
    acceptance with the same tree at every larger one -/
theorem parseToks_is_derived (o : Oracle) (e : Expr) (T : List Tok) (h : parseToks o T = .ok e []) :
    R o 0 e T ∧ ParsesTo o T e := by
  have h' : pIf o (parseFuel T) T = .ok e [] := by
    unfold parseToks at h
    split at h <;> first | exact (by simp_all) | cases h
  exact ⟨parse_sound h', parse_render (parse_sound h')⟩

/-- **the fuel is sufficient**: for every token list, every fuel from `parseFuel T` on gives the same result — tree,
    rejection, or declined literal — as `parseFuel T` itself -/
theorem fuel_is_sufficient (o : Oracle) (T : List Tok) (f : Nat) (h : parseFuel T ≤ f) :
    pIf o f T = pIf o (parseFuel T) T := pIf_fuel_enough o T f h

theorem parseToks_ok_iff (o : Oracle) (e : Expr) (T : List Tok) :
    parseToks o T = .ok e [] ↔ pIf o (parseFuel T) T = .ok e [] := by
  unfold parseToks
  constructor
  · intro h; split at h <;> first | exact (by simp_all) | cases h
  · intro h; rw [h]

/-- "parses to `e` at every sufficiently large fuel" is "the executable parser returns `e`" -/
theorem parsesTo_iff_parseToks (o : Oracle) (e : Expr) (T : List Tok) : ParsesTo o T e ↔ parseToks o T = .ok e [] := by
  rw [parseToks_ok_iff]; exact eventually_iff_parseFuel o T _

/-- **the executable parser accepts a token sequence exactly when the table grammar derives it, and returns the tree
    of that (unique) derivation** — no fuel in the statement -/
theorem parseToks_iff_derived (o : Oracle) (e : Expr) (T : List Tok) : parseToks o T = .ok e [] ↔ R o 0 e T := by
  rw [← parsesTo_iff_parseToks]
  constructor
  · intro ⟨f0, h⟩; exact parse_sound (h f0 (Nat.le_refl _))
  · exact parse_render

/-- a token list that no tree renders is not accepted: whatever `parseToks` answers, it is not a tree -/
theorem underivable_is_not_accepted (o : Oracle) (T : List Tok) (h : ∀ e, ¬ R o 0 e T) (e : Expr) :
    parseToks o T ≠ .ok e [] := fun hp => h e ((parseToks_iff_derived o e T).1 hp)

/-- **unique derivation**: a token list renders at most one tree -/
theorem derivation_unique (o : Oracle) (e1 e2 : Expr) (T : List Tok)
    (h1 : R o 0 e1 T) (h2 : R o 0 e2 T) : e1 = e2 := by
  obtain ⟨f1, p1⟩ := parse_render h1
  obtain ⟨f2, p2⟩ := parse_render h2
  have a := p1 (f1 + f2) (by omega)
  have b := p2 (f1 + f2) (by omega)
  rw [a] at b
  cases b; rfl

/-- **parentheses only group**: wrapping a rendering in parentheses, at any position level, renders the same tree -/
theorem parentheses_only_group (o : Oracle) (k : Nat) (e : Expr) (T : List Tok) (h : R o 0 e T) :
    R o k e (lp :: (T ++ [rp])) := R.paren k e T h

/-- **every binary level is left-associative**: `a ∘₁ b ∘₂ c` with both operators of level `k` is `(a ∘₁ b) ∘₂ c` -/
theorem left_associative (o : Oracle) (k : Nat) (t1 t2 : Tok) (mk1 mk2 : Expr → Expr → Expr)
    (a b c : Expr) (Ta Tb Tc : List Tok) (h1 : 1 ≤ k) (h5 : k ≤ 5)
    (o1 : binOpAt k t1 = some mk1) (o2 : binOpAt k t2 = some mk2)
    (ha : R o (k + 1) a Ta) (hb : R o (k + 1) b Tb) (hc : R o (k + 1) c Tc) :
    ParsesTo o ((Ta ++ t1 :: Tb) ++ t2 :: Tc) (mk2 (mk1 a b) c) := by
  have hk := (binOpAt_tok o1).2.2.2.2.2.2
  -- a rendering at level k+1 is one at level k
  have ha' : R o k a Ta := by
    cases ha with
    | bare _ _ _ hl hbody => exact R.bare k a Ta (by omega) hbody
    | paren _ _ T h => exact R.paren k a T h
  have inner : R o k (mk1 a b) (Ta ++ t1 :: Tb) :=
    R.bare k _ _ (by rw [hk]; exact Nat.le_refl k) (Body.bin k t1 mk1 a b Ta Tb h1 h5 o1 ha' hb)
  exact parse_render (R.bare 0 _ _ (Nat.zero_le _) (Body.bin k t2 mk2 (mk1 a b) c _ Tc h1 h5 o2 inner hc))

/-- **a tighter level binds first, on either side**: with `∘ⱼ` tighter than `∘ₖ`,
    `a ∘ₖ b ∘ⱼ c = a ∘ₖ (b ∘ⱼ c)` and `a ∘ⱼ b ∘ₖ c = (a ∘ⱼ b) ∘ₖ c` -/
theorem tighter_binds_first (o : Oracle) (k j : Nat) (tk tj : Tok) (mkk mkj : Expr → Expr → Expr)
    (a b c : Expr) (Ta Tb Tc : List Tok) (h1 : 1 ≤ k) (hkj : k < j) (h5 : j ≤ 5)
    (ok : binOpAt k tk = some mkk) (oj : binOpAt j tj = some mkj)
    (ha : R o (j + 1) a Ta) (hb : R o (j + 1) b Tb) (hc : R o (j + 1) c Tc) :
    ParsesTo o (Ta ++ tk :: (Tb ++ tj :: Tc)) (mkk a (mkj b c)) ∧
    ParsesTo o ((Ta ++ tj :: Tb) ++ tk :: Tc) (mkk (mkj a b) c) := by
  have hj := (binOpAt_tok oj).2.2.2.2.2.2
  have weaken : ∀ {x : Expr} {T : List Tok} (m : Nat), m ≤ j + 1 → R o (j + 1) x T → R o m x T := by
    intro x T m hm h
    cases h with
    | bare _ _ _ hl hbody => exact R.bare m x T (by omega) hbody
    | paren _ _ T h => exact R.paren m x T h
  have right : ∀ m, m ≤ j → R o m (mkj b c) (Tb ++ tj :: Tc) := fun m hm =>
    R.bare m _ _ (by rw [hj]; exact hm) (Body.bin j tj mkj b c Tb Tc (by omega) h5 oj (weaken j (by omega) hb) hc)
  have left : ∀ m, m ≤ j → R o m (mkj a b) (Ta ++ tj :: Tb) := fun m hm =>
    R.bare m _ _ (by rw [hj]; exact hm) (Body.bin j tj mkj a b Ta Tb (by omega) h5 oj (weaken j (by omega) ha) hb)
  exact ⟨parse_render (R.bare 0 _ _ (Nat.zero_le _) (Body.bin k tk mkk a (mkj b c) Ta _ h1 (by omega) ok (weaken k (by omega) ha) (right (k + 1) (by omega)))),
    parse_render (R.bare 0 _ _ (Nat.zero_le _) (Body.bin k tk mkk (mkj a b) c _ Tc h1 (by omega) ok (left k (by omega)) (weaken (k + 1) (by omega) hc)))⟩

/-- **`x in y` means `y contains x`** -/
theorem in_is_flipped_contains (o : Oracle) (x y : Expr) (Tx Ty : List Tok)
    (hx : R o 8 x Tx) (hy : R o 8 y Ty) :
    ParsesTo o (Tx ++ kwIn :: Ty) (.bin .contains y x) ∧ ParsesTo o (Ty ++ kwContains :: Tx) (.bin .contains y x) :=
  ⟨parse_render (R.bare 0 _ _ (Nat.zero_le _) (Body.isIn y x Ty Tx hy hx)),
   parse_render (R.bare 0 _ _ (Nat.zero_le _) (Body.contains y x Ty Tx hy hx))⟩

/-- **contains / in cannot be chained**: after `a contains b` the parser stops in front of a second `contains` or
    `in` — the text is not consumed, so `parseToks` rejects it (`contains_chain_rejected`) -/
theorem contains_stops (o : Oracle) (a b : Expr) (Ta Tb rest : List Tok) (t2 : Tok)
    (ht : t2 = kwContains ∨ t2 = kwIn) (ha : R o 8 a Ta) (hb : R o 8 b Tb) :
    ∃ f0, ∀ f, f0 ≤ f → pIf o f ((Ta ++ kwContains :: Tb) ++ t2 :: rest) = .ok (.bin .contains a b) (t2 :: rest) := by
  have hP8 : Pk o 8 = PIdx o := by simp [Pk]
  have sa := (R_sound ha)
  have sb := (R_sound hb)
  have hl : PIdx o (Ta ++ kwContains :: (Tb ++ t2 :: rest)) a (kwContains :: (Tb ++ t2 :: rest)) :=
    hP8 ▸ sa.1 _ a _ (Fol8_kw (Or.inl rfl) _) (Lk8_stop_kw (Or.inl rfl) a _)
  have hr : PIdx o (Tb ++ t2 :: rest) b (t2 :: rest) :=
    hP8 ▸ sb.1 _ b _ (Fol8_kw ht _) (Lk8_stop_kw ht b _)
  have h6 : PCont o (Ta ++ kwContains :: (Tb ++ t2 :: rest)) (.bin .contains a b) (t2 :: rest) :=
    PCont_tail (FirstGE_no_unary sa.2 _) (PContTail_contains hl hr)
  have hnone : ∀ k, binOpAt k t2 = none := by
    intro k
    rcases ht with rfl | rfl
    · unfold binOpAt kwContains; split <;> first | rfl | (rename_i hq; cases hq <;> simp)
    · unfold binOpAt kwIn; split <;> first | rfl | (rename_i hq; cases hq <;> simp)
  have stop : ∀ k, LBin o k (.bin .contains a b) (t2 :: rest) (.bin .contains a b) (t2 :: rest) := fun k =>
    LBin_stop (fun t r e => by obtain ⟨rfl, _⟩ := List.cons.inj e; exact hnone k)
  have h5 := PBin_step (by omega : 5 < 6) (PBin_six (Nat.le_refl 6) h6) (stop 5)
  have h4 := PBin_step (by omega : 4 < 6) h5 (stop 4)
  have h3 := PBin_step (by omega : 3 < 6) h4 (stop 3)
  have h2 := PBin_step (by omega : 2 < 6) h3 (stop 2)
  have h1 := PBin_step (by omega : 1 < 6) h2 (stop 1)
  obtain ⟨t, r, hT, hIf, _, _⟩ := FirstGE_mono sa.2 (by omega : 1 ≤ 8)
  have h0 := PIf_of_bin (ts := Ta ++ kwContains :: (Tb ++ t2 :: rest)) (fun r' e => by
    rw [hT] at e; exact hIf (Nat.le_refl 1) (List.cons.inj e).1) h1
  simpa [PIf] using h0

/-- alternative spellings denote the same node -/
theorem synonyms :
    binOpAt 2 (.p ['=']) = binOpAt 2 (.p ['=', '=']) ∧
    funcOfKw ['i', 's', '_', 's', 'o', 'm', 'e'] = funcOfKw ['s', 'o', 'm', 'e'] ∧
    funcOfKw ['i', 's', '_', 'n', 'o', 'n', 'e'] = funcOfKw ['n', 'o', 'n', 'e'] ∧
    funcOfKw ['d', 'a', 't', 'e', '_', 't', 'i', 'm', 'e'] = funcOfKw ['d', 'a', 't', 'e', 't', 'i', 'm', 'e'] ∧
    funcOfKw ['t', 'o', '_', 'u', 'p', 'p', 'e', 'r'] = funcOfKw ['u', 'p', 'p', 'e', 'r', 'c', 'a', 's', 'e'] ∧
    funcOfKw ['t', 'o', '_', 'l', 'o', 'w', 'e', 'r'] = funcOfKw ['l', 'o', 'w', 'e', 'r', 'c', 'a', 's', 'e'] := by
  refine ⟨?_, ?_, ?_, ?_, ?_, ?_⟩ <;> simp [binOpAt, eqOpOf, funcOfKw]

/-- the table: each operator token belongs to exactly one level, and that level is the level of the node it builds -/
theorem operator_has_one_level (k : Nat) (t : Tok) (mk : Expr → Expr → Expr) (h : binOpAt k t = some mk) :
    1 ≤ k ∧ k ≤ 5 ∧ (∀ j, j ≠ k → binOpAt j t = none) ∧ ∀ l r, lvl (mk l r) = k :=
  ⟨(binOpAt_tok h).1, (binOpAt_tok h).2.1, binOpAt_other h, (binOpAt_tok h).2.2.2.2.2.2⟩

/-! ### the hypotheses are satisfiable; concrete texts -/

private def ta : Tok := .ident ['a']
private def tb : Tok := .ident ['b']
private def tc : Tok := .ident ['c']

/-- `a + b * c` is a rendering of `a + (b * c)` -/
example (o : Oracle) :
    R o 0 (.bin .add (.ref ['a']) (.bin .mult (.ref ['b']) (.ref ['c']))) [ta, .p ['+'], tb, .p ['*'], tc] :=
  R.bare 0 _ _ (Nat.zero_le _) (Body.bin 3 (.p ['+']) (Expr.bin .add) _ _ [ta] [tb, .p ['*'], tc] (by omega) (by omega)
    (by simp [binOpAt, addOpOf]) (R.bare 3 _ _ (by simp [lvl]) (Body.ref ['a']))
    (R.bare 4 _ _ (by simp [lvl, binLvl]) (Body.bin 4 (.p ['*']) (Expr.bin .mult) _ _ [tb] [tc] (by omega) (by omega)
      (by simp [binOpAt, multOpOf]) (R.bare 4 _ _ (by simp [lvl]) (Body.ref ['b'])) (R.bare 5 _ _ (by simp [lvl]) (Body.ref ['c'])))))

/-- … and the parser with its own fuel returns exactly that tree; `a - b - c` is `(a - b) - c`;
    `a contains b contains c` is rejected -/
example : parseToks Oracle.empty [ta, .p ['+'], tb, .p ['*'], tc] =
    .ok (.bin .add (.ref ['a']) (.bin .mult (.ref ['b']) (.ref ['c']))) [] := by rfl
example : parseToks Oracle.empty [ta, .p ['-'], tb, .p ['-'], tc] =
    .ok (.bin .sub (.bin .sub (.ref ['a']) (.ref ['b'])) (.ref ['c'])) [] := by rfl
example : parseToks Oracle.empty [ta, kwContains, tb, kwContains, tc] = .error := by rfl

end Reval.C07
