/-
  Props/C09.lean — a ruleset yields one outcome per rule, in order, each isolated from the others.
  (The clause about `evaluate(&T)` = serialize, then `evaluate_value` is in Props/C13 once the
  serializer is modelled; see `evaluate_factors` there.)
-/
import RevalModel.Lemmas.Denote
import RevalModel.Props.C13

namespace Reval.C09

theorem evalRules_length (env : Env) : ∀ (rules : List Expr) (i : Nat) (st : St),
    (evalRules env i rules st).1.length = rules.length := by
  intro rules
  induction rules with
  | nil => intro i st; simp [evalRules]
  | cons e es ih => intro i st; simp [evalRules, ih]

/-- exactly one outcome per rule -/
theorem outcomes_length (env : Env) (rules : List Expr) : (evaluateValue env rules).1.length = rules.length :=
  evalRules_length env rules 0 St.init

/-- in the order the rules were added: the first outcome is the first rule's result (on the fresh cache), the
    rest are the outcomes of the remaining rules evaluated in the state the first one left — whether or not
    the first one failed -/
theorem outcomes_order (env : Env) (e : Expr) (es : List Expr) (i : Nat) (st : St) :
    (evalRules env i (e :: es) st).1 =
      (eval env [i] e st).1 :: (evalRules env (i + 1) es (eval env [i] e st).2.1).1 := by
  simp [evalRules]

/-- with deterministic functions every outcome is the result of evaluating that rule's expression on its own:
    the state-free denotation — independent of the other rules, of their failures and of the cache -/
theorem outcome_standalone (env : Env) (hd : Deterministic env) (rules : List Expr) :
    (evaluateValue env rules).1 = rules.map (denote env) :=
  evalRules_denote env hd rules 0 St.init (consistent_init env)

/-- … which is also what evaluating the rule alone (fresh cache) gives -/
theorem standalone_is_eval_alone (env : Env) (hd : Deterministic env) (e : Expr) :
    (eval env [] e St.init).1 = denote env e :=
  (eval_denote env hd [] e St.init (consistent_init env)).1

/-- isolation: replacing, adding or removing *other* rules (failing or not) leaves rule k's outcome unchanged -/
theorem isolation (env : Env) (hd : Deterministic env) (pre pre' post post' : List Expr) (e : Expr)
    (hlen : pre.length = pre'.length) :
    (evaluateValue env (pre ++ e :: post)).1[pre.length]? = (evaluateValue env (pre' ++ e :: post')).1[pre'.length]? := by
  rw [outcome_standalone env hd, outcome_standalone env hd]
  simp [hlen]

/-- a failing rule yields an error outcome and the evaluation goes on: the outcome list still has one entry per rule -/
theorem failure_does_not_stop (env : Env) (e : Expr) (es : List Expr) (x : Err) (st1 : St) (ev : List Event)
    (h : eval env [0] e St.init = (.err x, st1, ev)) :
    (evaluateValue env (e :: es)).1 = .err x :: (evalRules env 1 es st1).1 ∧
    (evaluateValue env (e :: es)).1.length = es.length + 1 := by
  constructor
  · simp [evaluateValue, evalRules, h]
  · simpa using outcomes_length env (e :: es)

/-- the k-th outcome is the k-th rule's own result, for every position -/
theorem outcome_at (env : Env) (hd : Deterministic env) (rules : List Expr) (k : Nat) :
    (evaluateValue env rules).1[k]? = (rules[k]?).map (denote env) := by
  rw [outcome_standalone env hd]; simp

/-- evaluating two groups of rules in one ruleset gives the outcomes of the first group followed by those of the
    second: nothing of one group leaks into the other -/
theorem outcomes_append (env : Env) (hd : Deterministic env) (rs1 rs2 : List Expr) :
    (evaluateValue env (rs1 ++ rs2)).1 = (evaluateValue env rs1).1 ++ (evaluateValue env rs2).1 := by
  simp [outcome_standalone env hd]

/-- reordering the rules reorders the outcomes in the same way and changes none of them -/
theorem outcomes_reorder (env : Env) (hd : Deterministic env) (rules rules' : List Expr) (h : rules.Perm rules') :
    (evaluateValue env rules).1.Perm (evaluateValue env rules').1 := by
  rw [outcome_standalone env hd, outcome_standalone env hd]; exact h.map _

/-- the same expression added twice yields the same outcome twice, wherever the two copies stand -/
theorem same_rule_same_outcome (env : Env) (hd : Deterministic env) (rules : List Expr) (i j : Nat) (e : Expr)
    (hi : rules[i]? = some e) (hj : rules[j]? = some e) :
    (evaluateValue env rules).1[i]? = (evaluateValue env rules).1[j]? := by
  rw [outcome_at env hd, outcome_at env hd, hi, hj]

/-! non-vacuity -/
example :
    (evaluateValue ⟨.map [(['x'], .int 5)], [], [], Oracle.empty⟩
      [.bin .div (.lit (.int 1)) (.lit (.int 0)), .ref ['x'], .ref ['y']]).1
      = [.err .divByZero, .ok (.int 5), .err (.unknownRef ['y'])] := by decide

end Reval.C09
