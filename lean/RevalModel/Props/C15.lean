/-
  Props/C15.lean — a ruleset never holds duplicate or ill-formed rule and function names.
-/
import RevalModel.Impl.Builder
import RevalModel.Lemmas.Sorted
import RevalModel.Lemmas.Resolve
import RevalModel.Lemmas.SortedMap

namespace Reval.C15

/-- the property's notion of a well-formed identifier: non-empty, starts with `_` or an XID_Start character,
    continues with XID_Continue characters only -/
def wellFormed (x : Xid) (n : Str) : Prop :=
  ∃ c rest, n = c :: rest ∧ (c = '_' ∨ x.start c = true) ∧ ∀ d ∈ rest, x.cont d = true

theorem valid_iff_wellFormed (x : Xid) (n : Str) : isValidIdentifier x n = true ↔ wellFormed x n := by
  cases n with
  | nil => simp [isValidIdentifier, wellFormed]
  | cons c rest =>
    simp only [isValidIdentifier, wellFormed, Bool.and_eq_true, Bool.or_eq_true, beq_iff_eq, List.all_eq_true]
    constructor
    · intro ⟨h1, h2⟩; exact ⟨c, rest, rfl, h1, h2⟩
    · intro ⟨c', rest', he, h1, h2⟩; cases he; exact ⟨h1, h2⟩

/-- adding a rule succeeds exactly when no rule of that name was added before; a refusal reports the name;
    on success the rule is appended (order of addition is kept) -/
theorem with_rule_iff (s : BState) (r : RuleM) :
    (r.name ∉ s.rules.map RuleM.name → withRule s r = .ok { s with rules := s.rules ++ [r] }) ∧
    (r.name ∈ s.rules.map RuleM.name → withRule s r = .error (.duplicateRuleName r.name)) := by
  unfold withRule
  constructor
  · intro h
    have : s.rules.any (fun q => decide (q.name = r.name)) = false := by
      simp only [List.any_eq_false, decide_eq_true_eq]
      intro q hq he; exact h (List.mem_map.2 ⟨q, hq, he⟩)
    simp [this]
  · intro h
    obtain ⟨q, hq, he⟩ := List.mem_map.1 h
    have : s.rules.any (fun q => decide (q.name = r.name)) = true := by
      simp only [List.any_eq_true, decide_eq_true_eq]; exact ⟨q, hq, he⟩
    simp [this]

/-- adding a user function succeeds exactly when its name is a well-formed identifier, is not a reserved word
    and was not added before; a refusal reports the offending name -/
theorem with_function_iff (x : Xid) (s : BState) (f : Str × FnModel) :
    (wellFormed x f.1 → f.1 ∉ KEYWORDS → lookup s.fns f.1 = none →
      withFunction x s f = .ok { s with fns := insertSorted f.1 f.2 s.fns }) ∧
    (f.1 ∈ KEYWORDS → withFunction x s f = .error (.invalidFunctionName f.1)) ∧
    (¬ wellFormed x f.1 → withFunction x s f = .error (.invalidFunctionName f.1)) ∧
    (wellFormed x f.1 → f.1 ∉ KEYWORDS → (lookup s.fns f.1).isSome = true →
      withFunction x s f = .error (.duplicateFunctionName f.1)) := by
  refine ⟨?_, ?_, ?_, ?_⟩
  · intro hw hk hl
    have hv := (valid_iff_wellFormed x f.1).2 hw
    simp [withFunction, addFunction, isReservedKeyword, hk, hv, hl]
  · intro hk
    simp [withFunction, addFunction, isReservedKeyword, hk]
  · intro hw
    have hv : isValidIdentifier x f.1 = false := by
      cases h : isValidIdentifier x f.1 with
      | false => rfl
      | true => exact absurd ((valid_iff_wellFormed x f.1).1 h) hw
    by_cases hk : f.1 ∈ KEYWORDS <;> simp [withFunction, addFunction, isReservedKeyword, hk, hv]
  · intro hw hk hl
    have hv := (valid_iff_wellFormed x f.1).2 hw
    simp [withFunction, addFunction, isReservedKeyword, hk, hv, hl]

/-- the invariant: rule names distinct; every stored function name is well-formed and not reserved -/
def BInv (x : Xid) (s : BState) : Prop :=
  (s.rules.map RuleM.name).Nodup ∧ ∀ n fm, lookup s.fns n = some fm → wellFormed x n ∧ n ∉ KEYWORDS

theorem inv_init (x : Xid) : BInv x BState.init := by
  simp [BInv, BState.init, lookup]

theorem withRule_inv (x : Xid) (s s' : BState) (r : RuleM) (h : BInv x s) (hs : withRule s r = .ok s') : BInv x s' := by
  by_cases hm : r.name ∈ s.rules.map RuleM.name
  · rw [(with_rule_iff s r).2 hm] at hs; cases hs
  · rw [(with_rule_iff s r).1 hm] at hs; cases hs
    refine ⟨?_, h.2⟩
    simp only [List.map_append, List.map_cons, List.map_nil]
    exact List.nodup_append.2 ⟨h.1, by simp, by intro a ha b hb; simp at hb; subst hb; exact fun e => hm (e ▸ ha)⟩

theorem withFunction_inv (x : Xid) (s s' : BState) (f : Str × FnModel) (h : BInv x s) (hs : withFunction x s f = .ok s') :
    BInv x s' := by
  simp only [withFunction, addFunction] at hs
  split at hs <;> try (cases hs; done)
  rename_i fns hadd
  cases hs
  split at hadd <;> try (cases hadd; done)
  rename_i hk
  split at hadd <;> try (cases hadd; done)
  rename_i hv
  split at hadd <;> try (cases hadd; done)
  cases hadd
  refine ⟨h.1, ?_⟩
  intro n fm hl
  by_cases hn : n = f.1
  · subst hn
    refine ⟨(valid_iff_wellFormed x _).1 (by simpa using hv), ?_⟩
    simpa [isReservedKeyword] using hk
  · rw [lookup_insertSorted_other _ _ _ _ hn] at hl
    exact h.2 n fm hl

theorem withRules_inv (x : Xid) : ∀ (rs : List RuleM) (s s' : BState), BInv x s → withRules s rs = .ok s' → BInv x s' := by
  intro rs
  induction rs with
  | nil => intro s s' h hs; simp [withRules] at hs; subst hs; exact h
  | cons r rs ih =>
    intro s s' h hs
    simp only [withRules] at hs
    split at hs <;> try (cases hs; done)
    rename_i s1 h1
    exact ih s1 s' (withRule_inv x s s1 r h h1) hs

theorem withFunctions_inv (x : Xid) : ∀ (fs : List (Str × FnModel)) (s s' : BState), BInv x s → withFunctions x s fs = .ok s' → BInv x s' := by
  intro fs
  induction fs with
  | nil => intro s s' h hs; simp [withFunctions] at hs; subst hs; exact h
  | cons f fs ih =>
    intro s s' h hs
    simp only [withFunctions] at hs
    split at hs <;> try (cases hs; done)
    rename_i s1 h1
    exact ih s1 s' (withFunction_inv x s s1 f h h1) hs

theorem inv_step (x : Xid) (s s' : BState) (op : BOp) (h : BInv x s) (hs : bstep x s op = .ok s') : BInv x s' := by
  cases op with
  | rule r => exact withRule_inv x s s' r h hs
  | rules rs => exact withRules_inv x rs s s' h hs
  | fn f => exact withFunction_inv x s s' f h hs
  | fns fs => exact withFunctions_inv x fs s s' h hs
  | sym k v => simp [bstep, withSymbol] at hs; subst hs; exact h
  | syms t => simp [bstep, withSymbols] at hs; subst hs; exact h

/-- for every sequence of builder calls: whatever was built satisfies the invariant -/
theorem inv_reachable (x : Xid) : ∀ (ops : List BOp) (s s' : BState), BInv x s → brun x s ops = .ok s' → BInv x s' := by
  intro ops
  induction ops with
  | nil => intro s s' h hs; simp [brun] at hs; subst hs; exact h
  | cons op ops ih =>
    intro s s' h hs
    simp only [brun] at hs
    split at hs <;> try (cases hs; done)
    rename_i s1 h1
    exact ih s1 s' (inv_step x s s1 op h h1) hs

theorem built_ruleset_is_well_formed (x : Xid) (ops : List BOp) (s : BState) (h : brun x BState.init ops = .ok s) :
    (s.rules.map RuleM.name).Nodup ∧ ∀ n fm, lookup s.fns n = some fm → wellFormed x n ∧ n ∉ KEYWORDS :=
  inv_reachable x ops BState.init s (inv_init x) h

/-! ### each name once: the function and symbol tables stay strictly key-ordered -/

/-- both tables strictly increasing in their keys (the `BTreeMap` invariant, here a consequence of the builder's steps) -/
def BSorted (s : BState) : Prop := KeysSorted s.fns ∧ KeysSorted s.symbols

theorem withRule_tables (s s' : BState) (r : RuleM) (h1 : withRule s r = .ok s') : s'.fns = s.fns ∧ s'.symbols = s.symbols := by
  simp only [withRule] at h1
  split at h1 <;> try (cases h1; done)
  simp only [Except.ok.injEq] at h1
  subst h1
  exact ⟨rfl, rfl⟩

theorem withRules_tables : ∀ (rs : List RuleM) (s s' : BState), withRules s rs = .ok s' → s'.fns = s.fns ∧ s'.symbols = s.symbols := by
  intro rs
  induction rs with
  | nil => intro s s' hs; simp [withRules] at hs; subst hs; exact ⟨rfl, rfl⟩
  | cons r rs ih =>
    intro s s' hs
    simp only [withRules] at hs
    split at hs <;> try (cases hs; done)
    rename_i s1 h1
    have a := withRule_tables s s1 r h1
    have b := ih s1 s' hs
    exact ⟨b.1.trans a.1, b.2.trans a.2⟩

theorem withFunction_sorted (x : Xid) (s s' : BState) (f : Str × FnModel) (h : BSorted s) (hs : withFunction x s f = .ok s') :
    BSorted s' := by
  simp only [withFunction, addFunction] at hs
  split at hs <;> try (cases hs; done)
  rename_i fns hf
  simp only [Except.ok.injEq] at hs
  subst hs
  split at hf <;> try (cases hf; done)
  split at hf <;> try (cases hf; done)
  split at hf <;> try (cases hf; done)
  simp only [Except.ok.injEq] at hf
  subst hf
  exact ⟨keysSorted_insert _ _ _ h.1, h.2⟩

theorem withFunctions_sorted (x : Xid) : ∀ (fs : List (Str × FnModel)) (s s' : BState), BSorted s → withFunctions x s fs = .ok s' → BSorted s' := by
  intro fs
  induction fs with
  | nil => intro s s' h hs; simp [withFunctions] at hs; subst hs; exact h
  | cons f fs ih =>
    intro s s' h hs
    simp only [withFunctions] at hs
    split at hs <;> try (cases hs; done)
    rename_i s1 h1
    exact ih s1 s' (withFunction_sorted x s s1 f h h1) hs

theorem sorted_step (x : Xid) (s s' : BState) (op : BOp) (h : BSorted s) (hs : bstep x s op = .ok s') : BSorted s' := by
  cases op with
  | rule r =>
    have := withRule_tables s s' r hs
    unfold BSorted; rw [this.1, this.2]; exact h
  | rules rs =>
    have := withRules_tables rs s s' hs
    unfold BSorted; rw [this.1, this.2]; exact h
  | fn f => exact withFunction_sorted x s s' f h hs
  | fns fs => exact withFunctions_sorted x fs s s' h hs
  | sym k v => simp [bstep, withSymbol] at hs; subst hs; exact ⟨h.1, keysSorted_insert _ _ _ h.2⟩
  | syms t => simp [bstep, withSymbols] at hs; subst hs; exact ⟨h.1, keysSorted_foldl _ _ h.2⟩

theorem sorted_reachable (x : Xid) : ∀ (ops : List BOp) (s s' : BState), BSorted s → brun x s ops = .ok s' → BSorted s' := by
  intro ops
  induction ops with
  | nil => intro s s' h hs; simp [brun] at hs; subst hs; exact h
  | cons op ops ih =>
    intro s s' h hs
    simp only [brun] at hs
    split at hs <;> try (cases hs; done)
    rename_i s1 h1
    exact ih s1 s' (sorted_step x s s1 op h h1) hs

theorem keysSorted_nodup {α} (m : List (Str × α)) (h : KeysSorted m) : (m.map Prod.fst).Nodup := by
  unfold KeysSorted at h
  rw [List.Nodup, List.pairwise_map]
  exact h.imp (fun {a b} hab e => by rw [e, Str.lt_irrefl] at hab; cases hab)

/-- for every sequence of builder calls: the built ruleset holds every function name and every symbol name once — the tables are
    strictly ordered by name, so no two entries share a key, whatever was added, re-registered or refused on the way -/
theorem built_tables_hold_each_name_once (x : Xid) (ops : List BOp) (s : BState) (h : brun x BState.init ops = .ok s) :
    (s.fns.map Prod.fst).Nodup ∧ (s.symbols.map Prod.fst).Nodup := by
  have hs := sorted_reachable x ops BState.init s ⟨List.Pairwise.nil, List.Pairwise.nil⟩ h
  exact ⟨keysSorted_nodup _ hs.1, keysSorted_nodup _ hs.2⟩

/-- an accepted function is invocable under its own name (and it is that function that is invoked) -/
theorem function_invocable_under_own_name (x : Xid) (s s' : BState) (f : Str × FnModel) (facts a : Value) (o : Oracle)
    (st : St) (hs : withFunction x s f = .ok s') (hnc : f.2.cacheable = false) :
    lookup s'.fns f.1 = some f.2 ∧
    callFn (s'.env facts o) f.1 a st = invokeFn f.2 f.1 a st := by
  simp only [withFunction, addFunction] at hs
  split at hs <;> try (cases hs; done)
  rename_i fns hadd
  cases hs
  split at hadd <;> try (cases hadd; done)
  split at hadd <;> try (cases hadd; done)
  split at hadd <;> try (cases hadd; done)
  cases hadd
  have hl := lookup_insertSorted_self f.1 f.2 s.fns
  exact ⟨hl, by simp [callFn, BState.env, hl, hnc]⟩

/-- functions accepted earlier stay (under their own names) when another one is added -/
theorem earlier_functions_kept (x : Xid) (s s' : BState) (f : Str × FnModel) (n : Str)
    (hs : withFunction x s f = .ok s') (hn : n ≠ f.1) : lookup s'.fns n = lookup s.fns n := by
  simp only [withFunction, addFunction] at hs
  split at hs <;> try (cases hs; done)
  rename_i fns hadd
  cases hs
  split at hadd <;> try (cases hadd; done)
  split at hadd <;> try (cases hadd; done)
  split at hadd <;> try (cases hadd; done)
  cases hadd
  exact lookup_insertSorted_other _ _ _ _ hn

/-- a symbol resolves to the value most recently registered under its name; other names are untouched -/
theorem symbol_last_wins (s : BState) (k k' : Str) (v : Value) (hk : k' ≠ k) :
    lookup (withSymbol s k v).symbols k = some v ∧
    lookup (withSymbol s k v).symbols k' = lookup s.symbols k' := by
  simp [withSymbol, lookup_insertSorted_self, lookup_insertSorted_other _ _ _ _ hk]

theorem symbols_table_last_wins (s : BState) : ∀ (t : List (Str × Value)) (k : Str),
    lookup (withSymbols s t).symbols k =
      match t.reverse.find? (fun kv => kv.1 = k) with
      | some kv => some kv.2
      | none => lookup s.symbols k := by
  intro t
  simp only [withSymbols]
  generalize s.symbols = m
  induction t generalizing m with
  | nil => intro k; simp
  | cons kv t ih =>
    intro k
    simp only [List.foldl_cons]
    rw [ih]
    simp only [List.reverse_cons, List.find?_append]
    cases hfind : t.reverse.find? (fun kv => kv.1 = k) with
    | some kv' => simp
    | none =>
      simp only [Option.none_or, List.find?_cons, List.find?_nil]
      by_cases hk : kv.1 = k
      · subst hk; simp [lookup_insertSorted_self]
      · simp [hk, lookup_insertSorted_other _ _ _ _ (Ne.symm hk)]

/-! non-vacuity -/
def asciiXid : Xid :=
  ⟨fun c => ('a' ≤ c && c ≤ 'z') || ('A' ≤ c && c ≤ 'Z'),
   fun c => ('a' ≤ c && c ≤ 'z') || ('A' ≤ c && c ≤ 'Z') || ('0' ≤ c && c ≤ '9') || c == '_'⟩
example : isValidIdentifier asciiXid "_a b".toList = false ∧ isValidIdentifier asciiXid "_-".toList = false ∧
    isValidIdentifier asciiXid "_id1".toList = true ∧ isValidIdentifier asciiXid "1id".toList = false ∧
    isValidIdentifier asciiXid [] = false := by decide
example : isReservedKeyword "if".toList = true ∧ isReservedKeyword "val".toList = true ∧ isReservedKeyword "iff".toList = false := by decide

end Reval.C15
