/-
  Props/C16.lean — printing a parsed expression gives text that parses back to the same expression.

  `G.dispToks` (Spec/Printer.lean) is `impl Display for Expr` at the token level.  Proved here, for every tree:
  the printed tokens are a rendering of the tree under the precedence table (every operand the grammar would regroup
  is parenthesised), so — by the round-trip theorem of C07 — they parse back to exactly that tree, and to no other.

  `display_roundtrip_partial` is stated on tokens; `display_roundtrip_text` is the character-level statement: the
  *characters* `Display` writes (`Disp.showExpr`, compared with the real `to_string()` on every correspondence case)
  lex to exactly `dispToks` (`text_lexes_to_printed_tokens`, Lemmas/LexCompose + LexShow: the lexer is compositional
  on printed text) and so parse back to the tree.  What remains hypothesis:
   * float leaves: `LitOK` (the token converts back) and `LitText` (the text is one token) — the library's
     shortest-digits printing and its parsing are not modelled; integer, decimal (`dec_leaf_ok`, Lemmas/DecText),
     string, boolean and none leaves are proved;
   * names (`NameOK`): a letter, then identifier characters, not a keyword, and after the literal prefixes `i`, `f`, `d`
     no digit — what the lexer's IDENT rule produces, minus the corner `i5x` / `f1x` (identifiers only by longest match
     against a numeric literal; not covered).
  Planning this proof exposed a genuine defect (`f .5` printed `(f.5)`, a float literal): repaired by fix commit 159fa22,
  and the model's `needsParens` now has the same clause, without which `lexShow_index` does not go through.
  Non-finite floats are outside the hypothesis and really fail (`nonfinite_float_is_not_reparsed`, known finding).
-/
import RevalModel.Lemmas.DisplayRT
import RevalModel.Lemmas.LexShow
import RevalModel.Props.C07

namespace Reval.C16
open Reval.G Reval.Disp

/-- the printed tokens of a printable tree parse back to exactly that tree (for every sufficiently large fuel) -/
theorem display_roundtrip_partial (o : Oracle) (sf : F64 → Str) (e : Expr) (h : Printable o sf e) :
    C07.ParsesTo o (dispToks sf e) e := display_parse h

/-- … in executable form: the model parser, with its own fuel (proved sufficient in `Lemmas/Fuel.lean`), returns
    exactly the printed tree on the printed tokens -/
theorem display_roundtrip_tokens (o : Oracle) (sf : F64 → Str) (e : Expr) (h : Printable o sf e) :
    parseToks o (dispToks sf e) = .ok e [] :=
  (C07.parsesTo_iff_parseToks o e _).1 (display_parse h)

/-- consequently the re-parsed rendering *is* the expression, so the two evaluate identically on every input -/
theorem reparsed_rendering_evaluates_identically (o : Oracle) (sf : F64 → Str) (e e' : Expr) (h : Printable o sf e)
    (hp : parseToks o (dispToks sf e) = .ok e' []) (env : Env) (rp : List Nat) (st : St) :
    eval env rp e' st = eval env rp e st := by
  rw [display_roundtrip_tokens o sf e h] at hp
  cases hp; rfl

/-- **character level**: the text `Display` writes lexes to exactly the printed token list -/
theorem text_lexes_to_printed_tokens (sf : F64 → Str) (e : Expr) (ht : LexC.TextOK sf e) :
    lex (showExpr sf e) = some (dispToks sf e) := LexC.lex_showExpr e ht

/-- … hence `Expr::parse(e.to_string())`, on the model, is `e`: lexing, parsing with the parser's own fuel, end of
    input — for every printable tree with well-formed names, of any size -/
theorem display_roundtrip_text (o : Oracle) (sf : F64 → Str) (e : Expr) (hp : Printable o sf e) (ht : LexC.TextOK sf e) :
    parseExprText o (showExpr sf e) = .ok e [] := by
  simp only [parseExprText, text_lexes_to_printed_tokens sf e ht, display_roundtrip_tokens o sf e hp]

/-- the repaired corner: a reference named `f` as the base of a numeric index is parenthesised, and the text parses
    back (before fix 159fa22 the text was `(f.5)`, one float literal) -/
theorem literal_prefix_name_is_parenthesised :
    showExpr (fun _ => []) (.index (.ref ['f']) (.pos 5)) = "((f).5)".toList ∧
    (match parseExprText Oracle.empty "((f).5)".toList with
     | .ok (.index (.ref n) (.pos 5)) [] => n == ['f']
     | _ => false) = true ∧
    (match parseExprText Oracle.empty "(f.5)".toList with
     | .ok (.lit (.float _)) [] => true
     | _ => false) = true := by
  refine ⟨by decide +kernel, by decide +kernel, by decide +kernel⟩

/-- printing never changes grouping or operators: the printed tokens render the tree under the table, at every
    level the printed form can stand at (bitwise nodes bare, `-(…)`/`!(…)` unary, everything else atomic) -/
theorem printed_form_is_a_rendering (o : Oracle) (sf : F64 → Str) (e : Expr) (h : Printable o sf e) :
    ∀ k, k ≤ dlvl e → R o k e (dispToks sf e) := disp_sound.1 e h

/-- … and of no other tree -/
theorem printed_form_is_unambiguous (o : Oracle) (sf : F64 → Str) (e e' : Expr) (h : Printable o sf e)
    (h' : R o 0 e' (dispToks sf e)) : e' = e :=
  C07.derivation_unique o e' e _ h' (disp_sound.1 e h 0 (Nat.zero_le _))

/-- consequently an expression and the re-parsed rendering evaluate identically, on every input, in every environment -/
theorem rendering_evaluates_identically (o : Oracle) (sf : F64 → Str) (e e' : Expr) (h : Printable o sf e)
    (f : Nat) (hf : ∀ g, f ≤ g → pIf o g (dispToks sf e) = .ok e' [])
    (env : Env) (rp : List Nat) (st : St) : eval env rp e' st = eval env rp e st := by
  obtain ⟨f0, p⟩ := display_parse h
  have a := p (f0 + f) (by omega)
  have b := hf (f0 + f) (by omega)
  rw [a] at b
  cases b; rfl

/-- integer leaves: every integer of the 128-bit range is printed as a token that converts back to it -/
theorem int_leaf_ok (o : Oracle) (sf : F64 → Str) (n : Int) (h : I128.inRange n = true) : LitOK o sf (.int n) := by
  simp only [LitOK, litTok]; exact int_token_value o n h

/-- string leaves: every string (quotes, backslashes, control characters, any code point) -/
theorem string_leaf_ok (o : Oracle) (sf : F64 → Str) (s : Str) : LitOK o sf (.str s) := by
  simp only [LitOK, litTok]; exact str_token_value o s

/-- decimal leaves: every decimal in normal form (96-bit mantissa, scale ≤ 28, no negative zero) is printed as a token
    that converts back to it, scale included -/
theorem dec_leaf_ok (o : Oracle) (sf : F64 → Str) (d : Dec) (h : LexC.DecWF d) : LitOK o sf (.dec d) := by
  simp only [LitOK, litTok]; exact LexC.dec_token_value o d h

theorem bool_none_leaf_ok (o : Oracle) (sf : F64 → Str) (b : Bool) : LitOK o sf (.bool b) ∧ LitOK o sf .none := by
  simp [LitOK]

/-- built-in function nodes are printed with a name that the grammar maps back to the same node -/
theorem function_names_roundtrip (op : UnOp) (h1 : op ≠ .neg) (h2 : op ≠ .not) : funcOfKw (unKw op) = some op :=
  funcOfKw_unKw op h1 h2

/-- binary operator nodes are printed with a token the table maps back to the same node, at its own level -/
theorem operator_tokens_roundtrip (op : BinOp) (h : op ≠ .contains) :
    binOpAt (binLvl op) (binTok op) = some (Expr.bin op) := binOpAt_binTok op h

/-- **known finding**: `f64::INFINITY` prints as `finf`, which is an identifier, not a float literal -/
theorem nonfinite_float_is_not_reparsed :
    (match parseExprText Oracle.empty ['f', 'i', 'n', 'f'] with
     | .ok (.ref n) [] => n == ['f', 'i', 'n', 'f']
     | _ => false) = true := by decide +kernel

/-! ### the hypotheses are satisfiable -/

private def sample : Expr :=
  .bin .bitAnd (.ref ['a']) (.bin .bitOr (.un .neg (.lit (.int 5))) (.index (.lit (.str ['q', '"'])) (.pos 0)))

example (o : Oracle) (sf : F64 → Str) : Printable o sf sample := by
  simp only [sample, Printable, true_and]
  exact ⟨int_leaf_ok o sf 5 (by decide), string_leaf_ok o sf _, by decide⟩

example (sf : F64 → Str) : LexC.TextOK sf sample := by
  have ha : LexC.NameOK ['a'] := ⟨'a', [], rfl, by decide, by decide, LexC.NumFree.old (by intro _ a r e; cases e), by decide⟩
  simp only [sample, LexC.TextOK, LexC.LitText, and_true, true_and]
  exact ha

/-- `a & (-(i5) | ("q\""".0))`: the right bitwise operand is parenthesised by the printer -/
example (sf : F64 → Str) : dispToks sf sample =
    [.ident ['a'], .p ['&'], lp, minus, lp, .int ['i', '5'], rp, .p ['|'], lp, .str ['"', 'q', '\\', '"', '"'], dot, .index ['0'], rp, rp] := by
  simp [sample, dispToks, needsParens, isBitwise, wrap, binTok, unTok, litTok, idxTok, showInt, showNat, natDigitsAux, digitChar, escapeStr, escChar]

end Reval.C16
