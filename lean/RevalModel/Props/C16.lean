/-
  Props/C16.lean — printing a parsed expression gives text that parses back to the same expression.

  `G.dispToks` (Spec/Printer.lean) is `impl Display for Expr` at the token level.  Proved here, for every tree:
  the printed tokens are a rendering of the tree under the precedence table (every operand the grammar would regroup
  is parenthesised), so — by the round-trip theorem of C07 — they parse back to exactly that tree, and to no other.

  `display_roundtrip_partial` is stated on tokens; `display_roundtrip_text` is the character-level statement: the
  *characters* `Display` writes (`Disp.showExpr`, compared with the real `to_string()` on every correspondence case)
  lex to exactly `dispToks` (`text_lexes_to_printed_tokens`, Lemmas/LexCompose + LexShow: the lexer is compositional
  on printed text) and so parse back to the tree.

  `parsed_expression_roundtrip` is the property as stated: for EVERY text the parser accepts, the text `Display` writes
  for the tree it returned parses back to that tree (Lemmas/ParsedPrintable: what the lexer and the grammar actions
  produce is printable — identifiers are well-formed names, including the literal-prefix corner `i5x` / `f5e` / `d1_a`,
  which are identifiers only by longest match against a numeric literal; integers are in range; decimals are in normal
  form; positional indices fit `u64`; map literals are collected maps).  What remains hypothesis:
   * float leaves: `LitOK` (the token converts back) and `LitText` (the text is one token) for the float leaves of the
     tree — the library's shortest-digits printing and its parsing are not modelled (`FloatText`); integer, decimal
     (`dec_leaf_ok`, Lemmas/DecText), string, boolean and none leaves are proved;
   * decimal literals beyond 96 bits / 28 fraction digits, which `Decimal::from_str` rounds: that the library returns a
     decimal in normal form (`PP.OracleDecOK`).
  Planning this proof exposed a genuine defect (`f .5` printed `(f.5)`, a float literal): repaired by fix commit 159fa22,
  and the model's `needsParens` now has the same clause, without which `lexShow_index` does not go through.
  Non-finite floats are outside the hypothesis and really fail (`nonfinite_float_is_not_reparsed`, known finding).
-/
import RevalModel.Lemmas.DisplayRT
import RevalModel.Lemmas.LexShow
import RevalModel.Props.C07
import RevalModel.Lemmas.ParsedPrintable

namespace Reval.C16
open Reval.G Reval.Disp

/-- the printed tokens of a printable tree parse back to exactly that tree (for every sufficiently large fuel) -/
theorem display_roundtrip_partial (o : Oracle) (sf : F64 → Str) (e : Expr) (h : Printable o sf e) :
    C07.ParsesTo o (dispToks sf e) e := display_parse h

/-- … in executable form: the model parser, with its own fuel (proved sufficient in `Lemmas/Fuel.lean`), returns
    exactly the printed tree on the printed tokens -/
theorem display_roundtrip_tokens (o : Oracle) (sf : F64 → Str) (e : Expr) (h : Printable o sf e) :
    parseToks o (dispToks sf e) = .ok e [] :=
  (C07.parsesTo_iff_parseToks o e _).1 (display_parse h)

/-- consequently the re-parsed rendering *is* the expression, so the two evaluate identically on every input -/
theorem reparsed_rendering_evaluates_identically (o : Oracle) (sf : F64 → Str) (e e' : Expr) (h : Printable o sf e)
    (hp : parseToks o (dispToks sf e) = .ok e' []) (env : Env) (rp : List Nat) (st : St) :
    eval env rp e' st = eval env rp e st := by
  rw [display_roundtrip_tokens o sf e h] at hp
  cases hp; rfl

/-- **character level**: the text `Display` writes lexes to exactly the printed token list -/
theorem text_lexes_to_printed_tokens (sf : F64 → Str) (e : Expr) (ht : LexC.TextOK sf e) :
    lex (showExpr sf e) = some (dispToks sf e) := LexC.lex_showExpr e ht

/-- … hence `Expr::parse(e.to_string())`, on the model, is `e`: lexing, parsing with the parser's own fuel, end of
    input — for every printable tree with well-formed names, of any size -/
theorem display_roundtrip_text (o : Oracle) (sf : F64 → Str) (e : Expr) (hp : Printable o sf e) (ht : LexC.TextOK sf e) :
    parseExprText o (showExpr sf e) = .ok e [] := by
  simp only [parseExprText, text_lexes_to_printed_tokens sf e ht, display_roundtrip_tokens o sf e hp]

/-- the repaired corner: a reference named `f` as the base of a numeric index is parenthesised, and the text parses
    back (before fix 159fa22 the text was `(f.5)`, one float literal) -/
theorem literal_prefix_name_is_parenthesised :
    showExpr (fun _ => []) (.index (.ref ['f']) (.pos 5)) = "((f).5)".toList ∧
    (match parseExprText Oracle.empty "((f).5)".toList with
     | .ok (.index (.ref n) (.pos 5)) [] => n == ['f']
     | _ => false) = true ∧
    (match parseExprText Oracle.empty "(f.5)".toList with
     | .ok (.lit (.float _)) [] => true
     | _ => false) = true := by
  refine ⟨by decide +kernel, by decide +kernel, by decide +kernel⟩

/-- printing never changes grouping or operators: the printed tokens render the tree under the table, at every
    level the printed form can stand at (bitwise nodes bare, `-(…)`/`!(…)` unary, everything else atomic) -/
theorem printed_form_is_a_rendering (o : Oracle) (sf : F64 → Str) (e : Expr) (h : Printable o sf e) :
    ∀ k, k ≤ dlvl e → R o k e (dispToks sf e) := disp_sound.1 e h

/-- … and of no other tree -/
theorem printed_form_is_unambiguous (o : Oracle) (sf : F64 → Str) (e e' : Expr) (h : Printable o sf e)
    (h' : R o 0 e' (dispToks sf e)) : e' = e :=
  C07.derivation_unique o e' e _ h' (disp_sound.1 e h 0 (Nat.zero_le _))

/-- consequently an expression and the re-parsed rendering evaluate identically, on every input, in every environment -/
theorem rendering_evaluates_identically (o : Oracle) (sf : F64 → Str) (e e' : Expr) (h : Printable o sf e)
    (f : Nat) (hf : ∀ g, f ≤ g → pIf o g (dispToks sf e) = .ok e' [])
    (env : Env) (rp : List Nat) (st : St) : eval env rp e' st = eval env rp e st := by
  obtain ⟨f0, p⟩ := display_parse h
  have a := p (f0 + f) (by omega)
  have b := hf (f0 + f) (by omega)
  rw [a] at b
  cases b; rfl

/-- integer leaves: every integer of the 128-bit range is printed as a token that converts back to it -/
theorem int_leaf_ok (o : Oracle) (sf : F64 → Str) (n : Int) (h : I128.inRange n = true) : LitOK o sf (.int n) := by
  simp only [LitOK, litTok]; exact int_token_value o n h

/-- string leaves: every string (quotes, backslashes, control characters, any code point) -/
theorem string_leaf_ok (o : Oracle) (sf : F64 → Str) (s : Str) : LitOK o sf (.str s) := by
  simp only [LitOK, litTok]; exact str_token_value o s

/-- decimal leaves: every decimal in normal form (96-bit mantissa, scale ≤ 28, no negative zero) is printed as a token
    that converts back to it, scale included -/
theorem dec_leaf_ok (o : Oracle) (sf : F64 → Str) (d : Dec) (h : LexC.DecWF d) : LitOK o sf (.dec d) := by
  simp only [LitOK, litTok]; exact LexC.dec_token_value o d h

theorem bool_none_leaf_ok (o : Oracle) (sf : F64 → Str) (b : Bool) : LitOK o sf (.bool b) ∧ LitOK o sf .none := by
  simp [LitOK]

/-- built-in function nodes are printed with a name that the grammar maps back to the same node -/
theorem function_names_roundtrip (op : UnOp) (h1 : op ≠ .neg) (h2 : op ≠ .not) : funcOfKw (unKw op) = some op :=
  funcOfKw_unKw op h1 h2

/-- binary operator nodes are printed with a token the table maps back to the same node, at its own level -/
theorem operator_tokens_roundtrip (op : BinOp) (h : op ≠ .contains) :
    binOpAt (binLvl op) (binTok op) = some (Expr.bin op) := binOpAt_binTok op h

/-! ### the property as stated: every parsed expression -/

/-- the float library's contract, for the floats in `P` (the finite ones; see `nonfinite_float_is_not_reparsed`): the text
    it prints converts back to the same float, and is one token in front of a closing bracket, space or comma -/
def FloatText (o : Oracle) (sf : F64 → Str) (P : F64 → Prop) : Prop :=
  ∀ f, P f → LitOK o sf (.float f) ∧ LexC.LitText sf (.float f)

/-- **whatever the parser returns is printable**: for every text, if `Expr::parse` accepts it, the tree it returns
    satisfies the hypotheses of the round-trip theorems (floats: those of its leaves must be in `P`) -/
theorem parsed_is_printable (o : Oracle) (sf : F64 → Str) (P : F64 → Prop) (hdec : PP.OracleDecOK o) (hP : FloatText o sf P)
    (text : Str) (e : Expr) (h : parseExprText o text = .ok e []) (hf : PP.FloatLeaves P e) :
    Printable o sf e ∧ LexC.TextOK sf e := by
  unfold parseExprText at h
  split at h
  · cases h
  · rename_i ts hlex
    have hR : R o 0 e ts := (C07.parseToks_iff_derived o e ts).1 h
    exact PP.parsed_good hdec hP hR (PP.lex_tokOK text ts hlex) hf

/-- **C16 as stated** — printing a parsed expression gives text that parses back to the same expression: for every text
    `t` that `Expr::parse` accepts with tree `e`, `Expr::parse(e.to_string()) = e` (model of the whole pipeline:
    characters → tokens → tree → characters → tokens → tree; any size, no fuel in the statement) -/
theorem parsed_expression_roundtrip (o : Oracle) (sf : F64 → Str) (P : F64 → Prop) (hdec : PP.OracleDecOK o) (hP : FloatText o sf P)
    (text : Str) (e : Expr) (h : parseExprText o text = .ok e []) (hf : PP.FloatLeaves P e) :
    parseExprText o (showExpr sf e) = .ok e [] := by
  obtain ⟨hp, ht⟩ := parsed_is_printable o sf P hdec hP text e h hf
  exact display_roundtrip_text o sf e hp ht

/-- … and printing is idempotent from there on: the re-parsed tree prints the same text -/
theorem parsed_expression_roundtrip_twice (o : Oracle) (sf : F64 → Str) (P : F64 → Prop) (hdec : PP.OracleDecOK o) (hP : FloatText o sf P)
    (text : Str) (e e' : Expr) (h : parseExprText o text = .ok e []) (hf : PP.FloatLeaves P e)
    (h' : parseExprText o (showExpr sf e) = .ok e' []) : showExpr sf e' = showExpr sf e := by
  rw [parsed_expression_roundtrip o sf P hdec hP text e h hf] at h'
  cases h'; rfl

/-- the literal-prefix corner: `i5x`, `f5e` and `d1_a` are identifiers (longest match against the numeric literal), and
    well-formed names for the printer, in front of any follower -/
theorem literal_prefix_identifiers_are_names :
    LexC.NameOK ['i', '5', 'x'] ∧ LexC.NameOK ['f', '5', 'e'] ∧ LexC.NameOK ['d', '1', '_', 'a'] := by
  refine ⟨?_, ?_, ?_⟩
  · exact PP.lex_tokOK ['i', '5', 'x'] [.ident ['i', '5', 'x']] (by decide +kernel) (.ident ['i', '5', 'x']) (by simp)
  · exact PP.lex_tokOK ['f', '5', 'e', '+'] [.ident ['f', '5', 'e'], .p ['+']] (by decide +kernel) (.ident ['f', '5', 'e']) (by simp)
  · exact PP.lex_tokOK ['d', '1', '_', 'a'] [.ident ['d', '1', '_', 'a']] (by decide +kernel) (.ident ['d', '1', '_', 'a']) (by simp)

/-- non-vacuity: a text without float leaves — no hypothesis about floats is used (`P` empty), and the empty oracle
    satisfies the decimal assumption trivially; the text mixes the literal-prefix corner, a duplicate map key, an `in`,
    redundant parentheses and a radix literal -/
example : parseExprText Oracle.empty (showExpr (fun _ => []) (.bin .add (.ref ['i', '5', 'x']) (.lit (.int 255)))) =
    .ok (.bin .add (.ref ['i', '5', 'x']) (.lit (.int 255))) [] := by
  have hdec : PP.OracleDecOK Oracle.empty := by intro b v h; simp [Oracle.empty] at h
  have hP : FloatText Oracle.empty (fun _ => []) (fun _ => False) := fun f h => h.elim
  refine parsed_expression_roundtrip Oracle.empty (fun _ => []) (fun _ => False) hdec hP ['(', '(', 'i', '5', 'x', ')', ')', ' ', '+', ' ', '0', 'x', 'f', 'f'] _ (by with_unfolding_all rfl) ?_
  simp [PP.FloatLeaves]

/-- **known finding**: `f64::INFINITY` prints as `finf`, which is an identifier, not a float literal -/
theorem nonfinite_float_is_not_reparsed :
    (match parseExprText Oracle.empty ['f', 'i', 'n', 'f'] with
     | .ok (.ref n) [] => n == ['f', 'i', 'n', 'f']
     | _ => false) = true := by decide +kernel

/-! ### the hypotheses are satisfiable -/

private def sample : Expr :=
  .bin .bitAnd (.ref ['a']) (.bin .bitOr (.un .neg (.lit (.int 5))) (.index (.lit (.str ['q', '"'])) (.pos 0)))

example (o : Oracle) (sf : F64 → Str) : Printable o sf sample := by
  simp only [sample, Printable, true_and]
  exact ⟨int_leaf_ok o sf 5 (by decide), string_leaf_ok o sf _, by decide⟩

example (sf : F64 → Str) : LexC.TextOK sf sample := by
  have ha : LexC.NameOK ['a'] := ⟨'a', [], rfl, by decide, by decide, LexC.NumFree.old (by intro _ a r e; cases e), by decide⟩
  simp only [sample, LexC.TextOK, LexC.LitText, and_true, true_and]
  exact ha

/-- `a & (-(i5) | ("q\""".0))`: the right bitwise operand is parenthesised by the printer -/
example (sf : F64 → Str) : dispToks sf sample =
    [.ident ['a'], .p ['&'], lp, minus, lp, .int ['i', '5'], rp, .p ['|'], lp, .str ['"', 'q', '\\', '"', '"'], dot, .index ['0'], rp, rp] := by
  simp [sample, dispToks, needsParens, isBitwise, wrap, binTok, unTok, litTok, idxTok, showInt, showNat, natDigitsAux, digitChar, escapeStr, escChar]

end Reval.C16
