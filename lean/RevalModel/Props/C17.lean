/-
  Props/C17.lean — conversions between Value and Rust types are lossless or fail.
-/
import RevalModel.Impl.Convert
import RevalModel.Lemmas.ConvMap

namespace Reval.C17
open Conv

/-- integer round trip: every value of every integer type converts into a Value and back unchanged -/
theorem int_roundtrip (k : IntKind) (n : Int) (h : k.inRange n = true) : tryInt k (fromInt k n) = .ok n := by
  simp [tryInt, fromInt, h]

/-- extracting an integer type succeeds exactly when the number lies within that type's range … -/
theorem tryInt_iff (k : IntKind) (n m : Int) : tryInt k (.int n) = .ok m ↔ (k.inRange n = true ∧ m = n) := by
  unfold tryInt
  by_cases h : k.inRange n = true
  · simp [h]; exact eq_comm
  · simp [h]

/-- … and otherwise fails with the overflow error — no wrapping, no truncation -/
theorem tryInt_overflow (k : IntKind) (n : Int) (h : k.inRange n = false) : tryInt k (.int n) = .error .numericOverflow := by
  simp [tryInt, h]

/-- the number extracted is the number stored (`no_wrap`) -/
theorem tryInt_no_wrap (k : IntKind) (v : Value) (m : Int) (h : tryInt k v = .ok m) : v = .int m ∧ k.inRange m = true := by
  cases v <;> simp [tryInt] at h
  rename_i n
  by_cases hr : k.inRange n = true
  · simp [hr] at h; subst h; exact ⟨rfl, hr⟩
  · simp [hr] at h

/-- extracting the wrong kind fails with a type error carrying the offending value (the kind is checked
    before the range, so even an out-of-range request on a non-Int reports the value) -/
theorem wrong_kind_carries_value (k : IntKind) (v : Value) :
    (v.ty ≠ .int → tryInt k v = .error (.unexpectedValue v)) ∧
    (v.ty ≠ .float → tryF64 v = .error (.unexpectedValue v)) ∧
    (v.ty ≠ .str → tryStr v = .error (.unexpectedValue v)) ∧
    (v.ty ≠ .dec → tryDec v = .error (.unexpectedValue v)) ∧
    (v.ty ≠ .bool → tryBool v = .error (.unexpectedValue v)) ∧
    (v.ty ≠ .dateTime → tryDateTime v = .error (.unexpectedValue v)) ∧
    (v.ty ≠ .duration → tryDuration v = .error (.unexpectedValue v)) ∧
    (v.ty ≠ .vec → tryVec (tryInt k) v = .error (.unexpectedValue v)) ∧
    (v.ty ≠ .map → tryMap (tryInt k) v = .error (.unexpectedValue v) ∧ tryMapValue v = .error (.unexpectedValue v)) := by
  cases v <;> simp [tryInt, tryF64, tryStr, tryDec, tryBool, tryDateTime, tryDuration, tryVec, tryMap, tryMapValue, Value.ty]

/-- scalar round trips -/
theorem scalar_roundtrip (f : F64) (s : Str) (d : Dec) (b : Bool) (t u : Int) :
    tryF64 (fromF64 f) = .ok f ∧ tryStr (fromStr s) = .ok s ∧ tryDec (fromDec d) = .ok d ∧
    tryBool (fromBool b) = .ok b ∧ tryDateTime (fromDateTime t) = .ok t ∧ tryDuration (fromDuration u) = .ok u := by
  simp [tryF64, fromF64, tryStr, fromStr, tryDec, fromDec, tryBool, fromBool, tryDateTime, fromDateTime, tryDuration, fromDuration]

theorem collect_ok_iff {α β} (f : α → Except Err β) : ∀ (xs : List α) (ys : List β),
    collect f xs = .ok ys ↔ (xs.length = ys.length ∧ ∀ i (h : i < xs.length) (h' : i < ys.length), f xs[i] = .ok ys[i]) := by
  intro xs
  induction xs with
  | nil =>
    intro ys; cases ys <;> simp [collect]
  | cons x xs ih =>
    intro ys
    simp only [collect]
    cases hx : f x with
    | error e =>
      simp only []
      constructor
      · intro h; cases h
      · intro ⟨hl, h⟩
        cases ys with
        | nil => simp at hl
        | cons y ys => have := h 0 (by simp) (by simp); simp [hx] at this
    | ok y =>
      simp only []
      cases hc : collect f xs with
      | error e =>
        simp only []
        constructor
        · intro h; cases h
        · intro ⟨hl, h⟩
          cases ys with
          | nil => simp at hl
          | cons y' ys' =>
            have hh : collect f xs = .ok ys' := (ih ys').2 ⟨by simpa using hl, fun i h1 h2 => by
              have := h (i + 1) (by simp; omega) (by simp; omega); simpa using this⟩
            rw [hc] at hh; cases hh
      | ok ys0 =>
        simp only []
        constructor
        · intro h; cases h
          have := (ih ys0).1 hc
          refine ⟨by simp [this.1], ?_⟩
          intro i h1 h2
          cases i with
          | zero => simpa using hx
          | succ j => simpa using this.2 j (by simpa using h1) (by simpa using h2)
        · intro ⟨hl, h⟩
          cases ys with
          | nil => simp at hl
          | cons y' ys' =>
            have h0 := h 0 (by simp) (by simp)
            simp [hx] at h0
            have hh : collect f xs = .ok ys' := (ih ys').2 ⟨by simpa using hl, fun i h1 h2 => by
              have := h (i + 1) (by simp; omega) (by simp; omega); simpa using this⟩
            rw [hc] at hh; cases hh; rw [h0]

/-- extracting a list succeeds exactly when every element converts (and then element by element, in order) -/
theorem vec_all_or_error {β} (elem : Value → Except Err β) (xs : List Value) (ys : List β) :
    tryVec elem (.vec xs) = .ok ys ↔
      (xs.length = ys.length ∧ ∀ i (h : i < xs.length) (h' : i < ys.length), elem xs[i] = .ok ys[i]) := by
  simp only [tryVec]; exact collect_ok_iff elem xs ys

/-- … and otherwise fails with the first non-convertible element's error -/
theorem vec_first_error {β} (elem : Value → Except Err β) (pre : List Value) (x : Value) (post : List Value) (e : Err)
    (hpre : ∀ v ∈ pre, ∃ y, elem v = .ok y) (hx : elem x = .error e) :
    tryVec elem (.vec (pre ++ x :: post)) = .error e := by
  simp only [tryVec]
  induction pre with
  | nil => simp [collect, hx]
  | cons p ps ih =>
    obtain ⟨y, hy⟩ := hpre p (by simp)
    have := ih (fun v hv => hpre v (by simp [hv]))
    simp [collect, hy, this]

/-- list round trip -/
theorem vec_roundtrip (k : IntKind) (ns : List Int) (h : ∀ n ∈ ns, k.inRange n = true) :
    tryVec (tryInt k) (fromVec (fromInt k) ns) = .ok ns := by
  simp only [tryVec, fromVec]
  induction ns with
  | nil => simp [collect]
  | cons n ns ih =>
    have := ih (fun m hm => h m (by simp [hm]))
    simp [collect, tryInt, fromInt, h n (by simp), this]

/-- map round trip: a map with string keys (a `BTreeMap`: keys distinct, in order) converts into a Value and back
    unchanged — every key exactly as it was (nothing trims, folds or re-parses a key), every value through its own
    conversion -/
theorem map_roundtrip (k : IntKind) (kvs : List (Str × Int)) (hs : KeysSorted kvs)
    (h : ∀ kv ∈ kvs, k.inRange kv.2 = true) :
    tryMap (tryInt k) (fromMap (fromInt k) kvs) = .ok kvs := by
  rw [fromMap_sorted _ _ hs]
  simp only [tryMap]
  induction kvs with
  | nil => simp [collect]
  | cons kv rest ih =>
    have hs' : KeysSorted rest := by unfold KeysSorted at *; exact (List.pairwise_cons.mp hs).2
    have hrest := ih hs' (fun x hx => h x (by simp [hx]))
    have hkv := h kv (by simp)
    have h1 : tryInt k (fromInt k kv.2) = .ok kv.2 := by simp [tryInt, fromInt, hkv]
    simp only [List.map_cons, collect, h1, hrest]

/-- … and what the Value holds in between is exactly those entries -/
theorem map_image (k : IntKind) (kvs : List (Str × Int)) (hs : KeysSorted kvs) :
    fromMap (fromInt k) kvs = .map (kvs.map (fun kv => (kv.1, .int kv.2))) := by
  rw [fromMap_sorted _ _ hs]; rfl

/-- list round trip for ANY element type whose own conversion round-trips on the elements present — so lists of lists, lists
    of maps, … at any depth round-trip, by applying this theorem to itself -/
theorem vec_roundtrip_any {β} (into : β → Value) (elem : Value → Except Err β) (xs : List β)
    (h : ∀ b ∈ xs, elem (into b) = .ok b) : tryVec elem (fromVec into xs) = .ok xs := by
  simp only [tryVec, fromVec]
  induction xs with
  | nil => simp [collect]
  | cons x xs ih =>
    have hx := h x (by simp)
    have := ih (fun b hb => h b (by simp [hb]))
    simp [collect, hx, this]

/-- lists of lists of integers -/
theorem nested_vec_roundtrip (k : IntKind) (nss : List (List Int)) (h : ∀ ns ∈ nss, ∀ n ∈ ns, k.inRange n = true) :
    tryVec (tryVec (tryInt k)) (fromVec (fromVec (fromInt k)) nss) = .ok nss := by
  apply vec_roundtrip_any
  intro ns hns
  apply vec_roundtrip_any
  intro n hn
  simp [tryInt, fromInt, h ns hns n hn]

/-- map round trip for any element type (keys distinct and in order, as a `BTreeMap` hands them over) -/
theorem map_roundtrip_any {β} (into : β → Value) (elem : Value → Except Err β) (kvs : List (Str × β)) (hs : KeysSorted kvs)
    (h : ∀ kv ∈ kvs, elem (into kv.2) = .ok kv.2) : tryMap elem (fromMap into kvs) = .ok kvs := by
  rw [fromMap_sorted _ _ hs]
  simp only [tryMap]
  induction kvs with
  | nil => simp [collect]
  | cons kv rest ih =>
    have hs' : KeysSorted rest := by unfold KeysSorted at *; exact (List.pairwise_cons.mp hs).2
    have hrest := ih hs' (fun x hx => h x (by simp [hx]))
    have h1 := h kv (by simp)
    simp only [List.map_cons, collect, h1, hrest]

/-! non-vacuity -/
example : KeysSorted [(" a".toList, (1 : Int)), ("A".toList, 2), ("a".toList, 3), ("a ".toList, 4)] := by
  unfold KeysSorted; decide

example : tryInt IntKind.u8 (.int 255) = .ok 255 ∧ tryInt IntKind.u8 (.int 256) = .error .numericOverflow ∧
    tryInt IntKind.i8 (.int (-129)) = .error .numericOverflow ∧ tryInt IntKind.u64 (.int (-1)) = .error .numericOverflow := by
  simp [tryInt, IntKind.inRange, IntKind.u8, IntKind.i8, IntKind.u64, IntKind.lo, IntKind.hi]
example : tryVec (tryInt IntKind.u8) (.vec [.int 1, .int 300, .str []]) = .error .numericOverflow := by
  simp [tryVec, collect, tryInt, IntKind.inRange, IntKind.u8, IntKind.lo, IntKind.hi]

end Reval.C17
