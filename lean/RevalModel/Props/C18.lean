/-
  Props/C18.lean — rulesets can be shared across threads and evaluated from any task.
  (a) Send / Sync of the public types and of the futures is a judgement of rustc's auto-trait solver: it is
      decided when the C18 harness crate is compiled, not here.
  (b) concurrent evaluations of one shared ruleset = the N-task instance of schedule independence (C12).
-/
import RevalModel.Props.C12

namespace Reval.C18

/-- running a resumption depends on the environment only through its user functions -/
theorem run_congr {α : Type} (env env' : Env) (h : env.fns = env'.fns) : ∀ (r : Resumption α), run env r = run env' r := by
  intro r
  induction r with
  | done a => rfl
  | await f arg idx k ih =>
    simp only [run]
    have : answer env f idx arg = answer env' f idx arg := by simp [answer, h]
    rw [this]; exact ih _

/-- N evaluations of one shared ruleset on N inputs, polled in any interleaving (any number of threads / tasks, any
    number of suspensions): each returns exactly the outcomes of evaluating its input sequentially -/
theorem concurrent_eq_sequential (env : Env) (rules : List Expr) (inputs : List Value)
    (susp : Str → Value → Nat → Nat) (sched : List Nat) :
    (runSched env susp sched (inputs.map (fun v => (⟨rulesetTask { env with facts := v } rules, 0⟩ : Task _)))).map
        (fun t => run env t.res) =
      inputs.map (fun v => evaluateValue { env with facts := v } rules) := by
  rw [C12.schedule_independent]
  simp only [List.map_map]
  apply List.map_congr_left
  intro v _
  simp only [Function.comp]
  rw [run_congr env { env with facts := v } rfl, ruleset_adequacy]

/-- polling one evaluation touches no other: the tasks share the ruleset and the functions, nothing mutable -/
theorem poll_is_local {α : Type} (env : Env) (susp : Str → Value → Nat → Nat) :
    ∀ (ts : List (Task α)) (i j : Nat), i ≠ j → (pollAt env susp i ts)[j]? = ts[j]? := by
  intro ts
  induction ts with
  | nil => intro i j _; simp [pollAt]
  | cons t ts ih =>
    intro i j hij
    cases i with
    | zero =>
      cases j with
      | zero => exact absurd rfl hij
      | succ j' => simp [pollAt]
    | succ i' =>
      cases j with
      | zero => simp [pollAt]
      | succ j' => simpa [pollAt] using ih i' j' (by omega)

theorem pollAt_length {α : Type} (env : Env) (susp : Str → Value → Nat → Nat) :
    ∀ (ts : List (Task α)) (i : Nat), (pollAt env susp i ts).length = ts.length := by
  intro ts
  induction ts with
  | nil => intro i; simp [pollAt]
  | cons t ts ih => intro i; cases i <;> simp [pollAt, ih]

/-- no schedule creates or loses an evaluation -/
theorem schedule_keeps_tasks {α : Type} (env : Env) (susp : Str → Value → Nat → Nat) (sched : List Nat) (ts : List (Task α)) :
    (runSched env susp sched ts).length = ts.length := by
  induction sched generalizing ts with
  | nil => rfl
  | cons i rest ih => simp only [runSched]; rw [ih, pollAt_length]

theorem pollAt_done {α : Type} (env : Env) (susp : Str → Value → Nat → Nat) (a : α) (p : Nat) :
    ∀ (ts : List (Task α)) (i j : Nat), ts[j]? = some ⟨.done a, p⟩ → (pollAt env susp i ts)[j]? = some ⟨.done a, p⟩ := by
  intro ts i j h
  by_cases hij : i = j
  · subst hij
    induction ts generalizing i with
    | nil => simp at h
    | cons t ts ih =>
      cases i with
      | zero =>
        simp only [List.getElem?_cons_zero, Option.some.injEq] at h
        subst h
        simp [pollAt, pollTask]
      | succ i' => simpa [pollAt] using ih i' (by simpa using h)
  · rw [poll_is_local env susp ts i j hij]; exact h

/-- a finished evaluation keeps its result whatever is polled afterwards, by whomever -/
theorem finished_stays_finished {α : Type} (env : Env) (susp : Str → Value → Nat → Nat) (sched : List Nat)
    (ts : List (Task α)) (j : Nat) (a : α) (p : Nat) (h : ts[j]? = some ⟨.done a, p⟩) :
    (runSched env susp sched ts)[j]? = some ⟨.done a, p⟩ := by
  induction sched generalizing ts with
  | nil => exact h
  | cons i rest ih => simp only [runSched]; exact ih _ (pollAt_done env susp a p ts i j h)

end Reval.C18
