/-
  Props/C18.lean — rulesets can be shared across threads and evaluated from any task.
  (a) Send / Sync of the public types and of the futures is a judgement of rustc's auto-trait solver: it is
      decided when the C18 harness crate is compiled, not here.
  (b) concurrent evaluations of one shared ruleset = the N-task instance of schedule independence (C12).
-/
import RevalModel.Props.C12

namespace Reval.C18

/-- running a resumption depends on the environment only through its user functions -/
theorem run_congr {α : Type} (env env' : Env) (h : env.fns = env'.fns) : ∀ (r : Resumption α), run env r = run env' r := by
  intro r
  induction r with
  | done a => rfl
  | await f arg idx k ih =>
    simp only [run]
    have : answer env f idx arg = answer env' f idx arg := by simp [answer, h]
    rw [this]; exact ih _

/-- N evaluations of one shared ruleset on N inputs, polled in any interleaving (any number of threads / tasks, any
    number of suspensions): each returns exactly the outcomes of evaluating its input sequentially -/
theorem concurrent_eq_sequential (env : Env) (rules : List Expr) (inputs : List Value)
    (susp : Str → Value → Nat → Nat) (sched : List Nat) :
    (runSched env susp sched (inputs.map (fun v => (⟨rulesetTask { env with facts := v } rules, 0⟩ : Task _)))).map
        (fun t => run env t.res) =
      inputs.map (fun v => evaluateValue { env with facts := v } rules) := by
  rw [C12.schedule_independent]
  simp only [List.map_map]
  apply List.map_congr_left
  intro v _
  simp only [Function.comp]
  rw [run_congr env { env with facts := v } rfl, ruleset_adequacy]

end Reval.C18
