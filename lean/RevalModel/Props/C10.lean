/-
  Props/C10.lean — names and access paths resolve to exactly the addressed data.
-/
import RevalModel.Lemmas.Resolve

namespace Reval.C10

/-- an identifier is the input's top-level field of exactly that name (`=` on strings: case-sensitive);
    `facts` is the whole input; an unknown field is an error naming it; a non-map input is a type error -/
theorem ref_exact (env : Env) (rp : List Nat) (n : Str) (st : St) :
    eval env rp (.ref n) st =
      (if n = "facts".toList then .ok env.facts
       else match env.facts with
         | .map m => (match lookup m n with | some v => .ok v | none => .err (.unknownRef n))
         | _ => .err .invalidType,
       st, []) := by
  simp only [eval, reference]
  split
  · rfl
  · cases env.facts <;> first | rfl | (rename_i m; cases lookup m n <;> rfl)

/-- `:name` is the symbol registered under exactly that name; an unknown symbol is an error naming it -/
theorem symbol_exact (env : Env) (rp : List Nat) (n : Str) (st : St) :
    eval env rp (.sym n) st =
      (match lookup env.symbols n with | some v => .ok v | none => .err (.invalidSymbol n), st, []) := by
  simp only [eval, symbol]; cases lookup env.symbols n <;> rfl

/-- an unknown function is an error naming it (and nothing is invoked) -/
theorem unknown_function_names_it (env : Env) (f : Str) (a : Value) (st : St) (h : lookup env.fns f = none) :
    callFn env f a st = (.err (.unknownFn f), st, []) := by
  simp [callFn, h]

/-- lookup returns only what is stored under exactly that key — never data from a different key … -/
theorem lookup_sound {α} (m : List (Str × α)) (k : Str) (v : α) (h : lookup m k = some v) : (k, v) ∈ m :=
  lookup_mem m k v h

/-- … and with distinct keys (a BTreeMap) it returns exactly the entry of that key; absent ⇔ no such key -/
theorem lookup_exact {α} (m : List (Str × α)) (k : Str) (v : α) (hn : (m.map Prod.fst).Nodup) :
    (lookup m k = some v ↔ (k, v) ∈ m) ∧ (lookup m k = none ↔ k ∉ m.map Prod.fst) :=
  ⟨Reval.lookup_exact m k v hn, lookup_none_iff m k⟩

/-- one step: exact key / exact position; None for absent, out of range, or a step into None; a type error
    for a step into a scalar or of the wrong kind for the container -/
theorem step_exact (m : List (Str × Value)) (xs : List Value) (k : Str) (n : Nat) (v : Value) :
    Impl.index (.map m) (.key k) = .ok ((lookup m k).getD .none) ∧
    Impl.index (.vec xs) (.pos n) = .ok ((xs[n]?).getD .none) ∧
    Impl.index .none (.key k) = .ok .none ∧ Impl.index .none (.pos n) = .ok .none ∧
    Impl.index (.map m) (.pos n) = .err .invalidType ∧ Impl.index (.vec xs) (.key k) = .err .invalidType ∧
    (v.ty ≠ .map → v.ty ≠ .vec → v.ty ≠ .none →
      Impl.index v (.key k) = .err .invalidType ∧ Impl.index v (.pos n) = .err .invalidType) := by
  refine ⟨by simp [Impl.index], by simp [Impl.index], by simp [Impl.index], by simp [Impl.index],
    by simp [Impl.index], by simp [Impl.index], ?_⟩
  cases v <;> simp [Impl.index, Value.ty]

/-- a chain of `.field` / `.index` steps evaluates to exactly the nested element the steps address -/
theorem path_resolves (env : Env) (steps : List Index) (rp : List Nat) (base : Expr) (st : St) :
    eval env rp (pathExpr base steps) st =
      match eval env (List.replicate steps.length 0 ++ rp) base st with
      | (.ok v, st1, ev) => (resolve v steps, st1, ev)
      | other => other := Reval.path_resolves env steps rp base st

/-! non-vacuity -/
def demoFacts : Value :=
  .map [(['A'], .int 1), (['a'], .vec [.int 10, .map [(['b'], .str ['x'])]]), ("facts".toList, .int 2)]
example : (eval ⟨demoFacts, [], [], Oracle.empty⟩ [] (pathExpr (.ref ['a']) [.pos 1, .key ['b']]) St.init).1 = .ok (.str ['x']) := by decide
example : (eval ⟨demoFacts, [], [], Oracle.empty⟩ [] (pathExpr (.ref ['a']) [.pos 2, .key ['b']]) St.init).1 = .ok .none := by decide
example : (eval ⟨demoFacts, [], [], Oracle.empty⟩ [] (.ref ['b']) St.init).1 = .err (.unknownRef ['b']) := by decide
example : (eval ⟨demoFacts, [], [], Oracle.empty⟩ [] (.ref "facts".toList) St.init).1 = .ok demoFacts := by decide

end Reval.C10
