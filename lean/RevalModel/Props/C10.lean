/-
  Props/C10.lean — names and access paths resolve to exactly the addressed data.
-/
import RevalModel.Lemmas.Resolve

namespace Reval.C10

/-- an identifier is the input's top-level field of exactly that name (`=` on strings: case-sensitive);
    `facts` is the whole input; an unknown field is an error naming it; a non-map input is a type error -/
theorem ref_exact (env : Env) (rp : List Nat) (n : Str) (st : St) :
    eval env rp (.ref n) st =
      (if n = "facts".toList then .ok env.facts
       else match env.facts with
         | .map m => (match lookup m n with | some v => .ok v | none => .err (.unknownRef n))
         | _ => .err .invalidType,
       st, []) := by
  simp only [eval, reference]
  split
  · rfl
  · cases env.facts <;> first | rfl | (rename_i m; cases lookup m n <;> rfl)

/-- `:name` is the symbol registered under exactly that name; an unknown symbol is an error naming it -/
theorem symbol_exact (env : Env) (rp : List Nat) (n : Str) (st : St) :
    eval env rp (.sym n) st =
      (match lookup env.symbols n with | some v => .ok v | none => .err (.invalidSymbol n), st, []) := by
  simp only [eval, symbol]; cases lookup env.symbols n <;> rfl

/-- an unknown function is an error naming it (and nothing is invoked) -/
theorem unknown_function_names_it (env : Env) (f : Str) (a : Value) (st : St) (h : lookup env.fns f = none) :
    callFn env f a st = (.err (.unknownFn f), st, []) := by
  simp [callFn, h]

/-- lookup returns only what is stored under exactly that key — never data from a different key … -/
theorem lookup_sound {α} (m : List (Str × α)) (k : Str) (v : α) (h : lookup m k = some v) : (k, v) ∈ m :=
  lookup_mem m k v h

/-- … and with distinct keys (a BTreeMap) it returns exactly the entry of that key; absent ⇔ no such key -/
theorem lookup_exact {α} (m : List (Str × α)) (k : Str) (v : α) (hn : (m.map Prod.fst).Nodup) :
    (lookup m k = some v ↔ (k, v) ∈ m) ∧ (lookup m k = none ↔ k ∉ m.map Prod.fst) :=
  ⟨Reval.lookup_exact m k v hn, lookup_none_iff m k⟩

/-- one step: exact key / exact position; None for absent, out of range, or a step into None; a type error
    for a step into a scalar or of the wrong kind for the container -/
theorem step_exact (m : List (Str × Value)) (xs : List Value) (k : Str) (n : Nat) (v : Value) :
    Impl.index (.map m) (.key k) = .ok ((lookup m k).getD .none) ∧
    Impl.index (.vec xs) (.pos n) = .ok ((xs[n]?).getD .none) ∧
    Impl.index .none (.key k) = .ok .none ∧ Impl.index .none (.pos n) = .ok .none ∧
    Impl.index (.map m) (.pos n) = .err .invalidType ∧ Impl.index (.vec xs) (.key k) = .err .invalidType ∧
    (v.ty ≠ .map → v.ty ≠ .vec → v.ty ≠ .none →
      Impl.index v (.key k) = .err .invalidType ∧ Impl.index v (.pos n) = .err .invalidType) := by
  refine ⟨by simp [Impl.index], by simp [Impl.index], by simp [Impl.index], by simp [Impl.index],
    by simp [Impl.index], by simp [Impl.index], ?_⟩
  cases v <;> simp [Impl.index, Value.ty]

/-- a chain of `.field` / `.index` steps evaluates to exactly the nested element the steps address -/
theorem path_resolves (env : Env) (steps : List Index) (rp : List Nat) (base : Expr) (st : St) :
    eval env rp (pathExpr base steps) st =
      match eval env (List.replicate steps.length 0 ++ rp) base st with
      | (.ok v, st1, ev) => (resolve v steps, st1, ev)
      | other => other := Reval.path_resolves env steps rp base st

/-- access paths compose: `base.s₁.s₂` addresses, inside what `base.s₁` addresses, exactly what `s₂` addresses
    there; an error on the way is final (no later step can recover or substitute data) -/
theorem path_composes (v : Value) (s1 s2 : List Index) :
    resolve v (s1 ++ s2) = match resolve v s1 with
      | .ok w => resolve w s2
      | other => other := resolve_append v s1 s2

/-- every path from None ends in None — a step into None never fails and never yields data from elsewhere -/
theorem path_from_none_is_none (steps : List Index) : resolve .none steps = .ok .none := resolve_none steps

/-- a non-empty path into a scalar is a type error, whatever its steps are -/
theorem path_into_scalar_fails (v : Value) (i : Index) (rest : List Index)
    (hm : v.ty ≠ .map) (hv : v.ty ≠ .vec) (hn : v.ty ≠ .none) :
    resolve v (i :: rest) = .err .invalidType := resolve_scalar v i rest hm hv hn

/-- a path that leaves the data (absent key, position out of range) yields None from there on, never an
    error and never a neighbouring element -/
theorem path_past_the_data (m : List (Str × Value)) (xs : List Value) (k : Str) (n : Nat) (rest : List Index)
    (hk : lookup m k = none) (hn : xs.length ≤ n) :
    resolve (.map m) (.key k :: rest) = .ok .none ∧ resolve (.vec xs) (.pos n :: rest) = .ok .none := by
  constructor
  · simp [resolve, resolveStep, hk, resolve_none]
  · simp [resolve, resolveStep, List.getElem?_eq_none hn, resolve_none]

/-- the text `base.s₁.s₂` is the path `s₂` applied to the expression `base.s₁`: the parser's left-nested index nodes and the
    list of steps are the same thing, so `path_resolves` / `path_composes` speak about every way of splitting a path -/
theorem pathExpr_append (base : Expr) (s1 s2 : List Index) :
    pathExpr base (s1 ++ s2) = pathExpr (pathExpr base s1) s2 := by
  induction s1 generalizing base with
  | nil => rfl
  | cons i rest ih => simp only [List.cons_append, pathExpr]; exact ih _

/-! non-vacuity -/
def demoFacts : Value :=
  .map [(['A'], .int 1), (['a'], .vec [.int 10, .map [(['b'], .str ['x'])]]), ("facts".toList, .int 2)]
example : (eval ⟨demoFacts, [], [], Oracle.empty⟩ [] (pathExpr (.ref ['a']) [.pos 1, .key ['b']]) St.init).1 = .ok (.str ['x']) := by decide
example : (eval ⟨demoFacts, [], [], Oracle.empty⟩ [] (pathExpr (.ref ['a']) [.pos 2, .key ['b']]) St.init).1 = .ok .none := by decide
example : (eval ⟨demoFacts, [], [], Oracle.empty⟩ [] (.ref ['b']) St.init).1 = .err (.unknownRef ['b']) := by decide
example : (eval ⟨demoFacts, [], [], Oracle.empty⟩ [] (.ref "facts".toList) St.init).1 = .ok demoFacts := by decide

example : resolve demoFacts [.key ['a'], .pos 1, .key ['b']] = .ok (.str ['x']) := by decide
example : resolve demoFacts [.key ['A'], .pos 0] = .err .invalidType := by decide
example : resolve demoFacts [.key ['a'], .pos 7, .key ['b'], .pos 3] = .ok .none := by decide

end Reval.C10
