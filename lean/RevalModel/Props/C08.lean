/-
  Props/C08.lean — literals denote exactly what is written; layout and comments are insignificant.
  Integer and string literals: proved for every value.  Float / decimal literals: the model's conversion is
  *defined* as exact rational arithmetic on the written digits (`F64.ofDecimal`: nearest double, ties to even;
  `parseDecimal`: mantissa and scale as written) and is tied to the code by the correspondence run.
-/
import RevalModel.Lemmas.Literals
import RevalModel.Lemmas.LexLayout
import RevalModel.Lemmas.LexComplete

namespace Reval.C08
open Disp

/-- `i<decimal>` denotes that integer, for every integer of the 128-bit range (sign included) -/
theorem int_literal (o : Oracle) (n : Int) (h : I128.inRange n = true) :
    Lit.ofTok o (.int ('i' :: showInt n)) = .ok (.int n) [] := int_token_value o n h

/-- … and what lies outside the range is not silently reduced: the conversion fails -/
theorem int_literal_range (n : Int) : Str.parseI128 (showInt n) = some n ↔ I128.inRange n = true := by
  constructor
  · intro h
    unfold Str.parseI128 at h
    (repeat' split at h) <;> (try (cases h; done)) <;>
      (simp only [I128.checked] at h; split at h <;> simp_all)
  · exact parseI128_showInt n

/-- `0x… / 0o… / 0b…` denote the positional value of their digits in that radix (non-negative half of i128) -/
theorem radix_literal (o : Oracle) (ds : Str) (n : Nat) (hne : ds ≠ []) (hin : I128.inRange (n : Int) = true) :
    (Lit.ofRadix 16 ds = some n → Lit.ofTok o (.hex ('0' :: 'x' :: ds)) = .ok (.int n) []) ∧
    (Lit.ofRadix 8 ds = some n → Lit.ofTok o (.oct ('0' :: 'o' :: ds)) = .ok (.int n) []) ∧
    (Lit.ofRadix 2 ds = some n → Lit.ofTok o (.bin ('0' :: 'b' :: ds)) = .ok (.int n) []) := by
  have hs : ∀ a b : Char, Lit.sliceFrom 2 (a :: b :: ds) = some ds := by intro a b; simp [Lit.sliceFrom]
  have he : ds.isEmpty = false := by cases ds <;> simp_all
  refine ⟨?_, ?_, ?_⟩ <;> intro h <;>
    simp only [Lit.ofTok, hs, Lit.parseRadix, he, h, I128.checked, hin] <;> simp

theorem ofRadix_snoc (r : Nat) (ds : Str) (c : Char) (a d : Nat) (ha : Lit.ofRadix r ds = some a)
    (hd : Lit.hexDigitVal c = some d) (hlt : d < r) : Lit.ofRadix r (ds ++ [c]) = some (a * r + d) := by
  unfold Lit.ofRadix at *
  rw [List.foldl_append, ha]
  simp [hd, hlt]

/-- a double-quoted string with `\\` and `\"` escaped (every other character verbatim) denotes exactly that string -/
theorem string_literal (o : Oracle) (s : Str) :
    Lit.ofTok o (.str ('"' :: escapeStr s ++ ['"'])) = .ok (.str s) [] := str_token_value o s

/-- characters other than the backslash are kept verbatim -/
theorem raw_chars_verbatim (s : Str) (h : ∀ c ∈ s, c ≠ '\\') : ∀ f, s.length < f → Lit.unescapeAux f s = some s := by
  induction s with
  | nil => intro f _; cases f <;> simp [Lit.unescapeAux]
  | cons c cs ih =>
    intro f hf
    cases f with
    | zero => simp at hf
    | succ f =>
      have hc : c ≠ '\\' := h c (by simp)
      have := ih (fun x hx => h x (by simp [hx])) f (by simpa using hf)
      simp [Lit.unescapeAux, hc, this]

/-- the escape table: each of `\n \r \t \\ \' \"` and `\u{hex}` stands for exactly its character -/
theorem escape_table :
    Lit.unescape "\\n".toList = some ['\n'] ∧ Lit.unescape "\\r".toList = some ['\r'] ∧
    Lit.unescape "\\t".toList = some ['\t'] ∧ Lit.unescape "\\\\".toList = some ['\\'] ∧
    Lit.unescape "\\'".toList = some ['\''] ∧ Lit.unescape "\\\"".toList = some ['"'] ∧
    Lit.unescape "\\u{41}".toList = some ['A'] ∧ Lit.unescape "\\u{10FFFF}".toList = some [Char.ofNat 0x10FFFF] ∧
    Lit.unescape "a\\nb\\u{e9}".toList = some ['a', '\n', 'b', 'é'] := by decide

/-- float literal: the nearest double to the written decimal numeral (the model's conversion is that by
    definition: exact integer arithmetic, round to nearest, ties to even) -/
theorem float_literal (o : Oracle) (b : Str) :
    Lit.ofTok o (.float ('f' :: b)) =
      .ok (.float (F64.ofDecimal (Lit.splitNumber b).1 (Lit.splitNumber b).2.1
        ((Lit.splitNumber b).2.2.2 - ((Lit.splitNumber b).2.2.1 : Int)))) [] := by
  simp [Lit.ofTok, Lit.sliceFrom, Lit.parseFloat]

/-- decimal literal: mantissa = the written digits, scale = the number of fraction digits written (preserved),
    whenever they fit the type; `-0` is `+0` -/
theorem decimal_literal (o : Oracle) (b : Str)
    (hfit : (Lit.splitNumber b).2.2.1 ≤ 28 ∧ (Lit.splitNumber b).2.1 ≤ Dec.maxMant) :
    Lit.ofTok o (.dec ('d' :: b)) =
      .ok (.dec ⟨(Lit.splitNumber b).1 && (Lit.splitNumber b).2.1 != 0, (Lit.splitNumber b).2.1, (Lit.splitNumber b).2.2.1⟩) [] := by
  simp [Lit.ofTok, Lit.sliceFrom, Lit.parseDecimal, hfit.1, hfit.2]

/-- a word is a keyword exactly when it is one of the keyword spellings, otherwise an identifier -/
theorem keyword_iff_exact (c : Char) (rest : Str) :
    let w := c :: rest.take (Lex.countWhile Lex.isIdc rest)
    (w ∈ Lex.keywords → Lex.wordTok c rest = .kw w) ∧ (w ∉ Lex.keywords → Lex.wordTok c rest = .ident w) := by
  intro w
  constructor <;> intro h <;> simp [Lex.wordTok, w, h] <;> simp_all [List.contains_iff_mem]

/-- layout: a run of White_Space characters of any length and kind is skipped as a whole; a `//` comment is
    skipped up to and including its line end(s) -/
theorem layout_skipped (c : Char) (cs : Str) (hc : Str.isWhite c = true) :
    Lex.step (c :: cs) = some (none, cs.dropWhile Str.isWhite) ∧
    Lex.step ('/' :: '/' :: cs) = some (none, (cs.dropWhile (fun ch => !Lex.isEol ch)).dropWhile Lex.isEol) := by
  constructor
  · unfold Lex.step; simp [hc]
  · unfold Lex.step
    have : Str.isWhite '/' = false := by decide
    simp [this]

/-- **layout is insignificant** (Lemmas/LexLayout.lean): a leading gap, then tokens — keywords, identifiers, INDEX numbers,
    integer / decimal / string literals as written by the printer, punctuation and operators — each followed by any gap
    (any sequence of White_Space characters and `//` comments ended by any run of line ends; non-empty between two
    tokens): the text lexes to exactly those tokens.  Two exclusions are in the hypotheses because the lexer really has
    them: a `/` token directly followed by a comment (`///…` is one comment; known finding), and tokens with no gap
    between them (another matter: which tokens may touch). -/
theorem layout_insignificant (lead : List LexC.Piece) (items : List (Tok × Str × List LexC.Piece))
    (hl : ∀ p ∈ lead, p.OK) (h : LexC.GappedOK items) :
    lex (LexC.gapText lead ++ LexC.gapped items) = some (items.map (·.1)) := LexC.lex_gapped lead items hl h

/-- hence the amount and kind of layout never changes the parsed tree: two texts with the same tokens and different
    gaps parse to the same result -/
theorem layout_same_tree (o : Oracle) (lead lead' : List LexC.Piece) (items items' : List (Tok × Str × List LexC.Piece))
    (hl : ∀ p ∈ lead, p.OK) (hl' : ∀ p ∈ lead', p.OK) (h : LexC.GappedOK items) (h' : LexC.GappedOK items')
    (same : items.map (·.1) = items'.map (·.1)) :
    parseExprText o (LexC.gapText lead ++ LexC.gapped items) = parseExprText o (LexC.gapText lead' ++ LexC.gapped items') := by
  simp only [parseExprText, layout_insignificant lead items hl h, layout_insignificant lead' items' hl' h', same]

/-! ### … for every text: whatever the tokens are -/

/-- a layout of a token list: every token written as the text it carries, followed by a gap of well-formed pieces —
    non-empty between two tokens, and no comment directly after a `/` -/
def GapsOK : List (Tok × Str × List LexC.Piece) → Prop
  | [] => True
  | (t, w, g) :: rest => w = LexC.tokText t ∧ (∀ p ∈ g, p.OK) ∧ LexC.SlashOK w g ∧ (rest ≠ [] → g ≠ []) ∧ GapsOK rest

theorem gappedOK_of_vocabulary : ∀ (items : List (Tok × Str × List LexC.Piece)),
    (∀ it ∈ items, LexC.PTok it.1 (LexC.tokText it.1)) → GapsOK items → LexC.GappedOK items := by
  intro items
  induction items with
  | nil => intro _ _; trivial
  | cons it rest ih =>
    obtain ⟨t, w, g⟩ := it
    intro hv hg
    obtain ⟨rfl, h1, h2, h3, h4⟩ := hg
    exact ⟨hv (t, _, g) List.mem_cons_self, h1, h2, h3, ih (fun it hit => hv it (List.mem_cons_of_mem _ hit)) h4⟩

/-- **layout is insignificant, for every text** (Lemmas/LexComplete.lean: the vocabulary is complete): take ANY text the
    lexer accepts, with tokens `T` — whatever they are: floats with exponents, radix literals, strings with any escapes,
    `i5x`-like identifiers — and write those tokens out again with any leading gap and any gaps between them: the new
    text lexes to exactly `T` -/
theorem layout_insignificant_general (s : Str) (T : List Tok) (h : lex s = some T)
    (lead : List LexC.Piece) (items : List (Tok × Str × List LexC.Piece)) (hl : ∀ p ∈ lead, p.OK)
    (hT : items.map (·.1) = T) (hg : GapsOK items) :
    lex (LexC.gapText lead ++ LexC.gapped items) = some T := by
  have hv : ∀ it ∈ items, LexC.PTok it.1 (LexC.tokText it.1) := by
    intro it hit
    exact LexC.lex_ptok s T h it.1 (by rw [← hT]; exact List.mem_map_of_mem hit)
  rw [← hT]
  exact layout_insignificant lead items hl (gappedOK_of_vocabulary items hv hg)

/-- … hence every such re-layout of a text parses to what the text itself parses to (tree, or rejection) -/
theorem layout_same_tree_general (o : Oracle) (s : Str) (T : List Tok) (h : lex s = some T)
    (lead : List LexC.Piece) (items : List (Tok × Str × List LexC.Piece)) (hl : ∀ p ∈ lead, p.OK)
    (hT : items.map (·.1) = T) (hg : GapsOK items) :
    parseExprText o (LexC.gapText lead ++ LexC.gapped items) = parseExprText o s := by
  simp only [parseExprText, layout_insignificant_general s T h lead items hl hT hg, h]

/-- non-vacuity: `f-1.5e+3*0xFF+"a\qb"` (tokens touching) re-laid out with a comment, a tab and a line break -/
example : lex (LexC.gapText [.white ' '] ++ LexC.gapped
      [(.float "f-1.5e+3".toList, "f-1.5e+3".toList, [.comment ['x'] ['\n']]), (.p ['*'], ['*'], [.white '\t']),
       (.hex "0xFF".toList, "0xFF".toList, [.white '\n']), (.p ['+'], ['+'], [.white ' ']),
       (.str "\"a\\qb\"".toList, "\"a\\qb\"".toList, [])]) =
    some [.float "f-1.5e+3".toList, .p ['*'], .hex "0xFF".toList, .p ['+'], .str "\"a\\qb\"".toList] := by
  refine layout_insignificant_general "f-1.5e+3*0xFF+\"a\\qb\"".toList _ (by decide +kernel) _ _ ?_ rfl ?_
  · intro p hp; simp only [List.mem_singleton] at hp; subst hp; exact (by decide : Str.isWhite ' ' = true)
  · refine ⟨rfl, ?_, ?_, by simp, rfl, ?_, ?_, by simp, rfl, ?_, ?_, by simp, rfl, ?_, ?_, by simp, rfl, by simp, ?_, by simp, trivial⟩
    · intro p hp; simp only [List.mem_singleton] at hp; subst hp; exact ⟨by decide, by simp, by decide⟩
    · intro e; exact absurd e (by decide)
    · intro p hp; simp only [List.mem_singleton] at hp; subst hp; exact (by decide : Str.isWhite '\t' = true)
    · intro e; exact absurd e (by decide)
    · intro p hp; simp only [List.mem_singleton] at hp; subst hp; exact (by decide : Str.isWhite '\n' = true)
    · intro e; exact absurd e (by decide)
    · intro p hp; simp only [List.mem_singleton] at hp; subst hp; exact (by decide : Str.isWhite ' ' = true)
    · intro e; exact absurd e (by decide)
    · intro e; exact absurd e (by decide)

/-- the exclusion is real (the recorded known finding): a comment directly after `/` swallows the operator -/
theorem slash_then_comment_is_one_comment :
    lex "a///c\nb".toList = some [.ident ['a'], .ident ['b']] ∧
    lex "a/ //c\nb".toList = some [.ident ['a'], .p ['/'], .ident ['b']] := by
  constructor <;> decide +kernel

/-- non-vacuity: `a` TAB `//x` CR LF NBSP `+` U+3000 `b`, with a leading comment -/
example : LexC.GappedOK
    [(.ident ['a'], ['a'], [.white '\t', .comment ['x'] ['\r', '\n'], .white '\u00a0']),
     (.p ['+'], ['+'], [.white '\u3000']), (.ident ['b'], ['b'], [])] := by
  have ha : LexC.NameOK ['a'] := ⟨'a', [], rfl, by decide, by decide, LexC.NumFree.old (by intro _ a r e; cases e), by decide⟩
  have hb : LexC.NameOK ['b'] := ⟨'b', [], rfl, by decide, by decide, LexC.NumFree.old (by intro _ a r e; cases e), by decide⟩
  refine ⟨.ident _ ha, ?_, ?_, by simp, .p1 '+' (by decide), ?_, ?_, by simp, .ident _ hb, by simp, ?_, by simp, trivial⟩
  · intro p hp
    simp only [List.mem_cons, List.not_mem_nil, or_false] at hp
    rcases hp with rfl | rfl | rfl
    · exact (by decide : Str.isWhite '\t' = true)
    · exact ⟨by decide, by simp, by decide⟩
    · exact (by decide : Str.isWhite '\u00a0' = true)
  · intro e; cases e
  · intro p hp
    simp only [List.mem_cons, List.not_mem_nil, or_false] at hp
    subst hp; exact (by decide : Str.isWhite '\u3000' = true)
  · intro e; cases e
  · intro e; cases e

/-! tests (concrete texts, evaluated by the kernel): the collision list of the property -/
def toks (s : String) : Option (List Tok) := lex s.toList
example : toks "int inty i5 i5x f1e f1e5 d5 d5x in inx" =
    some [.kw "int".toList, .ident "inty".toList, .int "i5".toList, .ident "i5x".toList, .ident "f1e".toList,
          .float "f1e5".toList, .dec "d5".toList, .ident "d5x".toList, .kw "in".toList, .ident "inx".toList] := by decide +kernel
example : toks "a //c\r\n\t+ b" = some [.ident ['a'], .p ['+'], .ident ['b']] := by decide +kernel

end Reval.C08
