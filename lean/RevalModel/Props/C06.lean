/-
  Props/C06.lean — parsing any text returns a tree or a parse error, never a panic.
-/
import RevalModel.Lemmas.LexerBasic

namespace Reval.C06

/-- `Expr::parse`: for every text (any characters), every oracle: a tree, a parse error, or a declined
    over-long decimal literal — never a panic -/
theorem parseExpr_total (o : Oracle) (s : Str) : (parseExprText o s).isPanic = false :=
  parseExprText_noPanic o s

/-- `Rule::parse`: likewise -/
theorem parseRule_total (o : Oracle) (s : Str) (site : Site) : parseRuleText o s ≠ .panic site :=
  parseRuleText_noPanic o s site

/-- what makes the grammar actions' prefix slices (`&value[1..]`, `&value[2..]`, `&value[1..len-1]`) safe: every
    token the lexer produces has the text shape its regex guarantees -/
theorem lexer_token_shape (s : Str) (ts : List Tok) (h : lex s = some ts) : ∀ t ∈ ts, TokWF t := lex_wf s ts h

theorem slices_never_panic (o : Oracle) (t : Tok) (h : TokWF t) : (Lit.ofTok o t).isPanic = false :=
  ofTok_noPanic o t h

/-- a list index that does not fit `usize` is a parse error -/
theorem index_out_of_range_is_error (o : Oracle) (f : Nat) (acc : Expr) (ds : Str) (rest : List Tok)
    (h : Str.ofDigits ds > u64Max) :
    pIndexLoop o (f + 1) acc (.p ['.'] :: .index ds :: rest) = .error := by
  have : ¬ Str.ofDigits ds ≤ u64Max := by omega
  simp [pIndexLoop, this]

/-- an integer literal whose value is outside i128 is a parse error (decimal and every radix) -/
theorem int_literal_out_of_range_is_error (o : Oracle) (body : Str) (h : Str.parseI128 body = none) :
    Lit.ofTok o (.int ('i' :: body)) = .error := by
  simp [Lit.ofTok, Lit.sliceFrom, h]

theorem parseI128_out_of_range (neg : Bool) (ds : Str) (hr : I128.inRange (if neg then -(Str.ofDigits ds : Int) else (Str.ofDigits ds : Int)) = false)
    (hd : ds.head? ≠ some '-' ∧ ds.head? ≠ some '+') :
    Str.parseI128 (if neg then '-' :: ds else ds) = none := by
  unfold Str.parseI128
  cases neg
  · simp only [Bool.false_eq_true, if_false]
    cases ds with
    | nil => simp
    | cons c cs =>
      have h1 : c ≠ '-' := by intro e; subst e; simp at hd
      have h2 : c ≠ '+' := by intro e; subst e; simp at hd
      split
      · rename_i heq; simp at heq; exact absurd heq.1 h1
      · rename_i heq; simp at heq; exact absurd heq.1 h2
      · simp only [Bool.false_eq_true, if_false] at hr ⊢
        split
        · rfl
        · simp [I128.checked, hr]
  · simp only [if_true] at hr ⊢
    split
    · rfl
    · simp [I128.checked, hr]

theorem radix_literal_out_of_range_is_error (o : Oracle) (ds : Str) (n : Nat) (h16 : Lit.ofRadix 16 ds = some n)
    (hr : I128.inRange (n : Int) = false) :
    Lit.ofTok o (.hex ('0' :: 'x' :: ds)) = .error := by
  have hs : Lit.sliceFrom 2 ('0' :: 'x' :: ds) = some ds := by simp [Lit.sliceFrom]
  simp only [Lit.ofTok, hs, Lit.parseRadix, h16, I128.checked, hr]
  split
  · rename_i heq; split at heq <;> simp at heq
  · rfl

/-- an unknown string escape is a parse error -/
theorem unknown_escape_is_error (f : Nat) (c : Char) (r : Str)
    (h : c ≠ 'n' ∧ c ≠ 'r' ∧ c ≠ 't' ∧ c ≠ '\\' ∧ c ≠ '\'' ∧ c ≠ '"' ∧ c ≠ 'u') :
    Lit.unescapeAux (f + 1) ('\\' :: c :: r) = none := by
  obtain ⟨h1, h2, h3, h4, h5, h6, h7⟩ := h
  simp [Lit.unescapeAux, h1, h2, h3, h4, h5, h6, h7]

/-- an escape that denotes no Unicode scalar value (surrogate, beyond U+10FFFF, no braces, no digits) is an error -/
theorem bad_unicode_escapes :
    Lit.unescape "\\u{D800}".toList = none ∧ Lit.unescape "\\u{DFFF}".toList = none ∧
    Lit.unescape "\\u{110000}".toList = none ∧ Lit.unescape "\\u{}".toList = none ∧
    Lit.unescape "\\u41".toList = none ∧ Lit.unescape "\\u{g}".toList = none ∧
    Lit.unescape "\\u{100000000}".toList = none ∧ Lit.unescape "\\".toList = none := by decide

/-! non-vacuity: the input that panicked before the `fix:` commit is a parse error; valid neighbours parse -/
def isError {α} : PR α → Bool | .error => true | _ => false
def isOk {α} : PR α → Bool | .ok _ _ => true | _ => false
example : isError (parseExprText Oracle.empty "a.18446744073709551616".toList) = true := by decide +kernel
example : isOk (parseExprText Oracle.empty "a.18446744073709551615".toList) = true := by decide +kernel
example : isError (parseExprText Oracle.empty "i170141183460469231731687303715884105728".toList) = true := by decide +kernel
example : isError (parseExprText Oracle.empty "\"\\q\"".toList) = true := by decide +kernel

end Reval.C06
