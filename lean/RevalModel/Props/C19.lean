/-
  Props/C19.lean — deeply nested input.  Stack exhaustion is a property of frame sizes and the OS stack limit;
  what a model can carry is how deep each operation recurses as a function of the input.  The theorems below
  establish the *negation* of the property for every recursive construct: the nesting depth of the parsed tree —
  and with it the recursion depth of render / clone / compare / drop / evaluate — grows linearly with the text,
  so no fixed stack suffices (recorded as known findings, observed by the child-process runs).  Parentheses are
  the one construct that is not a node: they add no depth.
-/
import RevalModel.Spec.Depth
import RevalModel.Impl.Parser

namespace Reval.C19

/-- each recursive construct reaches every depth -/
theorem chains_have_depth (n : Nat) :
    depth (negChain n) = n ∧ depth (addChain n) = n ∧ depth (callChain n) = n ∧ depth (listChain n) = n ∧
    depth (mapChain n) = n ∧ depth (elseChain n) = n ∧ depth (indexChain n) = n := by
  induction n with
  | zero => simp [negChain, addChain, callChain, listChain, mapChain, elseChain, indexChain, depth]
  | succ n ih =>
    obtain ⟨h1, h2, h3, h4, h5, h6, h7⟩ := ih
    simp [negChain, addChain, callChain, listChain, mapChain, elseChain, indexChain, depth, depthList, depthMap,
      h1, h2, h3, h4, h5, h6, h7]

/-- hence the depth is unbounded: no bound `B` holds for all trees (the property fails for every stack size) -/
theorem depth_unbounded : ¬ ∃ B, ∀ e : Expr, depth e ≤ B := by
  intro ⟨B, h⟩
  have := h (negChain (B + 1))
  rw [(chains_have_depth (B + 1)).1] at this
  omega

/-- evaluation really descends: evaluating a unary chain first evaluates the whole chain below it -/
theorem eval_descends (env : Env) (rp : List Nat) (n : Nat) (st st1 : St) (v : Value) (ev : List Event)
    (h : eval env (0 :: rp) (negChain n) st = (.ok v, st1, ev)) :
    eval env rp (negChain (n + 1)) st = (applyUn env.oracle .neg v, st1, ev) := by
  simp [negChain, eval, h]

/-- … but evaluation descends only where it evaluates: an operand that the left operand cuts off (`false and …`,
    `true or …`) and the branch an `if` does not take contribute nothing — result, state and history are the same for every
    depth `n` of the part that is not reached -/
theorem cut_off_operand_is_not_descended (env : Env) (rp : List Nat) (st : St) (n : Nat) (t : Expr) :
    eval env rp (.and (.lit (.bool false)) (negChain n)) st = (.ok (.bool false), st, []) ∧
    eval env rp (.or (.lit (.bool true)) (negChain n)) st = (.ok (.bool true), st, []) ∧
    eval env rp (.ite (.lit (.bool true)) t (negChain n)) st = eval env (1 :: rp) t st ∧
    eval env rp (.ite (.lit (.bool false)) (negChain n) t) st = eval env (2 :: rp) t st := by
  refine ⟨by simp [eval], by simp [eval], ?_, ?_⟩ <;> simp [eval]

/-- parentheses are not nodes: a parenthesised expression parses to the expression itself — whatever the number
    of parentheses, no depth is added (the one construct for which the property holds) -/
theorem parens_are_not_nodes (o : Oracle) (f : Nat) (ts rest : List Tok) (e : Expr)
    (h : pIf o f ts = .ok e (.p [')'] :: rest)) :
    pTerm o (f + 1) (.p ['('] :: ts) = .ok e rest := by
  simp [pTerm, h]

end Reval.C19
