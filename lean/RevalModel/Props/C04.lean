/-
  Props/C04.lean — None operands propagate through operators instead of failing.
-/
import RevalModel.Lemmas.NoneType
import RevalModel.Lemmas.Denote
import RevalModel.Lemmas.Resolve

namespace Reval.C04

def propagating : List BinOp := [.mult, .div, .rem, .add, .sub, .bitAnd, .bitOr, .bitXor]
def ordering : List BinOp := [.gt, .gte, .lt, .lte]

/-- arithmetic and bitwise operators: None in either position gives None — whatever the other operand is -/
theorem none_arith (o : Oracle) (op : BinOp) (h : op ∈ propagating) (v : Value) :
    applyBin o op .none v = .ok .none ∧ applyBin o op v .none = .ok .none := by
  simp only [propagating, List.mem_cons, List.not_mem_nil, or_false] at h
  rcases h with rfl | rfl | rfl | rfl | rfl | rfl | rfl | rfl <;> cases v <;>
    simp [applyBin, Impl.mult, Impl.div, Impl.rem, Impl.add, Impl.sub, Impl.bitwiseAnd, Impl.bitwiseOr, Impl.bitwiseXor]

/-- ordering comparisons: None in either position gives false -/
theorem none_cmp (o : Oracle) (op : BinOp) (h : op ∈ ordering) (v : Value) :
    applyBin o op .none v = .ok (.bool false) ∧ applyBin o op v .none = .ok (.bool false) := by
  simp only [ordering, List.mem_cons, List.not_mem_nil, or_false] at h
  rcases h with rfl | rfl | rfl | rfl <;> cases v <;> simp [applyBin, Impl.gt, Impl.gte, Impl.lt, Impl.lte]

/-- the arm-order fact: a None operand is never a type error for these operators, even when the other
    operand alone would be one -/
theorem none_beats_type_error (o : Oracle) (op : BinOp) (h : op ∈ propagating ++ ordering) (v : Value) :
    applyBin o op .none v ≠ .err .invalidType ∧ applyBin o op v .none ≠ .err .invalidType := by
  rcases List.mem_append.1 h with h | h
  · have := none_arith o op h v; simp [this.1, this.2]
  · have := none_cmp o op h v; simp [this.1, this.2]

/-- every unary operator and built-in except the None tests returns None for None -/
theorem none_unary (o : Oracle) (op : UnOp) (h : op ≠ .some ∧ op ≠ .isNone) : applyUn o op .none = .ok .none := by
  cases op <;> simp_all [applyUn, Impl.not, Impl.neg, Impl.toInt, Impl.toFloat, Impl.toDec, Impl.dateTime,
    Impl.duration, Impl.upper, Impl.lower, Impl.trim, Impl.round, Impl.floor, Impl.fract, Impl.year, Impl.month,
    Impl.week, Impl.day, Impl.hour, Impl.minute, Impl.second]

theorem none_tests (o : Oracle) : applyUn o .some .none = .ok (.bool false) ∧ applyUn o .isNone .none = .ok (.bool true) := by
  simp [applyUn, Impl.some, Impl.isNone]

/-- equality with a None left operand is false — and the right operand is not evaluated (state and
    history are those after the left operand) -/
theorem none_eq_left (env : Env) (rp : List Nat) (l r : Expr) (st st1 : St) (ev : List Event)
    (h : eval env (0 :: rp) l st = (.ok .none, st1, ev)) :
    eval env rp (.eq l r) st = (.ok (.bool false), st1, ev) ∧
    eval env rp (.neq l r) st = (.ok (.bool true), st1, ev) := by
  simp [eval, h]

/-- equality with a None right operand is false, inequality true (even None against None, by the above) -/
theorem none_eq_right (env : Env) (rp : List Nat) (a : Value) (st : St) (ha : a ≠ .none) :
    eval env rp (.eq (.lit a) (.lit .none)) st = (.ok (.bool false), st, []) ∧
    eval env rp (.neq (.lit a) (.lit .none)) st = (.ok (.bool true), st, []) := by
  have hp := peq_none_right a ha
  constructor <;> (simp only [eval]; first | (simp_all; done) | (split <;> simp_all))

/-- indexing into None gives None -/
theorem index_none (i : Index) : Impl.index .none i = .ok .none := by
  cases i <;> simp [Impl.index]

/-- … and so does any access path, however long, once its base (or any prefix of it) is None: `a.b.3.c` is None, with the
    state and history of evaluating the base — no step fails and none produces data -/
theorem none_through_any_path (env : Env) (rp : List Nat) (base : Expr) (steps : List Index) (st st1 : St) (ev : List Event)
    (h : eval env (List.replicate steps.length 0 ++ rp) base st = (.ok .none, st1, ev)) :
    eval env rp (pathExpr base steps) st = (.ok .none, st1, ev) := by
  rw [path_resolves, h]; simp [resolve_none]

/-- membership in a None collection is false -/
theorem contains_none_coll (o : Oracle) (v : Value) : applyBin o .contains .none v = .ok (.bool false) := by
  cases v <;> simp [applyBin, Impl.contains]

/-- exception 1: conditions reject None with a type error -/
theorem cond_none_is_type_error (env : Env) (rp : List Nat) (t e r : Expr) (st : St) :
    eval env rp (.ite (.lit .none) t e) st = (.err .invalidType, st, []) ∧
    eval env rp (.and (.lit .none) r) st = (.err .invalidType, st, []) ∧
    eval env rp (.or (.lit .none) r) st = (.err .invalidType, st, []) := by
  simp [eval]

/-- exception 2: a None *item* follows the ordinary rule of the collection's type -/
theorem contains_none_item_ordinary (o : Oracle) (xs : List Value) (m : List (Str × Value)) (s : Str) (n : Int) :
    applyBin o .contains (.vec xs) .none = .ok (.bool (xs.any (fun y => Value.peq y .none))) ∧
    applyBin o .contains (.map m) .none = .err .invalidType ∧
    applyBin o .contains (.str s) .none = .err .invalidType ∧
    applyBin o .contains (.int n) .none = .err .invalidType := by
  simp [applyBin, Impl.contains]

/-! non-vacuity -/
example : applyBin Oracle.empty .add .none (.str ['x']) = .ok .none := by decide
example : applyBin Oracle.empty .gt (.vec []) .none = .ok (.bool false) := by decide
example : applyBin Oracle.empty .contains (.vec [.none]) .none = .ok (.bool true) := by decide

/-! ### None at any depth -/

/-- a position under any number of None-propagating operators: unary operators and built-ins other than the None
    tests, either operand of an arithmetic / bitwise operator, the base of a `.field` / `.index` step -/
inductive NCtx where
  | hole
  | un (op : UnOp) (c : NCtx)
  | binL (op : BinOp) (c : NCtx) (r : Expr)
  | binR (op : BinOp) (l : Expr) (c : NCtx)
  | index (c : NCtx) (i : Index)

def NCtx.fill : NCtx → Expr → Expr
  | .hole, e => e
  | .un op c, e => .un op (c.fill e)
  | .binL op c r, e => .bin op (c.fill e) r
  | .binR op l c, e => .bin op l (c.fill e)
  | .index c i, e => .index (c.fill e) i

/-- every operator on the way is a propagating one, and every sibling operand evaluates to a value -/
def NCtx.Ok (env : Env) : NCtx → Prop
  | .hole => True
  | .un op c => op ≠ .some ∧ op ≠ .isNone ∧ c.Ok env
  | .binL op c r => op ∈ propagating ∧ (∃ v, denote env r = .ok v) ∧ c.Ok env
  | .binR op l c => op ∈ propagating ∧ (∃ v, denote env l = .ok v) ∧ c.Ok env
  | .index c _ => c.Ok env

/-- **None propagates through any depth**: a sub-expression that is None makes the whole expression None, however
    many propagating operators, built-ins and access steps stand above it and whatever the sibling operands are
    (even ones that alone would be a type error for that operator) -/
theorem none_propagates_deep (env : Env) (e : Expr) (h : denote env e = .ok .none) :
    ∀ c : NCtx, c.Ok env → denote env (c.fill e) = .ok .none := by
  intro c
  induction c with
  | hole => intro _; exact h
  | un op c ih =>
    intro ⟨h1, h2, hc⟩
    simp only [NCtx.fill, denote, ih hc, ← applyUn_eq_table]
    exact none_unary env.oracle op ⟨h1, h2⟩
  | binL op c r ih =>
    intro ⟨hp, ⟨v, hv⟩, hc⟩
    simp only [NCtx.fill, denote, ih hc, hv, ← applyBin_eq_table]
    exact (none_arith env.oracle op hp v).1
  | binR op l c ih =>
    intro ⟨hp, ⟨v, hv⟩, hc⟩
    simp only [NCtx.fill, denote, ih hc, hv, ← applyBin_eq_table]
    exact (none_arith env.oracle op hp v).2
  | index c i ih =>
    intro hc
    simp only [NCtx.fill, denote, ih hc]
    exact index_none i

/-- … and that is what evaluation returns (deterministic functions, any cache state consistent with them) -/
theorem eval_none_propagates_deep (env : Env) (hd : Deterministic env) (rp : List Nat) (st : St) (hc : Consistent env st)
    (e : Expr) (h : denote env e = .ok .none) (c : NCtx) (hok : c.Ok env) :
    (eval env rp (c.fill e) st).1 = .ok .none := by
  rw [(eval_denote env hd rp _ st hc).1]; exact none_propagates_deep env e h c hok

/-- a missing field four operators deep: `round(-(a.b.c + "x")) * [i1]` on `{a: {}}` is None, although `none + "x"`,
    `… * [i1]` would be type errors for any other left operand -/
example : (eval ⟨.map [(['a'], .map [])], [], [], Oracle.empty⟩ []
    ((NCtx.binL .mult (.un .round (.un .neg (.binL .add (.index .hole (.key ['c'])) (.lit (.str ['x']))))) (.vec [.lit (.int 1)])).fill
      (.index (.ref ['a']) (.key ['b']))) St.init).1 = .ok .none := by decide
end Reval.C04
