/-
  Props/C03.lean — operators never coerce operands between types.
-/
import RevalModel.Lemmas.NoneType
import RevalModel.Lemmas.KeepsType

namespace Reval.C03

/-- a combination of non-None operand types that the signature does not list is a type error -/
theorem unsupported_is_type_error (o : Oracle) (op : BinOp) (a b : Value)
    (ha : a ≠ .none) (hb : b ≠ .none) (h : (a.ty, b.ty) ∉ op.sig) :
    applyBin o op a b = .err .invalidType := by
  rw [applyBin_eq_table]; exact tableBin_unsupported o op a b ha hb h

theorem unsupported_unary_is_type_error (o : Oracle) (op : UnOp) (v : Value) (hv : v ≠ .none) (h : v.ty ∉ op.sig) :
    applyUn o op v = .err .invalidType := by
  rw [applyUn_eq_table]; exact tableUn_unsupported o op v hv h

def numeric : List Ty := [.int, .float, .dec]

/-- no operator's signature mixes Int, Float and Decimal (the table is finite: decided by evaluation) -/
theorem no_mixed_numeric :
    ∀ op ∈ BinOp.all, ∀ t₁ ∈ numeric, ∀ t₂ ∈ numeric, t₁ ≠ t₂ → (t₁, t₂) ∉ op.sig := by decide

/-- hence every mix of Int / Float / Decimal operands is a type error, for every operator and value -/
theorem mixed_numeric_is_type_error (o : Oracle) (op : BinOp) (a b : Value)
    (ha : a.ty ∈ numeric) (hb : b.ty ∈ numeric) (hne : a.ty ≠ b.ty) :
    applyBin o op a b = .err .invalidType := by
  apply unsupported_is_type_error
  · intro e; subst e; simp [numeric, Value.ty] at ha
  · intro e; subst e; simp [numeric, Value.ty] at hb
  · exact no_mixed_numeric op (BinOp.mem_all op) _ ha _ hb hne

/-- equality between values of different types is simply false (and `!=` true) -/
theorem eq_cross_type_false (env : Env) (rp : List Nat) (a b : Value) (st : St)
    (ha : a ≠ .none) (h : a.ty ≠ b.ty) :
    eval env rp (.eq (.lit a) (.lit b)) st = (.ok (.bool false), st, []) ∧
    eval env rp (.neq (.lit a) (.lit b)) st = (.ok (.bool true), st, []) := by
  have hp := peq_diff_ty a b h
  constructor <;> (simp only [eval]; first | (simp_all; done) | (split <;> simp_all))

/-- a non-boolean condition is a type error -/
theorem cond_requires_bool (env : Env) (rp : List Nat) (v : Value) (t e : Expr) (st : St) (h : v.ty ≠ .bool) :
    eval env rp (.ite (.lit v) t e) st = (.err .invalidType, st, []) := by
  cases v <;> simp_all [eval, Value.ty]

/-- a non-boolean left operand of `and` / `or` is a type error -/
theorem logic_left_requires_bool (env : Env) (rp : List Nat) (v : Value) (r : Expr) (st : St) (h : v.ty ≠ .bool) :
    eval env rp (.and (.lit v) r) st = (.err .invalidType, st, []) ∧
    eval env rp (.or (.lit v) r) st = (.err .invalidType, st, []) := by
  cases v <;> simp_all [eval, Value.ty]

/-- … and so is a non-boolean right operand when it is reached -/
theorem logic_right_requires_bool (env : Env) (rp : List Nat) (v : Value) (st : St) (h : v.ty ≠ .bool) :
    eval env rp (.and (.lit (.bool true)) (.lit v)) st = (.err .invalidType, st, []) ∧
    eval env rp (.or (.lit (.bool false)) (.lit v)) st = (.err .invalidType, st, []) := by
  cases v <;> simp_all [eval, Value.ty]

/-- only the explicit casts / constructors / accessors change a value's type: every other unary operator returns a Bool,
    None or a value of its operand's type; every binary operator a Bool, None or a value of its left operand's type —
    except `DateTime − DateTime`, which is a Duration.  (The library oracle is assumed to answer with the type of the
    primitive it answers for: a Decimal for a Decimal operation, a String for a case mapping.) -/
theorem only_casts_change_type (o : Oracle) (ho : o.Typed) :
    (∀ op v r, op.keepsType = true → applyUn o op v = .ok r → r.ty = .bool ∨ r.ty = .none ∨ r.ty = v.ty) ∧
    (∀ op a b r, applyBin o op a b = .ok r →
      r.ty = .bool ∨ r.ty = .none ∨ r.ty = a.ty ∨
      (op = .sub ∧ a.ty = .dateTime ∧ b.ty = .dateTime ∧ r.ty = .duration)) :=
  ⟨fun _ _ _ hk h => applyUn_keeps_type ho hk h, fun _ _ _ _ h => applyBin_keeps_type ho h⟩

/-- … and the ones that do change it are exactly the casts, the two constructors and the calendar accessors -/
theorem type_changing_builtins :
    UnOp.all.filter (fun op => !op.keepsType) =
      [.toInt, .toFloat, .toDec, .dateTime, .duration, .year, .month, .week, .day, .hour, .minute, .second] := by decide

/-! non-vacuity: values that coincide after coercion -/
example : Oracle.empty.Typed := by intro op args v h; simp [Oracle.empty] at h
example : applyBin Oracle.empty .add (.int 1) (.float ⟨0x3ff0000000000000⟩) = .err .invalidType := by decide
example : applyBin Oracle.empty .gt (.dec ⟨false, 1, 0⟩) (.int 1) = .err .invalidType := by decide
example : (Ty.int, Ty.float) ∉ BinOp.add.sig := by decide

end Reval.C03
