/-
  Props/C02.lean — every operator and built-in yields what the operator table defines; a composite
  expression evaluates to the composition of its sub-results.
-/
import RevalModel.Lemmas.Table
import RevalModel.Lemmas.NoneType
import RevalModel.Lemmas.Calendar

namespace Reval.C02

/-- the implementation-shaped binary operators ARE the table (Spec/OperatorTable.lean) -/
theorem applyBin_eq_table (o : Oracle) (op : BinOp) (a b : Value) : applyBin o op a b = tableBin o op a b :=
  Reval.applyBin_eq_table o op a b

theorem applyUn_eq_table (o : Oracle) (op : UnOp) (v : Value) : applyUn o op v = tableUn o op v :=
  Reval.applyUn_eq_table o op v

/-- comparisons follow the type's natural order (Int, DateTime, Duration as integers; Decimal by value) -/
theorem cmp_natural_order (o : Oracle) (a b : Int) :
    applyBin o .gt (.int a) (.int b) = .ok (.bool (decide (a > b))) ∧
    applyBin o .gte (.int a) (.int b) = .ok (.bool (decide (a ≥ b))) ∧
    applyBin o .lt (.int a) (.int b) = .ok (.bool (decide (a < b))) ∧
    applyBin o .lte (.int a) (.int b) = .ok (.bool (decide (a ≤ b))) ∧
    applyBin o .gt (.dateTime a) (.dateTime b) = .ok (.bool (decide (a > b))) ∧
    applyBin o .lte (.duration a) (.duration b) = .ok (.bool (decide (a ≤ b))) := by
  simp [applyBin, Impl.gt, Impl.gte, Impl.lt, Impl.lte]

/-- bitwise operators on Int are the two's-complement ones; `contains` on Ints is the flag test -/
theorem bitwise_int (o : Oracle) (a b : Int) :
    applyBin o .bitAnd (.int a) (.int b) = .ok (.int (I128.land a b)) ∧
    applyBin o .bitOr (.int a) (.int b) = .ok (.int (I128.lor a b)) ∧
    applyBin o .bitXor (.int a) (.int b) = .ok (.int (I128.xor a b)) ∧
    applyBin o .contains (.int a) (.int b) = .ok (.bool (I128.land a b != 0)) := by
  simp [applyBin, Impl.bitwiseAnd, Impl.bitwiseOr, Impl.bitwiseXor, Impl.contains]

/-- membership: map key, list member (by `==`), substring -/
theorem contains_semantics (o : Oracle) (m : List (Str × Value)) (k : Str) (xs : List Value) (x : Value) (s t : Str) :
    applyBin o .contains (.map m) (.str k) = .ok (.bool (lookup m k).isSome) ∧
    applyBin o .contains (.vec xs) x = .ok (.bool (xs.any (fun y => Value.peq y x))) ∧
    applyBin o .contains (.str s) (.str t) = .ok (.bool (Str.isInfix t s)) := by
  simp [applyBin, Impl.contains]

/-- the calendar built-ins: for EVERY date y-m-d of the proleptic Gregorian calendar (any year) and every time of
    day h:mi:s.ns, `year … second` of that instant return exactly y, m, d, h, mi, s -/
theorem calendar_parts_exact (o : Oracle) (y m d h mi s ns : Int) (hv : Time.ValidDate y m d)
    (hh : 0 ≤ h ∧ h ≤ 23) (hmi : 0 ≤ mi ∧ mi ≤ 59) (hs : 0 ≤ s ∧ s ≤ 59) (hns : 0 ≤ ns ∧ ns ≤ 999999999) :
    let t := (Time.daysFromCivil y m d * 86400 + h * 3600 + mi * 60 + s) * Time.nsPerSec + ns
    applyUn o .year (.dateTime t) = .ok (.int y) ∧ applyUn o .month (.dateTime t) = .ok (.int m) ∧
    applyUn o .day (.dateTime t) = .ok (.int d) ∧ applyUn o .hour (.dateTime t) = .ok (.int h) ∧
    applyUn o .minute (.dateTime t) = .ok (.int mi) ∧ applyUn o .second (.dateTime t) = .ok (.int s) := by
  intro t
  have hp := Time.timeOfDay_parts (Time.daysFromCivil y m d) h mi s ns hh hmi hs hns
  have hc := Time.civil_daysFromCivil y m d ⟨hv.1, hv.2.1⟩ ⟨hv.2.2.1, hv.2.2.2⟩
  simp only [applyUn, Impl.year, Impl.month, Impl.day, Impl.hour, Impl.minute, Impl.second, Time.year, Time.month,
    Time.day]
  rw [hp.1, hc]
  exact ⟨rfl, rfl, rfl, by rw [hp.2.1], by rw [hp.2.2.1], by rw [hp.2.2.2]⟩

/-- … and conversely, for EVERY instant `t` (no hypothesis): what `year`, `month`, `day` return is a date of the calendar,
    `hour`, `minute`, `second` are a time of day, and `t` lies in exactly that second of that day -/
theorem calendar_parts_total (o : Oracle) (t : Int) :
    ∃ y m d h mi s, Time.ValidDate y m d ∧ (0 ≤ h ∧ h ≤ 23) ∧ (0 ≤ mi ∧ mi ≤ 59) ∧ (0 ≤ s ∧ s ≤ 59) ∧
      Time.secsOf t = Time.daysFromCivil y m d * 86400 + h * 3600 + mi * 60 + s ∧
      applyUn o .year (.dateTime t) = .ok (.int y) ∧ applyUn o .month (.dateTime t) = .ok (.int m) ∧
      applyUn o .day (.dateTime t) = .ok (.int d) ∧ applyUn o .hour (.dateTime t) = .ok (.int h) ∧
      applyUn o .minute (.dateTime t) = .ok (.int mi) ∧ applyUn o .second (.dateTime t) = .ok (.int s) := by
  have hc := Time.civil_valid_and_inverse (Time.secsOf t / 86400)
  refine ⟨Time.year t, Time.month t, Time.day t, Time.hour t, Time.minute t, Time.second t, hc.1, ?_, ?_, ?_, ?_,
    rfl, rfl, rfl, rfl, rfl, rfl⟩
  · unfold Time.hour; omega
  · unfold Time.minute; omega
  · unfold Time.second; omega
  · have h2 := hc.2
    unfold Time.year Time.month Time.day
    rw [h2]; unfold Time.hour Time.minute Time.second; omega

/-- the day count the previous theorem refers to IS the calendar: day 0 is 1970-01-01 and consecutive dates have
    consecutive numbers (next day of the month, first of the next month, first of the next year); every integer is the
    number of some date -/
theorem day_count_is_consecutive :
    Time.daysFromCivil 1970 1 1 = 0 ∧
    (∀ y m d, Time.daysFromCivil y m (d + 1) = Time.daysFromCivil y m d + 1) ∧
    (∀ y m, 1 ≤ m ∧ m ≤ 11 → Time.daysFromCivil y (m + 1) 1 = Time.daysFromCivil y m (Time.lastDay y m) + 1) ∧
    (∀ y, Time.daysFromCivil (y + 1) 1 1 = Time.daysFromCivil y 12 31 + 1) ∧
    (∀ n, ∃ y m d, Time.ValidDate y m d ∧ Time.daysFromCivil y m d = n) :=
  ⟨Time.daysFromCivil_epoch, Time.daysFromCivil_next_day, Time.daysFromCivil_next_month, Time.daysFromCivil_next_year,
   Time.exists_date⟩

/-! composition: a strict node's result is the operator applied to its children's results, evaluated left
    to right with the state threaded; an error in a child is the node's result -/

theorem un_composes (env : Env) (rp : List Nat) (op : UnOp) (e : Expr) (st st1 : St) (v : Value) (ev : List Event)
    (h : eval env (0 :: rp) e st = (.ok v, st1, ev)) :
    eval env rp (.un op e) st = (tableUn env.oracle op v, st1, ev) := by
  simp [eval, h, Reval.applyUn_eq_table]

theorem bin_composes (env : Env) (rp : List Nat) (op : BinOp) (l r : Expr) (st st1 st2 : St) (a b : Value)
    (ev ev2 : List Event)
    (hl : eval env (0 :: rp) l st = (.ok a, st1, ev)) (hr : eval env (1 :: rp) r st1 = (.ok b, st2, ev2)) :
    eval env rp (.bin op l r) st = (tableBin env.oracle op a b, st2, ev ++ ev2) := by
  simp [eval, hl, hr, Reval.applyBin_eq_table]

theorem index_composes (env : Env) (rp : List Nat) (i : Index) (e : Expr) (st st1 : St) (v : Value) (ev : List Event)
    (h : eval env (0 :: rp) e st = (.ok v, st1, ev)) :
    eval env rp (.index e i) st = (Impl.index v i, st1, ev) := by
  simp [eval, h]

theorem eq_composes (env : Env) (rp : List Nat) (l r : Expr) (st st1 st2 : St) (a b : Value) (ev ev2 : List Event)
    (ha : a ≠ .none)
    (hl : eval env (0 :: rp) l st = (.ok a, st1, ev)) (hr : eval env (1 :: rp) r st1 = (.ok b, st2, ev2)) :
    eval env rp (.eq l r) st = (.ok (.bool (Value.peq a b)), st2, ev ++ ev2) ∧
    eval env rp (.neq l r) st = (.ok (.bool (!Value.peq a b)), st2, ev ++ ev2) := by
  constructor <;> (simp only [eval, hl]; split <;> simp_all)

/-! non-vacuity -/
example : applyBin Oracle.empty .sub (.int 7) (.int 9) = .ok (.int (-2)) := by decide
example : applyBin Oracle.empty .rem (.int (-7)) (.int 2) = .ok (.int (-1)) := by decide
example : applyBin Oracle.empty .contains (.int 6) (.int 3) = .ok (.bool true) := by decide
example : applyUn Oracle.empty .hour (.duration (7200 * Time.nsPerSec)) = .ok (.int 2) := by decide
example : Time.ValidDate 2000 2 29 ∧ Time.ValidDate (-1) 12 31 ∧ ¬ Time.ValidDate 1900 2 29 := by decide
example : Time.daysFromCivil 2000 3 1 = 11017 := by decide
example : applyUn Oracle.empty .month (.dateTime (951782400 * Time.nsPerSec)) = .ok (.int 2) := by decide   -- 2000-02-29

end Reval.C02
