/-
  Props/C02.lean — every operator and built-in yields what the operator table defines; a composite
  expression evaluates to the composition of its sub-results.
-/
import RevalModel.Lemmas.Table
import RevalModel.Lemmas.NoneType

namespace Reval.C02

/-- the implementation-shaped binary operators ARE the table (Spec/OperatorTable.lean) -/
theorem applyBin_eq_table (o : Oracle) (op : BinOp) (a b : Value) : applyBin o op a b = tableBin o op a b :=
  Reval.applyBin_eq_table o op a b

theorem applyUn_eq_table (o : Oracle) (op : UnOp) (v : Value) : applyUn o op v = tableUn o op v :=
  Reval.applyUn_eq_table o op v

/-- comparisons follow the type's natural order (Int, DateTime, Duration as integers; Decimal by value) -/
theorem cmp_natural_order (o : Oracle) (a b : Int) :
    applyBin o .gt (.int a) (.int b) = .ok (.bool (decide (a > b))) ∧
    applyBin o .gte (.int a) (.int b) = .ok (.bool (decide (a ≥ b))) ∧
    applyBin o .lt (.int a) (.int b) = .ok (.bool (decide (a < b))) ∧
    applyBin o .lte (.int a) (.int b) = .ok (.bool (decide (a ≤ b))) ∧
    applyBin o .gt (.dateTime a) (.dateTime b) = .ok (.bool (decide (a > b))) ∧
    applyBin o .lte (.duration a) (.duration b) = .ok (.bool (decide (a ≤ b))) := by
  simp [applyBin, Impl.gt, Impl.gte, Impl.lt, Impl.lte]

/-- bitwise operators on Int are the two's-complement ones; `contains` on Ints is the flag test -/
theorem bitwise_int (o : Oracle) (a b : Int) :
    applyBin o .bitAnd (.int a) (.int b) = .ok (.int (I128.land a b)) ∧
    applyBin o .bitOr (.int a) (.int b) = .ok (.int (I128.lor a b)) ∧
    applyBin o .bitXor (.int a) (.int b) = .ok (.int (I128.xor a b)) ∧
    applyBin o .contains (.int a) (.int b) = .ok (.bool (I128.land a b != 0)) := by
  simp [applyBin, Impl.bitwiseAnd, Impl.bitwiseOr, Impl.bitwiseXor, Impl.contains]

/-- membership: map key, list member (by `==`), substring -/
theorem contains_semantics (o : Oracle) (m : List (Str × Value)) (k : Str) (xs : List Value) (x : Value) (s t : Str) :
    applyBin o .contains (.map m) (.str k) = .ok (.bool (lookup m k).isSome) ∧
    applyBin o .contains (.vec xs) x = .ok (.bool (xs.any (fun y => Value.peq y x))) ∧
    applyBin o .contains (.str s) (.str t) = .ok (.bool (Str.isInfix t s)) := by
  simp [applyBin, Impl.contains]

/-! composition: a strict node's result is the operator applied to its children's results, evaluated left
    to right with the state threaded; an error in a child is the node's result -/

theorem un_composes (env : Env) (rp : List Nat) (op : UnOp) (e : Expr) (st st1 : St) (v : Value) (ev : List Event)
    (h : eval env (0 :: rp) e st = (.ok v, st1, ev)) :
    eval env rp (.un op e) st = (tableUn env.oracle op v, st1, ev) := by
  simp [eval, h, Reval.applyUn_eq_table]

theorem bin_composes (env : Env) (rp : List Nat) (op : BinOp) (l r : Expr) (st st1 st2 : St) (a b : Value)
    (ev ev2 : List Event)
    (hl : eval env (0 :: rp) l st = (.ok a, st1, ev)) (hr : eval env (1 :: rp) r st1 = (.ok b, st2, ev2)) :
    eval env rp (.bin op l r) st = (tableBin env.oracle op a b, st2, ev ++ ev2) := by
  simp [eval, hl, hr, Reval.applyBin_eq_table]

theorem index_composes (env : Env) (rp : List Nat) (i : Index) (e : Expr) (st st1 : St) (v : Value) (ev : List Event)
    (h : eval env (0 :: rp) e st = (.ok v, st1, ev)) :
    eval env rp (.index e i) st = (Impl.index v i, st1, ev) := by
  simp [eval, h]

theorem eq_composes (env : Env) (rp : List Nat) (l r : Expr) (st st1 st2 : St) (a b : Value) (ev ev2 : List Event)
    (ha : a ≠ .none)
    (hl : eval env (0 :: rp) l st = (.ok a, st1, ev)) (hr : eval env (1 :: rp) r st1 = (.ok b, st2, ev2)) :
    eval env rp (.eq l r) st = (.ok (.bool (Value.peq a b)), st2, ev ++ ev2) ∧
    eval env rp (.neq l r) st = (.ok (.bool (!Value.peq a b)), st2, ev ++ ev2) := by
  constructor <;> (simp only [eval, hl]; split <;> simp_all)

/-! non-vacuity -/
example : applyBin Oracle.empty .sub (.int 7) (.int 9) = .ok (.int (-2)) := by decide
example : applyBin Oracle.empty .rem (.int (-7)) (.int 2) = .ok (.int (-1)) := by decide
example : applyBin Oracle.empty .contains (.int 6) (.int 3) = .ok (.bool true) := by decide
example : applyUn Oracle.empty .hour (.duration (7200 * Time.nsPerSec)) = .ok (.int 2) := by decide

end Reval.C02
