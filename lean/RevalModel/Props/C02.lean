/-
  Props/C02.lean — every operator and built-in yields what the operator table defines; a composite
  expression evaluates to the composition of its sub-results.
-/
import RevalModel.Lemmas.Table
import RevalModel.Lemmas.NoneType
import RevalModel.Lemmas.Calendar
import RevalModel.Lemmas.DecExact
import RevalModel.Lemmas.Strings
import RevalModel.Lemmas.Equality
import RevalModel.Lemmas.IntDiv
import RevalModel.Lemmas.AsciiCase

namespace Reval.C02

/-- the implementation-shaped binary operators ARE the table (Spec/OperatorTable.lean) -/
theorem applyBin_eq_table (o : Oracle) (op : BinOp) (a b : Value) : applyBin o op a b = tableBin o op a b :=
  Reval.applyBin_eq_table o op a b

theorem applyUn_eq_table (o : Oracle) (op : UnOp) (v : Value) : applyUn o op v = tableUn o op v :=
  Reval.applyUn_eq_table o op v

/-- comparisons follow the type's natural order (Int, DateTime, Duration as integers; Decimal by value) -/
theorem cmp_natural_order (o : Oracle) (a b : Int) :
    applyBin o .gt (.int a) (.int b) = .ok (.bool (decide (a > b))) ∧
    applyBin o .gte (.int a) (.int b) = .ok (.bool (decide (a ≥ b))) ∧
    applyBin o .lt (.int a) (.int b) = .ok (.bool (decide (a < b))) ∧
    applyBin o .lte (.int a) (.int b) = .ok (.bool (decide (a ≤ b))) ∧
    applyBin o .gt (.dateTime a) (.dateTime b) = .ok (.bool (decide (a > b))) ∧
    applyBin o .lte (.duration a) (.duration b) = .ok (.bool (decide (a ≤ b))) := by
  simp [applyBin, Impl.gt, Impl.gte, Impl.lt, Impl.lte]

/-- bitwise operators on Int are the two's-complement ones; `contains` on Ints is the flag test -/
theorem bitwise_int (o : Oracle) (a b : Int) :
    applyBin o .bitAnd (.int a) (.int b) = .ok (.int (I128.land a b)) ∧
    applyBin o .bitOr (.int a) (.int b) = .ok (.int (I128.lor a b)) ∧
    applyBin o .bitXor (.int a) (.int b) = .ok (.int (I128.xor a b)) ∧
    applyBin o .contains (.int a) (.int b) = .ok (.bool (I128.land a b != 0)) := by
  simp [applyBin, Impl.bitwiseAnd, Impl.bitwiseOr, Impl.bitwiseXor, Impl.contains]

/-- `& | ^` on Ints act bit by bit on the 128-bit two's-complement patterns (and an in-range Int is its pattern) -/
theorem bitwise_bit_by_bit (a b : Int) (i : Nat) :
    I128.bit (I128.land a b) i = (I128.bit a i && I128.bit b i) ∧
    I128.bit (I128.lor a b) i = (I128.bit a i || I128.bit b i) ∧
    I128.bit (I128.xor a b) i = (I128.bit a i != I128.bit b i) ∧
    (I128.inRange a = true → I128.ofU (I128.toU a) = a) :=
  ⟨I128.land_bit a b i, I128.lor_bit a b i, I128.xor_bit a b i, fun h => I128.ofU_toU h⟩

/-- Decimal comparisons are the order of the values `num / 10^scale`, whatever the scales (`d1.0 ≤ d1.00 ≤ d1.0`) -/
theorem decimal_order (o : Oracle) (a b : Dec) :
    applyBin o .lt (.dec a) (.dec b) = .ok (.bool (decide (a.num * 10 ^ b.scale < b.num * 10 ^ a.scale))) ∧
    applyBin o .lte (.dec a) (.dec b) = .ok (.bool (decide (a.num * 10 ^ b.scale ≤ b.num * 10 ^ a.scale))) ∧
    applyBin o .gt (.dec a) (.dec b) = .ok (.bool (decide (b.num * 10 ^ a.scale < a.num * 10 ^ b.scale))) ∧
    applyBin o .gte (.dec a) (.dec b) = .ok (.bool (decide (b.num * 10 ^ a.scale ≤ a.num * 10 ^ b.scale))) ∧
    (Value.peq (.dec a) (.dec b) = true ↔ a.num * 10 ^ b.scale = b.num * 10 ^ a.scale) := by
  refine ⟨?_, ?_, ?_, ?_, ?_⟩
  · simp only [applyBin, Impl.lt]; congr 2; exact Bool.eq_iff_iff.mpr (by simpa using Dec.lt_iff_cross a b)
  · simp only [applyBin, Impl.lte]; congr 2; exact Bool.eq_iff_iff.mpr (by simpa using Dec.le_iff_cross a b)
  · simp only [applyBin, Impl.gt]; congr 2; exact Bool.eq_iff_iff.mpr (by simpa using Dec.lt_iff_cross b a)
  · simp only [applyBin, Impl.gte]; congr 2; exact Bool.eq_iff_iff.mpr (by simpa using Dec.le_iff_cross b a)
  · simp only [Value.peq]; exact Dec.eqNum_iff_cross a b

/-- `floor`, `round`, `fract` of a Decimal, whenever the model predicts them (a zero result is left to the library):
    the greatest integer not above the value; a nearest integer, the even one on a tie; the fractional digits -/
theorem decimal_rounding (d r : Dec) :
    (Dec.floor d = .val r → r.scale = 0 ∧ r.num * 10 ^ d.scale ≤ d.num ∧ d.num < (r.num + 1) * 10 ^ d.scale) ∧
    (Dec.round d = .val r → r.scale = 0 ∧ r.neg = d.neg ∧
       2 * ((r.mant : Int) * (10 ^ d.scale : Nat) - d.mant).natAbs ≤ 10 ^ d.scale ∧
       (2 * (d.mant % 10 ^ d.scale) = 10 ^ d.scale → r.mant % 2 = 0)) ∧
    (Dec.fract d = .val r → r.scale = d.scale ∧ r.neg = d.neg ∧ r.mant = d.mant % 10 ^ d.scale ∧
       d.mant = (d.mant / 10 ^ d.scale) * 10 ^ d.scale + r.mant) :=
  ⟨Dec.floor_spec, Dec.round_spec, Dec.fract_spec⟩

/-- a span built from `i` weeks / days / hours / minutes / seconds reads back as exactly `i` of them -/
theorem duration_units_roundtrip (o : Oracle) (i : Int) (v : Value) :
    (applyUn o .week (.int i) = .ok v → applyUn o .week v = .ok (.int i)) ∧
    (applyUn o .day (.int i) = .ok v → applyUn o .day v = .ok (.int i)) ∧
    (applyUn o .hour (.int i) = .ok v → applyUn o .hour v = .ok (.int i)) ∧
    (applyUn o .minute (.int i) = .ok v → applyUn o .minute v = .ok (.int i)) ∧
    (applyUn o .second (.int i) = .ok v → applyUn o .second v = .ok (.int i)) := by
  have key : ∀ u, (u = 604800 ∨ u = 86400 ∨ u = 3600 ∨ u = 60 ∨ u = 1) →
      Impl.mkDuration u (.int i) i = .ok v → ∃ d, v = .duration d ∧ Time.numUnits u d = i := by
    intro u hu h
    unfold Impl.mkDuration at h
    split at h
    · rename_i d hd
      injection h with h; subst h
      split at hd
      · exact ⟨d, rfl, Time.units_roundtrip u i d hu hd⟩
      · simp at hd
    · simp at h
  refine ⟨?_, ?_, ?_, ?_, ?_⟩
  · intro h; obtain ⟨d, rfl, hd⟩ := key 604800 (by simp) (by simpa [applyUn, Impl.week] using h)
    simp [applyUn, Impl.week, hd]
  · intro h; obtain ⟨d, rfl, hd⟩ := key 86400 (by simp) (by simpa [applyUn, Impl.day] using h)
    simp [applyUn, Impl.day, hd]
  · intro h; obtain ⟨d, rfl, hd⟩ := key 3600 (by simp) (by simpa [applyUn, Impl.hour] using h)
    simp [applyUn, Impl.hour, hd]
  · intro h; obtain ⟨d, rfl, hd⟩ := key 60 (by simp) (by simpa [applyUn, Impl.minute] using h)
    simp [applyUn, Impl.minute, hd]
  · intro h; obtain ⟨d, rfl, hd⟩ := key 1 (by simp) (by simpa [applyUn, Impl.second] using h)
    simp [applyUn, Impl.second, hd]

/-- membership: map key, list member (by `==`), substring -/
theorem contains_semantics (o : Oracle) (m : List (Str × Value)) (k : Str) (xs : List Value) (x : Value) (s t : Str) :
    applyBin o .contains (.map m) (.str k) = .ok (.bool (lookup m k).isSome) ∧
    applyBin o .contains (.vec xs) x = .ok (.bool (xs.any (fun y => Value.peq y x))) ∧
    applyBin o .contains (.str s) (.str t) = .ok (.bool (Str.isInfix t s)) := by
  simp [applyBin, Impl.contains]

/-- the calendar built-ins: for EVERY date y-m-d of the proleptic Gregorian calendar (any year) and every time of
    day h:mi:s.ns, `year … second` of that instant return exactly y, m, d, h, mi, s -/
theorem calendar_parts_exact (o : Oracle) (y m d h mi s ns : Int) (hv : Time.ValidDate y m d)
    (hh : 0 ≤ h ∧ h ≤ 23) (hmi : 0 ≤ mi ∧ mi ≤ 59) (hs : 0 ≤ s ∧ s ≤ 59) (hns : 0 ≤ ns ∧ ns ≤ 999999999) :
    let t := (Time.daysFromCivil y m d * 86400 + h * 3600 + mi * 60 + s) * Time.nsPerSec + ns
    applyUn o .year (.dateTime t) = .ok (.int y) ∧ applyUn o .month (.dateTime t) = .ok (.int m) ∧
    applyUn o .day (.dateTime t) = .ok (.int d) ∧ applyUn o .hour (.dateTime t) = .ok (.int h) ∧
    applyUn o .minute (.dateTime t) = .ok (.int mi) ∧ applyUn o .second (.dateTime t) = .ok (.int s) := by
  intro t
  have hp := Time.timeOfDay_parts (Time.daysFromCivil y m d) h mi s ns hh hmi hs hns
  have hc := Time.civil_daysFromCivil y m d ⟨hv.1, hv.2.1⟩ ⟨hv.2.2.1, hv.2.2.2⟩
  simp only [applyUn, Impl.year, Impl.month, Impl.day, Impl.hour, Impl.minute, Impl.second, Time.year, Time.month,
    Time.day]
  rw [hp.1, hc]
  exact ⟨rfl, rfl, rfl, by rw [hp.2.1], by rw [hp.2.2.1], by rw [hp.2.2.2]⟩

/-- … and conversely, for EVERY instant `t` (no hypothesis): what `year`, `month`, `day` return is a date of the calendar,
    `hour`, `minute`, `second` are a time of day, and `t` lies in exactly that second of that day -/
theorem calendar_parts_total (o : Oracle) (t : Int) :
    ∃ y m d h mi s, Time.ValidDate y m d ∧ (0 ≤ h ∧ h ≤ 23) ∧ (0 ≤ mi ∧ mi ≤ 59) ∧ (0 ≤ s ∧ s ≤ 59) ∧
      Time.secsOf t = Time.daysFromCivil y m d * 86400 + h * 3600 + mi * 60 + s ∧
      applyUn o .year (.dateTime t) = .ok (.int y) ∧ applyUn o .month (.dateTime t) = .ok (.int m) ∧
      applyUn o .day (.dateTime t) = .ok (.int d) ∧ applyUn o .hour (.dateTime t) = .ok (.int h) ∧
      applyUn o .minute (.dateTime t) = .ok (.int mi) ∧ applyUn o .second (.dateTime t) = .ok (.int s) := by
  have hc := Time.civil_valid_and_inverse (Time.secsOf t / 86400)
  refine ⟨Time.year t, Time.month t, Time.day t, Time.hour t, Time.minute t, Time.second t, hc.1, ?_, ?_, ?_, ?_,
    rfl, rfl, rfl, rfl, rfl, rfl⟩
  · unfold Time.hour; omega
  · unfold Time.minute; omega
  · unfold Time.second; omega
  · have h2 := hc.2
    unfold Time.year Time.month Time.day
    rw [h2]; unfold Time.hour Time.minute Time.second; omega

/-- the day count the previous theorem refers to IS the calendar: day 0 is 1970-01-01 and consecutive dates have
    consecutive numbers (next day of the month, first of the next month, first of the next year); every integer is the
    number of some date -/
theorem day_count_is_consecutive :
    Time.daysFromCivil 1970 1 1 = 0 ∧
    (∀ y m d, Time.daysFromCivil y m (d + 1) = Time.daysFromCivil y m d + 1) ∧
    (∀ y m, 1 ≤ m ∧ m ≤ 11 → Time.daysFromCivil y (m + 1) 1 = Time.daysFromCivil y m (Time.lastDay y m) + 1) ∧
    (∀ y, Time.daysFromCivil (y + 1) 1 1 = Time.daysFromCivil y 12 31 + 1) ∧
    (∀ n, ∃ y m d, Time.ValidDate y m d ∧ Time.daysFromCivil y m d = n) :=
  ⟨Time.daysFromCivil_epoch, Time.daysFromCivil_next_day, Time.daysFromCivil_next_month, Time.daysFromCivil_next_year,
   Time.exists_date⟩

/-! composition: a strict node's result is the operator applied to its children's results, evaluated left
    to right with the state threaded; an error in a child is the node's result -/

theorem un_composes (env : Env) (rp : List Nat) (op : UnOp) (e : Expr) (st st1 : St) (v : Value) (ev : List Event)
    (h : eval env (0 :: rp) e st = (.ok v, st1, ev)) :
    eval env rp (.un op e) st = (tableUn env.oracle op v, st1, ev) := by
  simp [eval, h, Reval.applyUn_eq_table]

theorem bin_composes (env : Env) (rp : List Nat) (op : BinOp) (l r : Expr) (st st1 st2 : St) (a b : Value)
    (ev ev2 : List Event)
    (hl : eval env (0 :: rp) l st = (.ok a, st1, ev)) (hr : eval env (1 :: rp) r st1 = (.ok b, st2, ev2)) :
    eval env rp (.bin op l r) st = (tableBin env.oracle op a b, st2, ev ++ ev2) := by
  simp [eval, hl, hr, Reval.applyBin_eq_table]

theorem index_composes (env : Env) (rp : List Nat) (i : Index) (e : Expr) (st st1 : St) (v : Value) (ev : List Event)
    (h : eval env (0 :: rp) e st = (.ok v, st1, ev)) :
    eval env rp (.index e i) st = (Impl.index v i, st1, ev) := by
  simp [eval, h]

theorem eq_composes (env : Env) (rp : List Nat) (l r : Expr) (st st1 st2 : St) (a b : Value) (ev ev2 : List Event)
    (ha : a ≠ .none)
    (hl : eval env (0 :: rp) l st = (.ok a, st1, ev)) (hr : eval env (1 :: rp) r st1 = (.ok b, st2, ev2)) :
    eval env rp (.eq l r) st = (.ok (.bool (Value.peq a b)), st2, ev ++ ev2) ∧
    eval env rp (.neq l r) st = (.ok (.bool (!Value.peq a b)), st2, ev ++ ev2) := by
  constructor <;> (simp only [eval, hl]; split <;> simp_all)

/-- `contains` on two strings is the substring relation: true exactly when the right operand occurs in the left one as a
    contiguous piece (the empty string occurs in every string), false exactly when it does not -/
theorem string_contains_is_substring (o : Oracle) (s t : Str) :
    (applyBin o .contains (.str s) (.str t) = .ok (.bool true) ↔ ∃ pre post, s = pre ++ t ++ post) ∧
    (applyBin o .contains (.str s) (.str t) = .ok (.bool false) ↔ ¬ ∃ pre post, s = pre ++ t ++ post) := by
  have h : applyBin o .contains (.str s) (.str t) = .ok (.bool (Str.isInfix t s)) := by simp [applyBin, Impl.contains]
  rw [h, ← Str.isInfix_iff]
  cases Str.isInfix t s <;> simp

/-- `trim` returns the middle of the string: what is cut off on either side is white space only (Unicode White_Space),
    the result neither starts nor ends with a white-space character, and nothing inside is touched -/
theorem trim_is_the_middle (o : Oracle) (s : Str) : ∃ l m r, s = l ++ m ++ r ∧
    applyUn o .trim (.str s) = .ok (.str m) ∧ l.all Str.isWhite = true ∧ r.all Str.isWhite = true ∧
    (∀ c u, m = c :: u → Str.isWhite c = false) ∧ (∀ c, m.getLast? = some c → Str.isWhite c = false) := by
  obtain ⟨l, r, h1, h2, h3, h4, h5⟩ := Str.trim_spec s
  exact ⟨l, Str.trim s, r, h1, by simp [applyUn, Impl.trim], h2, h3, h4, h5⟩

/-- trimming a trimmed string changes nothing -/
theorem trim_idempotent (o : Oracle) (s m : Str) (h : applyUn o .trim (.str s) = .ok (.str m)) :
    applyUn o .trim (.str m) = .ok (.str m) := by
  simp only [applyUn, Impl.trim, Res.ok.injEq, Value.str.injEq] at h ⊢
  rw [← h]; exact Str.trim_idempotent s

/-- `int("…")`: succeeds exactly on an optional sign followed by at least one ASCII digit and nothing else (no white
    space, no separators, no radix prefix) whose number lies within i128, and yields that number; every other string is
    an invalid-cast error carrying the string -/
theorem int_of_string_exact (o : Oracle) (s : Str) :
    (∀ n, applyUn o .toInt (.str s) = .ok (.int n) ↔
      ∃ (neg : Bool) (ds : Str), (s = ds ∧ neg = false ∨ s = '+' :: ds ∧ neg = false ∨ s = '-' :: ds ∧ neg = true) ∧
        ds ≠ [] ∧ ds.all Str.isDigit = true ∧ n = (if neg then -(Str.ofDigits ds : Int) else (Str.ofDigits ds : Int)) ∧
        I128.inRange n = true) ∧
    ((∀ n, applyUn o .toInt (.str s) ≠ .ok (.int n)) → applyUn o .toInt (.str s) = .err (.invalidCast (.str s))) := by
  constructor
  · intro n
    rw [← parseI128_spec]
    simp only [applyUn, Impl.toInt]
    cases Str.parseI128 s <;> simp
  · intro h
    simp only [applyUn, Impl.toInt] at h ⊢
    cases hp : Str.parseI128 s with
    | none => rfl
    | some n => rw [hp] at h; exact absurd rfl (h n)

/-- `==` between values without a Float inside is reflexive and symmetric (a Float compares by IEEE: NaN ≠ NaN, so a value
    holding one need not equal itself); `!=` is its negation by `eq_composes` -/
theorem eq_reflexive_symmetric_without_floats (a b : Value) (ha : a.noFloat = true) :
    Value.peq a a = true ∧ Value.peq a b = Value.peq b a :=
  ⟨peq_refl a ha, peq_symm a b ha⟩

/-- on strings, integers, booleans, instants, spans, None and lists / maps built from them, `==` is identity: true exactly
    when the two operands are the same value (same length, same keys, same order, same items) -/
theorem eq_is_identity_on_exact_values (a b : Value) (ha : a.exact = true) (hb : b.exact = true) :
    Value.peq a b = true ↔ a = b :=
  peq_iff_eq a b ha hb

/-- `int(decimal)` truncates toward zero: the result `k` is the unique integer with `value = k + fraction`, the fraction
    having the sign of the value and magnitude below one (in units of `10^-scale`: `num = k·10^scale + r`, `|r| < 10^scale`,
    `r` of the sign of `num`) — never rounding up or to even -/
theorem int_of_decimal_truncates (o : Oracle) (d : Dec) : ∃ k r : Int,
    applyUn o .toInt (.dec d) = .ok (.int k) ∧ d.num = k * 10 ^ d.scale + r ∧ r.natAbs < 10 ^ d.scale ∧
    ((0 ≤ d.num ∧ 0 ≤ r) ∨ (d.num ≤ 0 ∧ r ≤ 0)) := by
  have hp : (0 : Int) < 10 ^ d.scale := Int.pow_pos (by decide)
  refine ⟨Int.tdiv d.num (10 ^ d.scale), Int.tmod d.num (10 ^ d.scale), by simp [applyUn, Impl.toInt, Dec.toInt], ?_, ?_, ?_⟩
  · have := Int.mul_tdiv_add_tmod d.num (10 ^ d.scale)
    rw [Int.mul_comm] at this; exact this.symm
  · rw [Int.natAbs_tmod]
    have h10 : ((10 : Int) ^ d.scale).natAbs = 10 ^ d.scale := by
      rw [Int.natAbs_pow]; rfl
    rw [h10]
    exact Nat.mod_lt _ (Nat.pow_pos (by decide))
  · by_cases h : 0 ≤ d.num
    · exact Or.inl ⟨h, Int.tmod_nonneg _ h⟩
    · right
      have hn : d.num ≤ 0 := by omega
      refine ⟨hn, ?_⟩
      have h2 : 0 ≤ -d.num := by omega
      have := Int.tmod_nonneg (10 ^ d.scale) h2
      rw [Int.neg_tmod] at this
      omega

/-- the unit counts of a span — `week(d)`, `day(d)`, `hour(d)`, `minute(d)`, `second(d)` — are the number of WHOLE units in
    it, truncated toward zero (a span of −90 minutes has −1 hours): one division of the nanosecond count by the unit -/
theorem duration_unit_counts_truncate (o : Oracle) (ns : Int) :
    applyUn o .week (.duration ns) = .ok (.int (Int.tdiv ns (Time.nsPerSec * 604800))) ∧
    applyUn o .day (.duration ns) = .ok (.int (Int.tdiv ns (Time.nsPerSec * 86400))) ∧
    applyUn o .hour (.duration ns) = .ok (.int (Int.tdiv ns (Time.nsPerSec * 3600))) ∧
    applyUn o .minute (.duration ns) = .ok (.int (Int.tdiv ns (Time.nsPerSec * 60))) ∧
    applyUn o .second (.duration ns) = .ok (.int (Int.tdiv ns Time.nsPerSec)) := by
  have hs : (0 : Int) < Time.nsPerSec := by decide
  refine ⟨?_, ?_, ?_, ?_, ?_⟩
  · simp only [applyUn, Impl.week, Time.numUnits, Time.numSeconds]; rw [Int.tdiv_tdiv_pos _ _ _ hs (by decide)]
  · simp only [applyUn, Impl.day, Time.numUnits, Time.numSeconds]; rw [Int.tdiv_tdiv_pos _ _ _ hs (by decide)]
  · simp only [applyUn, Impl.hour, Time.numUnits, Time.numSeconds]; rw [Int.tdiv_tdiv_pos _ _ _ hs (by decide)]
  · simp only [applyUn, Impl.minute, Time.numUnits, Time.numSeconds]; rw [Int.tdiv_tdiv_pos _ _ _ hs (by decide)]
  · simp [applyUn, Impl.second, Time.numUnits, Time.numSeconds]

/-- on ASCII text `uppercase` / `lowercase` map character by character (only a–z / A–Z move, by 32), keep the length, are
    idempotent, and each undoes the other up to case: lower(upper(s)) = lower(s), upper(lower(s)) = upper(s) -/
theorem ascii_case_mapping (o : Oracle) (s : Str) (h : Str.isAscii s = true) :
    applyUn o .upper (.str s) = .ok (.str (s.map Str.asciiUpper)) ∧
    applyUn o .lower (.str s) = .ok (.str (s.map Str.asciiLower)) ∧
    applyUn o .upper (.str (s.map Str.asciiUpper)) = .ok (.str (s.map Str.asciiUpper)) ∧
    applyUn o .lower (.str (s.map Str.asciiLower)) = .ok (.str (s.map Str.asciiLower)) ∧
    applyUn o .lower (.str (s.map Str.asciiUpper)) = .ok (.str (s.map Str.asciiLower)) ∧
    applyUn o .upper (.str (s.map Str.asciiLower)) = .ok (.str (s.map Str.asciiUpper)) ∧
    (s.map Str.asciiUpper).length = s.length := by
  obtain ⟨h1, h2, h3, h4, h5, h6⟩ := map_ascii s h
  simp [applyUn, Impl.upper, Impl.lower, h, h1, h2, h3, h4, h5, h6]

/-! non-vacuity -/
example : applyBin Oracle.empty .sub (.int 7) (.int 9) = .ok (.int (-2)) := by decide
example : applyBin Oracle.empty .rem (.int (-7)) (.int 2) = .ok (.int (-1)) := by decide
example : applyBin Oracle.empty .contains (.int 6) (.int 3) = .ok (.bool true) := by decide
example : applyUn Oracle.empty .hour (.duration (7200 * Time.nsPerSec)) = .ok (.int 2) := by decide
example : Time.ValidDate 2000 2 29 ∧ Time.ValidDate (-1) 12 31 ∧ ¬ Time.ValidDate 1900 2 29 := by decide
example : Time.daysFromCivil 2000 3 1 = 11017 := by decide
example : applyUn Oracle.empty .month (.dateTime (951782400 * Time.nsPerSec)) = .ok (.int 2) := by decide   -- 2000-02-29

example : Str.trim "\t a b  ".toList = "a b".toList := by decide
example : Str.isInfix "".toList "abc".toList = true ∧ Str.isInfix "bc".toList "abc".toList = true ∧ Str.isInfix "ac".toList "abc".toList = false := by decide
example : applyUn Oracle.empty .toInt (.str "-12".toList) = .ok (.int (-12)) ∧ applyUn Oracle.empty .toInt (.str " 12".toList) = .err (.invalidCast (.str " 12".toList)) := by decide
example : (Value.vec [.int 1, .map [("a".toList, .str "x".toList)], .none]).exact = true := by decide
example : Value.peq (.vec [.dec ⟨false, 10, 1⟩]) (.vec [.dec ⟨false, 100, 2⟩]) = true := by decide   -- d1.0 == d1.00: numeric, not identity
example : applyUn Oracle.empty .toInt (.dec ⟨true, 199, 2⟩) = .ok (.int (-1)) := by decide   -- int(d-1.99) = -1
example : applyUn Oracle.empty .toInt (.dec ⟨false, 25, 1⟩) = .ok (.int 2) := by decide      -- int(d2.5) = 2

example : applyUn Oracle.empty .hour (.duration (-5400 * Time.nsPerSec)) = .ok (.int (-1)) := by decide   -- −90 minutes: −1 hours
example : applyUn Oracle.empty .upper (.str "aZ-9 {z}".toList) = .ok (.str "AZ-9 {Z}".toList) := by decide


end Reval.C02
