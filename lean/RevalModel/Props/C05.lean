/-
  Props/C05.lean — conditionals and logic evaluate lazily; everything else once, left to right;
  the first error ends the evaluation.
-/
import RevalModel.Lemmas.Lazy
import RevalModel.Lemmas.Strict

namespace Reval.C05

/-- the call sites reached during an evaluation form a subsequence of the static left-to-right post-order
    of the expression (map entries in key order): nothing is evaluated out of order … -/
theorem trace_sublist (env : Env) (rp : List Nat) (e : Expr) (st : St) :
    (reached (eval env rp e st).2.2).Sublist (sites rp e) := Reval.trace_sublist env rp e st

/-- … that order lists every call site once, so no call site is evaluated twice … -/
theorem each_site_at_most_once (env : Env) (rp : List Nat) (e : Expr) (st : St) :
    (sites rp e).Nodup ∧ (reached (eval env rp e st).2.2).Nodup :=
  ⟨sites_nodup rp e, reached_nodup env rp e st⟩

/-- … and every user-function invocation belongs to a call node that was reached, in the same order
    (a sub-expression that is not reached invokes nothing) -/
theorem invocations_only_at_reached_sites (env : Env) (rp : List Nat) (e : Expr) (st : St) :
    (invokedCalls (eval env rp e st).2.2).Sublist (reachedCalls (eval env rp e st).2.2) :=
  invoked_sublist_reached env rp e st

/-- `if`: exactly one branch — the result, state and history are the condition's followed by the chosen
    branch's; the other branch does not occur -/
theorem lazy_if (env : Env) (rp : List Nat) (c t e : Expr) (st st1 : St) (ev : List Event) :
    (eval env (0 :: rp) c st = (.ok (.bool true), st1, ev) →
      eval env rp (.ite c t e) st =
        ((eval env (1 :: rp) t st1).1, (eval env (1 :: rp) t st1).2.1, ev ++ (eval env (1 :: rp) t st1).2.2)) ∧
    (eval env (0 :: rp) c st = (.ok (.bool false), st1, ev) →
      eval env rp (.ite c t e) st =
        ((eval env (2 :: rp) e st1).1, (eval env (2 :: rp) e st1).2.1, ev ++ (eval env (2 :: rp) e st1).2.2)) := by
  constructor <;> (intro h; simp [eval, h])

/-- `and` / `or`: the right operand is not evaluated when the left one decides -/
theorem lazy_and_or (env : Env) (rp : List Nat) (l r : Expr) (st st1 : St) (ev : List Event) :
    (eval env (0 :: rp) l st = (.ok (.bool false), st1, ev) →
      eval env rp (.and l r) st = (.ok (.bool false), st1, ev)) ∧
    (eval env (0 :: rp) l st = (.ok (.bool true), st1, ev) →
      eval env rp (.or l r) st = (.ok (.bool true), st1, ev)) := by
  constructor <;> (intro h; simp [eval, h])

/-- … and when the left operand does NOT decide, the right operand is evaluated and ITS outcome decides: its own error is
    reported unchanged (a user function's failure stays that failure — it does not turn into a type error), a boolean is the
    result, anything else is the type error -/
theorem reached_right_operand_decides (env : Env) (rp : List Nat) (l r : Expr) (st st1 st2 : St) (x : Err) (b : Bool)
    (ev ev2 : List Event) :
    (eval env (0 :: rp) l st = (.ok (.bool true), st1, ev) → eval env (1 :: rp) r st1 = (.err x, st2, ev2) →
      eval env rp (.and l r) st = (.err x, st2, ev ++ ev2)) ∧
    (eval env (0 :: rp) l st = (.ok (.bool false), st1, ev) → eval env (1 :: rp) r st1 = (.err x, st2, ev2) →
      eval env rp (.or l r) st = (.err x, st2, ev ++ ev2)) ∧
    (eval env (0 :: rp) l st = (.ok (.bool true), st1, ev) → eval env (1 :: rp) r st1 = (.ok (.bool b), st2, ev2) →
      eval env rp (.and l r) st = (.ok (.bool b), st2, ev ++ ev2)) ∧
    (eval env (0 :: rp) l st = (.ok (.bool false), st1, ev) → eval env (1 :: rp) r st1 = (.ok (.bool b), st2, ev2) →
      eval env rp (.or l r) st = (.ok (.bool b), st2, ev ++ ev2)) := by
  refine ⟨?_, ?_, ?_, ?_⟩ <;> (intro h1 h2; simp [eval, h1, h2])

/-- `==` / `!=`: the right operand is not evaluated when the left is None -/
theorem lazy_eq_none (env : Env) (rp : List Nat) (l r : Expr) (st st1 : St) (ev : List Event)
    (h : eval env (0 :: rp) l st = (.ok .none, st1, ev)) :
    eval env rp (.eq l r) st = (.ok (.bool false), st1, ev) ∧
    eval env rp (.neq l r) st = (.ok (.bool true), st1, ev) := by
  simp [eval, h]

/-- an unreached sub-expression is inert: it can be replaced by anything (an erroring expression, a call)
    without changing result, state or history -/
theorem unreached_is_inert (env : Env) (rp : List Nat) (c l t e x y : Expr) (st st1 : St) (ev : List Event) :
    (eval env (0 :: rp) c st = (.ok (.bool true), st1, ev) → eval env rp (.ite c t x) st = eval env rp (.ite c t y) st) ∧
    (eval env (0 :: rp) c st = (.ok (.bool false), st1, ev) → eval env rp (.ite c x e) st = eval env rp (.ite c y e) st) ∧
    (eval env (0 :: rp) l st = (.ok (.bool false), st1, ev) → eval env rp (.and l x) st = eval env rp (.and l y) st) ∧
    (eval env (0 :: rp) l st = (.ok (.bool true), st1, ev) → eval env rp (.or l x) st = eval env rp (.or l y) st) ∧
    (eval env (0 :: rp) l st = (.ok .none, st1, ev) → eval env rp (.eq l x) st = eval env rp (.eq l y) st) := by
  refine ⟨?_, ?_, ?_, ?_, ?_⟩ <;> (intro h; simp [eval, h])

/-- the first error ends the evaluation of a strict node: the node's outcome is that error, and state and
    history are those reached at that point — the remaining operands are not evaluated -/
theorem strict_error_short_circuits (env : Env) (rp : List Nat) (op : BinOp) (uop : UnOp) (l r : Expr) (i : Index)
    (f : Str) (st st1 st2 : St) (a : Value) (x : Err) (ev ev2 : List Event) :
    (eval env (0 :: rp) l st = (.err x, st1, ev) → eval env rp (.bin op l r) st = (.err x, st1, ev)) ∧
    (eval env (0 :: rp) l st = (.ok a, st1, ev) → eval env (1 :: rp) r st1 = (.err x, st2, ev2) →
      eval env rp (.bin op l r) st = (.err x, st2, ev ++ ev2)) ∧
    (eval env (0 :: rp) l st = (.err x, st1, ev) → eval env rp (.un uop l) st = (.err x, st1, ev)) ∧
    (eval env (0 :: rp) l st = (.err x, st1, ev) → eval env rp (.index l i) st = (.err x, st1, ev)) ∧
    (eval env (0 :: rp) l st = (.err x, st1, ev) → eval env rp (.call f l) st = (.err x, st1, ev)) ∧
    (eval env (0 :: rp) l st = (.err x, st1, ev) → eval env rp (.ite l r r) st = (.err x, st1, ev)) ∧
    (eval env (0 :: rp) l st = (.err x, st1, ev) → eval env rp (.and l r) st = (.err x, st1, ev)) ∧
    (eval env (0 :: rp) l st = (.err x, st1, ev) → eval env rp (.eq l r) st = (.err x, st1, ev)) := by
  refine ⟨?_, ?_, ?_, ?_, ?_, ?_, ?_, ?_⟩ <;> (intros; simp_all [eval])

/-- lists (and likewise map entries, in key order): the first failing item's error, nothing after it -/
theorem list_first_error (env : Env) (rp : List Nat) (i : Nat) (e : Expr) (es : List Expr) (st st1 : St) (x : Err)
    (ev : List Event) (h : eval env (i :: rp) e st = (.err x, st1, ev)) :
    evalList env rp i (e :: es) st = (.err x, st1, ev) := by
  simp [evalList, h]

theorem list_left_to_right (env : Env) (rp : List Nat) (i : Nat) (e : Expr) (es : List Expr) (st st1 : St) (v : Value)
    (ev : List Event) (h : eval env (i :: rp) e st = (.ok v, st1, ev)) :
    (evalList env rp i (e :: es) st).2.2 = ev ++ (evalList env rp (i + 1) es st1).2.2 := by
  simp only [evalList, h]; split <;> simp_all

/-- "everything else once": an expression without `if` / `and` / `or` / `==` / `!=` that yields a value has reached EVERY one of
    its call sites — not just a subsequence —, each exactly once, in the static left-to-right order (list items by position, map
    entries by key) -/
theorem strict_evaluates_everything_once (env : Env) (rp : List Nat) (e : Expr) (st : St) (hs : e.strict = true)
    (v : Value) (st1 : St) (ev : List Event) (h : eval env rp e st = (.ok v, st1, ev)) :
    reached ev = sites rp e ∧ (reached ev).Nodup := by
  have := strict_ok_reaches_all env rp e st hs v st1 ev h
  exact ⟨this, this ▸ sites_nodup rp e⟩

/-! non-vacuity: a lazy `if` over logging functions — only `t` and `a` are invoked, in that order -/
def demoEnv : Env :=
  ⟨.none, [], [(['t'], ⟨false, fun _ _ => .ok (.bool true)⟩), (['a'], ⟨false, fun _ v => .ok v⟩),
               (['b'], ⟨false, fun _ _ => .error ['x']⟩)], Oracle.empty⟩
example :
    invokedCalls (eval demoEnv [] (.ite (.call ['t'] (.lit (.int 1))) (.call ['a'] (.lit (.int 2))) (.call ['b'] (.lit (.int 3)))) St.init).2.2
      = [(['t'], .int 1), (['a'], .int 2)] := by decide

def strictDemo : Expr :=
  .vec [.call ['a'] (.lit (.int 1)), .bin .add (.call ['a'] (.lit (.int 2))) (.call ['a'] (.call ['a'] (.lit (.int 3))))]
example : strictDemo.strict = true ∧ (eval demoEnv [] strictDemo St.init).1 = .ok (.vec [.int 1, .int 5]) ∧
    reached (eval demoEnv [] strictDemo St.init).2.2 = [[0], [0, 1], [0, 1, 1], [1, 1]] := by decide

end Reval.C05
