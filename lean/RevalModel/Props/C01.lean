/-
  Props/C01.lean — Evaluation always returns a value or an error, never a panic; a numeric, date or
  duration result outside the range of its type is an error, never wrapped / saturated / truncated.
  Property theorems only (proofs call lemmas).  Arithmetic is over unbounded `Int`.
-/
import RevalModel.Lemmas.NoPanic
import RevalModel.Lemmas.Exact
import RevalModel.Impl.RuleSet
import RevalModel.Lemmas.InRange
import RevalModel.Lemmas.DecExact

namespace Reval.C01

/-- every expression, every input, every environment (functions, symbols, oracle answers), every
    starting cache: the outcome is never a panic -/
theorem eval_never_panics (env : Env) (rp : List Nat) (e : Expr) (st : St) :
    (eval env rp e st).1.isPanic = false := eval_noPanic env rp e st

theorem evaluateExpr_never_panics (o : Oracle) (e : Expr) (facts : Value) :
    (evaluateExpr o e facts).isPanic = false := eval_noPanic _ _ _ _

theorem operators_never_panic (o : Oracle) :
    (∀ op v, (applyUn o op v).isPanic = false) ∧ (∀ op a b, (applyBin o op a b).isPanic = false) :=
  ⟨applyUn_noPanic o, applyBin_noPanic o⟩

/-- Int `+ − × unary-minus`: the mathematical result when it is an i128, otherwise an *error* -/
theorem int_arith_exact (o : Oracle) (a b : Int) :
    applyBin o .add (.int a) (.int b) = (if I128.inRange (a + b) then .ok (.int (a + b)) else .err (.outOfBounds (.int a))) ∧
    applyBin o .sub (.int a) (.int b) = (if I128.inRange (a - b) then .ok (.int (a - b)) else .err (.outOfBounds (.int a))) ∧
    applyBin o .mult (.int a) (.int b) = (if I128.inRange (a * b) then .ok (.int (a * b)) else .err (.outOfBounds (.int a))) ∧
    applyUn o .neg (.int a) = (if I128.inRange (-a) then .ok (.int (-a)) else .err (.outOfBounds (.int a))) :=
  ⟨int_add_exact o a b, int_sub_exact o a b, int_mult_exact o a b, int_neg_exact o a⟩

/-- Int `/ %`: truncated quotient / remainder; a zero divisor and `MIN / -1` are errors -/
theorem int_div_rem_exact (o : Oracle) (a b : Int) :
    applyBin o .div (.int a) (.int b) = (if b = 0 ∨ (a = I128.min ∧ b = -1) then .err .divByZero else .ok (.int (Int.tdiv a b))) ∧
    applyBin o .rem (.int a) (.int b) = (if b = 0 ∨ (a = I128.min ∧ b = -1) then .err .divByZero else .ok (.int (Int.tmod a b))) :=
  ⟨int_div_exact o a b, int_rem_exact o a b⟩

/-- casts: `int(Float)` truncates exactly or fails (NaN, ±inf, beyond i128); `dec(Int)` is exact or fails -/
theorem casts_exact (o : Oracle) (f : F64) (n : Int) :
    applyUn o .toInt (.float f) =
      (match F64.truncToInt f with
       | some k => if I128.inRange k then .ok (.int k) else .err (.invalidCast (.float f))
       | none => .err (.invalidCast (.float f))) ∧
    applyUn o .toDec (.int n) =
      (if n.natAbs ≤ Dec.maxMant then .ok (.dec ⟨decide (n < 0), n.natAbs, 0⟩) else .err (.invalidCast (.int n))) :=
  ⟨toInt_float_exact o f, toDec_int_exact o n⟩

/-- time constructors from an Int: exactly that many units, or an error — never `n mod 2^64` -/
theorem time_constructors_exact (o : Oracle) (i : Int) :
    applyUn o .dateTime (.int i) = (if Time.dtInRange (i * Time.nsPerSec) then .ok (.dateTime (i * Time.nsPerSec)) else .err (.invalidCast (.int i))) ∧
    applyUn o .duration (.int i) = (if Time.durInRange (i * Time.nsPerSec) then .ok (.duration (i * Time.nsPerSec)) else .err (.invalidCast (.int i))) ∧
    applyUn o .week (.int i) = (if Time.durInRange (i * 604800 * Time.nsPerSec) then .ok (.duration (i * 604800 * Time.nsPerSec)) else .err (.outOfBounds (.int i))) ∧
    applyUn o .day (.int i) = (if Time.durInRange (i * 86400 * Time.nsPerSec) then .ok (.duration (i * 86400 * Time.nsPerSec)) else .err (.outOfBounds (.int i))) ∧
    applyUn o .hour (.int i) = (if Time.durInRange (i * 3600 * Time.nsPerSec) then .ok (.duration (i * 3600 * Time.nsPerSec)) else .err (.outOfBounds (.int i))) ∧
    applyUn o .minute (.int i) = (if Time.durInRange (i * 60 * Time.nsPerSec) then .ok (.duration (i * 60 * Time.nsPerSec)) else .err (.outOfBounds (.int i))) ∧
    applyUn o .second (.int i) = (if Time.durInRange (i * 1 * Time.nsPerSec) then .ok (.duration (i * 1 * Time.nsPerSec)) else .err (.outOfBounds (.int i))) :=
  ⟨dateTime_int_exact o i, duration_int_exact o i, week_int_exact o i, day_int_exact o i, hour_int_exact o i,
   minute_int_exact o i, second_int_exact o i⟩

/-- date/time arithmetic: exact, or an error when the result is not representable -/
theorem time_arith_exact (o : Oracle) (a b : Int) :
    applyBin o .add (.dateTime a) (.duration b) = (if Time.dtInRange (a + b) then .ok (.dateTime (a + b)) else .err (.outOfBounds (.dateTime a))) ∧
    applyBin o .sub (.dateTime a) (.duration b) = (if Time.dtInRange (a - b) then .ok (.dateTime (a - b)) else .err (.outOfBounds (.dateTime a))) ∧
    applyBin o .sub (.duration a) (.duration b) = (if Time.durInRange (a - b) then .ok (.duration (a - b)) else .err (.outOfBounds (.duration a))) ∧
    (Time.dtInRange a = true → Time.dtInRange b = true →
      applyBin o .sub (.dateTime a) (.dateTime b) = .ok (.duration (a - b)) ∧ Time.durInRange (a - b) = true) :=
  ⟨dt_add_dur_exact o a b, dt_sub_dur_exact o a b, dur_sub_dur_exact o a b,
   fun ha hb => ⟨by simp [applyBin, Impl.sub], dt_sub_dt_inRange a b ha hb⟩⟩

/-- "a numeric, date or duration result that lies outside the range of its type is [never produced]": whatever
    an evaluation returns is representable — every Int at every depth an i128, every Decimal a 96-bit mantissa
    with scale ≤ 28, every DateTime / Duration within chrono's bounds — for every expression whose literals are
    Rust values, every input, symbol table, user-function behaviour and oracle answer that are Rust values, and
    every starting cache.  (With the exactness theorems above: the result is the mathematical one, or an error.) -/
theorem results_in_range (env : Env) (he : env.InRange) (rp : List Nat) (e : Expr) (st : St)
    (hl : e.litsInRange = true) (hs : st.InRange) (v : Value) (h : (eval env rp e st).1 = .ok v) :
    v.inRange = true := (eval_inRange he rp e st hl hs).1 v h

theorem evaluateExpr_in_range (o : Oracle) (ho : o.InRange) (e : Expr) (facts : Value)
    (hf : facts.inRange = true) (hl : e.litsInRange = true) (v : Value) (h : evaluateExpr o e facts = .ok v) :
    v.inRange = true :=
  (eval_inRange (env := ⟨facts, [], [], o⟩) ⟨hf, by simp [lookup], by simp [lookup], ho⟩ [] e St.init hl
    St.init_inRange).1 v h

/-- the same for every outcome of `RuleSet::evaluate_value` (one cache threaded through all rules) -/
theorem ruleset_results_in_range (env : Env) (he : env.InRange) (rules : List Expr)
    (hl : ∀ e ∈ rules, e.litsInRange = true) :
    ∀ r ∈ (evaluateValue env rules).1, ∀ v, r = .ok v → v.inRange = true :=
  evalRules_inRange he rules 0 St.init hl St.init_inRange

/-- the operators alone: in-range operands never give an out-of-range value -/
theorem operators_stay_in_range (o : Oracle) (ho : o.InRange) :
    (∀ op v r, v.inRange = true → applyUn o op v = .ok r → r.inRange = true) ∧
    (∀ op a b r, a.inRange = true → b.inRange = true → applyBin o op a b = .ok r → r.inRange = true) :=
  ⟨fun _ _ _ hv h => applyUn_inRange ho hv h, fun _ _ _ _ ha hb h => applyBin_inRange ho ha hb h⟩

/-- Decimal `+ − ×` (non-zero operands): the exact rational result, correctly rounded (half-even) at the finest
    scale at which its mantissa fits 96 bits — never a wrapped or truncated mantissa — and an overflow outcome only
    when not even the rounding to an integer fits; the overflow outcome is an *error* of the operator -/
theorem decimal_arith_rounded_or_error (o : Oracle) (a b : Dec) (ha : a.mant ≠ 0) (hb : b.mant ≠ 0) :
    (match Dec.add a b with
      | .val d =>
          d.scale ≤ Dec.sumScale a b ∧ d.mant ≤ Dec.maxMant ∧ d.neg = decide (Dec.sumNum a b.neg b < 0) ∧
          d.mant = Dec.rhe (Dec.sumNum a b.neg b).natAbs (10 ^ (Dec.sumScale a b - d.scale)) ∧
          2 * ((d.mant : Int) * (10 ^ (Dec.sumScale a b - d.scale) : Nat) - (Dec.sumNum a b.neg b).natAbs).natAbs
            ≤ 10 ^ (Dec.sumScale a b - d.scale) ∧
          ∀ sc', d.scale < sc' → sc' ≤ Dec.sumScale a b →
            Dec.maxMant < Dec.rhe (Dec.sumNum a b.neg b).natAbs (10 ^ (Dec.sumScale a b - sc'))
      | .overflow => ∀ sc', sc' ≤ Dec.sumScale a b →
            Dec.maxMant < Dec.rhe (Dec.sumNum a b.neg b).natAbs (10 ^ (Dec.sumScale a b - sc'))
      | .unknown => ∃ sc, sc ≤ Dec.sumScale a b ∧
            Dec.rhe (Dec.sumNum a b.neg b).natAbs (10 ^ (Dec.sumScale a b - sc)) = 0) ∧
    (match Dec.mul a b with
      | .val d =>
          d.scale ≤ a.scale + b.scale ∧ d.scale ≤ 28 ∧ d.mant ≤ Dec.maxMant ∧ d.neg = (a.neg != b.neg) ∧
          d.mant = Dec.rhe (a.mant * b.mant) (10 ^ (a.scale + b.scale - d.scale)) ∧
          2 * ((d.mant : Int) * (10 ^ (a.scale + b.scale - d.scale) : Nat) - (a.mant * b.mant : Nat)).natAbs
            ≤ 10 ^ (a.scale + b.scale - d.scale) ∧
          ∀ sc', d.scale < sc' → sc' ≤ a.scale + b.scale → sc' ≤ 28 →
            Dec.maxMant < Dec.rhe (a.mant * b.mant) (10 ^ (a.scale + b.scale - sc'))
      | .overflow => ∀ sc', sc' ≤ a.scale + b.scale → sc' ≤ 28 →
            Dec.maxMant < Dec.rhe (a.mant * b.mant) (10 ^ (a.scale + b.scale - sc'))
      | .unknown => ∃ sc, sc ≤ 28 ∧ Dec.rhe (a.mant * b.mant) (10 ^ (a.scale + b.scale - sc)) = 0) ∧
    (Dec.add a b = .overflow → applyBin o .add (.dec a) (.dec b) = .err (.outOfBounds (.dec a))) ∧
    (Dec.sub a b = .overflow → applyBin o .sub (.dec a) (.dec b) = .err (.outOfBounds (.dec a))) ∧
    (Dec.mul a b = .overflow → applyBin o .mult (.dec a) (.dec b) = .err (.outOfBounds (.dec a))) :=
  ⟨Dec.addSigned_spec a b.neg b ha hb, Dec.mul_spec a b ha hb,
   fun h => by simp [applyBin, Impl.add, Impl.decOut, h],
   fun h => by simp [applyBin, Impl.sub, Impl.decOut, h],
   fun h => by simp [applyBin, Impl.mult, Impl.decOut, h]⟩

/-- when the exact sum / difference / product is representable at the operands' scale, it IS the result -/
theorem decimal_arith_exact_when_representable (o : Oracle) (a b : Dec) (ha : a.mant ≠ 0) (hb : b.mant ≠ 0) :
    (Dec.sumNum a b.neg b ≠ 0 → (Dec.sumNum a b.neg b).natAbs ≤ Dec.maxMant →
      applyBin o .add (.dec a) (.dec b) =
        .ok (.dec ⟨decide (Dec.sumNum a b.neg b < 0), (Dec.sumNum a b.neg b).natAbs, Dec.sumScale a b⟩)) ∧
    (Dec.sumNum a (!b.neg) b ≠ 0 → (Dec.sumNum a (!b.neg) b).natAbs ≤ Dec.maxMant →
      applyBin o .sub (.dec a) (.dec b) =
        .ok (.dec ⟨decide (Dec.sumNum a (!b.neg) b < 0), (Dec.sumNum a (!b.neg) b).natAbs, Dec.sumScale a b⟩)) ∧
    (a.scale + b.scale ≤ 28 → a.mant * b.mant ≤ Dec.maxMant →
      applyBin o .mult (.dec a) (.dec b) = .ok (.dec ⟨a.neg != b.neg, a.mant * b.mant, a.scale + b.scale⟩)) :=
  ⟨fun hz hf => by simp [applyBin, Impl.add, Impl.decOut, Dec.add, Dec.addSigned_exact_when_fits a b.neg b ha hb hz hf],
   fun hz hf => by simp [applyBin, Impl.sub, Impl.decOut, Dec.sub, Dec.addSigned_exact_when_fits a (!b.neg) b ha hb hz hf],
   fun hs hf => by simp [applyBin, Impl.mult, Impl.decOut, Dec.mul_exact_when_fits a b ha hb hs hf]⟩

/-! non-vacuity: the hypotheses are satisfiable (empty oracle, extreme operands), and the conclusion is not
    trivial (`Value.inRange` is false of what a wrapped / unchecked result would be) -/
example : Oracle.empty.InRange := by intro op args v h; simp [Oracle.empty] at h
example : (Value.vec [.int I128.max, .dec ⟨true, Dec.maxMant, 28⟩, .dateTime Time.dtMax, .duration (-Time.durMax)]).inRange = true := by decide
example : (Value.int (I128.max + 1)).inRange = false := by decide
example : (Value.vec [.dec ⟨false, 2 ^ 96, 0⟩]).inRange = false := by decide
example : (Value.map [("k".toList, .duration (Time.durMax + 1))]).inRange = false := by decide

/-! non-vacuity: the inputs that panicked / wrapped / saturated before the `fix:` commits are errors -/
example : applyBin Oracle.empty .add (.int I128.max) (.int 1) = .err (.outOfBounds (.int I128.max)) := by decide
example : applyUn Oracle.empty .neg (.int I128.min) = .err (.outOfBounds (.int I128.min)) := by decide
example : applyUn Oracle.empty .toDec (.int (2 ^ 96)) = .err (.invalidCast (.int (2 ^ 96))) := by decide
example : applyUn Oracle.empty .week (.int (2 ^ 64)) = .err (.outOfBounds (.int (2 ^ 64))) := by decide
example : applyUn Oracle.empty .toInt (.float ⟨0x4840000000000000⟩) = .err (.invalidCast (.float ⟨0x4840000000000000⟩)) := by decide
example : applyBin Oracle.empty .add (.dateTime Time.dtMax) (.duration 1) = .err (.outOfBounds (.dateTime Time.dtMax)) := by decide
example : applyBin Oracle.empty .add (.int 2) (.int 3) = .ok (.int 5) := by decide
-- d79228162514264337593543950335 + d1 is an error; … + d0.4 rounds (half-even) back to the maximum; 1.5 × 2.5 = 3.75
example : applyBin Oracle.empty .add (.dec ⟨false, Dec.maxMant, 0⟩) (.dec ⟨false, 1, 0⟩)
    = .err (.outOfBounds (.dec ⟨false, Dec.maxMant, 0⟩)) := by decide
example : applyBin Oracle.empty .add (.dec ⟨false, Dec.maxMant, 0⟩) (.dec ⟨false, 4, 1⟩)
    = .ok (.dec ⟨false, Dec.maxMant, 0⟩) := by decide
example : applyBin Oracle.empty .mult (.dec ⟨false, 15, 1⟩) (.dec ⟨true, 25, 1⟩) = .ok (.dec ⟨true, 375, 2⟩) := by decide

end Reval.C01
