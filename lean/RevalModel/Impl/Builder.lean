/-
  Impl/Builder.lean — `ruleset/builder.rs`, `function.rs` (`add_boxed_function`), `symbol.rs`,
  `expr/keywords.rs`.  The Unicode XID predicates are parameters (`unicode-xid` is a library).
-/
import RevalModel.Impl.RuleSet

namespace Reval

/-- `KEYWORDS` of `expr/keywords.rs`, in source order -/
def KEYWORDS : List Str :=
  ["and", "or", "if", "then", "else", "is_some", "is_none", "some", "int", "float", "dec", "true", "false", "none",
   "contains", "in", "to_upper", "to_lower", "uppercase", "lowercase", "starts", "ends", "trim", "round", "floor",
   "fract", "date_time", "datetime", "duration", "year", "month", "week", "day", "hour", "minute", "second", "key",
   "val"].map String.toList

def isReservedKeyword (n : Str) : Bool := KEYWORDS.contains n

/-- Unicode XID_Start / XID_Continue -/
structure Xid where
  start : Char → Bool
  cont : Char → Bool

/-- `is_valid_identifier`: `(start == '_' || start.is_xid_start()) && chars.all(is_xid_continue)` -/
def isValidIdentifier (x : Xid) (n : Str) : Bool :=
  match n with
  | [] => false
  | c :: rest => (c == '_' || x.start c) && rest.all x.cont

structure RuleM where
  name : Str
  expr : Expr

structure BState where
  rules : List RuleM
  fns : List (Str × FnModel)
  symbols : List (Str × Value)

def BState.init : BState := ⟨[], [], []⟩

/-- `UserFunctions::add_boxed_function` -/
def addFunction (x : Xid) (fns : List (Str × FnModel)) (f : Str × FnModel) : Except Err (List (Str × FnModel)) :=
  if isReservedKeyword f.1 then .error (.invalidFunctionName f.1)
  else if !isValidIdentifier x f.1 then .error (.invalidFunctionName f.1)
  else if (lookup fns f.1).isSome then .error (.duplicateFunctionName f.1)
  else .ok (insertSorted f.1 f.2 fns)

/-- `Builder::with_rule` -/
def withRule (s : BState) (r : RuleM) : Except Err BState :=
  if s.rules.any (fun q => q.name = r.name) then .error (.duplicateRuleName r.name)
  else .ok { s with rules := s.rules ++ [r] }

/-- `Builder::with_rules`: one `with_rule` after the other, `?` on the first refusal -/
def withRules (s : BState) : List RuleM → Except Err BState
  | [] => .ok s
  | r :: rs =>
    match withRule s r with
    | .ok s' => withRules s' rs
    | .error e => .error e

def withFunction (x : Xid) (s : BState) (f : Str × FnModel) : Except Err BState :=
  match addFunction x s.fns f with
  | .ok fns => .ok { s with fns := fns }
  | .error e => .error e

def withFunctions (x : Xid) (s : BState) : List (Str × FnModel) → Except Err BState
  | [] => .ok s
  | f :: fs =>
    match withFunction x s f with
    | .ok s' => withFunctions x s' fs
    | .error e => .error e

/-- `Builder::with_symbol` = `Symbols::insert` -/
def withSymbol (s : BState) (k : Str) (v : Value) : BState := { s with symbols := insertSorted k v s.symbols }

/-- `Builder::with_symbols` = `BTreeMap::append`: the incoming table's values win -/
def withSymbols (s : BState) (table : List (Str × Value)) : BState :=
  { s with symbols := table.foldl (fun m kv => insertSorted kv.1 kv.2 m) s.symbols }

inductive BOp where
  | rule (r : RuleM)
  | rules (rs : List RuleM)
  | fn (f : Str × FnModel)
  | fns (fs : List (Str × FnModel))
  | sym (k : Str) (v : Value)
  | syms (table : List (Str × Value))

def bstep (x : Xid) (s : BState) : BOp → Except Err BState
  | .rule r => withRule s r
  | .rules rs => withRules s rs
  | .fn f => withFunction x s f
  | .fns fs => withFunctions x s fs
  | .sym k v => .ok (withSymbol s k v)
  | .syms t => .ok (withSymbols s t)

/-- a history of builder calls; a refusal ends it (the Rust builder is consumed) -/
def brun (x : Xid) (s : BState) : List BOp → Except Err BState
  | [] => .ok s
  | op :: ops =>
    match bstep x s op with
    | .ok s' => brun x s' ops
    | .error e => .error e

/-- `Builder::build` followed by evaluation: the environment the built ruleset evaluates in -/
def BState.env (s : BState) (facts : Value) (o : Oracle) : Env := ⟨facts, s.symbols, s.fns, o⟩

end Reval
