/-
  Impl/Async.lean — resumption semantics of evaluation (C12, C18).
  The only place where the Rust future can return `Pending` is the `.await` of a user function.  `evalK` is the
  evaluator in continuation-passing style: it runs until the next user-function invocation and returns
  `await f arg idx k`; feeding the function's answer to `k` continues.  An executor polls a set of such tasks.
-/
import RevalModel.Impl.RuleSet

namespace Reval

inductive Resumption (α : Type) where
  | done (a : α)
  | await (f : Str) (arg : Value) (idx : Nat) (k : Except Str Value → Resumption α)

abbrev Kont (α : Type) := Res Value → St → List Event → Resumption α
abbrev KontL (α : Type) := Res (List Value) → St → List Event → Resumption α
abbrev KontM (α : Type) := Res (List (Str × Value)) → St → List Event → Resumption α

/-- `UserFunctions::call` up to the invocation itself -/
def callFnK {α : Type} (env : Env) (f : Str) (arg : Value) (st : St) (k : Kont α) : Resumption α :=
  match lookup env.fns f with
  | none => k (.err (.unknownFn f)) st []
  | some fm =>
    if fm.cacheable then
      match cacheGet st.cache (f, arg) with
      | some v => k (.ok v) st []
      | none =>
        .await f arg st.calls (fun ans =>
          match ans with
          | .ok v => k (.ok v) ⟨((f, arg), v) :: st.cache, st.calls + 1⟩ [.invoke f arg st.calls (some v) true]
          | .error msg => k (.err (.userFn f msg)) ⟨st.cache, st.calls + 1⟩ [.invoke f arg st.calls none false])
    else
      .await f arg st.calls (fun ans =>
        match ans with
        | .ok v => k (.ok v) ⟨st.cache, st.calls + 1⟩ [.invoke f arg st.calls (some v) false]
        | .error msg => k (.err (.userFn f msg)) ⟨st.cache, st.calls + 1⟩ [.invoke f arg st.calls none false])

mutual
def evalK {α : Type} (env : Env) (rp : List Nat) : Expr → St → Kont α → Resumption α
  | .lit v, st, k => k (.ok v) st []
  | .ref n, st, k => k (reference env n) st []
  | .sym n, st, k => k (symbol env n) st []
  | .index e i, st, k =>
    evalK env (0 :: rp) e st (fun r st1 ev =>
      match r with
      | .ok v => k (Impl.index v i) st1 ev
      | other => k other st1 ev)
  | .call f a, st, k =>
    evalK env (0 :: rp) a st (fun r st1 ev =>
      match r with
      | .ok v => callFnK env f v st1 (fun r2 st2 ev2 => k r2 st2 (ev ++ (Event.reach rp f v :: ev2)))
      | other => k other st1 ev)
  | .ite c t e, st, k =>
    evalK env (0 :: rp) c st (fun r st1 ev =>
      match r with
      | .ok (.bool true) => evalK env (1 :: rp) t st1 (fun r2 st2 ev2 => k r2 st2 (ev ++ ev2))
      | .ok (.bool false) => evalK env (2 :: rp) e st1 (fun r2 st2 ev2 => k r2 st2 (ev ++ ev2))
      | .ok _ => k (.err .invalidType) st1 ev
      | other => k other st1 ev)
  | .and l r, st, k =>
    evalK env (0 :: rp) l st (fun rl st1 ev =>
      match rl with
      | .ok (.bool false) => k (.ok (.bool false)) st1 ev
      | .ok (.bool true) =>
        evalK env (1 :: rp) r st1 (fun rr st2 ev2 =>
          match rr with
          | .ok (.bool b) => k (.ok (.bool b)) st2 (ev ++ ev2)
          | .ok _ => k (.err .invalidType) st2 (ev ++ ev2)
          | other => k other st2 (ev ++ ev2))
      | .ok _ => k (.err .invalidType) st1 ev
      | other => k other st1 ev)
  | .or l r, st, k =>
    evalK env (0 :: rp) l st (fun rl st1 ev =>
      match rl with
      | .ok (.bool true) => k (.ok (.bool true)) st1 ev
      | .ok (.bool false) =>
        evalK env (1 :: rp) r st1 (fun rr st2 ev2 =>
          match rr with
          | .ok (.bool b) => k (.ok (.bool b)) st2 (ev ++ ev2)
          | .ok _ => k (.err .invalidType) st2 (ev ++ ev2)
          | other => k other st2 (ev ++ ev2))
      | .ok _ => k (.err .invalidType) st1 ev
      | other => k other st1 ev)
  | .eq l r, st, k =>
    evalK env (0 :: rp) l st (fun rl st1 ev =>
      match rl with
      | .ok .none => k (.ok (.bool false)) st1 ev
      | .ok a =>
        evalK env (1 :: rp) r st1 (fun rr st2 ev2 =>
          match rr with
          | .ok b => k (.ok (.bool (Value.peq a b))) st2 (ev ++ ev2)
          | other => k other st2 (ev ++ ev2))
      | other => k other st1 ev)
  | .neq l r, st, k =>
    evalK env (0 :: rp) l st (fun rl st1 ev =>
      match rl with
      | .ok .none => k (.ok (.bool true)) st1 ev
      | .ok a =>
        evalK env (1 :: rp) r st1 (fun rr st2 ev2 =>
          match rr with
          | .ok b => k (.ok (.bool (!Value.peq a b))) st2 (ev ++ ev2)
          | other => k other st2 (ev ++ ev2))
      | other => k other st1 ev)
  | .un op e, st, k =>
    evalK env (0 :: rp) e st (fun r st1 ev =>
      match r with
      | .ok v => k (applyUn env.oracle op v) st1 ev
      | other => k other st1 ev)
  | .bin op l r, st, k =>
    evalK env (0 :: rp) l st (fun rl st1 ev =>
      match rl with
      | .ok a =>
        evalK env (1 :: rp) r st1 (fun rr st2 ev2 =>
          match rr with
          | .ok b => k (applyBin env.oracle op a b) st2 (ev ++ ev2)
          | other => k other st2 (ev ++ ev2))
      | other => k other st1 ev)
  | .vec xs, st, k =>
    evalListK env rp 0 xs st (fun r st1 ev =>
      match r with
      | .ok vs => k (.ok (.vec vs)) st1 ev
      | .err e => k (.err e) st1 ev
      | .panic s => k (.panic s) st1 ev
      | .frontier o a => k (.frontier o a) st1 ev)
  | .map kvs, st, k =>
    evalMapK env rp 0 kvs st (fun r st1 ev =>
      match r with
      | .ok vs => k (.ok (.map vs)) st1 ev
      | .err e => k (.err e) st1 ev
      | .panic s => k (.panic s) st1 ev
      | .frontier o a => k (.frontier o a) st1 ev)
def evalListK {α : Type} (env : Env) (rp : List Nat) (i : Nat) : List Expr → St → KontL α → Resumption α
  | [], st, k => k (.ok []) st []
  | e :: es, st, k =>
    evalK env (i :: rp) e st (fun r st1 ev =>
      match r with
      | .ok v =>
        evalListK env rp (i + 1) es st1 (fun rs st2 ev2 =>
          match rs with
          | .ok vs => k (.ok (v :: vs)) st2 (ev ++ ev2)
          | .err x => k (.err x) st2 (ev ++ ev2)
          | .panic s => k (.panic s) st2 (ev ++ ev2)
          | .frontier o a => k (.frontier o a) st2 (ev ++ ev2))
      | .err x => k (.err x) st1 ev
      | .panic s => k (.panic s) st1 ev
      | .frontier o a => k (.frontier o a) st1 ev)
def evalMapK {α : Type} (env : Env) (rp : List Nat) (i : Nat) : List (Str × Expr) → St → KontM α → Resumption α
  | [], st, k => k (.ok []) st []
  | (key, e) :: es, st, k =>
    evalK env (i :: rp) e st (fun r st1 ev =>
      match r with
      | .ok v =>
        evalMapK env rp (i + 1) es st1 (fun rs st2 ev2 =>
          match rs with
          | .ok vs => k (.ok ((key, v) :: vs)) st2 (ev ++ ev2)
          | .err x => k (.err x) st2 (ev ++ ev2)
          | .panic s => k (.panic s) st2 (ev ++ ev2)
          | .frontier o a => k (.frontier o a) st2 (ev ++ ev2))
      | .err x => k (.err x) st1 ev
      | .panic s => k (.panic s) st1 ev
      | .frontier o a => k (.frontier o a) st1 ev)
end

/-- what the user function `f` answers on its `idx`-th invocation overall -/
def answer (env : Env) (f : Str) (idx : Nat) (arg : Value) : Except Str Value :=
  match lookup env.fns f with
  | some fm => fm.behave idx arg
  | none => .error []

/-- run a resumption to completion, feeding every `await` the function's answer -/
def run {α : Type} (env : Env) : Resumption α → α
  | .done a => a
  | .await f arg idx k => run env (k (answer env f idx arg))

/-- `RuleSet::evaluate_value` as a resumption: the rules one after the other, threading the cache -/
def evalRulesK {α : Type} (env : Env) : Nat → List Expr → St → (List (Res Value) → St → List Event → Resumption α) → Resumption α
  | _, [], st, k => k [] st []
  | i, e :: es, st, k =>
    evalK env [i] e st (fun r st1 ev => evalRulesK env (i + 1) es st1 (fun rs st2 ev2 => k (r :: rs) st2 (ev ++ ev2)))

/-- one evaluation of an expression / of a whole ruleset, as a task -/
def exprTask (env : Env) (e : Expr) : Resumption (Res Value × St × List Event) :=
  evalK env [] e St.init (fun r st ev => .done (r, st, ev))
def rulesetTask (env : Env) (rules : List Expr) : Resumption (List (Res Value) × St × List Event) :=
  evalRulesK env 0 rules St.init (fun rs st ev => .done (rs, st, ev))

/-! ### an executor: tasks polled in any order -/

/-- a task: its current resumption and how many more times the pending user function will return `Pending` -/
structure Task (α : Type) where
  res : Resumption α
  pending : Nat

/-- one poll of a task: a pending function call stays pending `pending` more times, then its answer is fed in;
    `suspends` says how often the next call will suspend -/
def pollTask {α : Type} (env : Env) (suspends : Str → Value → Nat → Nat) (t : Task α) : Task α :=
  match t.res with
  | .done _ => t
  | .await f arg idx k =>
    match t.pending with
    | n + 1 => ⟨t.res, n⟩
    | 0 =>
      match k (answer env f idx arg) with
      | .await f' arg' idx' k' => ⟨.await f' arg' idx' k', suspends f' arg' idx'⟩
      | d => ⟨d, 0⟩

/-- poll the `i`-th task (nothing happens if there is no such task) -/
def pollAt {α : Type} (env : Env) (suspends : Str → Value → Nat → Nat) (i : Nat) : List (Task α) → List (Task α)
  | [] => []
  | t :: ts => match i with
    | 0 => pollTask env suspends t :: ts
    | j + 1 => t :: pollAt env suspends j ts

/-- a schedule is any sequence of task indices -/
def runSched {α : Type} (env : Env) (suspends : Str → Value → Nat → Nat) : List Nat → List (Task α) → List (Task α)
  | [], ts => ts
  | i :: rest, ts => runSched env suspends rest (pollAt env suspends i ts)

end Reval
