/-
  Impl/Display.lean — `Display for Value` (`value/mod.rs`) and `Display for Expr` (`expr/mod.rs`), as they
  are after the `fix:` commits (strings escape `\` and `"`; operands that would regroup are parenthesised).
  The text of a float is the library's (`showF`); date-times and durations do not occur in parsed trees.
-/
import RevalModel.Impl.Parser

namespace Reval.Disp

def digitChar (n : Nat) : Char := Char.ofNat (48 + n % 10)

def natDigitsAux : Nat → Nat → Str → Str
  | 0, _, acc => acc
  | fuel + 1, n, acc => if n < 10 then digitChar n :: acc else natDigitsAux fuel (n / 10) (digitChar n :: acc)

/-- decimal digits of a natural number, most significant first -/
def showNat (n : Nat) : Str := natDigitsAux (n + 1) n []

def showInt (i : Int) : Str := if i < 0 then '-' :: showNat i.natAbs else showNat i.toNat

/-- `Display for Decimal`: sign, integer digits, and `scale` fraction digits -/
def showDec (d : Dec) : Str :=
  let ds := showNat d.mant
  let body :=
    if d.scale = 0 then ds
    else
      let padded := List.replicate (d.scale + 1 - ds.length) '0' ++ ds
      padded.take (padded.length - d.scale) ++ '.' :: padded.drop (padded.length - d.scale)
  if d.neg then '-' :: body else body

def escChar (c : Char) : Str := if c == '\\' then ['\\', '\\'] else if c == '"' then ['\\', '"'] else [c]

def escapeStr : Str → Str
  | [] => []
  | c :: cs => escChar c ++ escapeStr cs

def joinSep (sep : Str) : List Str → Str
  | [] => []
  | [x] => x
  | x :: xs => x ++ sep ++ joinSep sep xs

mutual
def showValue (showF : F64 → Str) : Value → Str
  | .str s => '"' :: escapeStr s ++ ['"']
  | .int i => 'i' :: showInt i
  | .float f => 'f' :: showF f
  | .dec d => 'd' :: showDec d
  | .bool b => if b then "true".toList else "false".toList
  | .dateTime _ => "<datetime>".toList
  | .duration _ => "<duration>".toList
  | .vec xs => '[' :: joinSep ", ".toList (showValues showF xs) ++ [']']
  | .map kvs => '{' :: joinSep ", ".toList (showFields showF kvs) ++ ['}']
  | .none => "none".toList
def showValues (showF : F64 → Str) : List Value → List Str
  | [] => []
  | v :: vs => showValue showF v :: showValues showF vs
def showFields (showF : F64 → Str) : List (Str × Value) → List Str
  | [] => []
  | (k, v) :: kvs => (k ++ ": ".toList ++ showValue showF v) :: showFields showF kvs
end

def unName : UnOp → Str
  | .not => "!".toList | .neg => "-".toList | .some => "some".toList | .isNone => "none".toList
  | .toInt => "int".toList | .toFloat => "float".toList | .toDec => "dec".toList
  | .dateTime => "datetime".toList | .duration => "duration".toList
  | .upper => "uppercase".toList | .lower => "lowercase".toList | .trim => "trim".toList
  | .round => "round".toList | .floor => "floor".toList | .fract => "fract".toList
  | .year => "year".toList | .month => "month".toList | .week => "week".toList | .day => "day".toList
  | .hour => "hour".toList | .minute => "minute".toList | .second => "second".toList

def binSym : BinOp → Str
  | .mult => "*".toList | .div => "/".toList | .rem => "%".toList | .add => "+".toList | .sub => "-".toList
  | .gt => ">".toList | .gte => ">=".toList | .lt => "<".toList | .lte => "<=".toList
  | .bitAnd => "&".toList | .bitOr => "|".toList | .bitXor => "^".toList | .contains => "contains".toList

def isBitwise : BinOp → Bool
  | .bitAnd | .bitOr | .bitXor => true
  | _ => false

/-- a name that is also the prefix letter of a float / decimal literal: `f.5`, `d.5` would lex as literals -/
def isLitPrefixName (n : Str) : Bool := n == ['f'] || n == ['d']

/-- the `Operand` wrapper: these operands are parenthesised -/
def needsParens : Expr → Bool
  | .un .not _ => true
  | .un .neg _ => true
  | .bin op _ _ => isBitwise op
  | .lit (.float _) => true
  | .lit (.dec _) => true
  | .ref n => isLitPrefixName n
  | .sym n => isLitPrefixName n
  | _ => false

def paren (s : Str) : Str := '(' :: s ++ [')']

mutual
def showExpr (showF : F64 → Str) : Expr → Str
  | .lit v => showValue showF v
  | .ref n => n
  | .sym n => ':' :: n
  | .call f a => f ++ paren (showExpr showF a)
  | .index e i =>
    paren ((if needsParens e then paren (showExpr showF e) else showExpr showF e) ++ '.' ::
      (match i with | .key k => k | .pos n => showNat n))
  | .ite c t e =>
    paren ("if ".toList ++ showExpr showF c ++ " then ".toList ++ showExpr showF t ++ " else ".toList ++ showExpr showF e)
  | .and l r => paren (showExpr showF l ++ " and ".toList ++ showExpr showF r)
  | .or l r => paren (showExpr showF l ++ " or ".toList ++ showExpr showF r)
  | .eq l r => paren (showExpr showF l ++ " == ".toList ++ showExpr showF r)
  | .neq l r => paren (showExpr showF l ++ " != ".toList ++ showExpr showF r)
  | .un op e => unName op ++ paren (showExpr showF e)
  | .bin op l r =>
    if isBitwise op then
      showExpr showF l ++ ' ' :: binSym op ++ ' ' :: (if needsParens r then paren (showExpr showF r) else showExpr showF r)
    else if op = .contains then
      paren ((if needsParens l then paren (showExpr showF l) else showExpr showF l) ++ " contains ".toList ++
        (if needsParens r then paren (showExpr showF r) else showExpr showF r))
    else paren (showExpr showF l ++ ' ' :: binSym op ++ ' ' :: showExpr showF r)
  | .vec xs => '[' :: joinSep ", ".toList (showExprs showF xs) ++ [']']
  | .map kvs => '{' :: joinSep ", ".toList (showEntries showF kvs) ++ ['}']
def showExprs (showF : F64 → Str) : List Expr → List Str
  | [] => []
  | e :: es => showExpr showF e :: showExprs showF es
def showEntries (showF : F64 → Str) : List (Str × Expr) → List Str
  | [] => []
  | (k, e) :: kvs => (k ++ ": ".toList ++ showExpr showF e) :: showEntries showF kvs
end

end Reval.Disp
