/-
  Impl/Parser.lean — reference parser for the grammar of `reval.lalrpop` (recursive descent with the
  left-recursive alternatives as loops; fuel-indexed so that it is total), the semantic actions of the
  grammar (`parse/helpers.rs`, `parse/unescape.rs`), and `Expr::parse` = lex, then parse, then end of input.
  The `&value[k..]` prefix slices of the Rust actions are modelled with their panic condition.
-/
import RevalModel.Impl.Lexer
import RevalModel.Impl.Eval

namespace Reval

/-- outcome of a parsing function: a result and the remaining tokens, a parse error (syntax, lexical or
    literal-conversion error: the class is an artefact of LR look-ahead and is not distinguished), a panic,
    or a literal the model declines to convert (over-long decimal: answered by the library) -/
inductive PR (α : Type) where
  | ok (a : α) (rest : List Tok)
  | error
  | panic (s : Site)
  | frontier (op : FOp) (args : List Value)
deriving Repr, Inhabited

def PR.isPanic {α} : PR α → Bool
  | .panic _ => true
  | _ => false

namespace Lit

/-- `&value[k..]`: panics when the text is shorter than `k` -/
def sliceFrom (k : Nat) (text : Str) : Option Str := if text.length < k then none else some (text.drop k)

def hexDigitVal (c : Char) : Option Nat :=
  if '0' ≤ c && c ≤ '9' then some (c.toNat - '0'.toNat)
  else if 'a' ≤ c && c ≤ 'f' then some (c.toNat - 'a'.toNat + 10)
  else if 'A' ≤ c && c ≤ 'F' then some (c.toNat - 'A'.toNat + 10)
  else none

/-- digits in the given radix, most significant first; `none` if a character is not a digit of that radix -/
def ofRadix (radix : Nat) (ds : Str) : Option Nat :=
  ds.foldl (fun acc c => match acc, hexDigitVal c with
    | some a, some d => if d < radix then some (a * radix + d) else none
    | _, _ => none) (some 0)

/-- `i128::from_str_radix(text, radix)` for an unsigned digit string (as the grammar's tokens guarantee) -/
def parseRadix (radix : Nat) (ds : Str) : Option Int :=
  if ds.isEmpty then none
  else match ofRadix radix ds with
    | some n => I128.checked (n : Int)
    | none => none

/-- the text of a float / decimal literal after its prefix letter: `[+-]?[0-9]*\.?[0-9]+([eE][+-]?[0-9]+)?`
    → (negative, all digits as a number, number of fraction digits, exponent) -/
def splitNumber (t : Str) : Bool × Nat × Nat × Int :=
  let (neg, u) := match t with
    | '-' :: r => (true, r)
    | '+' :: r => (false, r)
    | r => (false, r)
  let ip := u.takeWhile Lex.isDigit
  let r1 := u.dropWhile Lex.isDigit
  let (fp, r2) := match r1 with
    | '.' :: r => (r.takeWhile Lex.isDigit, r.dropWhile Lex.isDigit)
    | r => ([], r)
  let e : Int := match r2 with
    | _ :: r =>            -- 'e' / 'E'
      let (eneg, ed) := match r with
        | '-' :: d => (true, d)
        | '+' :: d => (false, d)
        | d => (false, d)
      let n : Int := (Str.ofDigits (ed.takeWhile Lex.isDigit) : Int)
      if eneg then -n else n
    | [] => 0
  (neg, Str.ofDigits (ip ++ fp), fp.length, e)

/-- `f64::from_str` on a float literal's text: the nearest double -/
def parseFloat (t : Str) : F64 :=
  let (neg, digits, nfrac, e) := splitNumber t
  F64.ofDecimal neg digits (e - (nfrac : Int))

/-- `Decimal::from_str` on a decimal literal's text, where the digits fit 96 bits and at most 28 of them are
    fraction digits; otherwise `none` (the library rounds or fails: not predicted) -/
def parseDecimal (t : Str) : Option Dec :=
  let (neg, digits, nfrac, _) := splitNumber t
  if nfrac ≤ 28 && digits ≤ Dec.maxMant then some ⟨neg && digits != 0, digits, nfrac⟩ else none

/-- `parse_unicode`: after `\u` — `{`, hex digits (a leading `+` is accepted by `u32::from_str_radix`) up to
    `}` (or the end of the text), a Unicode scalar value -/
def parseUnicode (s : Str) : Option (Char × Str) :=
  match s with
  | '{' :: r =>
    let hx := r.takeWhile (· != '}')
    let rest := (r.dropWhile (· != '}')).drop 1
    let h := match hx with
      | '+' :: h' => h'
      | h' => h'
    if h.isEmpty then none
    else match ofRadix 16 h with
      | some v =>
        if v < 0x110000 && !(0xD800 ≤ v && v ≤ 0xDFFF) && v < 2 ^ 32 then some (Char.ofNat v, rest) else none
      | none => none
  | _ => none

/-- `unescape` -/
def unescapeAux : Nat → Str → Option Str
  | _, [] => some []
  | 0, _ :: _ => none
  | fuel + 1, c :: r =>
    if c != '\\' then (unescapeAux fuel r).map (c :: ·)
    else match r with
      | [] => none
      | c2 :: r2 =>
        if c2 == 'n' then (unescapeAux fuel r2).map ('\n' :: ·)
        else if c2 == 'r' then (unescapeAux fuel r2).map ('\r' :: ·)
        else if c2 == 't' then (unescapeAux fuel r2).map ('\t' :: ·)
        else if c2 == '\\' then (unescapeAux fuel r2).map ('\\' :: ·)
        else if c2 == '\'' then (unescapeAux fuel r2).map ('\'' :: ·)
        else if c2 == '"' then (unescapeAux fuel r2).map ('"' :: ·)
        else if c2 == 'u' then
          match parseUnicode r2 with
          | some (ch, r3) => if r3.length ≤ r2.length then (unescapeAux fuel r3).map (ch :: ·) else none
          | none => none
        else none

def unescape (s : Str) : Option Str := unescapeAux (s.length + 1) s

/-- the grammar's literal actions: `parse_int_value` … `parse_string_literal` -/
def ofTok (o : Oracle) : Tok → PR Value
  | .int t =>
    match sliceFrom 1 t with
    | none => .panic .slice
    | some b => match Str.parseI128 b with
      | some n => .ok (.int n) []
      | none => .error
  | .hex t =>
    match sliceFrom 2 t with
    | none => .panic .slice
    | some b => match parseRadix 16 b with | some n => .ok (.int n) [] | none => .error
  | .oct t =>
    match sliceFrom 2 t with
    | none => .panic .slice
    | some b => match parseRadix 8 b with | some n => .ok (.int n) [] | none => .error
  | .bin t =>
    match sliceFrom 2 t with
    | none => .panic .slice
    | some b => match parseRadix 2 b with | some n => .ok (.int n) [] | none => .error
  | .float t =>
    match sliceFrom 1 t with
    | none => .panic .slice
    | some b => .ok (.float (parseFloat b)) []
  | .dec t =>
    match sliceFrom 1 t with
    | none => .panic .slice
    | some b => match parseDecimal b with
      | some d => .ok (.dec d) []
      | none =>
        match o .strToDec [.str b] with
        | some (some v) => .ok v []
        | some none => .error
        | none => .frontier .strToDec [.str b]
  | .str t =>
    -- `&value[1..value.len() - 1]`
    if t.length < 2 then .panic .slice
    else match unescape ((t.drop 1).take (t.length - 2)) with
      | some s => .ok (.str s) []
      | none => .error
  | _ => .error

end Lit

/-- the keyword functions of `Func` -/
def funcOfKw (k : Str) : Option UnOp :=
  if k = ['i', 'n', 't'] then some .toInt
  else if k = ['f', 'l', 'o', 'a', 't'] then some .toFloat
  else if k = ['d', 'e', 'c'] then some .toDec
  else if k = ['d', 'a', 't', 'e', '_', 't', 'i', 'm', 'e'] then some .dateTime
  else if k = ['d', 'a', 't', 'e', 't', 'i', 'm', 'e'] then some .dateTime
  else if k = ['d', 'u', 'r', 'a', 't', 'i', 'o', 'n'] then some .duration
  else if k = ['i', 's', '_', 's', 'o', 'm', 'e'] then some .some
  else if k = ['i', 's', '_', 'n', 'o', 'n', 'e'] then some .isNone
  else if k = ['s', 'o', 'm', 'e'] then some .some
  else if k = ['n', 'o', 'n', 'e'] then some .isNone
  else if k = ['t', 'o', '_', 'u', 'p', 'p', 'e', 'r'] then some .upper
  else if k = ['t', 'o', '_', 'l', 'o', 'w', 'e', 'r'] then some .lower
  else if k = ['u', 'p', 'p', 'e', 'r', 'c', 'a', 's', 'e'] then some .upper
  else if k = ['l', 'o', 'w', 'e', 'r', 'c', 'a', 's', 'e'] then some .lower
  else if k = ['t', 'r', 'i', 'm'] then some .trim
  else if k = ['r', 'o', 'u', 'n', 'd'] then some .round
  else if k = ['f', 'l', 'o', 'o', 'r'] then some .floor
  else if k = ['f', 'r', 'a', 'c', 't'] then some .fract
  else if k = ['y', 'e', 'a', 'r'] then some .year
  else if k = ['m', 'o', 'n', 't', 'h'] then some .month
  else if k = ['w', 'e', 'e', 'k'] then some .week
  else if k = ['d', 'a', 'y'] then some .day
  else if k = ['h', 'o', 'u', 'r'] then some .hour
  else if k = ['m', 'i', 'n', 'u', 't', 'e'] then some .minute
  else if k = ['s', 'e', 'c', 'o', 'n', 'd'] then some .second
  else none

inductive EqOp where | eq | neq | gt | lt | gte | lte
deriving DecidableEq, Repr

def eqOpOf (s : Str) : Option EqOp :=
  if s = ['='] then some .eq else if s = ['=', '='] then some .eq else if s = ['!', '='] then some .neq
  else if s = ['>'] then some .gt else if s = ['<'] then some .lt
  else if s = ['>', '='] then some .gte else if s = ['<', '='] then some .lte else none

def mkEq (o : EqOp) (l r : Expr) : Expr :=
  match o with
  | .eq => .eq l r | .neq => .neq l r
  | .gt => .bin .gt l r | .lt => .bin .lt l r | .gte => .bin .gte l r | .lte => .bin .lte l r

def addOpOf (s : Str) : Option BinOp := if s = ['+'] then some .add else if s = ['-'] then some .sub else none
def multOpOf (s : Str) : Option BinOp :=
  if s = ['*'] then some .mult else if s = ['/'] then some .div else if s = ['%'] then some .rem else none
def bitOpOf (s : Str) : Option BinOp :=
  if s = ['&'] then some .bitAnd else if s = ['|'] then some .bitOr else if s = ['^'] then some .bitXor else none

/-- the binary operator tokens of level `k` (1 = and/or … 5 = bitwise) and the node each builds -/
def binOpAt (k : Nat) (t : Tok) : Option (Expr → Expr → Expr) :=
  match k, t with
  | 1, .kw w => if w = ['a', 'n', 'd'] then some Expr.and else if w = ['o', 'r'] then some Expr.or else none
  | 2, .p s => (eqOpOf s).map mkEq
  | 3, .p s => (addOpOf s).map (fun o => Expr.bin o)
  | 4, .p s => (multOpOf s).map (fun o => Expr.bin o)
  | 5, .p s => (bitOpOf s).map (fun o => Expr.bin o)
  | _, _ => none

def u64Max : Nat := 2 ^ 64 - 1

mutual
/-- `Expr` = `IfExpr` -/
def pIf (orc : Oracle) : Nat → List Tok → PR Expr
  | 0, _ => .error
  | f + 1, ts =>
    match ts with
    | .kw k :: r =>
      if k = ['i', 'f'] then
        match pIf orc f r with
        | .ok c r1 =>
          match r1 with
          | .kw k1 :: r2 =>
            if k1 = ['t', 'h', 'e', 'n'] then
              match pIf orc f r2 with
              | .ok t r3 =>
                match r3 with
                | .kw k2 :: r4 =>
                  if k2 = ['e', 'l', 's', 'e'] then
                    match pIf orc f r4 with
                    | .ok e r5 => .ok (.ite c t e) r5
                    | other => other
                  else .error
                | _ => .error
              | other => other
            else .error
          | _ => .error
        | other => other
      else pBin orc f 1 ts
    | _ => pBin orc f 1 ts
/-- the five left-associative binary levels `LogExpr` (1) … `BitExpr` (5): `p_k = p_{k+1} (op_k p_{k+1})*`;
    level 6 is `ContainsExpr` -/
def pBin (orc : Oracle) : Nat → Nat → List Tok → PR Expr
  | 0, _, _ => .error
  | f + 1, k, ts =>
    if k ≥ 6 then pContains orc f ts
    else
      match pBin orc f (k + 1) ts with
      | .ok l r => pBinLoop orc f k l r
      | other => other
def pBinLoop (orc : Oracle) : Nat → Nat → Expr → List Tok → PR Expr
  | 0, _, _, _ => .error
  | f + 1, k, acc, ts =>
    match ts with
    | t :: r =>
      match binOpAt k t with
      | some mk =>
        match pBin orc f (k + 1) r with
        | .ok x r1 => pBinLoop orc f k (mk acc x) r1
        | other => other
      | none => .ok acc ts
    | [] => .ok acc ts
/-- `ContainsExpr`: `IndexExpr contains IndexExpr | IndexExpr in IndexExpr | UnaryExpr` — not chainable; a
    leading `-` / `!` can only start the `UnaryExpr` alternative -/
def pContains (orc : Oracle) : Nat → List Tok → PR Expr
  | 0, _ => .error
  | f + 1, ts =>
    match ts with
    | .p s :: _ =>
      if s = ['-'] || s = ['!'] then pUnary orc f ts
      else pContainsTail orc f ts
    | _ => pContainsTail orc f ts
def pContainsTail (orc : Oracle) : Nat → List Tok → PR Expr
  | 0, _ => .error
  | f + 1, ts =>
    match pIndex orc f ts with
    | .ok l r =>
      match r with
      | .kw k :: r1 =>
        if k = ['c', 'o', 'n', 't', 'a', 'i', 'n', 's'] then
          match pIndex orc f r1 with
          | .ok x r2 => .ok (.bin .contains l x) r2
          | other => other
        else if k = ['i', 'n'] then
          match pIndex orc f r1 with
          | .ok x r2 => .ok (.bin .contains x l) r2
          | other => other
        else .ok l r
      | _ => .ok l r
    | other => other
def pUnary (orc : Oracle) : Nat → List Tok → PR Expr
  | 0, _ => .error
  | f + 1, ts =>
    match ts with
    | .p s :: r =>
      if s = ['-'] then
        match pUnary orc f r with
        | .ok e r1 => .ok (.un .neg e) r1
        | other => other
      else if s = ['!'] then
        match pUnary orc f r with
        | .ok e r1 => .ok (.un .not e) r1
        | other => other
      else pIndex orc f ts
    | _ => pIndex orc f ts
/-- `IndexExpr`: `Term (. IDENT | . INDEX)*` -/
def pIndex (orc : Oracle) : Nat → List Tok → PR Expr
  | 0, _ => .error
  | f + 1, ts =>
    match pTerm orc f ts with
    | .ok l r => pIndexLoop orc f l r
    | other => other
def pIndexLoop (orc : Oracle) : Nat → Expr → List Tok → PR Expr
  | 0, _, _ => .error
  | f + 1, acc, ts =>
    match ts with
    | .p s :: r =>
      if s = ['.'] then
        match r with
        | .ident k :: r1 => pIndexLoop orc f (.index acc (.key k)) r1
        | .index ds :: r1 =>
          -- `usize::from_str(r)` (an error since the fix: commit, a panic before it)
          if Str.ofDigits ds ≤ u64Max then pIndexLoop orc f (.index acc (.pos (Str.ofDigits ds))) r1 else .error
        | _ => .error
      else .ok acc ts
    | _ => .ok acc ts
def pTerm (orc : Oracle) : Nat → List Tok → PR Expr
  | 0, _ => .error
  | f + 1, ts =>
    match ts with
    | [] => .error
    | .kw k :: r =>
      match r with
      | .p ['('] :: r1 =>
        match funcOfKw k with
        | some op =>
          match pIf orc f r1 with
          | .ok e r2 =>
            match r2 with
            | .p [')'] :: r3 => .ok (.un op e) r3
            | _ => .error
          | other => other
        | none =>
          -- true( / false( : a literal followed by a parenthesis
          if k = ['t', 'r', 'u', 'e'] then .ok (.lit (.bool true)) r
          else if k = ['f', 'a', 'l', 's', 'e'] then .ok (.lit (.bool false)) r
          else .error
      | _ =>
        if k = ['n', 'o', 'n', 'e'] then .ok (.lit .none) r
        else if k = ['t', 'r', 'u', 'e'] then .ok (.lit (.bool true)) r
        else if k = ['f', 'a', 'l', 's', 'e'] then .ok (.lit (.bool false)) r
        else .error
    | .ident x :: r =>
      match r with
      | .p ['('] :: r1 =>
        match pIf orc f r1 with
        | .ok e r2 =>
          match r2 with
          | .p [')'] :: r3 => .ok (.call x e) r3
          | _ => .error
        | other => other
      | _ => .ok (.ref x) r
    | .p s :: r =>
      if s = [':'] then
        match r with
        | .ident x :: r1 => .ok (.sym x) r1
        | _ => .error
      else if s = ['('] then
        match pIf orc f r with
        | .ok e r1 =>
          match r1 with
          | .p [')'] :: r2 => .ok e r2
          | _ => .error
        | other => other
      else if s = ['['] then
        match pVecItems orc f r with
        | .ok xs r1 => .ok (.vec xs) r1
        | .error => .error
        | .panic x => .panic x
        | .frontier o a => .frontier o a
      else if s = ['{'] then
        match pMapItems orc f r with
        | .ok kvs r1 => .ok (.map (kvs.foldl (fun m kv => insertSorted kv.1 kv.2 m) [])) r1
        | .error => .error
        | .panic x => .panic x
        | .frontier o a => .frontier o a
      else .error
    | t :: r =>
      match Lit.ofTok orc t with
      | .ok v _ => .ok (.lit v) r
      | .error => .error
      | .panic x => .panic x
      | .frontier o a => .frontier o a
/-- after `[`: `(Expr ,)* Expr? ]` -/
def pVecItems (orc : Oracle) : Nat → List Tok → PR (List Expr)
  | 0, _ => .error
  | f + 1, ts =>
    match ts with
    | .p [']'] :: r => .ok [] r
    | _ =>
      match pIf orc f ts with
      | .ok e r =>
        match r with
        | .p [','] :: r1 =>
          match pVecItems orc f r1 with
          | .ok es r2 => .ok (e :: es) r2
          | other => other
        | .p [']'] :: r1 => .ok [e] r1
        | _ => .error
      | .error => .error
      | .panic x => .panic x
      | .frontier o a => .frontier o a
/-- after `{`: `(IDENT : Expr ,)* (IDENT : Expr)? }` -/
def pMapItems (orc : Oracle) : Nat → List Tok → PR (List (Str × Expr))
  | 0, _ => .error
  | f + 1, ts =>
    match ts with
    | .p ['}'] :: r => .ok [] r
    | .ident k :: .p [':'] :: r =>
      match pIf orc f r with
      | .ok e r1 =>
        match r1 with
        | .p [','] :: r2 =>
          match pMapItems orc f r2 with
          | .ok es r3 => .ok ((k, e) :: es) r3
          | other => other
        | .p ['}'] :: r2 => .ok [(k, e)] r2
        | _ => .error
      | .error => .error
      | .panic x => .panic x
      | .frontier o a => .frontier o a
    | _ => .error
end

def parseFuel (ts : List Tok) : Nat := 14 * (ts.length + 2)

/-- parse a whole token list as one expression -/
def parseToks (o : Oracle) (ts : List Tok) : PR Expr :=
  match pIf o (parseFuel ts) ts with
  | .ok e [] => .ok e []
  | .ok _ (_ :: _) => .error
  | other => other

/-- `Expr::parse(text)` -/
def parseExprText (o : Oracle) (s : Str) : PR Expr :=
  match lex s with
  | none => .error
  | some ts => parseToks o ts

end Reval
