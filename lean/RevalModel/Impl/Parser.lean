/-
  Impl/Parser.lean — reference parser for the grammar of `reval.lalrpop` (recursive descent with the
  left-recursive alternatives as loops; fuel-indexed so that it is total), the semantic actions of the
  grammar (`parse/helpers.rs`, `parse/unescape.rs`), and `Expr::parse` = lex, then parse, then end of input.
  The `&value[k..]` prefix slices of the Rust actions are modelled with their panic condition.
-/
import RevalModel.Impl.Lexer
import RevalModel.Impl.Eval

namespace Reval

/-- outcome of a parsing function: a result and the remaining tokens, a parse error (syntax, lexical or
    literal-conversion error: the class is an artefact of LR look-ahead and is not distinguished), a panic,
    or a literal the model declines to convert (over-long decimal: answered by the library) -/
inductive PR (α : Type) where
  | ok (a : α) (rest : List Tok)
  | error
  | panic (s : Site)
  | frontier (op : FOp) (args : List Value)
deriving Repr, Inhabited

def PR.isPanic {α} : PR α → Bool
  | .panic _ => true
  | _ => false

namespace Lit

/-- `&value[k..]`: panics when the text is shorter than `k` -/
def sliceFrom (k : Nat) (text : Str) : Option Str := if text.length < k then none else some (text.drop k)

def hexDigitVal (c : Char) : Option Nat :=
  if '0' ≤ c && c ≤ '9' then some (c.toNat - '0'.toNat)
  else if 'a' ≤ c && c ≤ 'f' then some (c.toNat - 'a'.toNat + 10)
  else if 'A' ≤ c && c ≤ 'F' then some (c.toNat - 'A'.toNat + 10)
  else none

/-- digits in the given radix, most significant first; `none` if a character is not a digit of that radix -/
def ofRadix (radix : Nat) (ds : Str) : Option Nat :=
  ds.foldl (fun acc c => match acc, hexDigitVal c with
    | some a, some d => if d < radix then some (a * radix + d) else none
    | _, _ => none) (some 0)

/-- `i128::from_str_radix(text, radix)` for an unsigned digit string (as the grammar's tokens guarantee) -/
def parseRadix (radix : Nat) (ds : Str) : Option Int :=
  if ds.isEmpty then none
  else match ofRadix radix ds with
    | some n => I128.checked (n : Int)
    | none => none

/-- the text of a float / decimal literal after its prefix letter: `[+-]?[0-9]*\.?[0-9]+([eE][+-]?[0-9]+)?`
    → (negative, all digits as a number, number of fraction digits, exponent) -/
def splitNumber (t : Str) : Bool × Nat × Nat × Int :=
  let (neg, u) := match t with
    | '-' :: r => (true, r)
    | '+' :: r => (false, r)
    | r => (false, r)
  let ip := u.takeWhile Lex.isDigit
  let r1 := u.dropWhile Lex.isDigit
  let (fp, r2) := match r1 with
    | '.' :: r => (r.takeWhile Lex.isDigit, r.dropWhile Lex.isDigit)
    | r => ([], r)
  let e : Int := match r2 with
    | _ :: r =>            -- 'e' / 'E'
      let (eneg, ed) := match r with
        | '-' :: d => (true, d)
        | '+' :: d => (false, d)
        | d => (false, d)
      let n : Int := (Str.ofDigits (ed.takeWhile Lex.isDigit) : Int)
      if eneg then -n else n
    | [] => 0
  (neg, Str.ofDigits (ip ++ fp), fp.length, e)

/-- `f64::from_str` on a float literal's text: the nearest double -/
def parseFloat (t : Str) : F64 :=
  let (neg, digits, nfrac, e) := splitNumber t
  F64.ofDecimal neg digits (e - (nfrac : Int))

/-- `Decimal::from_str` on a decimal literal's text, where the digits fit 96 bits and at most 28 of them are
    fraction digits; otherwise `none` (the library rounds or fails: not predicted) -/
def parseDecimal (t : Str) : Option Dec :=
  let (neg, digits, nfrac, _) := splitNumber t
  if nfrac ≤ 28 && digits ≤ Dec.maxMant then some ⟨neg && digits != 0, digits, nfrac⟩ else none

/-- `parse_unicode`: after `\u` — `{`, hex digits (a leading `+` is accepted by `u32::from_str_radix`) up to
    `}` (or the end of the text), a Unicode scalar value -/
def parseUnicode (s : Str) : Option (Char × Str) :=
  match s with
  | '{' :: r =>
    let hx := r.takeWhile (· != '}')
    let rest := (r.dropWhile (· != '}')).drop 1
    let h := match hx with
      | '+' :: h' => h'
      | h' => h'
    if h.isEmpty then none
    else match ofRadix 16 h with
      | some v =>
        if v < 0x110000 && !(0xD800 ≤ v && v ≤ 0xDFFF) && v < 2 ^ 32 then some (Char.ofNat v, rest) else none
      | none => none
  | _ => none

/-- `unescape` -/
def unescapeAux : Nat → Str → Option Str
  | _, [] => some []
  | 0, _ :: _ => none
  | fuel + 1, c :: r =>
    if c != '\\' then (unescapeAux fuel r).map (c :: ·)
    else match r with
      | [] => none
      | c2 :: r2 =>
        if c2 == 'n' then (unescapeAux fuel r2).map ('\n' :: ·)
        else if c2 == 'r' then (unescapeAux fuel r2).map ('\r' :: ·)
        else if c2 == 't' then (unescapeAux fuel r2).map ('\t' :: ·)
        else if c2 == '\\' then (unescapeAux fuel r2).map ('\\' :: ·)
        else if c2 == '\'' then (unescapeAux fuel r2).map ('\'' :: ·)
        else if c2 == '"' then (unescapeAux fuel r2).map ('"' :: ·)
        else if c2 == 'u' then
          match parseUnicode r2 with
          | some (ch, r3) => if r3.length ≤ r2.length then (unescapeAux fuel r3).map (ch :: ·) else none
          | none => none
        else none

def unescape (s : Str) : Option Str := unescapeAux (s.length + 1) s

/-- the grammar's literal actions: `parse_int_value` … `parse_string_literal` -/
def ofTok : Tok → PR Value
  | .int t =>
    match sliceFrom 1 t with
    | none => .panic .slice
    | some b => match Str.parseI128 b with
      | some n => .ok (.int n) []
      | none => .error
  | .hex t =>
    match sliceFrom 2 t with
    | none => .panic .slice
    | some b => match parseRadix 16 b with | some n => .ok (.int n) [] | none => .error
  | .oct t =>
    match sliceFrom 2 t with
    | none => .panic .slice
    | some b => match parseRadix 8 b with | some n => .ok (.int n) [] | none => .error
  | .bin t =>
    match sliceFrom 2 t with
    | none => .panic .slice
    | some b => match parseRadix 2 b with | some n => .ok (.int n) [] | none => .error
  | .float t =>
    match sliceFrom 1 t with
    | none => .panic .slice
    | some b => .ok (.float (parseFloat b)) []
  | .dec t =>
    match sliceFrom 1 t with
    | none => .panic .slice
    | some b => match parseDecimal b with
      | some d => .ok (.dec d) []
      | none => .frontier .strToDec [.str b]
  | .str t =>
    -- `&value[1..value.len() - 1]`
    if t.length < 2 then .panic .slice
    else match unescape ((t.drop 1).take (t.length - 2)) with
      | some s => .ok (.str s) []
      | none => .error
  | _ => .error

end Lit

/-- the keyword functions of `Func` -/
def funcOfKw (k : Str) : Option UnOp :=
  if k = "int".toList then some .toInt
  else if k = "float".toList then some .toFloat
  else if k = "dec".toList then some .toDec
  else if k = "date_time".toList then some .dateTime
  else if k = "datetime".toList then some .dateTime
  else if k = "duration".toList then some .duration
  else if k = "is_some".toList then some .some
  else if k = "is_none".toList then some .isNone
  else if k = "some".toList then some .some
  else if k = "none".toList then some .isNone
  else if k = "to_upper".toList then some .upper
  else if k = "to_lower".toList then some .lower
  else if k = "uppercase".toList then some .upper
  else if k = "lowercase".toList then some .lower
  else if k = "trim".toList then some .trim
  else if k = "round".toList then some .round
  else if k = "floor".toList then some .floor
  else if k = "fract".toList then some .fract
  else if k = "year".toList then some .year
  else if k = "month".toList then some .month
  else if k = "week".toList then some .week
  else if k = "day".toList then some .day
  else if k = "hour".toList then some .hour
  else if k = "minute".toList then some .minute
  else if k = "second".toList then some .second
  else none

inductive EqOp where | eq | neq | gt | lt | gte | lte
deriving DecidableEq, Repr

def eqOpOf (s : Str) : Option EqOp :=
  if s = ['='] then some .eq else if s = ['=', '='] then some .eq else if s = ['!', '='] then some .neq
  else if s = ['>'] then some .gt else if s = ['<'] then some .lt
  else if s = ['>', '='] then some .gte else if s = ['<', '='] then some .lte else none

def mkEq (o : EqOp) (l r : Expr) : Expr :=
  match o with
  | .eq => .eq l r | .neq => .neq l r
  | .gt => .bin .gt l r | .lt => .bin .lt l r | .gte => .bin .gte l r | .lte => .bin .lte l r

def addOpOf (s : Str) : Option BinOp := if s = ['+'] then some .add else if s = ['-'] then some .sub else none
def multOpOf (s : Str) : Option BinOp :=
  if s = ['*'] then some .mult else if s = ['/'] then some .div else if s = ['%'] then some .rem else none
def bitOpOf (s : Str) : Option BinOp :=
  if s = ['&'] then some .bitAnd else if s = ['|'] then some .bitOr else if s = ['^'] then some .bitXor else none

def u64Max : Nat := 2 ^ 64 - 1

mutual
/-- `Expr` = `IfExpr` -/
def pIf : Nat → List Tok → PR Expr
  | 0, _ => .error
  | f + 1, ts =>
    match ts with
    | .kw k :: r =>
      if k = "if".toList then
        match pIf f r with
        | .ok c r1 =>
          match r1 with
          | .kw k1 :: r2 =>
            if k1 = "then".toList then
              match pIf f r2 with
              | .ok t r3 =>
                match r3 with
                | .kw k2 :: r4 =>
                  if k2 = "else".toList then
                    match pIf f r4 with
                    | .ok e r5 => .ok (.ite c t e) r5
                    | other => other
                  else .error
                | _ => .error
              | other => other
            else .error
          | _ => .error
        | other => other
      else pLog f ts
    | _ => pLog f ts
/-- `LogExpr`: `EqExpr ((and | or) EqExpr)*`, left-associative -/
def pLog : Nat → List Tok → PR Expr
  | 0, _ => .error
  | f + 1, ts =>
    match pEq f ts with
    | .ok l r => pLogLoop f l r
    | other => other
def pLogLoop : Nat → Expr → List Tok → PR Expr
  | 0, _, _ => .error
  | f + 1, acc, ts =>
    match ts with
    | .kw k :: r =>
      if k = "and".toList then
        match pEq f r with
        | .ok x r1 => pLogLoop f (.and acc x) r1
        | other => other
      else if k = "or".toList then
        match pEq f r with
        | .ok x r1 => pLogLoop f (.or acc x) r1
        | other => other
      else .ok acc ts
    | _ => .ok acc ts
/-- `EqExpr`: `AddExpr ((= | == | != | > | < | >= | <=) AddExpr)*` -/
def pEq : Nat → List Tok → PR Expr
  | 0, _ => .error
  | f + 1, ts =>
    match pAdd f ts with
    | .ok l r => pEqLoop f l r
    | other => other
def pEqLoop : Nat → Expr → List Tok → PR Expr
  | 0, _, _ => .error
  | f + 1, acc, ts =>
    match ts with
    | .p s :: r =>
      match eqOpOf s with
      | some o =>
        match pAdd f r with
        | .ok x r1 => pEqLoop f (mkEq o acc x) r1
        | other => other
      | none => .ok acc ts
    | _ => .ok acc ts
def pAdd : Nat → List Tok → PR Expr
  | 0, _ => .error
  | f + 1, ts =>
    match pMult f ts with
    | .ok l r => pAddLoop f l r
    | other => other
def pAddLoop : Nat → Expr → List Tok → PR Expr
  | 0, _, _ => .error
  | f + 1, acc, ts =>
    match ts with
    | .p s :: r =>
      match addOpOf s with
      | some o =>
        match pMult f r with
        | .ok x r1 => pAddLoop f (.bin o acc x) r1
        | other => other
      | none => .ok acc ts
    | _ => .ok acc ts
def pMult : Nat → List Tok → PR Expr
  | 0, _ => .error
  | f + 1, ts =>
    match pBit f ts with
    | .ok l r => pMultLoop f l r
    | other => other
def pMultLoop : Nat → Expr → List Tok → PR Expr
  | 0, _, _ => .error
  | f + 1, acc, ts =>
    match ts with
    | .p s :: r =>
      match multOpOf s with
      | some o =>
        match pBit f r with
        | .ok x r1 => pMultLoop f (.bin o acc x) r1
        | other => other
      | none => .ok acc ts
    | _ => .ok acc ts
def pBit : Nat → List Tok → PR Expr
  | 0, _ => .error
  | f + 1, ts =>
    match pContains f ts with
    | .ok l r => pBitLoop f l r
    | other => other
def pBitLoop : Nat → Expr → List Tok → PR Expr
  | 0, _, _ => .error
  | f + 1, acc, ts =>
    match ts with
    | .p s :: r =>
      match bitOpOf s with
      | some o =>
        match pContains f r with
        | .ok x r1 => pBitLoop f (.bin o acc x) r1
        | other => other
      | none => .ok acc ts
    | _ => .ok acc ts
/-- `ContainsExpr`: `IndexExpr contains IndexExpr | IndexExpr in IndexExpr | UnaryExpr` — not chainable; a
    leading `-` / `!` can only start the `UnaryExpr` alternative -/
def pContains : Nat → List Tok → PR Expr
  | 0, _ => .error
  | f + 1, ts =>
    match ts with
    | .p s :: _ =>
      if s = ['-'] || s = ['!'] then pUnary f ts
      else pContainsTail f ts
    | _ => pContainsTail f ts
def pContainsTail : Nat → List Tok → PR Expr
  | 0, _ => .error
  | f + 1, ts =>
    match pIndex f ts with
    | .ok l r =>
      match r with
      | .kw k :: r1 =>
        if k = "contains".toList then
          match pIndex f r1 with
          | .ok x r2 => .ok (.bin .contains l x) r2
          | other => other
        else if k = "in".toList then
          match pIndex f r1 with
          | .ok x r2 => .ok (.bin .contains x l) r2
          | other => other
        else .ok l r
      | _ => .ok l r
    | other => other
def pUnary : Nat → List Tok → PR Expr
  | 0, _ => .error
  | f + 1, ts =>
    match ts with
    | .p s :: r =>
      if s = ['-'] then
        match pUnary f r with
        | .ok e r1 => .ok (.un .neg e) r1
        | other => other
      else if s = ['!'] then
        match pUnary f r with
        | .ok e r1 => .ok (.un .not e) r1
        | other => other
      else pIndex f ts
    | _ => pIndex f ts
/-- `IndexExpr`: `Term (. IDENT | . INDEX)*` -/
def pIndex : Nat → List Tok → PR Expr
  | 0, _ => .error
  | f + 1, ts =>
    match pTerm f ts with
    | .ok l r => pIndexLoop f l r
    | other => other
def pIndexLoop : Nat → Expr → List Tok → PR Expr
  | 0, _, _ => .error
  | f + 1, acc, ts =>
    match ts with
    | .p s :: r =>
      if s = ['.'] then
        match r with
        | .ident k :: r1 => pIndexLoop f (.index acc (.key k)) r1
        | .index ds :: r1 =>
          -- `usize::from_str(r)` (an error since the fix: commit, a panic before it)
          if Str.ofDigits ds ≤ u64Max then pIndexLoop f (.index acc (.pos (Str.ofDigits ds))) r1 else .error
        | _ => .error
      else .ok acc ts
    | _ => .ok acc ts
def pTerm : Nat → List Tok → PR Expr
  | 0, _ => .error
  | f + 1, ts =>
    match ts with
    | [] => .error
    | .kw k :: r =>
      match r with
      | .p ['('] :: r1 =>
        match funcOfKw k with
        | some op =>
          match pIf f r1 with
          | .ok e r2 =>
            match r2 with
            | .p [')'] :: r3 => .ok (.un op e) r3
            | _ => .error
          | other => other
        | none =>
          -- true( / false( : a literal followed by a parenthesis
          if k = "true".toList then .ok (.lit (.bool true)) r
          else if k = "false".toList then .ok (.lit (.bool false)) r
          else .error
      | _ =>
        if k = "none".toList then .ok (.lit .none) r
        else if k = "true".toList then .ok (.lit (.bool true)) r
        else if k = "false".toList then .ok (.lit (.bool false)) r
        else .error
    | .ident x :: r =>
      match r with
      | .p ['('] :: r1 =>
        match pIf f r1 with
        | .ok e r2 =>
          match r2 with
          | .p [')'] :: r3 => .ok (.call x e) r3
          | _ => .error
        | other => other
      | _ => .ok (.ref x) r
    | .p s :: r =>
      if s = [':'] then
        match r with
        | .ident x :: r1 => .ok (.sym x) r1
        | _ => .error
      else if s = ['('] then
        match pIf f r with
        | .ok e r1 =>
          match r1 with
          | .p [')'] :: r2 => .ok e r2
          | _ => .error
        | other => other
      else if s = ['['] then
        match pVecItems f r with
        | .ok xs r1 => .ok (.vec xs) r1
        | .error => .error
        | .panic x => .panic x
        | .frontier o a => .frontier o a
      else if s = ['{'] then
        match pMapItems f r with
        | .ok kvs r1 => .ok (.map (kvs.foldl (fun m kv => insertSorted kv.1 kv.2 m) [])) r1
        | .error => .error
        | .panic x => .panic x
        | .frontier o a => .frontier o a
      else .error
    | t :: r =>
      match Lit.ofTok t with
      | .ok v _ => .ok (.lit v) r
      | .error => .error
      | .panic x => .panic x
      | .frontier o a => .frontier o a
/-- after `[`: `(Expr ,)* Expr? ]` -/
def pVecItems : Nat → List Tok → PR (List Expr)
  | 0, _ => .error
  | f + 1, ts =>
    match ts with
    | .p [']'] :: r => .ok [] r
    | _ =>
      match pIf f ts with
      | .ok e r =>
        match r with
        | .p [','] :: r1 =>
          match pVecItems f r1 with
          | .ok es r2 => .ok (e :: es) r2
          | other => other
        | .p [']'] :: r1 => .ok [e] r1
        | _ => .error
      | .error => .error
      | .panic x => .panic x
      | .frontier o a => .frontier o a
/-- after `{`: `(IDENT : Expr ,)* (IDENT : Expr)? }` -/
def pMapItems : Nat → List Tok → PR (List (Str × Expr))
  | 0, _ => .error
  | f + 1, ts =>
    match ts with
    | .p ['}'] :: r => .ok [] r
    | .ident k :: .p [':'] :: r =>
      match pIf f r with
      | .ok e r1 =>
        match r1 with
        | .p [','] :: r2 =>
          match pMapItems f r2 with
          | .ok es r3 => .ok ((k, e) :: es) r3
          | other => other
        | .p ['}'] :: r2 => .ok [(k, e)] r2
        | _ => .error
      | .error => .error
      | .panic x => .panic x
      | .frontier o a => .frontier o a
    | _ => .error
end

def parseFuel (ts : List Tok) : Nat := 14 * (ts.length + 2)

/-- parse a whole token list as one expression -/
def parseToks (ts : List Tok) : PR Expr :=
  match pIf (parseFuel ts) ts with
  | .ok e [] => .ok e []
  | .ok _ (_ :: _) => .error
  | other => other

/-- `Expr::parse(text)` -/
def parseExprText (s : Str) : PR Expr :=
  match lex s with
  | none => .error
  | some ts => parseToks ts

end Reval
