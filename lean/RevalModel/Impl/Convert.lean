/-
  Impl/Convert.lean — `src/value/convert.rs`: `From<T> for Value` and `TryFrom<Value> for T`.
  Integer types are `IntKind`s (signed?, bits); `usize` is u64 on the supported targets.
-/
import RevalModel.Prim.DecTime

namespace Reval

/-- `f64::from(f32)` on bit patterns (exact widening; NaN canonicalised) -/
def F64.ofF32Bits (b : UInt32) : F64 :=
  let n := b.toNat
  let sign : Nat := if n / 2 ^ 31 = 1 then 2 ^ 63 else 0
  let ef : Nat := (n / 2 ^ 23) % 2 ^ 8
  let fr : Nat := n % 2 ^ 23
  if ef = 255 then (if fr = 0 then ⟨UInt64.ofNat (sign + 2047 * 2 ^ 52)⟩ else F64.nan)
  else if ef = 0 then F64.ofScaled (sign != 0) fr (-149) false
  else ⟨UInt64.ofNat (sign + (ef + 896) * 2 ^ 52 + fr * 2 ^ 29)⟩

namespace Conv

/-- `From<i8 … u64, usize, i128> for Value`: `i128::from(x)` / `x as i128` — exact for every source type -/
def fromInt (_k : IntKind) (n : Int) : Value := .int n
def fromF64 (f : F64) : Value := .float f
def fromF32 (b : UInt32) : Value := .float (F64.ofF32Bits b)
def fromStr (s : Str) : Value := .str s
def fromDec (d : Dec) : Value := .dec d
def fromBool (b : Bool) : Value := .bool b
def fromDateTime (t : Int) : Value := .dateTime t
def fromDuration (d : Int) : Value := .duration d
/-- `From<Option<Value>>` -/
def fromOption : Option Value → Value
  | some v => v
  | none => .none
/-- `From<Vec<V>>` for `V: Into<Value>` -/
def fromVec {α} (into : α → Value) (xs : List α) : Value := .vec (xs.map into)
/-- `From<HashMap / BTreeMap<K, V>>`: collected into a `BTreeMap` (sorted, a later equal key wins) -/
def fromMap {α} (into : α → Value) (kvs : List (Str × α)) : Value :=
  .map (kvs.foldl (fun m (k, v) => insertSorted k (into v) m) [])

/-- `TryFrom<Value> for <integer type>`: first the kind (`i128::try_from(value)?`), then the range
    (`.try_into()?` → NumericOverflow); `i128` itself has no range step -/
def tryInt (k : IntKind) (v : Value) : Except Err Int :=
  match v with
  | .int n => if k.inRange n then .ok n else .error .numericOverflow
  | _ => .error (.unexpectedValue v)

def tryF64 (v : Value) : Except Err F64 :=
  match v with | .float f => .ok f | _ => .error (.unexpectedValue v)
def tryStr (v : Value) : Except Err Str :=
  match v with | .str s => .ok s | _ => .error (.unexpectedValue v)
def tryDec (v : Value) : Except Err Dec :=
  match v with | .dec d => .ok d | _ => .error (.unexpectedValue v)
def tryBool (v : Value) : Except Err Bool :=
  match v with | .bool b => .ok b | _ => .error (.unexpectedValue v)
def tryDateTime (v : Value) : Except Err Int :=
  match v with | .dateTime t => .ok t | _ => .error (.unexpectedValue v)
def tryDuration (v : Value) : Except Err Int :=
  match v with | .duration d => .ok d | _ => .error (.unexpectedValue v)

/-- `collect::<Result<Vec<_>, _>>()`: all elements, or the first failing element's error -/
def collect {α β} (f : α → Except Err β) : List α → Except Err (List β)
  | [] => .ok []
  | x :: xs =>
    match f x with
    | .error e => .error e
    | .ok y =>
      match collect f xs with
      | .error e => .error e
      | .ok ys => .ok (y :: ys)

/-- `TryFrom<Value> for Vec<V>` -/
def tryVec {β} (elem : Value → Except Err β) (v : Value) : Except Err (List β) :=
  match v with
  | .vec xs => collect elem xs
  | _ => .error (.unexpectedValue v)

/-- `TryFrom<Value> for HashMap / BTreeMap<String, V>` -/
def tryMap {β} (elem : Value → Except Err β) (v : Value) : Except Err (List (Str × β)) :=
  match v with
  | .map kvs => collect (fun (kv : Str × Value) => match elem kv.2 with | .ok y => .ok (kv.1, y) | .error e => .error e) kvs
  | _ => .error (.unexpectedValue v)

/-- `TryFrom<Value> for HashMap / BTreeMap<String, Value>` -/
def tryMapValue (v : Value) : Except Err (List (Str × Value)) :=
  match v with
  | .map kvs => .ok kvs
  | _ => .error (.unexpectedValue v)

end Conv
end Reval
