/-
  Impl/RuleParse.lean — `Rule::parse` (`parse/rule.rs`): the line-based comment scan, the grammar
  `Rule = (@ IDENT : Expr ;)* Expr`, `RuleBuilder::parse / set_name / set_description / build`, `flatten`.
-/
import RevalModel.Impl.Parser

namespace Reval

def descKey : Str := ['d', 'e', 's', 'c', 'r', 'i', 'p', 't', 'i', 'o', 'n']
def nameKey : Str := ['n', 'a', 'm', 'e']

structure RuleOut where
  name : Str
  metadata : List (Str × Value)
  expr : Expr
deriving Repr

/-- `Rule::description()` -/
def RuleOut.description (r : RuleOut) : Option Str :=
  match lookup r.metadata descKey with
  | some (.str s) => some s
  | _ => none

inductive RuleRes where
  | ok (r : RuleOut)
  | missingName
  | parseError
  | panic (s : Site)
  | frontier (op : FOp) (args : List Value)
deriving Repr

namespace RuleParse

/-- `str::split_inclusive('\n')` -/
def splitInclusive : Str → Str → List Str
  | [], [] => []
  | [], cur => [cur.reverse]
  | c :: r, cur => if c == '\n' then (c :: cur).reverse :: splitInclusive r [] else splitInclusive r (c :: cur)

/-- `str::lines`: a trailing `\n` is removed, and a `\r` directly before it -/
def stripEol (l : Str) : Str :=
  match l.reverse with
  | '\n' :: '\r' :: r => r.reverse
  | '\n' :: r => r.reverse
  | _ => l

def lines (s : Str) : List Str := (splitInclusive s []).map stripEol

/-- `line.trim_start().strip_prefix("//").map(str::trim)` over all lines -/
def commentLines (s : Str) : List Str :=
  (lines s).filterMap (fun l =>
    match Str.trimStart l with
    | '/' :: '/' :: r => some (Str.trim r)
    | _ => none)

mutual
/-- `flatten`: a constant expression (literal, list, map) to its value -/
def flatten : Expr → Option Value
  | .lit v => some v
  | .vec xs => (flattenList xs).map .vec
  | .map kvs => (flattenMap kvs).map (fun m => .map (m.foldl (fun acc kv => insertSorted kv.1 kv.2 acc) []))
  | _ => none
def flattenList : List Expr → Option (List Value)
  | [] => some []
  | e :: es =>
    match flatten e with
    | some v => (flattenList es).map (v :: ·)
    | none => none
def flattenMap : List (Str × Expr) → Option (List (Str × Value))
  | [] => some []
  | (k, e) :: es =>
    match flatten e with
    | some v => (flattenMap es).map ((k, v) :: ·)
    | none => none
end

/-- `(@ IDENT : Expr ;)*` then `Expr` then end of input -/
def pRule (o : Oracle) : Nat → List Tok → List (Str × Expr) → PR (List (Str × Expr) × Expr)
  | 0, _, _ => .error
  | f + 1, ts, acc =>
    match ts with
    | .p ['@'] :: .ident k :: .p [':'] :: r =>
      match pIf o (parseFuel ts) r with
      | .ok e r1 =>
        match r1 with
        | .p [';'] :: r2 => pRule o f r2 ((k, e) :: acc)
        | _ => .error
      | .error => .error
      | .panic x => .panic x
      | .frontier o a => .frontier o a
    | _ =>
      match pIf o (parseFuel ts) ts with
      | .ok e [] => .ok (acc.reverse, e) []
      | .ok _ (_ :: _) => .error
      | .error => .error
      | .panic x => .panic x
      | .frontier o a => .frontier o a

/-- `RuleBuilder::parse`: `none` = InvalidNameValue / InvalidMetadata -/
def builderParse : List (Str × Expr) → Option Str → List (Str × Value) → Option (Option Str × List (Str × Value))
  | [], name, md => some (name, md)
  | (k, e) :: rest, name, md =>
    match flatten e with
    | some v =>
      if k = nameKey then
        match v with
        | .str s => builderParse rest (some s) md
        | _ => none
      else builderParse rest name (insertSorted k v md)
    | none => none

def joinNl : List Str → Str
  | [] => []
  | [x] => x
  | x :: xs => x ++ '\n' :: joinNl xs

end RuleParse

namespace RuleParse
/-- the final assembly of `Rule::parse`, given the parsed metadata items, the expression and the text's
    comment lines: `set_name` only if there was no `@name` (the first comment line); `set_description` only if
    the metadata has no `description` key (the comment lines after the first, joined by newlines);
    `build`: no name ⇒ MissingRuleName -/
def assemble (name : Option Str) (md : List (Str × Value)) (e : Expr) (cl : List Str) : RuleRes :=
  match (match name with | some n => some n | none => cl.head?) with
  | some n =>
    .ok ⟨n, (match cl with
      | _ :: d :: ds => if (lookup md descKey).isSome then md
                        else insertSorted descKey (.str (joinNl (d :: ds))) md
      | _ => md), e⟩
  | none => .missingName
end RuleParse

open RuleParse in
/-- `Rule::parse(text)` -/
def parseRuleText (o : Oracle) (s : Str) : RuleRes :=
  match lex s with
  | none => .parseError
  | some ts =>
    match pRule o (ts.length + 2) ts [] with
    | .error => .parseError
    | .panic x => .panic x
    | .frontier o a => .frontier o a
    | .ok (metas, e) _ =>
      match builderParse metas none [] with
      | none => .parseError
      | some (name, md) => assemble name md e (commentLines s)

end Reval
