/-
  Impl/Lexer.lean — the lalrpop-generated lexer of `reval.lalrpop`: at each position the longest match
  over all token patterns, ties to the literal / match-block patterns over the `else` block (IDENT, INDEX);
  whitespace (`\s*`) and `//…` comments are skipped; no match = invalid token.
  Formulated by first character (validated against the real lexer on all short strings).
-/
import RevalModel.Prim.DecTime

namespace Reval

inductive Tok where
  | kw (k : Str)        -- one of the 34 keyword tokens
  | ident (s : Str)
  | index (s : Str)     -- [0-9]+
  | str (raw : Str)     -- the whole literal, quotes included
  | int (s : Str)       -- the whole literal, prefix included: i[+-]?[0-9]+
  | hex (s : Str)       -- 0x…
  | oct (s : Str)       -- 0o…
  | bin (s : Str)       -- 0b…
  | float (s : Str)     -- f…
  | dec (s : Str)       -- d…
  | p (s : Str)         -- operator / punctuation
deriving DecidableEq, Repr, Inhabited

namespace Lex

def isAlpha (c : Char) : Bool := ('a' ≤ c && c ≤ 'z') || ('A' ≤ c && c ≤ 'Z')
def isDigit (c : Char) : Bool := '0' ≤ c && c ≤ '9'
def isIdc (c : Char) : Bool := isAlpha c || isDigit c || c == '_'
def isHex (c : Char) : Bool := isDigit c || ('a' ≤ c && c ≤ 'f') || ('A' ≤ c && c ≤ 'F')
def isOct (c : Char) : Bool := '0' ≤ c && c ≤ '8'      -- the grammar's `0o[0-8]+`
def isBin (c : Char) : Bool := c == '0' || c == '1'
def isEol (c : Char) : Bool := c == '\n' || c == '\r'

def keywords : List Str :=
  [['a', 'n', 'd'], ['o', 'r'], ['i', 'f'], ['t', 'h', 'e', 'n'], ['e', 'l', 's', 'e'], ['i', 's', '_', 's', 'o', 'm', 'e'], ['i', 's', '_', 'n', 'o', 'n', 'e'], ['n', 'o', 'n', 'e'], ['s', 'o', 'm', 'e'], ['i', 'n', 't'], ['f', 'l', 'o', 'a', 't'], ['d', 'e', 'c'], ['c', 'o', 'n', 't', 'a', 'i', 'n', 's'], ['i', 'n'], ['d', 'a', 't', 'e', '_', 't', 'i', 'm', 'e'], ['d', 'a', 't', 'e', 't', 'i', 'm', 'e'], ['d', 'u', 'r', 'a', 't', 'i', 'o', 'n'], ['t', 'o', '_', 'u', 'p', 'p', 'e', 'r'], ['t', 'o', '_', 'l', 'o', 'w', 'e', 'r'], ['u', 'p', 'p', 'e', 'r', 'c', 'a', 's', 'e'], ['l', 'o', 'w', 'e', 'r', 'c', 'a', 's', 'e'], ['t', 'r', 'i', 'm'], ['r', 'o', 'u', 'n', 'd'], ['f', 'l', 'o', 'o', 'r'], ['f', 'r', 'a', 'c', 't'], ['y', 'e', 'a', 'r'], ['m', 'o', 'n', 't', 'h'], ['w', 'e', 'e', 'k'], ['d', 'a', 'y'], ['h', 'o', 'u', 'r'], ['m', 'i', 'n', 'u', 't', 'e'], ['s', 'e', 'c', 'o', 'n', 'd'], ['t', 'r', 'u', 'e'], ['f', 'a', 'l', 's', 'e']]

def punct2 : List Str := [['=', '='], ['!', '='], ['>', '='], ['<', '=']]
def punct1 : List Char := ['=', '>', '<', '+', '-', '*', '/', '%', '!', '&', '|', '^', '@', ',', ':', ';', '.', '(', ')', '[', ']', '{', '}']

/-- number of leading characters satisfying `p` -/
def countWhile (p : Char → Bool) : Str → Nat
  | [] => 0
  | c :: cs => if p c then countWhile p cs + 1 else 0

/-- `[0-9]*\.?[0-9]+` at the start of `s`: length of the longest match, if any -/
def matchFrac (s : Str) : Option Nat :=
  let k := countWhile isDigit s
  let base : Option Nat := if k > 0 then some k else none
  match s.drop k with
  | '.' :: r =>
    let m := countWhile isDigit r
    if m > 0 then some (k + 1 + m) else base
  | _ => base

/-- `([eE][-+]?[0-9]+)?` at the start of `s`: length matched (0 when absent) -/
def matchExp (s : Str) : Nat :=
  match s with
  | c :: r =>
    if c == 'e' || c == 'E' then
      let sg := match r with
        | '+' :: _ => 1
        | '-' :: _ => 1
        | _ => 0
      let d := countWhile isDigit (r.drop sg)
      if d > 0 then 1 + sg + d else 0
    else 0
  | [] => 0

/-- the longest numeric literal `i… / f… / d…` whose prefix letter is `c`, as the number of characters after `c` -/
def matchNum (c : Char) (rest : Str) : Option Nat :=
  let sg := match rest with
    | '+' :: _ => 1
    | '-' :: _ => 1
    | _ => 0
  let body := rest.drop sg
  if c == 'i' then
    let k := countWhile isDigit body
    if k > 0 then some (sg + k) else none
  else
    match matchFrac body with
    | none => none
    | some b => if c == 'f' then some (sg + b + matchExp (body.drop b)) else some (sg + b)

/-- after the opening quote: characters up to and including the closing quote
    (`"[^"\\]*(?:\\.[^"\\]*)*"`, `.` = any character but `\n`) -/
def scanStr : Str → Option Nat
  | [] => none
  | ['\\'] => none
  | '\\' :: c :: r => if c == '\n' then none else (scanStr r).map (· + 2)
  | c :: r => if c == '"' then some 1 else (scanStr r).map (· + 1)

def mkNum (c : Char) (text : Str) : Tok :=
  if c == 'i' then .int text else if c == 'f' then .float text else .dec text

/-- a letter starts a word: an `i… / f… / d…` literal if that is at least as long as the word, else a
    keyword or an identifier -/
def wordTok (c : Char) (rest : Str) : Tok :=
  if keywords.contains (c :: rest.take (countWhile isIdc rest)) then .kw (c :: rest.take (countWhile isIdc rest))
  else .ident (c :: rest.take (countWhile isIdc rest))

def stepWord (c : Char) (rest : Str) : Tok × Str :=
  match (if c == 'i' || c == 'f' || c == 'd' then matchNum c rest else none) with
  | some n =>
    if n ≥ countWhile isIdc rest then (mkNum c (c :: rest.take n), rest.drop n)
    else (wordTok c rest, rest.drop (countWhile isIdc rest))
  | none => (wordTok c rest, rest.drop (countWhile isIdc rest))

/-- `0x… / 0o… / 0b…` after the leading `0`: characters matched after the `0`, and the token constructor -/
def matchRadix (rest : Str) : Option (Nat × (Str → Tok)) :=
  match rest with
  | 'x' :: r => if countWhile isHex r > 0 then some (1 + countWhile isHex r, Tok.hex) else none
  | 'o' :: r => if countWhile isOct r > 0 then some (1 + countWhile isOct r, Tok.oct) else none
  | 'b' :: r => if countWhile isBin r > 0 then some (1 + countWhile isBin r, Tok.bin) else none
  | _ => none

/-- a digit starts an INDEX, or a radix literal when that is at least as long -/
def stepDigit (c : Char) (rest : Str) : Tok × Str :=
  match (if c == '0' then matchRadix rest else none) with
  | some (n, mk) =>
    if n ≥ countWhile isDigit rest then (mk (c :: rest.take n), rest.drop n)
    else (.index (c :: rest.take (countWhile isDigit rest)), rest.drop (countWhile isDigit rest))
  | none => (.index (c :: rest.take (countWhile isDigit rest)), rest.drop (countWhile isDigit rest))

def stepString (rest : Str) : Option (Tok × Str) :=
  match scanStr rest with
  | some n => some (.str ('"' :: rest.take n), rest.drop n)
  | none => none

def stepPunct (c : Char) (rest : Str) : Option (Tok × Str) :=
  match rest with
  | d :: r2 =>
    if punct2.contains [c, d] then some (.p [c, d], r2)
    else if punct1.contains c then some (.p [c], rest)
    else none
  | [] => if punct1.contains c then some (.p [c], rest) else none

/-- one step at a non-empty input: a token (or a skip) and the rest; `none` = invalid token -/
def step : Str → Option (Option Tok × Str)
  | [] => none
  | c :: rest =>
    if Str.isWhite c then some (none, rest.dropWhile Str.isWhite)
    else if c == '/' && rest.head? == some '/' then
      some (none, ((rest.drop 1).dropWhile (fun ch => !isEol ch)).dropWhile isEol)
    else if isAlpha c then some (some (stepWord c rest).1, (stepWord c rest).2)
    else if isDigit c then some (some (stepDigit c rest).1, (stepDigit c rest).2)
    else if c == '"' then
      match stepString rest with
      | some (t, r) => some (some t, r)
      | none => none
    else
      match stepPunct c rest with
      | some (t, r) => some (some t, r)
      | none => none

attribute [irreducible] step

def lexAux : Nat → Str → Option (List Tok)
  | _, [] => some []
  | 0, _ :: _ => none
  | fuel + 1, c :: cs =>
    match step (c :: cs) with
    | none => none
    | some (none, rest) => lexAux fuel rest
    | some (some t, rest) => (lexAux fuel rest).map (t :: ·)

end Lex

/-- the token sequence of a text; `none` = the text contains an invalid token -/
def lex (s : Str) : Option (List Tok) := Lex.lexAux (s.length + 1) s

end Reval
