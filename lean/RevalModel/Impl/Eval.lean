/-
  Impl/Eval.lean — code-shaped model of `src/expr/eval/mod.rs`, `eval/context.rs`, `function.rs`
  (`UserFunctions::call`) — one Lean definition per Rust function, match arms in the order of the Rust
  `match`.  Transcribes the code as it is after the `fix:` commits (checked arithmetic).
-/
import RevalModel.Prim.DecTime

namespace Reval

inductive UnOp where
  | not | neg | some | isNone | toInt | toFloat | toDec | dateTime | duration
  | upper | lower | trim | round | floor | fract
  | year | month | week | day | hour | minute | second
deriving DecidableEq, Repr, Inhabited

inductive BinOp where
  | mult | div | rem | add | sub | gt | gte | lt | lte | bitAnd | bitOr | bitXor | contains
deriving DecidableEq, Repr, Inhabited

def UnOp.all : List UnOp :=
  [.not, .neg, .some, .isNone, .toInt, .toFloat, .toDec, .dateTime, .duration, .upper, .lower, .trim,
   .round, .floor, .fract, .year, .month, .week, .day, .hour, .minute, .second]
def BinOp.all : List BinOp :=
  [.mult, .div, .rem, .add, .sub, .gt, .gte, .lt, .lte, .bitAnd, .bitOr, .bitXor, .contains]
theorem UnOp.mem_all (o : UnOp) : o ∈ UnOp.all := by cases o <;> simp [UnOp.all]
theorem BinOp.mem_all (o : BinOp) : o ∈ BinOp.all := by cases o <;> simp [BinOp.all]

inductive Index where
  | key (k : Str)
  | pos (n : Nat)
deriving DecidableEq, Repr, Inhabited

/-- `reval::Expr`: the 47 Rust constructors are (constructor, operator tag) pairs here. -/
inductive Expr where
  | lit (v : Value)
  | ref (n : Str)
  | sym (n : Str)
  | index (e : Expr) (i : Index)
  | call (f : Str) (a : Expr)
  | ite (c t e : Expr)
  | and (l r : Expr)
  | or (l r : Expr)
  | eq (l r : Expr)
  | neq (l r : Expr)
  | un (op : UnOp) (e : Expr)
  | bin (op : BinOp) (l r : Expr)
  | vec (xs : List Expr)
  | map (kvs : List (Str × Expr))
deriving Repr, Inhabited

/-! ### `PartialEq for Value` (derived): floats by IEEE `==`, decimals numerically -/

mutual
def Value.peq : Value → Value → Bool
  | .str a, .str b => a == b
  | .int a, .int b => a == b
  | .float a, .float b => F64.feq a b
  | .dec a, .dec b => Dec.eqNum a b
  | .bool a, .bool b => a == b
  | .dateTime a, .dateTime b => a == b
  | .duration a, .duration b => a == b
  | .vec a, .vec b => Value.peqList a b
  | .map a, .map b => Value.peqFields a b
  | .none, .none => true
  | _, _ => false
def Value.peqList : List Value → List Value → Bool
  | [], [] => true
  | a :: as, b :: bs => Value.peq a b && Value.peqList as bs
  | _, _ => false
def Value.peqFields : List (Str × Value) → List (Str × Value) → Bool
  | [], [] => true
  | (k, a) :: as, (l, b) :: bs => k == l && Value.peq a b && Value.peqFields as bs
  | _, _ => false
end

/-! ### Unary operators and built-ins -/

namespace Impl

def decOut (o : Oracle) (op : FOp) (args : List Value) (onOverflow : Err) : Dec.Out → Res Value
  | .val d => .ok (.dec d)
  | .overflow => .err onOverflow
  | .unknown => o.ask op args (.err onOverflow)

def not (value : Value) : Res Value :=
  match value with
  | .bool b => .ok (.bool (!b))
  | .none => .ok .none
  | _ => .err .invalidType

def neg (value : Value) : Res Value :=
  match value with
  | .int i =>
    match I128.checked (-i) with
    | some r => .ok (.int r)
    | none => .err (.outOfBounds (.int i))
  | .float f => .ok (.float (F64.neg f))
  | .dec d => .ok (.dec (Dec.negate d))
  | .none => .ok .none
  | _ => .err .invalidType

def some (value : Value) : Res Value :=
  match value with
  | .none => .ok (.bool false)
  | _ => .ok (.bool true)

def isNone (value : Value) : Res Value :=
  match value with
  | .none => .ok (.bool true)
  | _ => .ok (.bool false)

def toInt (value : Value) : Res Value :=
  match value with
  | .int _ => .ok value
  | .float f =>
    match F64.truncToInt f with
    | Option.some n => if I128.inRange n then .ok (.int n) else .err (.invalidCast value)
    | Option.none => .err (.invalidCast value)
  | .dec d => .ok (.int (Dec.toInt d))
  | .str s =>
    match Str.parseI128 s with
    | Option.some n => .ok (.int n)
    | Option.none => .err (.invalidCast value)
  | .none => .ok .none
  | _ => .err .invalidType

def toFloat (o : Oracle) (value : Value) : Res Value :=
  match value with
  | .int i => .ok (.float (F64.ofInt i))
  | .float _ => .ok value
  | .dec _ => o.ask .decToF64 [value] (.err (.invalidCast value))
  | .str _ => o.ask .strToF64 [value] (.err (.invalidCast value))
  | .none => .ok .none
  | _ => .err .invalidType

def toDec (o : Oracle) (value : Value) : Res Value :=
  match value with
  | .int i =>
    match Dec.ofInt i with
    | Option.some d => .ok (.dec d)
    | Option.none => .err (.invalidCast value)
  | .float _ => o.ask .f64ToDec [value] (.err (.invalidCast value))
  | .dec _ => .ok value
  | .str _ => o.ask .strToDec [value] (.err (.invalidCast value))
  | .none => .ok .none
  | _ => .err .invalidType

def dateTime (o : Oracle) (value : Value) : Res Value :=
  match value with
  | .str _ => o.ask .strToDateTime [value] (.err (.invalidCast value))
  | .int i =>
    match (if I64.inRange i then Time.fromTimestamp i else Option.none) with
    | Option.some t => .ok (.dateTime t)
    | Option.none => .err (.invalidCast value)
  | .dateTime _ => .ok value
  | .none => .ok .none
  | _ => .err .invalidType

def duration (value : Value) : Res Value :=
  match value with
  | .int i =>
    match (if I64.inRange i then Time.trySeconds i else Option.none) with
    | Option.some d => .ok (.duration d)
    | Option.none => .err (.invalidCast value)
  | .duration _ => .ok value
  | .none => .ok .none
  | _ => .err .invalidType

def upper (o : Oracle) (value : Value) : Res Value :=
  match value with
  | .str s => if Str.isAscii s then .ok (.str (s.map Str.asciiUpper)) else o.ask .strUpper [value] (.frontier .strUpper [value])
  | .none => .ok .none
  | _ => .err .invalidType

def lower (o : Oracle) (value : Value) : Res Value :=
  match value with
  | .str s => if Str.isAscii s then .ok (.str (s.map Str.asciiLower)) else o.ask .strLower [value] (.frontier .strLower [value])
  | .none => .ok .none
  | _ => .err .invalidType

def trim (value : Value) : Res Value :=
  match value with
  | .str s => .ok (.str (Str.trim s))
  | .none => .ok .none
  | _ => .err .invalidType

def floor (o : Oracle) (value : Value) : Res Value :=
  match value with
  | .float f => .ok (.float (F64.floor f))
  | .dec d => decOut o .decFloor [value] .invalidType (Dec.floor d)
  | .none => .ok .none
  | _ => .err .invalidType

def round (o : Oracle) (value : Value) : Res Value :=
  match value with
  | .float f => .ok (.float (F64.round f))
  | .dec d => decOut o .decRound [value] .invalidType (Dec.round d)
  | .none => .ok .none
  | _ => .err .invalidType

def fract (o : Oracle) (value : Value) : Res Value :=
  match value with
  | .float f => .ok (.float (F64.fract f))
  | .dec d => decOut o .decFract [value] .invalidType (Dec.fract d)
  | .none => .ok .none
  | _ => .err .invalidType

def year (value : Value) : Res Value :=
  match value with
  | .dateTime t => .ok (.int (Time.year t))
  | .none => .ok .none
  | _ => .err .invalidType

def month (value : Value) : Res Value :=
  match value with
  | .dateTime t => .ok (.int (Time.month t))
  | .none => .ok .none
  | _ => .err .invalidType

/-- `i64::try_from(n).ok().and_then(TimeDelta::try_<unit>s)` -/
def mkDuration (unit : Int) (value : Value) (i : Int) : Res Value :=
  match (if I64.inRange i then Time.tryUnits unit i else Option.none) with
  | Option.some d => .ok (.duration d)
  | Option.none => .err (.outOfBounds value)

def week (value : Value) : Res Value :=
  match value with
  | .int i => mkDuration 604800 value i
  | .duration d => .ok (.int (Time.numUnits 604800 d))
  | .none => .ok .none
  | _ => .err .invalidType

def day (value : Value) : Res Value :=
  match value with
  | .int i => mkDuration 86400 value i
  | .dateTime t => .ok (.int (Time.day t))
  | .duration d => .ok (.int (Time.numUnits 86400 d))
  | .none => .ok .none
  | _ => .err .invalidType

def hour (value : Value) : Res Value :=
  match value with
  | .int i => mkDuration 3600 value i
  | .dateTime t => .ok (.int (Time.hour t))
  | .duration d => .ok (.int (Time.numUnits 3600 d))
  | .none => .ok .none
  | _ => .err .invalidType

def minute (value : Value) : Res Value :=
  match value with
  | .int i => mkDuration 60 value i
  | .dateTime t => .ok (.int (Time.minute t))
  | .duration d => .ok (.int (Time.numUnits 60 d))
  | .none => .ok .none
  | _ => .err .invalidType

def second (value : Value) : Res Value :=
  match value with
  | .int i => mkDuration 1 value i
  | .dateTime t => .ok (.int (Time.second t))
  | .duration d => .ok (.int (Time.numUnits 1 d))
  | .none => .ok .none
  | _ => .err .invalidType

/-! ### Binary operators -/

def mult (o : Oracle) (left right : Value) : Res Value :=
  match left, right with
  | .int a, .int b =>
    match I128.checked (a * b) with
    | Option.some r => .ok (.int r)
    | Option.none => .err (.outOfBounds (.int a))
  | .float a, .float b => .ok (.float (F64.mul a b))
  | .dec a, .dec b => decOut o .decMul [left, right] (.outOfBounds (.dec a)) (Dec.mul a b)
  | .none, _ => .ok .none
  | _, .none => .ok .none
  | _, _ => .err .invalidType

def div (o : Oracle) (left right : Value) : Res Value :=
  match left, right with
  | .int a, .int b =>
    match I128.checkedDiv a b with
    | Option.some r => .ok (.int r)
    | Option.none => .err .divByZero
  | .float a, .float b => .ok (.float (F64.div a b))
  | .dec _, .dec b => if b.mant = 0 then .err .divByZero else o.ask .decDiv [left, right] (.err .divByZero)
  | .none, _ => .ok .none
  | _, .none => .ok .none
  | _, _ => .err .invalidType

def rem (o : Oracle) (left right : Value) : Res Value :=
  match left, right with
  | .int a, .int b =>
    match I128.checkedRem a b with
    | Option.some r => .ok (.int r)
    | Option.none => .err .divByZero
  | .float a, .float b => .ok (.float (F64.rem a b))
  | .dec _, .dec b => if b.mant = 0 then .err .divByZero else o.ask .decRem [left, right] (.err .divByZero)
  | .none, _ => .ok .none
  | _, .none => .ok .none
  | _, _ => .err .invalidType

def add (o : Oracle) (left right : Value) : Res Value :=
  match left, right with
  | .int a, .int b =>
    match I128.checked (a + b) with
    | Option.some r => .ok (.int r)
    | Option.none => .err (.outOfBounds (.int a))
  | .float a, .float b => .ok (.float (F64.add a b))
  | .dec a, .dec b => decOut o .decAdd [left, right] (.outOfBounds (.dec a)) (Dec.add a b)
  | .dateTime a, .duration b =>
    if Time.dtInRange (a + b) then .ok (.dateTime (a + b)) else .err (.outOfBounds (.dateTime a))
  | .none, _ => .ok .none
  | _, .none => .ok .none
  | _, _ => .err .invalidType

def sub (o : Oracle) (left right : Value) : Res Value :=
  match left, right with
  | .int a, .int b =>
    match I128.checked (a - b) with
    | Option.some r => .ok (.int r)
    | Option.none => .err (.outOfBounds (.int a))
  | .float a, .float b => .ok (.float (F64.sub a b))
  | .dec a, .dec b => decOut o .decSub [left, right] (.outOfBounds (.dec a)) (Dec.sub a b)
  | .dateTime a, .dateTime b => .ok (.duration (a - b))
  | .dateTime a, .duration b =>
    if Time.dtInRange (a - b) then .ok (.dateTime (a - b)) else .err (.outOfBounds (.dateTime a))
  | .duration a, .duration b =>
    if Time.durInRange (a - b) then .ok (.duration (a - b)) else .err (.outOfBounds (.duration a))
  | .none, _ => .ok .none
  | _, .none => .ok .none
  | _, _ => .err .invalidType

def gt (left right : Value) : Res Value :=
  match left, right with
  | .int a, .int b => .ok (.bool (decide (a > b)))
  | .float a, .float b => .ok (.bool (F64.gt a b))
  | .dec a, .dec b => .ok (.bool (Dec.lt b a))
  | .dateTime a, .dateTime b => .ok (.bool (decide (a > b)))
  | .duration a, .duration b => .ok (.bool (decide (a > b)))
  | .none, _ => .ok (.bool false)
  | _, .none => .ok (.bool false)
  | _, _ => .err .invalidType

def gte (left right : Value) : Res Value :=
  match left, right with
  | .int a, .int b => .ok (.bool (decide (a ≥ b)))
  | .float a, .float b => .ok (.bool (F64.ge a b))
  | .dec a, .dec b => .ok (.bool (Dec.le b a))
  | .dateTime a, .dateTime b => .ok (.bool (decide (a ≥ b)))
  | .duration a, .duration b => .ok (.bool (decide (a ≥ b)))
  | .none, _ => .ok (.bool false)
  | _, .none => .ok (.bool false)
  | _, _ => .err .invalidType

def lt (left right : Value) : Res Value :=
  match left, right with
  | .int a, .int b => .ok (.bool (decide (a < b)))
  | .float a, .float b => .ok (.bool (F64.lt a b))
  | .dec a, .dec b => .ok (.bool (Dec.lt a b))
  | .dateTime a, .dateTime b => .ok (.bool (decide (a < b)))
  | .duration a, .duration b => .ok (.bool (decide (a < b)))
  | .none, _ => .ok (.bool false)
  | _, .none => .ok (.bool false)
  | _, _ => .err .invalidType

def lte (left right : Value) : Res Value :=
  match left, right with
  | .int a, .int b => .ok (.bool (decide (a ≤ b)))
  | .float a, .float b => .ok (.bool (F64.le a b))
  | .dec a, .dec b => .ok (.bool (Dec.le a b))
  | .dateTime a, .dateTime b => .ok (.bool (decide (a ≤ b)))
  | .duration a, .duration b => .ok (.bool (decide (a ≤ b)))
  | .none, _ => .ok (.bool false)
  | _, .none => .ok (.bool false)
  | _, _ => .err .invalidType

def bitwiseAnd (left right : Value) : Res Value :=
  match left, right with
  | .int a, .int b => .ok (.int (I128.land a b))
  | .bool a, .bool b => .ok (.bool (a && b))
  | .none, _ => .ok .none
  | _, .none => .ok .none
  | _, _ => .err .invalidType

def bitwiseOr (left right : Value) : Res Value :=
  match left, right with
  | .int a, .int b => .ok (.int (I128.lor a b))
  | .bool a, .bool b => .ok (.bool (a || b))
  | .none, _ => .ok .none
  | _, .none => .ok .none
  | _, _ => .err .invalidType

def bitwiseXor (left right : Value) : Res Value :=
  match left, right with
  | .int a, .int b => .ok (.int (I128.xor a b))
  | .bool a, .bool b => .ok (.bool (a != b))
  | .none, _ => .ok .none
  | _, .none => .ok .none
  | _, _ => .err .invalidType

def contains (coll item : Value) : Res Value :=
  match coll, item with
  | .map m, .str k => .ok (.bool (lookup m k).isSome)
  | .vec xs, item => .ok (.bool (xs.any (fun x => Value.peq x item)))
  | .str c, .str i => .ok (.bool (Str.isInfix i c))
  | .int flags, .int flag => .ok (.bool (I128.land flags flag != 0))
  | .none, _ => .ok (.bool false)
  | _, _ => .err .invalidType

def index (value : Value) (idx : Index) : Res Value :=
  match value, idx with
  | .map m, .key k => .ok ((lookup m k).getD .none)
  | .vec xs, .pos n => .ok ((xs[n]?).getD .none)
  | .none, _ => .ok .none
  | _, _ => .err .invalidType

end Impl

def applyUn (o : Oracle) : UnOp → Value → Res Value
  | .not, v => Impl.not v
  | .neg, v => Impl.neg v
  | .some, v => Impl.some v
  | .isNone, v => Impl.isNone v
  | .toInt, v => Impl.toInt v
  | .toFloat, v => Impl.toFloat o v
  | .toDec, v => Impl.toDec o v
  | .dateTime, v => Impl.dateTime o v
  | .duration, v => Impl.duration v
  | .upper, v => Impl.upper o v
  | .lower, v => Impl.lower o v
  | .trim, v => Impl.trim v
  | .round, v => Impl.round o v
  | .floor, v => Impl.floor o v
  | .fract, v => Impl.fract o v
  | .year, v => Impl.year v
  | .month, v => Impl.month v
  | .week, v => Impl.week v
  | .day, v => Impl.day v
  | .hour, v => Impl.hour v
  | .minute, v => Impl.minute v
  | .second, v => Impl.second v

def applyBin (o : Oracle) : BinOp → Value → Value → Res Value
  | .mult, a, b => Impl.mult o a b
  | .div, a, b => Impl.div o a b
  | .rem, a, b => Impl.rem o a b
  | .add, a, b => Impl.add o a b
  | .sub, a, b => Impl.sub o a b
  | .gt, a, b => Impl.gt a b
  | .gte, a, b => Impl.gte a b
  | .lt, a, b => Impl.lt a b
  | .lte, a, b => Impl.lte a b
  | .bitAnd, a, b => Impl.bitwiseAnd a b
  | .bitOr, a, b => Impl.bitwiseOr a b
  | .bitXor, a, b => Impl.bitwiseXor a b
  | .contains, a, b => Impl.contains a b

/-! ### Environment, user functions, cache -/

/-- A user function: whether it is cacheable, and what its `nth` invocation (global index over the
    whole ruleset evaluation) returns for an argument — so counting and failing functions are in scope. -/
structure FnModel where
  cacheable : Bool
  behave : Nat → Value → Except Str Value

structure Env where
  facts : Value
  symbols : List (Str × Value)
  fns : List (Str × FnModel)
  oracle : Oracle

/-- `FunctionCache` (keyed by `format!("{name}-{param:?}")`, modelled as the pair it encodes) and the
    number of user-function invocations so far. -/
structure St where
  cache : List ((Str × Value) × Value)
  calls : Nat

def St.init : St := ⟨[], 0⟩

inductive Event where
  /-- the call node at (reversed) path `rp` was reached, its argument evaluated to `arg` -/
  | reach (rp : List Nat) (f : Str) (arg : Value)
  /-- user function `f` was actually invoked (its `idx`-th invocation overall) and returned `res`
      (`none` = it failed); `cached` = the result was stored in the function cache -/
  | invoke (f : Str) (arg : Value) (idx : Nat) (res : Option Value) (cached : Bool)
deriving Repr

def cacheGet : List ((Str × Value) × Value) → Str × Value → Option Value
  | [], _ => none
  | (k, v) :: rest, key => if k = key then some v else cacheGet rest key

/-- `call_function(function, param, name)`: invoke, wrap a failure in `UserFunctionError` -/
def invokeFn (fm : FnModel) (f : Str) (arg : Value) (st : St) : Res Value × St × List Event :=
  match fm.behave st.calls arg with
  | .ok v => (.ok v, ⟨st.cache, st.calls + 1⟩, [.invoke f arg st.calls (some v) false])
  | .error msg => (.err (.userFn f msg), ⟨st.cache, st.calls + 1⟩, [.invoke f arg st.calls none false])

/-- `UserFunctions::call` -/
def callFn (env : Env) (f : Str) (arg : Value) (st : St) : Res Value × St × List Event :=
  match lookup env.fns f with
  | none => (.err (.unknownFn f), st, [])
  | some fm =>
    if fm.cacheable then
      match cacheGet st.cache (f, arg) with
      | some v => (.ok v, st, [])
      | none =>
        match fm.behave st.calls arg with
        | .ok v => (.ok v, ⟨((f, arg), v) :: st.cache, st.calls + 1⟩, [.invoke f arg st.calls (some v) true])
        | .error msg => (.err (.userFn f msg), ⟨st.cache, st.calls + 1⟩, [.invoke f arg st.calls none false])
    else invokeFn fm f arg st

/-- `EvalContext::reference` -/
def reference (env : Env) (name : Str) : Res Value :=
  if name = "facts".toList then .ok env.facts
  else
    match env.facts with
    | .map m =>
      match lookup m name with
      | some v => .ok v
      | none => .err (.unknownRef name)
    | _ => .err .invalidType

/-- `Symbols::get` -/
def symbol (env : Env) (name : Str) : Res Value :=
  match lookup env.symbols name with
  | some v => .ok v
  | none => .err (.invalidSymbol name)

/-! ### `eval_rec` -/

mutual
def eval (env : Env) (rp : List Nat) : Expr → St → Res Value × St × List Event
  | .lit v, st => (.ok v, st, [])
  | .ref n, st => (reference env n, st, [])
  | .sym n, st => (symbol env n, st, [])
  | .index e i, st =>
    match eval env (0 :: rp) e st with
    | (.ok v, st1, ev) => (Impl.index v i, st1, ev)
    | other => other
  | .call f a, st =>
    match eval env (0 :: rp) a st with
    | (.ok v, st1, ev) =>
      match callFn env f v st1 with
      | (r, st2, ev2) => (r, st2, ev ++ (Event.reach rp f v :: ev2))
    | other => other
  | .ite c t e, st =>
    match eval env (0 :: rp) c st with
    | (.ok (.bool true), st1, ev) =>
      match eval env (1 :: rp) t st1 with
      | (r, st2, ev2) => (r, st2, ev ++ ev2)
    | (.ok (.bool false), st1, ev) =>
      match eval env (2 :: rp) e st1 with
      | (r, st2, ev2) => (r, st2, ev ++ ev2)
    | (.ok _, st1, ev) => (.err .invalidType, st1, ev)
    | other => other
  | .and l r, st =>
    match eval env (0 :: rp) l st with
    | (.ok (.bool false), st1, ev) => (.ok (.bool false), st1, ev)
    | (.ok (.bool true), st1, ev) =>
      match eval env (1 :: rp) r st1 with
      | (.ok (.bool b), st2, ev2) => (.ok (.bool b), st2, ev ++ ev2)
      | (.ok _, st2, ev2) => (.err .invalidType, st2, ev ++ ev2)
      | (r', st2, ev2) => (r', st2, ev ++ ev2)
    | (.ok _, st1, ev) => (.err .invalidType, st1, ev)
    | other => other
  | .or l r, st =>
    match eval env (0 :: rp) l st with
    | (.ok (.bool true), st1, ev) => (.ok (.bool true), st1, ev)
    | (.ok (.bool false), st1, ev) =>
      match eval env (1 :: rp) r st1 with
      | (.ok (.bool b), st2, ev2) => (.ok (.bool b), st2, ev ++ ev2)
      | (.ok _, st2, ev2) => (.err .invalidType, st2, ev ++ ev2)
      | (r', st2, ev2) => (r', st2, ev ++ ev2)
    | (.ok _, st1, ev) => (.err .invalidType, st1, ev)
    | other => other
  | .eq l r, st =>
    match eval env (0 :: rp) l st with
    | (.ok .none, st1, ev) => (.ok (.bool false), st1, ev)
    | (.ok a, st1, ev) =>
      match eval env (1 :: rp) r st1 with
      | (.ok b, st2, ev2) => (.ok (.bool (Value.peq a b)), st2, ev ++ ev2)
      | (r', st2, ev2) => (r', st2, ev ++ ev2)
    | other => other
  | .neq l r, st =>
    match eval env (0 :: rp) l st with
    | (.ok .none, st1, ev) => (.ok (.bool true), st1, ev)
    | (.ok a, st1, ev) =>
      match eval env (1 :: rp) r st1 with
      | (.ok b, st2, ev2) => (.ok (.bool (!Value.peq a b)), st2, ev ++ ev2)
      | (r', st2, ev2) => (r', st2, ev ++ ev2)
    | other => other
  | .un op e, st =>
    match eval env (0 :: rp) e st with
    | (.ok v, st1, ev) => (applyUn env.oracle op v, st1, ev)
    | other => other
  | .bin op l r, st =>
    match eval env (0 :: rp) l st with
    | (.ok a, st1, ev) =>
      match eval env (1 :: rp) r st1 with
      | (.ok b, st2, ev2) => (applyBin env.oracle op a b, st2, ev ++ ev2)
      | (r', st2, ev2) => (r', st2, ev ++ ev2)
    | other => other
  | .vec xs, st =>
    match evalList env rp 0 xs st with
    | (.ok vs, st1, ev) => (.ok (.vec vs), st1, ev)
    | (.err e, st1, ev) => (.err e, st1, ev)
    | (.panic s, st1, ev) => (.panic s, st1, ev)
    | (.frontier o a, st1, ev) => (.frontier o a, st1, ev)
  | .map kvs, st =>
    match evalMap env rp 0 kvs st with
    | (.ok vs, st1, ev) => (.ok (.map vs), st1, ev)
    | (.err e, st1, ev) => (.err e, st1, ev)
    | (.panic s, st1, ev) => (.panic s, st1, ev)
    | (.frontier o a, st1, ev) => (.frontier o a, st1, ev)

def evalList (env : Env) (rp : List Nat) (i : Nat) : List Expr → St → Res (List Value) × St × List Event
  | [], st => (.ok [], st, [])
  | e :: es, st =>
    match eval env (i :: rp) e st with
    | (.ok v, st1, ev) =>
      match evalList env rp (i + 1) es st1 with
      | (.ok vs, st2, ev2) => (.ok (v :: vs), st2, ev ++ ev2)
      | (.err x, st2, ev2) => (.err x, st2, ev ++ ev2)
      | (.panic s, st2, ev2) => (.panic s, st2, ev ++ ev2)
      | (.frontier o a, st2, ev2) => (.frontier o a, st2, ev ++ ev2)
    | (.err x, st1, ev) => (.err x, st1, ev)
    | (.panic s, st1, ev) => (.panic s, st1, ev)
    | (.frontier o a, st1, ev) => (.frontier o a, st1, ev)

def evalMap (env : Env) (rp : List Nat) (i : Nat) : List (Str × Expr) → St → Res (List (Str × Value)) × St × List Event
  | [], st => (.ok [], st, [])
  | (k, e) :: es, st =>
    match eval env (i :: rp) e st with
    | (.ok v, st1, ev) =>
      match evalMap env rp (i + 1) es st1 with
      | (.ok vs, st2, ev2) => (.ok ((k, v) :: vs), st2, ev ++ ev2)
      | (.err x, st2, ev2) => (.err x, st2, ev ++ ev2)
      | (.panic s, st2, ev2) => (.panic s, st2, ev ++ ev2)
      | (.frontier o a, st2, ev2) => (.frontier o a, st2, ev ++ ev2)
    | (.err x, st1, ev) => (.err x, st1, ev)
    | (.panic s, st1, ev) => (.panic s, st1, ev)
    | (.frontier o a, st1, ev) => (.frontier o a, st1, ev)
end

/-- `Expr::evaluate(facts)`: empty ruleset (no functions, no symbols), fresh cache. -/
def evaluateExpr (o : Oracle) (e : Expr) (facts : Value) : Res Value :=
  (eval ⟨facts, [], [], o⟩ [] e St.init).1

end Reval
