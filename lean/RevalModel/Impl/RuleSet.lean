/-
  Impl/RuleSet.lean — `RuleSet::evaluate_value`: one `FunctionCache` per call, every rule evaluated in
  order, each result stored (an `Err` does not stop the loop).
-/
import RevalModel.Impl.Eval

namespace Reval

/-- the `for rule in self.rules.iter()` loop, threading the cache; rule `i` is evaluated at path `[i]` -/
def evalRules (env : Env) : Nat → List Expr → St → List (Res Value) × St × List Event
  | _, [], st => ([], st, [])
  | i, e :: es, st =>
    match eval env [i] e st with
    | (r, st1, ev) =>
      match evalRules env (i + 1) es st1 with
      | (rs, st2, ev2) => (r :: rs, st2, ev ++ ev2)

/-- `RuleSet::evaluate_value(facts)`: `env.facts` is the input; fresh cache. -/
def evaluateValue (env : Env) (rules : List Expr) : List (Res Value) × St × List Event :=
  evalRules env 0 rules St.init

end Reval
