/-
  Impl/Ser.lean — `src/value/ser.rs`: `ValueSerializer` (with its four collectors) and `StringSerializer`,
  over `SerVal`, the serde data model (29 kinds; the ten integer kinds are one constructor with an
  `IntKind`), plus `fail msg`: a `Serialize` impl that returns `Err(S::Error::custom(msg))`.
-/
import RevalModel.Impl.Convert
import RevalModel.Impl.RuleSet

namespace Reval

inductive SerVal where
  | bool (b : Bool)
  | int (k : IntKind) (n : Int)
  | f32 (bits : UInt32)
  | f64 (f : F64)
  | char (c : Char)
  | str (s : Str)
  | bytes (bs : List Nat)
  | none
  | some (v : SerVal)
  | unit
  | unitStruct (name : Str)
  | unitVariant (name : Str) (variant : Str)
  | newtypeStruct (name : Str) (v : SerVal)
  | newtypeVariant (name : Str) (variant : Str) (v : SerVal)
  | seq (xs : List SerVal)
  | tuple (xs : List SerVal)
  | tupleStruct (name : Str) (xs : List SerVal)
  | tupleVariant (name : Str) (variant : Str) (xs : List SerVal)
  | map (kvs : List (SerVal × SerVal))
  | struct (name : Str) (fields : List (Str × SerVal))
  | structVariant (name : Str) (variant : Str) (fields : List (Str × SerVal))
  | fail (msg : Str)
deriving Repr, Inhabited

namespace Ser

/-- `StringSerializer`: only `serialize_str` succeeds; a failing `Serialize` impl reports its own error -/
def keyString : SerVal → Res Str
  | .str s => .ok s
  | .fail msg => .err (.ser msg)
  | _ => .err (.ser [])          -- "String type expected"

mutual
/-- `value.serialize(ValueSerializer)` -/
def serialize : SerVal → Res Value
  | .bool b => .ok (.bool b)
  | .int k n =>
    -- i8…u64 and i128: `value as i128` (always in range); u128: `i128::try_from(value)?`
    if I128.inRange n then .ok (.int n) else .err .numericOverflow
  | .f32 b => .ok (.float (F64.ofF32Bits b))
  | .f64 f => .ok (.float f)
  | .char c => .ok (.str [c])
  | .str s => .ok (.str s)
  | .bytes bs => .ok (.vec (bs.map (fun (b : Nat) => Value.int (Int.ofNat b))))
  | .none => .ok .none
  | .some v => serialize v
  | .unit => .ok .none
  | .unitStruct _ => .ok .none
  | .unitVariant _ variant => .ok (.str variant)
  | .newtypeStruct _ v => serialize v
  | .newtypeVariant _ variant v =>
    match serialize v with
    | .ok x => .ok (.map [(variant, x)])
    | other => other
  | .seq xs => (serializeList xs).map .vec
  | .tuple xs => (serializeList xs).map .vec
  | .tupleStruct _ xs => (serializeList xs).map .vec
  | .tupleVariant _ variant xs => (serializeList xs).map (fun vs => .map [(variant, .vec vs)])
  | .map kvs => (serializeEntries kvs []).map .map
  | .struct _ fields => (serializeFields fields []).map .map
  | .structVariant _ variant fields => (serializeFields fields []).map (fun m => .map [(variant, .map m)])
  | .fail msg => .err (.ser msg)
/-- `SerializeSeq::serialize_element` for each element in order; the first error ends it -/
def serializeList : List SerVal → Res (List Value)
  | [] => .ok []
  | x :: xs =>
    match serialize x with
    | .ok v =>
      match serializeList xs with
      | .ok vs => .ok (v :: vs)
      | other => other
    | .err e => .err e
    | .panic s => .panic s
    | .frontier o a => .frontier o a
/-- `SerializeMap::serialize_key` (through `StringSerializer`) then `serialize_value`, `BTreeMap::insert` -/
def serializeEntries : List (SerVal × SerVal) → List (Str × Value) → Res (List (Str × Value))
  | [], acc => .ok acc
  | (k, v) :: rest, acc =>
    match keyString k with
    | .ok ks =>
      match serialize v with
      | .ok x => serializeEntries rest (insertSorted ks x acc)
      | .err e => .err e
      | .panic s => .panic s
      | .frontier o a => .frontier o a
    | .err e => .err e
    | .panic s => .panic s
    | .frontier o a => .frontier o a
/-- `SerializeStruct::serialize_field(key, value)` -/
def serializeFields : List (Str × SerVal) → List (Str × Value) → Res (List (Str × Value))
  | [], acc => .ok acc
  | (k, v) :: rest, acc =>
    match serialize v with
    | .ok x => serializeFields rest (insertSorted k x acc)
    | .err e => .err e
    | .panic s => .panic s
    | .frontier o a => .frontier o a
end

end Ser

/-- `RuleSet::evaluate(&T)` = `T.serialize(ValueSerializer)?` then `evaluate_value` -/
def evaluate (env : Env) (rules : List Expr) (input : SerVal) : Res (List (Res Value) × St × List Event) :=
  match Ser.serialize input with
  | .ok facts => .ok (evaluateValue { env with facts := facts } rules)
  | .err e => .err e
  | .panic s => .panic s
  | .frontier o a => .frontier o a

end Reval
