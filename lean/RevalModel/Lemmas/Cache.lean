/-
  Lemmas/Cache.lean — the function cache (C11): it grows exactly by the successful invocations of
  cacheable functions, its keys stay distinct, entries persist, failures and non-cacheable calls leave it alone.
-/
import RevalModel.Spec.Denote

namespace Reval

/-- the cache entries an event list created, in order -/
def cachedEntries : List Event → List ((Str × Value) × Value)
  | [] => []
  | .invoke f a _ (some v) true :: es => ((f, a), v) :: cachedEntries es
  | _ :: es => cachedEntries es

@[simp] theorem cachedEntries_append (a b : List Event) : cachedEntries (a ++ b) = cachedEntries a ++ cachedEntries b := by
  induction a with
  | nil => rfl
  | cons e es ih =>
    cases e with
    | reach => simp [cachedEntries, ih]
    | invoke f x i r c => cases r <;> cases c <;> simp [cachedEntries, ih]

def KeysNodup (st : St) : Prop := (st.cache.map Prod.fst).Nodup

theorem cacheGet_mem (c : List ((Str × Value) × Value)) (k : Str × Value) (v : Value) (h : cacheGet c k = some v) :
    (k, v) ∈ c := by
  induction c with
  | nil => simp [cacheGet] at h
  | cons kv rest ih =>
    obtain ⟨k', v'⟩ := kv
    simp only [cacheGet] at h
    split at h
    · simp_all
    · exact List.mem_cons_of_mem _ (ih h)

theorem cacheGet_none_iff (c : List ((Str × Value) × Value)) (k : Str × Value) :
    cacheGet c k = none ↔ k ∉ c.map Prod.fst := by
  induction c with
  | nil => simp [cacheGet]
  | cons kv rest ih =>
    obtain ⟨k', v'⟩ := kv
    simp only [cacheGet]
    split
    · simp_all
    · rename_i hne
      simp only [ih, List.map_cons, List.mem_cons, not_or]
      exact ⟨fun h => ⟨fun e => hne e.symm, h⟩, fun h => h.2⟩

theorem cacheGet_append_of_not_mem (n o : List ((Str × Value) × Value)) (k : Str × Value)
    (h : k ∉ n.map Prod.fst) : cacheGet (n ++ o) k = cacheGet o k := by
  induction n with
  | nil => rfl
  | cons kv rest ih =>
    obtain ⟨k', v'⟩ := kv
    simp only [List.map_cons, List.mem_cons, not_or] at h
    simp only [List.cons_append, cacheGet]
    rw [if_neg (fun e => h.1 e.symm)]
    exact ih h.2

/-- `UserFunctions::call`, one step: how the cache changes and what is emitted -/
theorem callFn_cache (env : Env) (f : Str) (a : Value) (st : St) :
    (callFn env f a st).2.1.cache = (cachedEntries (callFn env f a st).2.2).reverse ++ st.cache ∧
    (KeysNodup st → KeysNodup (callFn env f a st).2.1) := by
  unfold callFn invokeFn
  split
  · simp [cachedEntries]
  · split
    · split
      · simp [cachedEntries]
      · rename_i hmiss
        split
        · refine ⟨by simp [cachedEntries], ?_⟩
          intro hn
          simp only [KeysNodup, List.map_cons, List.nodup_cons]
          exact ⟨(cacheGet_none_iff _ _).1 hmiss, hn⟩
        · simp [cachedEntries, KeysNodup]
    · split <;> simp [cachedEntries, KeysNodup]

theorem callFn_cache' {env : Env} {f : Str} {a : Value} {st : St} {r : Res Value} {st2 : St} {ev : List Event}
    (h : callFn env f a st = (r, st2, ev)) :
    st2.cache = (cachedEntries ev).reverse ++ st.cache ∧ (KeysNodup st → KeysNodup st2) := by
  have := callFn_cache env f a st; rw [h] at this; exact this

/-- over a whole evaluation: the cache grows exactly by the cached invocations, keys stay distinct -/
theorem cache_grows_all (env : Env) :
    (∀ rp e st, (eval env rp e st).2.1.cache = (cachedEntries (eval env rp e st).2.2).reverse ++ st.cache ∧
        (KeysNodup st → KeysNodup (eval env rp e st).2.1)) ∧
    (∀ rp i kvs st, (evalMap env rp i kvs st).2.1.cache = (cachedEntries (evalMap env rp i kvs st).2.2).reverse ++ st.cache ∧
        (KeysNodup st → KeysNodup (evalMap env rp i kvs st).2.1)) ∧
    (∀ rp i es st, (evalList env rp i es st).2.1.cache = (cachedEntries (evalList env rp i es st).2.2).reverse ++ st.cache ∧
        (KeysNodup st → KeysNodup (evalList env rp i es st).2.1)) := by
  apply eval.mutual_induct env
    (motive_1 := fun rp e st => (eval env rp e st).2.1.cache = (cachedEntries (eval env rp e st).2.2).reverse ++ st.cache ∧
        (KeysNodup st → KeysNodup (eval env rp e st).2.1))
    (motive_2 := fun rp i kvs st => (evalMap env rp i kvs st).2.1.cache = (cachedEntries (evalMap env rp i kvs st).2.2).reverse ++ st.cache ∧
        (KeysNodup st → KeysNodup (evalMap env rp i kvs st).2.1))
    (motive_3 := fun rp i es st => (evalList env rp i es st).2.1.cache = (cachedEntries (evalList env rp i es st).2.2).reverse ++ st.cache ∧
        (KeysNodup st → KeysNodup (evalList env rp i es st).2.1))
  all_goals (intros; simp only [eval, evalList, evalMap])
  all_goals first
    | (simp_all [cachedEntries]; done)
    | (have hc := callFn_cache' ‹callFn _ _ _ _ = _›; simp_all [cachedEntries]; done)
    | (split <;> simp_all [cachedEntries]; done)

end Reval

namespace Reval

theorem eval_cache (env : Env) (rp : List Nat) (e : Expr) (st : St) :
    (eval env rp e st).2.1.cache = (cachedEntries (eval env rp e st).2.2).reverse ++ st.cache ∧
    (KeysNodup st → KeysNodup (eval env rp e st).2.1) := (cache_grows_all env).1 rp e st

theorem evalRules_cache (env : Env) : ∀ (rules : List Expr) (i : Nat) (st : St),
    (evalRules env i rules st).2.1.cache = (cachedEntries (evalRules env i rules st).2.2).reverse ++ st.cache ∧
    (KeysNodup st → KeysNodup (evalRules env i rules st).2.1) := by
  intro rules
  induction rules with
  | nil => intro i st; simp [evalRules, cachedEntries]
  | cons e es ih =>
    intro i st
    have h1 := eval_cache env [i] e st
    have h2 := ih (i + 1) (eval env [i] e st).2.1
    simp only [evalRules]
    refine ⟨?_, fun hn => h2.2 (h1.2 hn)⟩
    simp only [cachedEntries_append, List.reverse_append, List.append_assoc]
    rw [h2.1, h1.1]

/-- an entry present in a cache with distinct keys is still returned after more entries were added in front -/
theorem cacheGet_persist (n o : List ((Str × Value) × Value)) (k : Str × Value) (v : Value)
    (hn : ((n ++ o).map Prod.fst).Nodup) (h : cacheGet o k = some v) : cacheGet (n ++ o) k = some v := by
  rw [cacheGet_append_of_not_mem n o k ?_, h]
  intro hk
  have hko : k ∈ o.map Prod.fst := List.mem_map.2 ⟨(k, v), cacheGet_mem o k v h, rfl⟩
  rw [List.map_append] at hn
  exact (List.nodup_append.1 hn).2.2 k hk k hko rfl

theorem eval_cache_persist (env : Env) (rp : List Nat) (e : Expr) (st : St) (k : Str × Value) (v : Value)
    (hn : KeysNodup st) (h : cacheGet st.cache k = some v) :
    cacheGet (eval env rp e st).2.1.cache k = some v := by
  have hc := eval_cache env rp e st
  have hn' := hc.2 hn
  unfold KeysNodup at hn'
  rw [hc.1] at hn' ⊢
  exact cacheGet_persist _ _ k v hn' h

theorem evalRules_cache_persist (env : Env) (rules : List Expr) (i : Nat) (st : St) (k : Str × Value) (v : Value)
    (hn : KeysNodup st) (h : cacheGet st.cache k = some v) :
    cacheGet (evalRules env i rules st).2.1.cache k = some v := by
  have hc := evalRules_cache env rules i st
  have hn' := hc.2 hn
  unfold KeysNodup at hn'
  rw [hc.1] at hn' ⊢
  exact cacheGet_persist _ _ k v hn' h

end Reval
