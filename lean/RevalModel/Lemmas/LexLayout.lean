/-
  Lemmas/LexLayout.lean — layout is insignificant: a token's text followed by white space, by a `//` comment or by the
  end of the text lexes to that token (`*_sep` lemmas), a gap — any non-empty sequence of white-space characters and
  `//` comments — is skipped whole (`lexes_gap`), hence a sequence of tokens separated by arbitrary gaps lexes to exactly
  those tokens, whatever the gaps are (`lex_gapped`).  The one exception the lexer really has is stated in the
  hypothesis: a `/` token must not be followed directly by a comment (`///…` is one comment — the known finding of C08).
-/
import RevalModel.Lemmas.LexCompose
import RevalModel.Lemmas.DecText

namespace Reval.LexC
open Reval Reval.Lex Reval.Disp

/-- what follows a token in gapped text: nothing, a white-space character, or the `/` of a comment -/
def Sep : Str → Prop
  | [] => True
  | c :: _ => Str.isWhite c = true ∨ c = '/'

theorem white_codes {c : Char} (h : Str.isWhite c = true) :
    (9 ≤ c.toNat ∧ c.toNat ≤ 13) ∨ c.toNat = 32 ∨ 133 ≤ c.toNat := by
  simp only [Str.isWhite, Bool.or_eq_true, Bool.and_eq_true, decide_eq_true_eq, beq_iff_eq] at h
  omega

/-- the facts every token lemma needs about the character after the token -/
structure SepFacts (c : Char) : Prop where
  notIdc : isIdc c = false
  notDigit : isDigit c = false
  ne : c ≠ '=' ∧ c ≠ '+' ∧ c ≠ '-' ∧ c ≠ '.' ∧ c ≠ 'x' ∧ c ≠ 'o' ∧ c ≠ 'b' ∧ c ≠ '"' ∧ c ≠ 'e' ∧ c ≠ 'E'

theorem sepFacts_of_codes {c : Char} (h : (9 ≤ c.toNat ∧ c.toNat ≤ 13) ∨ c.toNat = 32 ∨ 133 ≤ c.toNat ∨ c.toNat = 47) : SepFacts c := by
  have hidc : isIdc c = false := by
    cases hi : isIdc c
    · rfl
    · have := idc_range hi; omega
  refine ⟨hidc, ?_, ?_⟩
  · cases hd : isDigit c
    · rfl
    · rw [digit_idc hd] at hidc; cases hidc
  · refine ⟨toNat_ne ?_, toNat_ne ?_, toNat_ne ?_, toNat_ne ?_, toNat_ne ?_, toNat_ne ?_, toNat_ne ?_, toNat_ne ?_, toNat_ne ?_, toNat_ne ?_⟩ <;>
      (simp; omega)

theorem Sep.facts {r : Str} (h : Sep r) : ∀ c r', r = c :: r' → SepFacts c := by
  intro c r' e; subst e
  rcases h with h | h
  · have := white_codes h
    exact sepFacts_of_codes (by omega)
  · subst h; exact sepFacts_of_codes (Or.inr (Or.inr (Or.inr (by decide))))

theorem Sep.notIdc {r : Str} (h : Sep r) : ∀ c r', r = c :: r' → isIdc c = false := fun c r' e => (h.facts c r' e).notIdc
theorem Sep.notDigit {r : Str} (h : Sep r) : ∀ c r', r = c :: r' → isDigit c = false := fun c r' e => (h.facts c r' e).notDigit

theorem matchNum_none_sep (c : Char) (rest r : Str) (hrest : rest.all isIdc = true)
    (hnum : (c = 'i' ∨ c = 'f' ∨ c = 'd') → ∀ a rest', rest = a :: rest' → isDigit a = false) (hr : Sep r) :
    (if (c == 'i' || c == 'f' || c == 'd') = true then matchNum c (rest ++ r) else none) = none := by
  split
  case isFalse => rfl
  rename_i hg
  cases rest with
  | nil =>
    cases r with
    | nil => simp [matchNum, matchFrac, countWhile]
    | cons h r' =>
      have f := hr.facts h r' rfl
      obtain ⟨_, h2, h3, h4, _⟩ := f.ne
      simp only [List.nil_append, matchNum]
      split <;> simp_all [matchFrac, countWhile, f.notDigit]
  | cons a rest' =>
    simp only [List.all_cons, Bool.and_eq_true] at hrest
    have hd := hnum (by simpa only [Bool.or_eq_true, beq_iff_eq, or_assoc] using hg) a rest' rfl
    have hr := idc_range hrest.1
    have h1 : a ≠ '+' := toNat_ne (by simp; omega)
    have h2 : a ≠ '-' := toNat_ne (by simp; omega)
    have h3 : a ≠ '.' := toNat_ne (by simp; omega)
    simp only [matchNum, List.cons_append]
    split <;> simp_all [matchFrac, countWhile]

theorem Sep.folG {r : Str} (h : Sep r) : FolG r := by
  intro x r' e
  have f := h.facts x r' e
  obtain ⟨_, h2, h3, _⟩ := f.ne
  exact ⟨f.notIdc, h2, h3⟩

theorem step_word_sep (c : Char) (rest r : Str) (hc : isAlpha c = true) (hrest : rest.all isIdc = true)
    (hnum : NumFree c rest) (hr : Sep r) :
    step (c :: rest ++ r) = some (some (wordOf (c :: rest)), r) := by
  have h1 := alpha_not_white hc
  have h2 : c ≠ '/' := toNat_ne (by rcases alpha_range hc with ⟨a, b⟩ | ⟨a, b⟩ <;> simp <;> omega)
  have hcw := countWhile_append isIdc rest r hrest hr.notIdc
  have hold : ((c = 'i' ∨ c = 'f' ∨ c = 'd') → ∀ a rest', rest = a :: rest' → isDigit a = false) →
      stepWord c (rest ++ r) = (wordOf (c :: rest), r) := by
    intro hnum
    simp only [stepWord, matchNum_none_sep c rest r hrest hnum hr, wordTok, wordOf, hcw, List.take_left', List.drop_left']
  have hw : stepWord c (rest ++ r) = (wordOf (c :: rest), r) := by
    by_cases hg : c = 'i' ∨ c = 'f' ∨ c = 'd'
    · rcases hnum hg with ho | ⟨a, w, r0, rfl, ha, h0⟩
      · exact hold (fun _ => ho)
      · exact stepWord_short c a w r0 r hrest ha h0 hr.folG
    · exact hold (fun h => absurd h hg)
  simp only [List.cons_append, step, h1, hc, hw]
  simp [h2]

theorem step_int_sep (D r : Str) (neg : Bool) (hD : D.all isDigit = true) (hne : D ≠ []) (hr : Sep r) :
    step ('i' :: (if neg then '-' :: D else D) ++ r) = some (some (.int ('i' :: (if neg then '-' :: D else D))), r) := by
  have hk := countWhile_append isDigit D r hD hr.notDigit
  have hpos : 0 < D.length := by cases D <;> simp_all
  cases neg with
  | true =>
    simp only [if_true, List.cons_append]
    have hm : matchNum 'i' ('-' :: (D ++ r)) = some (1 + D.length) := by
      simp [matchNum, hk, hpos]
    simp [step, Str.isWhite, isAlpha, stepWord, hm, countWhile, isIdc, isDigit, mkNum, List.take_left', List.drop_left',
      List.take_succ_cons, Nat.add_comm]
  | false =>
    simp only [Bool.false_eq_true, if_false]
    obtain ⟨a, D', rfl⟩ : ∃ a D', D = a :: D' := by cases D with | nil => exact absurd rfl hne | cons a D' => exact ⟨a, D', rfl⟩
    simp only [List.all_cons, Bool.and_eq_true] at hD
    have hs := digit_not_sign hD.1
    have hm : matchNum 'i' (a :: D' ++ r) = some (D'.length + 1) := by
      have : countWhile isDigit (a :: (D' ++ r)) = D'.length + 1 := by simpa using hk
      simp [matchNum, hs.1, hs.2.1, this]
    have hi := countWhile_append isIdc (a :: D') r (all_digit_idc (by simp [hD.1, hD.2])) hr.notIdc
    have hi' : countWhile isIdc (a :: (D' ++ r)) = D'.length + 1 := by simpa using hi
    simp only [List.cons_append] at hm
    simp [step, Str.isWhite, isAlpha, stepWord, hm, hi', mkNum, List.take_left', List.drop_left']

theorem step_index_sep (a : Char) (D r : Str) (ha : isDigit a = true) (hD : D.all isDigit = true) (hr : Sep r) :
    step (a :: D ++ r) = some (some (.index (a :: D)), r) := by
  have hk := countWhile_append isDigit D r hD hr.notDigit
  have hs := digit_not_sign ha
  have hw := digit_not_alpha_white ha
  have hrad : (if a = '0' then matchRadix (D ++ r) else none) = none := by
    split
    · cases D with
      | nil =>
        cases r with
        | nil => rfl
        | cons h r' =>
          obtain ⟨_, _, _, _, h5, h6, h7, _⟩ := (hr.facts h r' rfl).ne
          simp only [List.nil_append, matchRadix]
          split <;> simp_all
      | cons b D' =>
        simp only [List.all_cons, Bool.and_eq_true] at hD
        have := digit_range hD.1
        have h1 : b ≠ 'x' := toNat_ne (by simp; omega)
        have h2 : b ≠ 'o' := toNat_ne (by simp; omega)
        have h3 : b ≠ 'b' := toNat_ne (by simp; omega)
        simp only [List.cons_append, matchRadix]
        split <;> simp_all
    · rfl
  simp [step, hw.1, hw.2, ha, hs.2.2.1, stepDigit, hrad, hk, List.take_left', List.drop_left']

theorem matchFrac_body_sep (d : Dec) (ip fp r : Str) (hp : DecParts d ip fp) (hr : Sep r) :
    matchFrac ((if d.scale = 0 then ip else ip ++ '.' :: fp) ++ r) = some ((if d.scale = 0 then ip else ip ++ '.' :: fp).length) := by
  by_cases hs : d.scale = 0
  · simp only [hs, if_true]
    have hk := countWhile_append isDigit ip r hp.ipDigits hr.notDigit
    have hpos : 0 < ip.length := by cases ip with | nil => exact absurd rfl hp.ipNe | cons _ _ => simp
    simp only [matchFrac, hk, List.drop_left']
    cases r with
    | nil => simp [hpos]
    | cons c r' =>
      have := (hr.facts c r' rfl).ne.2.2.2.1
      split
      · rename_i r2 e; cases e; exact absurd rfl this
      · simp [hpos]
  · simp only [hs, if_false, List.append_assoc, List.cons_append]
    have hk := countWhile_append isDigit ip ('.' :: (fp ++ r)) hp.ipDigits (by intro c r' e; cases e; exact dot_not_digit)
    have hm := countWhile_append isDigit fp r hp.fpDigits hr.notDigit
    have hfl : 0 < fp.length := by rw [hp.fpLen]; omega
    simp only [matchFrac, hk, List.drop_left', hm, hfl, if_true, List.length_append, List.length_cons]
    simp; omega

theorem dec_step_sep (d : Dec) (r : Str) (hr : Sep r) :
    step ('d' :: showDec d ++ r) = some (some (.dec ('d' :: showDec d)), r) := by
  obtain ⟨ip, fp, hp⟩ := decParts d
  obtain ⟨a, ip', hip, ha, hm, hpl, hdot⟩ := head_digit hp.ipDigits hp.ipNe
  have hmf := matchFrac_body_sep d ip fp r hp hr
  generalize hB : (if d.scale = 0 then ip else ip ++ '.' :: fp) = B at hmf
  have hBhead : ∃ B', B = a :: B' := by
    subst hB; subst hip
    by_cases hs : d.scale = 0 <;> simp [hs]
  obtain ⟨B', hB'⟩ := hBhead
  have hidc : countWhile isIdc (B ++ r) ≤ B.length := by
    subst hB
    by_cases hs : d.scale = 0
    · simp only [hs, if_true]
      rw [countWhile_append isIdc ip r (all_digit_idc hp.ipDigits) hr.notIdc]; exact Nat.le_refl _
    · simp only [hs, if_false, List.append_assoc, List.cons_append]
      rw [countWhile_append isIdc ip ('.' :: (fp ++ r)) (all_digit_idc hp.ipDigits) (by intro c r' e; cases e; decide)]
      simp
  rw [hp.body, hB]
  cases hn : d.neg
  · simp only [Bool.false_eq_true, if_false, List.nil_append]
    have hnum : matchNum 'd' (B ++ r) = some B.length := by
      subst hB'
      simp only [List.cons_append] at hmf ⊢
      simp [matchNum, hm, hpl, hmf]
    simp [step, Str.isWhite, isAlpha, stepWord, hnum, hidc, mkNum, List.take_left', List.drop_left']
  · simp only [if_true, List.cons_append, List.nil_append]
    have hnum : matchNum 'd' ('-' :: (B ++ r)) = some (1 + B.length) := by
      simp [matchNum, hmf]
    simp [step, Str.isWhite, isAlpha, stepWord, hnum, countWhile, isIdc, isDigit, mkNum, List.take_left', List.drop_left',
      List.take_succ_cons, Nat.add_comm]

/-- single-character punctuation followed by a separator; a `/` must not be followed by the `/` of a comment -/
theorem step_punct1_sep (c : Char) (r : Str) (hc : c ∈ p1Chars) (hr : Sep r) (hslash : c = '/' → ∀ r', r ≠ '/' :: r') :
    step (c :: r) = some (some (.p [c]), r) := by
  by_cases hcs : c = '/'
  · subst hcs
    cases r with
    | nil => simp [step, stepPunct, punct1, Str.isWhite, isAlpha, isDigit]
    | cons d r' =>
      have h1 : d ≠ '/' := fun e => hslash rfl r' (by rw [e])
      have h2 := (hr.facts d r' rfl).ne.1
      simp [step, stepPunct, punct1, punct2, Str.isWhite, isAlpha, isDigit, h1, h2]
  · cases r with
    | nil => exact step_punct1 c [] hc (by intro d r' e; cases e)
    | cons d r' =>
      have h2 := (hr.facts d r' rfl).ne.1
      simp only [p1Chars, List.mem_cons, List.not_mem_nil, or_false] at hc
      rcases hc with rfl | rfl | rfl | rfl | rfl | rfl | rfl | rfl | rfl | rfl | rfl | rfl | rfl | rfl | rfl | rfl | rfl | rfl | rfl | rfl <;>
        first
        | exact absurd rfl hcs
        | simp [step, stepPunct, punct1, punct2, Str.isWhite, isAlpha, isDigit, h2]

/-! ### gaps -/

/-- one piece of layout: a White_Space character, or a `//` comment with the run of line-end characters that ends it -/
inductive Piece where
  | white (c : Char)
  | comment (body : Str) (eol : Str)

def Piece.OK : Piece → Prop
  | .white c => Str.isWhite c = true
  | .comment body eol => body.all (fun ch => !isEol ch) = true ∧ eol ≠ [] ∧ eol.all isEol = true

def Piece.text : Piece → Str
  | .white c => [c]
  | .comment body eol => '/' :: '/' :: (body ++ eol)

def gapText : List Piece → Str
  | [] => []
  | p :: ps => p.text ++ gapText ps

/-- the pieces that remain after the lexer's `\s*` has eaten leading white space -/
def dropW : List Piece → List Piece
  | .white _ :: ps => dropW ps
  | ps => ps

/-- … after a comment's `[\n\r]*` has eaten leading line ends -/
def dropE : List Piece → List Piece
  | .white c :: ps => if isEol c then dropE ps else .white c :: ps
  | ps => ps

theorem dropW_len (ps : List Piece) : (dropW ps).length ≤ ps.length := by
  induction ps with
  | nil => simp [dropW]
  | cons p ps ih => cases p <;> simp [dropW] <;> omega

theorem dropE_len (ps : List Piece) : (dropE ps).length ≤ ps.length := by
  induction ps with
  | nil => simp [dropE]
  | cons p ps ih =>
    cases p with
    | white c => simp only [dropE]; split <;> simp <;> omega
    | comment b e => simp [dropE]

theorem dropW_ok (ps : List Piece) (h : ∀ p ∈ ps, p.OK) : ∀ p ∈ dropW ps, p.OK := by
  induction ps with
  | nil => simpa [dropW] using h
  | cons p ps ih =>
    cases p with
    | white c => simp only [dropW]; exact ih (fun q hq => h q (List.mem_cons_of_mem _ hq))
    | comment b e => simpa [dropW] using h

theorem dropE_ok (ps : List Piece) (h : ∀ p ∈ ps, p.OK) : ∀ p ∈ dropE ps, p.OK := by
  induction ps with
  | nil => simpa [dropE] using h
  | cons p ps ih =>
    cases p with
    | white c =>
      simp only [dropE]
      split
      · exact ih (fun q hq => h q (List.mem_cons_of_mem _ hq))
      · exact h
    | comment b e => simpa [dropE] using h

theorem eol_white {c : Char} (h : isEol c = true) : Str.isWhite c = true := by
  simp only [isEol, Bool.or_eq_true, beq_iff_eq] at h
  rcases h with rfl | rfl <;> decide

theorem dropWhile_white_gap (ps : List Piece) (r : Str) (h : ∀ p ∈ ps, p.OK) (hr : ∀ c r', r = c :: r' → Str.isWhite c = false) :
    (gapText ps ++ r).dropWhile Str.isWhite = gapText (dropW ps) ++ r := by
  induction ps with
  | nil =>
    simp only [gapText, dropW, List.nil_append]
    cases r with
    | nil => rfl
    | cons c r' => simp [List.dropWhile, hr c r' rfl]
  | cons p ps ih =>
    have hp := h p List.mem_cons_self
    cases p with
    | white c =>
      simp only [Piece.OK] at hp
      simp only [gapText, Piece.text, dropW, List.cons_append, List.nil_append, List.dropWhile, hp]
      exact ih (fun q hq => h q (List.mem_cons_of_mem _ hq))
    | comment b e =>
      simp [gapText, Piece.text, dropW, List.dropWhile, Str.isWhite]

theorem dropWhile_eol_gap (ps : List Piece) (r : Str) (h : ∀ p ∈ ps, p.OK) (hr : ∀ c r', r = c :: r' → Str.isWhite c = false) :
    (gapText ps ++ r).dropWhile isEol = gapText (dropE ps) ++ r := by
  induction ps with
  | nil =>
    simp only [gapText, dropE, List.nil_append]
    cases r with
    | nil => rfl
    | cons c r' =>
      have : isEol c = false := by
        cases he : isEol c
        · rfl
        · have := hr c r' rfl; rw [eol_white he] at this; cases this
      simp [List.dropWhile, this]
  | cons p ps ih =>
    cases p with
    | white c =>
      simp only [gapText, Piece.text, dropE, List.cons_append, List.nil_append, List.dropWhile]
      cases he : isEol c
      · simp [gapText, Piece.text]
      · simp only [if_true]
        exact ih (fun q hq => h q (List.mem_cons_of_mem _ hq))
    | comment b e =>
      simp [gapText, Piece.text, dropE, List.dropWhile, isEol]

theorem dropWhile_all (p : Char → Bool) (w r : Str) (hw : w.all p = true) : (w ++ r).dropWhile p = r.dropWhile p := by
  induction w with
  | nil => rfl
  | cons a w ih =>
    simp only [List.all_cons, Bool.and_eq_true] at hw
    simp [List.dropWhile, hw.1, ih hw.2]

/-- a more general skip rule: one step that produces no token and consumes at least one character -/
theorem Lexes.skip_gen {s s' : Str} {T : List Tok} (hs : step s = some (none, s')) (hlen : s'.length < s.length)
    (h : Lexes s' T) : Lexes s T := by
  intro f hf
  cases s with
  | nil => simp at hlen
  | cons c cs =>
    cases f with
    | zero => simp at hf
    | succ f =>
      rw [lexAux_succ_skip f c cs s' hs]
      exact h f (by simp at hf hlen; omega)

theorem gapText_len (ps : List Piece) : (gapText (dropW ps)).length ≤ (gapText ps).length ∧ (gapText (dropE ps)).length ≤ (gapText ps).length := by
  induction ps with
  | nil => simp [dropW, dropE]
  | cons p ps ih =>
    cases p with
    | white c =>
      simp only [dropW, dropE, gapText, Piece.text, List.cons_append, List.nil_append, List.length_cons]
      constructor
      · omega
      · split
        · omega
        · simp [gapText, Piece.text]
    | comment b e => simp [dropW, dropE]

/-- **a gap is skipped whole**, whatever it consists of -/
theorem lexes_gap : ∀ (n : Nat) (ps : List Piece) (r : Str) (T : List Tok), ps.length ≤ n → (∀ p ∈ ps, p.OK) →
    (∀ c r', r = c :: r' → Str.isWhite c = false) → Lexes r T → Lexes (gapText ps ++ r) T := by
  intro n
  induction n with
  | zero =>
    intro ps r T hn _ _ hT
    have : ps = [] := List.eq_nil_of_length_eq_zero (Nat.le_zero.mp hn)
    subst this; simpa [gapText] using hT
  | succ n ih =>
    intro ps r T hn hok hr hT
    cases ps with
    | nil => simpa [gapText] using hT
    | cons p ps =>
      have hok' : ∀ q ∈ ps, q.OK := fun q hq => hok q (List.mem_cons_of_mem _ hq)
      have hp := hok p List.mem_cons_self
      cases p with
      | white c =>
        simp only [Piece.OK] at hp
        have hstep : step (c :: (gapText ps ++ r)) = some (none, gapText (dropW ps) ++ r) := by
          simp [step, hp, dropWhile_white_gap ps r hok' hr]
        have hl := (gapText_len ps).1
        refine Lexes.skip_gen (s := gapText (.white c :: ps) ++ r) (by simpa [gapText, Piece.text] using hstep)
          (by simp [gapText, Piece.text]; omega) ?_
        exact ih (dropW ps) r T (by have := dropW_len ps; simp at hn; omega) (dropW_ok ps hok') hr hT
      | comment b e =>
        obtain ⟨hb, hne, he⟩ := hp
        have hdrop1 : (b ++ (e ++ (gapText ps ++ r))).dropWhile (fun ch => !isEol ch) = e ++ (gapText ps ++ r) := by
          refine (takeWhile_append_stop (fun ch => !isEol ch) b (e ++ (gapText ps ++ r)) hb ?_).2
          intro c r' hc
          cases e with
          | nil => exact absurd rfl hne
          | cons x e' =>
            simp only [List.cons_append, List.cons.injEq] at hc
            simp only [List.all_cons, Bool.and_eq_true] at he
            rw [← hc.1]; simp [he.1]
        have hstep : step ('/' :: '/' :: (b ++ e ++ (gapText ps ++ r))) = some (none, gapText (dropE ps) ++ r) := by
          simp only [step, List.append_assoc]
          simp [Str.isWhite, hdrop1, dropWhile_all isEol e _ he, dropWhile_eol_gap ps r hok' hr]
        have hl := (gapText_len ps).2
        refine Lexes.skip_gen (s := gapText (.comment b e :: ps) ++ r) (by simpa [gapText, Piece.text, List.append_assoc] using hstep)
          (by simp [gapText, Piece.text]; omega) ?_
        exact ih (dropE ps) r T (by have := dropE_len ps; simp at hn; omega) (dropE_ok ps hok') hr hT

/-! ### every token class of the language by its text: numeric literals (sign, mantissa, exponent), radix literals, raw strings -/

/-- the sign of a numeric literal: absent, `+` or `-` -/
def IsSign (s : Str) : Prop := s = [] ∨ s = ['+'] ∨ s = ['-']

/-- `[0-9]*\.?[0-9]+` -/
inductive FracText : Str → Prop
  | int (ip : Str) (h : ip.all isDigit = true) (hne : ip ≠ []) : FracText ip
  | frac (ip fp : Str) (hi : ip.all isDigit = true) (hf : fp.all isDigit = true) (hne : fp ≠ []) : FracText (ip ++ '.' :: fp)

/-- `([eE][-+]?[0-9]+)?` -/
inductive ExpText : Str → Prop
  | none : ExpText []
  | some (e : Char) (sg ed : Str) (he : e = 'e' ∨ e = 'E') (hs : IsSign sg) (hd : ed.all isDigit = true) (hne : ed ≠ []) :
      ExpText (e :: (sg ++ ed))

theorem countWhile_append_le (p : Char → Bool) (x r : Str) (hr : ∀ c r', r = c :: r' → p c = false) :
    countWhile p (x ++ r) ≤ x.length := by
  induction x with
  | nil =>
    cases r with
    | nil => simp [countWhile]
    | cons c r' => simp [countWhile, hr c r' rfl]
  | cons a x ih =>
    simp only [List.cons_append, countWhile, List.length_cons]
    split <;> omega

/-- what may follow the mantissa: not a digit, not a dot -/
def StopFrac (r : Str) : Prop := ∀ c r', r = c :: r' → isDigit c = false ∧ c ≠ '.'

theorem matchFrac_text (m r : Str) (hm : FracText m) (hr : StopFrac r) : matchFrac (m ++ r) = some m.length := by
  cases hm with
  | int ip h hne =>
    have hk := countWhile_append isDigit m r h (fun c r' e => (hr c r' e).1)
    have hpos : 0 < m.length := by cases m with | nil => exact absurd rfl hne | cons _ _ => simp
    simp only [matchFrac, hk, List.drop_left']
    cases r with
    | nil => simp [hpos]
    | cons c r' =>
      have := (hr c r' rfl).2
      split
      · rename_i r2 e; cases e; exact absurd rfl this
      · simp [hpos]
  | frac ip fp hi hf hne =>
    have hk := countWhile_append isDigit ip ('.' :: (fp ++ r)) hi (by intro c r' e; cases e; decide)
    have hm := countWhile_append isDigit fp r hf (fun c r' e => (hr c r' e).1)
    have hfl : 0 < fp.length := by cases fp with | nil => exact absurd rfl hne | cons _ _ => simp
    simp only [List.append_assoc, List.cons_append, matchFrac, hk, List.drop_left', hm, hfl, if_true, List.length_append, List.length_cons]
    simp; omega

theorem fracText_head (m : Str) (hm : FracText m) : ∃ a m', m = a :: m' ∧ a ≠ '+' ∧ a ≠ '-' := by
  cases hm with
  | int ip h hne =>
    cases m with
    | nil => exact absurd rfl hne
    | cons a m' =>
      simp only [List.all_cons, Bool.and_eq_true] at h
      have := digit_not_sign h.1
      exact ⟨a, m', rfl, this.1, this.2.1⟩
  | frac ip fp hi hf hne =>
    cases ip with
    | nil => exact ⟨'.', fp, rfl, by decide, by decide⟩
    | cons a ip' =>
      simp only [List.all_cons, Bool.and_eq_true] at hi
      have := digit_not_sign hi.1
      exact ⟨a, _, rfl, this.1, this.2.1⟩


theorem sign_match (sg rest : Str) (hs : IsSign sg) (hrest : ∀ a r', rest = a :: r' → a ≠ '+' ∧ a ≠ '-') :
    (match sg ++ rest with | '+' :: _ => 1 | '-' :: _ => 1 | _ => 0) = sg.length := by
  rcases hs with rfl | rfl | rfl
  · simp only [List.nil_append, List.length_nil]
    split
    · exact absurd rfl (hrest _ _ rfl).1
    · exact absurd rfl (hrest _ _ rfl).2
    · rfl
  · rfl
  · rfl

/-- the exponent part followed by a character that is not a digit -/
theorem matchExp_text (x r : Str) (hx : ExpText x) (hr : ∀ c r', r = c :: r' → isDigit c = false ∧ (x = [] → c ≠ 'e' ∧ c ≠ 'E')) :
    matchExp (x ++ r) = x.length := by
  cases hx with
  | none =>
    cases r with
    | nil => rfl
    | cons c r' =>
      have := (hr c r' rfl).2 rfl
      simp only [List.nil_append, matchExp, List.length_nil]
      have hc : (c == 'e' || c == 'E') = false := by simp [this.1, this.2]
      simp [hc]
  | some e sg ed he hs hd hne =>
    have hc : (e == 'e' || e == 'E') = true := by rcases he with rfl | rfl <;> rfl
    have hed : ∀ a r', ed ++ r = a :: r' → a ≠ '+' ∧ a ≠ '-' := by
      intro a r' e
      cases ed with
      | nil => exact absurd rfl hne
      | cons b ed' =>
        simp only [List.cons_append, List.cons.injEq] at e
        simp only [List.all_cons, Bool.and_eq_true] at hd
        have := digit_not_sign hd.1
        rw [← e.1]; exact ⟨this.1, this.2.1⟩
    have hsg := sign_match sg (ed ++ r) hs hed
    have hk := countWhile_append isDigit ed r hd (fun c r' e => (hr c r' e).1)
    have hpos : 0 < ed.length := by cases ed with | nil => exact absurd rfl hne | cons _ _ => simp
    simp only [List.cons_append, List.append_assoc, matchExp, hc, if_true]
    -- the sign matcher of matchExp is the same function as the one of `sign_match`
    have : (match sg ++ (ed ++ r) with | '+' :: _ => 1 | '-' :: _ => 1 | _ => 0) = sg.length := hsg
    rcases hs with rfl | rfl | rfl
    · simp only [List.nil_append] at *
      split
      · rename_i r2 e; exact absurd rfl (hed _ _ e).1
      · rename_i r2 e; exact absurd rfl (hed _ _ e).2
      · simp [hk, hpos]; omega
    · simp [hk, hpos]; omega
    · simp [hk, hpos]; omega


theorem matchNum_nosign (c a : Char) (y : Str) (h1 : a ≠ '+') (h2 : a ≠ '-') :
    matchNum c (a :: y) = if (c == 'i') = true then (if countWhile isDigit (a :: y) > 0 then some (countWhile isDigit (a :: y)) else none)
      else (matchFrac (a :: y)).bind (fun b => if (c == 'f') = true then some (b + matchExp ((a :: y).drop b)) else some b) := by
  unfold matchNum
  simp only []
  cases hf : matchFrac (a :: y) <;> (repeat' split) <;> simp_all

theorem matchNum_signed (c s : Char) (y : Str) (hs : s = '+' ∨ s = '-') :
    matchNum c (s :: y) = if (c == 'i') = true then (if countWhile isDigit y > 0 then some (1 + countWhile isDigit y) else none)
      else (matchFrac y).bind (fun b => if (c == 'f') = true then some (1 + b + matchExp (y.drop b)) else some (1 + b)) := by
  unfold matchNum
  simp only []
  rcases hs with rfl | rfl <;> (cases hf : matchFrac y <;> (repeat' split) <;> simp_all)

/-- the text after the prefix letter of a float literal: sign, mantissa, exponent -/
structure FloatBody (b : Str) : Prop where
  parts : ∃ sg m x, b = sg ++ (m ++ x) ∧ IsSign sg ∧ FracText m ∧ ExpText x
/-- … of a decimal literal: sign, mantissa -/
structure DecBody (b : Str) : Prop where
  parts : ∃ sg m, b = sg ++ m ∧ IsSign sg ∧ FracText m
/-- … of an integer literal: sign, digits -/
structure IntBody (b : Str) : Prop where
  parts : ∃ sg D, b = sg ++ D ∧ IsSign sg ∧ D.all isDigit = true ∧ D ≠ []

theorem Sep.stopFrac {r : Str} (h : Sep r) : StopFrac r := fun c r' e =>
  ⟨(h.facts c r' e).notDigit, (h.facts c r' e).ne.2.2.2.1⟩

theorem expText_head_stop (x r : Str) (hx : ExpText x) (hr : Sep r) : StopFrac (x ++ r) := by
  cases hx with
  | none => simpa using hr.stopFrac
  | some e sg ed he hs hd hne =>
    intro c r' h
    simp only [List.cons_append, List.cons.injEq] at h
    rw [← h.1]
    rcases he with rfl | rfl <;> exact ⟨by decide, by decide⟩

theorem matchNum_float (b r : Str) (hb : FloatBody b) (hr : Sep r) : matchNum 'f' (b ++ r) = some b.length := by
  obtain ⟨sg, m, x, rfl, hs, hm, hx⟩ := hb.parts
  have hfr := matchFrac_text m (x ++ r) hm (expText_head_stop x r hx hr)
  have hex := matchExp_text x r hx (fun c r' e => ⟨(hr.facts c r' e).notDigit, fun _ => ⟨(hr.facts c r' e).ne.2.2.2.2.2.2.2.2.1, (hr.facts c r' e).ne.2.2.2.2.2.2.2.2.2⟩⟩)
  obtain ⟨a, m', rfl, h1, h2⟩ := fracText_head m hm
  rcases hs with rfl | rfl | rfl
  · simp only [List.nil_append, List.cons_append, List.append_assoc] at hfr ⊢
    rw [matchNum_nosign 'f' a _ h1 h2]
    simp only [show ('f' == 'i') = false by decide, Bool.false_eq_true, if_false, hfr, Option.bind_some, beq_self_eq_true, if_true]
    have : List.drop (a :: m').length (a :: (m' ++ (x ++ r))) = x ++ r := by
      have := List.drop_left' (l₁ := a :: m') (l₂ := x ++ r) rfl
      simp
    rw [this, hex]; simp; omega
  · simp only [List.cons_append, List.nil_append, List.append_assoc] at hfr ⊢
    rw [matchNum_signed 'f' '+' _ (Or.inl rfl)]
    simp only [show ('f' == 'i') = false by decide, Bool.false_eq_true, if_false, hfr, Option.bind_some, beq_self_eq_true, if_true]
    have : List.drop (a :: m').length (a :: (m' ++ (x ++ r))) = x ++ r := by
      have := List.drop_left' (l₁ := a :: m') (l₂ := x ++ r) rfl
      simp
    rw [this, hex]; simp; omega
  · simp only [List.cons_append, List.nil_append, List.append_assoc] at hfr ⊢
    rw [matchNum_signed 'f' '-' _ (Or.inr rfl)]
    simp only [show ('f' == 'i') = false by decide, Bool.false_eq_true, if_false, hfr, Option.bind_some, beq_self_eq_true, if_true]
    have : List.drop (a :: m').length (a :: (m' ++ (x ++ r))) = x ++ r := by
      have := List.drop_left' (l₁ := a :: m') (l₂ := x ++ r) rfl
      simp
    rw [this, hex]; simp; omega

theorem matchNum_dec (b r : Str) (hb : DecBody b) (hr : Sep r) : matchNum 'd' (b ++ r) = some b.length := by
  obtain ⟨sg, m, rfl, hs, hm⟩ := hb.parts
  have hfr := matchFrac_text m r hm hr.stopFrac
  obtain ⟨a, m', rfl, h1, h2⟩ := fracText_head m hm
  rcases hs with rfl | rfl | rfl
  · simp only [List.nil_append, List.cons_append] at hfr ⊢
    rw [matchNum_nosign 'd' a _ h1 h2]
    simp [hfr]
  · simp only [List.cons_append, List.nil_append] at hfr ⊢
    rw [matchNum_signed 'd' '+' _ (Or.inl rfl)]
    simp [hfr]; omega
  · simp only [List.cons_append, List.nil_append] at hfr ⊢
    rw [matchNum_signed 'd' '-' _ (Or.inr rfl)]
    simp [hfr]; omega

theorem matchNum_int (b r : Str) (hb : IntBody b) (hr : Sep r) : matchNum 'i' (b ++ r) = some b.length := by
  obtain ⟨sg, D, rfl, hs, hD, hne⟩ := hb.parts
  have hk := countWhile_append isDigit D r hD hr.notDigit
  have hpos : 0 < D.length := by cases D with | nil => exact absurd rfl hne | cons _ _ => simp
  rcases hs with rfl | rfl | rfl
  · obtain ⟨a, D', rfl⟩ : ∃ a D', D = a :: D' := by cases D with | nil => exact absurd rfl hne | cons a D' => exact ⟨a, D', rfl⟩
    simp only [List.all_cons, Bool.and_eq_true] at hD
    have := digit_not_sign hD.1
    simp only [List.nil_append, List.cons_append] at hk ⊢
    rw [matchNum_nosign 'i' a _ this.1 this.2.1]
    simp [hk]
  · simp only [List.cons_append, List.nil_append]
    rw [matchNum_signed 'i' '+' _ (Or.inl rfl)]
    simp [hk, hpos]; omega
  · simp only [List.cons_append, List.nil_append]
    rw [matchNum_signed 'i' '-' _ (Or.inr rfl)]
    simp [hk, hpos]; omega


/-- a numeric literal `i… / f… / d…` whose body the number matcher consumes entirely, in front of a separator -/
theorem step_num_sep (c : Char) (b r : Str) (hc : c = 'i' ∨ c = 'f' ∨ c = 'd') (hm : matchNum c (b ++ r) = some b.length)
    (hr : Sep r) : step (c :: b ++ r) = some (some (mkNum c (c :: b)), r) := by
  have halpha : isAlpha c = true := by rcases hc with rfl | rfl | rfl <;> decide
  have h1 := alpha_not_white halpha
  have h2 : c ≠ '/' := by rcases hc with rfl | rfl | rfl <;> decide
  have hg : (c == 'i' || c == 'f' || c == 'd') = true := by rcases hc with rfl | rfl | rfl <;> rfl
  have hcw := countWhile_append_le isIdc b r hr.notIdc
  have hw : stepWord c (b ++ r) = (mkNum c (c :: b), r) := by
    simp only [stepWord, hg, if_true, hm]
    rw [if_pos (by omega)]
    simp [List.take_left', List.drop_left']
  simp only [List.cons_append, step, h1, halpha, hw]
  simp [h2]

theorem step_float_sep (b r : Str) (hb : FloatBody b) (hr : Sep r) : step ('f' :: b ++ r) = some (some (.float ('f' :: b)), r) := by
  have := step_num_sep 'f' b r (Or.inr (Or.inl rfl)) (matchNum_float b r hb hr) hr
  simpa [mkNum] using this

theorem step_decg_sep (b r : Str) (hb : DecBody b) (hr : Sep r) : step ('d' :: b ++ r) = some (some (.dec ('d' :: b)), r) := by
  have := step_num_sep 'd' b r (Or.inr (Or.inr rfl)) (matchNum_dec b r hb hr) hr
  simpa [mkNum] using this

theorem step_intg_sep (b r : Str) (hb : IntBody b) (hr : Sep r) : step ('i' :: b ++ r) = some (some (.int ('i' :: b)), r) := by
  have := step_num_sep 'i' b r (Or.inl rfl) (matchNum_int b r hb hr) hr
  simpa [mkNum] using this

/-- radix literals `0x… / 0o… / 0b…` -/
theorem step_radix_sep (x : Char) (p : Char → Bool) (mk : Str → Tok) (D r : Str)
    (hx : (x = 'x' ∧ p = isHex ∧ mk = Tok.hex) ∨ (x = 'o' ∧ p = isOct ∧ mk = Tok.oct) ∨ (x = 'b' ∧ p = isBin ∧ mk = Tok.bin))
    (hD : D.all p = true) (hne : D ≠ []) (hp : ∀ c, p c = true → isIdc c = true) (hr : Sep r) :
    step ('0' :: x :: D ++ r) = some (some (mk ('0' :: x :: D)), r) := by
  have hk := countWhile_append p D r hD (fun c r' e => by
    cases h : p c
    · rfl
    · have := hp c h; rw [hr.notIdc c r' e] at this; cases this)
  have hpos : 0 < D.length := by cases D with | nil => exact absurd rfl hne | cons _ _ => simp
  have hrad : matchRadix (x :: D ++ r) = some (1 + D.length, mk) := by
    rcases hx with ⟨rfl, rfl, rfl⟩ | ⟨rfl, rfl, rfl⟩ | ⟨rfl, rfl, rfl⟩ <;> simp [matchRadix, hk, hpos]
  have hcd : countWhile isDigit (x :: D ++ r) = 0 := by
    rcases hx with ⟨rfl, _, _⟩ | ⟨rfl, _, _⟩ | ⟨rfl, _, _⟩ <;> simp [countWhile, isDigit]
  simp only [List.cons_append] at hrad hcd ⊢
  simp [step, Str.isWhite, isAlpha, isDigit, stepDigit, hrad, hcd, List.take_succ_cons, List.take_left', List.drop_left', Nat.add_comm]


/-- the string scanner does not look past the closing quote -/
theorem scanStr_append (x r : Str) : ∀ n, scanStr x = some n → scanStr (x ++ r) = some n := by
  fun_induction scanStr x with
  | case1 => intro n h; cases h
  | case2 => intro n h; cases h
  | case3 c r0 hc => intro n h; cases h
  | case4 c r0 hc ih =>
    intro n h
    simp only [List.cons_append, scanStr, hc, if_false, Bool.false_eq_true]
    cases hs : scanStr r0 with
    | none => simp [hs] at h
    | some m =>
      simp only [hs, Option.map_some, Option.some.injEq] at h
      rw [ih m hs]; simp [h]
  | case5 c r0 hnb hq hquote =>
    intro n h
    cases h
    have hq' : c = '"' := by simpa using hquote
    subst hq'
    simp [scanStr]
  | case6 c r0 hnb hq hnq ih =>
    intro n h
    have hc : c ≠ '\\' := by
      intro e
      cases r0 with
      | nil => exact hnb e rfl
      | cons d r1 => exact hq d r1 e rfl
    cases hs : scanStr r0 with
    | none => simp [hs] at h
    | some m =>
      simp only [hs, Option.map_some, Option.some.injEq] at h
      have := ih m hs
      simp only [List.cons_append]
      rw [scanStr.eq_def]
      split
      · rename_i e; cases e
      · rename_i e; simp only [List.cons.injEq] at e; exact absurd e.1 hc
      · rename_i e; simp only [List.cons.injEq] at e; exact absurd e.1 hc
      · rename_i c' r' _ _ e
        simp only [List.cons.injEq] at e
        obtain ⟨rfl, rfl⟩ := e
        simp only [hnq, if_false, Bool.false_eq_true, this, Option.map_some, h]

/-- a string literal — whatever is between the quotes, as long as the scanner accepts it — in front of anything -/
theorem step_string_raw (body r : Str) (h : scanStr body = some body.length) :
    step ('"' :: body ++ r) = some (some (.str ('"' :: body)), r) := by
  have := scanStr_append body r _ h
  simp [step, Str.isWhite, isAlpha, isDigit, stepString, this, List.take_left', List.drop_left']



theorem hex_idc {c : Char} (h : isHex c = true) : isIdc c = true := by
  simp only [isHex, Bool.or_eq_true, Bool.and_eq_true, decide_eq_true_eq, char_le_iff] at h
  simp only [isIdc, isAlpha, Bool.or_eq_true, Bool.and_eq_true, decide_eq_true_eq, char_le_iff, beq_iff_eq]
  rcases h with (h | h) | h
  · exact Or.inl (Or.inr h)
  · exact Or.inl (Or.inl (Or.inl ⟨h.1, by have := h.2; simp at this ⊢; omega⟩))
  · exact Or.inl (Or.inl (Or.inr ⟨h.1, by have := h.2; simp at this ⊢; omega⟩))
theorem oct_idc {c : Char} (h : isOct c = true) : isIdc c = true := by
  simp only [isOct, Bool.and_eq_true, decide_eq_true_eq, char_le_iff] at h
  simp only [isIdc, isDigit, Bool.or_eq_true, Bool.and_eq_true, decide_eq_true_eq, char_le_iff, beq_iff_eq]
  exact Or.inl (Or.inr ⟨h.1, by have := h.2; simp at this ⊢; omega⟩)
theorem bin_idc {c : Char} (h : isBin c = true) : isIdc c = true := by
  simp only [isBin, Bool.or_eq_true, beq_iff_eq] at h
  rcases h with rfl | rfl <;> decide

/-! ### tokens separated by arbitrary gaps -/

/-- a token together with its text: keywords, identifiers, INDEX numbers, integer, decimal and string literals as the
    printer writes them, punctuation and operators -/
inductive PTok : Tok → Str → Prop
  | kw (w : Str) (h : KwText w) : PTok (.kw w) w
  | ident (n : Str) (h : NameOK n) : PTok (.ident n) n
  | index (a : Char) (D : Str) (ha : isDigit a = true) (hD : D.all isDigit = true) : PTok (.index (a :: D)) (a :: D)
  | int (D : Str) (neg : Bool) (hD : D.all isDigit = true) (hne : D ≠ []) :
      PTok (.int ('i' :: (if neg then '-' :: D else D))) ('i' :: (if neg then '-' :: D else D))
  | dec (d : Dec) : PTok (.dec ('d' :: showDec d)) ('d' :: showDec d)
  | str (s : Str) : PTok (.str ('"' :: escapeStr s ++ ['"'])) ('"' :: escapeStr s ++ ['"'])
  -- the token classes in general (whatever the lexer's regexes match, not only what the printer writes):
  | intg (b : Str) (h : IntBody b) : PTok (.int ('i' :: b)) ('i' :: b)                    -- i[+-]?[0-9]+
  | floatg (b : Str) (h : FloatBody b) : PTok (.float ('f' :: b)) ('f' :: b)              -- f[+-]?[0-9]*\.?[0-9]+([eE][+-]?[0-9]+)?
  | decg (b : Str) (h : DecBody b) : PTok (.dec ('d' :: b)) ('d' :: b)                    -- d[+-]?[0-9]*\.?[0-9]+
  | hex (D : Str) (h : D.all isHex = true) (hne : D ≠ []) : PTok (.hex ('0' :: 'x' :: D)) ('0' :: 'x' :: D)
  | oct (D : Str) (h : D.all isOct = true) (hne : D ≠ []) : PTok (.oct ('0' :: 'o' :: D)) ('0' :: 'o' :: D)
  | bin (D : Str) (h : D.all isBin = true) (hne : D ≠ []) : PTok (.bin ('0' :: 'b' :: D)) ('0' :: 'b' :: D)
  | strRaw (body : Str) (h : scanStr body = some body.length) : PTok (.str ('"' :: body)) ('"' :: body)  -- "[^"\\]*(\\.[^"\\]*)*"
  | p1 (c : Char) (hc : c ∈ p1Chars) : PTok (.p [c]) [c]
  | p1x (c : Char) (hc : c = '=' ∨ c = '@' ∨ c = ';') : PTok (.p [c]) [c]     -- the punctuation the printer never writes
  | p2 (c : Char) (hc : c ∈ ['=', '!', '>', '<']) : PTok (.p [c, '=']) [c, '=']

theorem ptok_step {t : Tok} {w : Str} (h : PTok t w) {r : Str} (hr : Sep r) (hslash : w = ['/'] → ∀ r', r ≠ '/' :: r') :
    step (w ++ r) = some (some t, r) := by
  cases h with
  | kw w h =>
    obtain ⟨hk, c, rest, rfl, hc, hrest, hnum, _⟩ := h
    have := step_word_sep c rest r hc hrest (NumFree.old hnum) hr
    simp only [wordOf, hk, if_true] at this
    exact this
  | ident n h =>
    obtain ⟨c, rest, rfl, hc, hrest, hnum, hkw⟩ := h
    have := step_word_sep c rest r hc hrest hnum hr
    simp only [wordOf, hkw, Bool.false_eq_true, if_false] at this
    exact this
  | index a D ha hD => exact step_index_sep a D r ha hD hr
  | int D neg hD hne => exact step_int_sep D r neg hD hne hr
  | dec d => exact dec_step_sep d r hr
  | str s => simpa [List.append_assoc] using step_string s r
  | intg b h => exact step_intg_sep b r h hr
  | floatg b h => exact step_float_sep b r h hr
  | decg b h => exact step_decg_sep b r h hr
  | hex D h hne => exact step_radix_sep 'x' isHex Tok.hex D r (Or.inl ⟨rfl, rfl, rfl⟩) h hne (fun c hc => hex_idc hc) hr
  | oct D h hne => exact step_radix_sep 'o' isOct Tok.oct D r (Or.inr (Or.inl ⟨rfl, rfl, rfl⟩)) h hne (fun c hc => oct_idc hc) hr
  | bin D h hne => exact step_radix_sep 'b' isBin Tok.bin D r (Or.inr (Or.inr ⟨rfl, rfl, rfl⟩)) h hne (fun c hc => bin_idc hc) hr
  | strRaw body h => exact step_string_raw body r h
  | p1 c hc => exact step_punct1_sep c r hc hr (fun e => hslash (by rw [e]))
  | p1x c hc =>
    cases r with
    | nil => rcases hc with rfl | rfl | rfl <;> simp [step, stepPunct, punct1, Str.isWhite, isAlpha, isDigit]
    | cons d r' =>
      have h2 := (hr.facts d r' rfl).ne.1
      rcases hc with rfl | rfl | rfl <;> simp [step, stepPunct, punct1, punct2, Str.isWhite, isAlpha, isDigit, h2]
  | p2 c hc => exact step_punct2 c r hc

theorem ptok_head {t : Tok} {w : Str} (h : PTok t w) : ∃ c w', w = c :: w' ∧ Str.isWhite c = false := by
  cases h with
  | kw w h => obtain ⟨_, c, rest, rfl, hc, _⟩ := h; exact ⟨c, rest, rfl, alpha_not_white hc⟩
  | ident n h => obtain ⟨c, rest, rfl, hc, _⟩ := h; exact ⟨c, rest, rfl, alpha_not_white hc⟩
  | index a D ha hD => exact ⟨a, D, rfl, (digit_not_alpha_white ha).2⟩
  | int D neg hD hne => exact ⟨'i', _, rfl, by decide⟩
  | dec d => exact ⟨'d', _, rfl, by decide⟩
  | str s => exact ⟨'"', _, rfl, by decide⟩
  | intg b h => exact ⟨'i', _, rfl, by decide⟩
  | floatg b h => exact ⟨'f', _, rfl, by decide⟩
  | decg b h => exact ⟨'d', _, rfl, by decide⟩
  | hex D h hne => exact ⟨'0', _, rfl, by decide⟩
  | oct D h hne => exact ⟨'0', _, rfl, by decide⟩
  | bin D h hne => exact ⟨'0', _, rfl, by decide⟩
  | strRaw body h => exact ⟨'"', _, rfl, by decide⟩
  | p1 c hc =>
    refine ⟨c, [], rfl, ?_⟩
    simp only [p1Chars, List.mem_cons, List.not_mem_nil, or_false] at hc
    rcases hc with rfl | rfl | rfl | rfl | rfl | rfl | rfl | rfl | rfl | rfl | rfl | rfl | rfl | rfl | rfl | rfl | rfl | rfl | rfl | rfl <;> decide
  | p1x c hc => exact ⟨c, [], rfl, by rcases hc with rfl | rfl | rfl <;> decide⟩
  | p2 c hc =>
    refine ⟨c, ['='], rfl, ?_⟩
    simp only [List.mem_cons, List.not_mem_nil, or_false] at hc
    rcases hc with rfl | rfl | rfl | rfl <;> decide

/-- a `/` token is not followed directly by a comment (`///…` is one comment: the lexer's one layout exception) -/
def SlashOK (w : Str) (g : List Piece) : Prop := w = ['/'] → ∀ b e g', g ≠ .comment b e :: g'

/-- the text: every token followed by its gap -/
def gapped : List (Tok × Str × List Piece) → Str
  | [] => []
  | (_, w, g) :: rest => w ++ (gapText g ++ gapped rest)

/-- every token is of the vocabulary, every gap consists of well-formed pieces, and every gap but the last is non-empty -/
def GappedOK : List (Tok × Str × List Piece) → Prop
  | [] => True
  | (t, w, g) :: rest => PTok t w ∧ (∀ p ∈ g, p.OK) ∧ SlashOK w g ∧ (rest ≠ [] → g ≠ []) ∧ GappedOK rest

theorem gapped_head (items : List (Tok × Str × List Piece)) (h : GappedOK items) :
    ∀ c r', gapped items = c :: r' → Str.isWhite c = false := by
  cases items with
  | nil => intro c r' e; cases e
  | cons it rest =>
    obtain ⟨t, w, g⟩ := it
    obtain ⟨c0, w', rfl, hc0⟩ := ptok_head h.1
    intro c r' e
    simp only [gapped, List.cons_append, List.cons.injEq] at e
    rw [← e.1]; exact hc0

theorem sep_gap (g : List Piece) (hg : ∀ p ∈ g, p.OK) (rest : Str) (hne : rest ≠ [] → g ≠ []) : Sep (gapText g ++ rest) := by
  cases g with
  | nil =>
    cases rest with
    | nil => trivial
    | cons c r => exact absurd rfl (hne (by simp))
  | cons p ps =>
    have hp := hg p List.mem_cons_self
    cases p with
    | white c => exact Or.inl hp
    | comment b e => exact Or.inr rfl

theorem lexes_gapped : ∀ (items : List (Tok × Str × List Piece)), GappedOK items →
    Lexes (gapped items) (items.map (·.1)) := by
  intro items
  induction items with
  | nil => intro _; exact Lexes.nil
  | cons it rest ih =>
    intro h
    obtain ⟨t, w, g⟩ := it
    obtain ⟨hp, hg, hsl, hne, hrest⟩ := h
    have ihr := ih hrest
    have hgap := lexes_gap g.length g (gapped rest) _ (Nat.le_refl _) hg (gapped_head rest hrest) ihr
    obtain ⟨c0, w', hw, _⟩ := ptok_head hp
    have hsep : Sep (gapText g ++ gapped rest) := sep_gap g hg (gapped rest) (by
      intro hr
      apply hne
      intro e; subst e; exact hr rfl)
    have hstep := ptok_step hp hsep (by
      intro e r' hr'
      cases g with
      | nil =>
        -- an empty gap: the next token would follow directly; excluded unless this is the last token
        cases rest with
        | nil => simp [gapText, gapped] at hr'
        | cons it2 rest2 => exact absurd rfl (hne (by simp))
      | cons p ps =>
        cases p with
        | white c =>
          have := hg _ List.mem_cons_self
          simp only [gapText, Piece.text, List.cons_append, List.nil_append, List.cons.injEq] at hr'
          rw [hr'.1] at this
          simp only [Piece.OK] at this
          exact absurd this (by decide)
        | comment b e2 => exact hsl e b e2 ps rfl)
    simp only [gapped, List.map_cons]
    exact Lexes.tok (by rw [hw]; simp) hstep hgap

/-- **layout is insignificant**: any leading gap, then tokens each followed by any gap (non-empty between two tokens, a
    `/` not directly followed by a comment) — the text lexes to exactly those tokens, whatever the gaps are made of -/
theorem lex_gapped (lead : List Piece) (items : List (Tok × Str × List Piece)) (hl : ∀ p ∈ lead, p.OK)
    (h : GappedOK items) : lex (gapText lead ++ gapped items) = some (items.map (·.1)) :=
  (lexes_gap lead.length lead (gapped items) _ (Nat.le_refl _) hl (gapped_head items h) (lexes_gapped items h)).lex

end Reval.LexC
