/-
  Lemmas/LexLayout.lean — layout is insignificant: a token's text followed by white space, by a `//` comment or by the
  end of the text lexes to that token (`*_sep` lemmas), a gap — any non-empty sequence of white-space characters and
  `//` comments — is skipped whole (`lexes_gap`), hence a sequence of tokens separated by arbitrary gaps lexes to exactly
  those tokens, whatever the gaps are (`lex_gapped`).  The one exception the lexer really has is stated in the
  hypothesis: a `/` token must not be followed directly by a comment (`///…` is one comment — the known finding of C08).
-/
import RevalModel.Lemmas.LexCompose
import RevalModel.Lemmas.DecText

namespace Reval.LexC
open Reval Reval.Lex Reval.Disp

/-- what follows a token in gapped text: nothing, a white-space character, or the `/` of a comment -/
def Sep : Str → Prop
  | [] => True
  | c :: _ => Str.isWhite c = true ∨ c = '/'

theorem white_codes {c : Char} (h : Str.isWhite c = true) :
    (9 ≤ c.toNat ∧ c.toNat ≤ 13) ∨ c.toNat = 32 ∨ 133 ≤ c.toNat := by
  simp only [Str.isWhite, Bool.or_eq_true, Bool.and_eq_true, decide_eq_true_eq, beq_iff_eq] at h
  omega

/-- the facts every token lemma needs about the character after the token -/
structure SepFacts (c : Char) : Prop where
  notIdc : isIdc c = false
  notDigit : isDigit c = false
  ne : c ≠ '=' ∧ c ≠ '+' ∧ c ≠ '-' ∧ c ≠ '.' ∧ c ≠ 'x' ∧ c ≠ 'o' ∧ c ≠ 'b' ∧ c ≠ '"' ∧ c ≠ 'e' ∧ c ≠ 'E'

theorem sepFacts_of_codes {c : Char} (h : (9 ≤ c.toNat ∧ c.toNat ≤ 13) ∨ c.toNat = 32 ∨ 133 ≤ c.toNat ∨ c.toNat = 47) : SepFacts c := by
  have hidc : isIdc c = false := by
    cases hi : isIdc c
    · rfl
    · have := idc_range hi; omega
  refine ⟨hidc, ?_, ?_⟩
  · cases hd : isDigit c
    · rfl
    · rw [digit_idc hd] at hidc; cases hidc
  · refine ⟨toNat_ne ?_, toNat_ne ?_, toNat_ne ?_, toNat_ne ?_, toNat_ne ?_, toNat_ne ?_, toNat_ne ?_, toNat_ne ?_, toNat_ne ?_, toNat_ne ?_⟩ <;>
      (simp; omega)

theorem Sep.facts {r : Str} (h : Sep r) : ∀ c r', r = c :: r' → SepFacts c := by
  intro c r' e; subst e
  rcases h with h | h
  · have := white_codes h
    exact sepFacts_of_codes (by omega)
  · subst h; exact sepFacts_of_codes (Or.inr (Or.inr (Or.inr (by decide))))

theorem Sep.notIdc {r : Str} (h : Sep r) : ∀ c r', r = c :: r' → isIdc c = false := fun c r' e => (h.facts c r' e).notIdc
theorem Sep.notDigit {r : Str} (h : Sep r) : ∀ c r', r = c :: r' → isDigit c = false := fun c r' e => (h.facts c r' e).notDigit

theorem matchNum_none_sep (c : Char) (rest r : Str) (hrest : rest.all isIdc = true)
    (hnum : (c = 'i' ∨ c = 'f' ∨ c = 'd') → ∀ a rest', rest = a :: rest' → isDigit a = false) (hr : Sep r) :
    (if (c == 'i' || c == 'f' || c == 'd') = true then matchNum c (rest ++ r) else none) = none := by
  split
  case isFalse => rfl
  rename_i hg
  cases rest with
  | nil =>
    cases r with
    | nil => simp [matchNum, matchFrac, countWhile]
    | cons h r' =>
      have f := hr.facts h r' rfl
      obtain ⟨_, h2, h3, h4, _⟩ := f.ne
      simp only [List.nil_append, matchNum]
      split <;> simp_all [matchFrac, countWhile, f.notDigit]
  | cons a rest' =>
    simp only [List.all_cons, Bool.and_eq_true] at hrest
    have hd := hnum (by simpa only [Bool.or_eq_true, beq_iff_eq, or_assoc] using hg) a rest' rfl
    have hr := idc_range hrest.1
    have h1 : a ≠ '+' := toNat_ne (by simp; omega)
    have h2 : a ≠ '-' := toNat_ne (by simp; omega)
    have h3 : a ≠ '.' := toNat_ne (by simp; omega)
    simp only [matchNum, List.cons_append]
    split <;> simp_all [matchFrac, countWhile]

theorem Sep.folG {r : Str} (h : Sep r) : FolG r := by
  intro x r' e
  have f := h.facts x r' e
  obtain ⟨_, h2, h3, _⟩ := f.ne
  exact ⟨f.notIdc, h2, h3⟩

theorem step_word_sep (c : Char) (rest r : Str) (hc : isAlpha c = true) (hrest : rest.all isIdc = true)
    (hnum : NumFree c rest) (hr : Sep r) :
    step (c :: rest ++ r) = some (some (wordOf (c :: rest)), r) := by
  have h1 := alpha_not_white hc
  have h2 : c ≠ '/' := toNat_ne (by rcases alpha_range hc with ⟨a, b⟩ | ⟨a, b⟩ <;> simp <;> omega)
  have hcw := countWhile_append isIdc rest r hrest hr.notIdc
  have hold : ((c = 'i' ∨ c = 'f' ∨ c = 'd') → ∀ a rest', rest = a :: rest' → isDigit a = false) →
      stepWord c (rest ++ r) = (wordOf (c :: rest), r) := by
    intro hnum
    simp only [stepWord, matchNum_none_sep c rest r hrest hnum hr, wordTok, wordOf, hcw, List.take_left', List.drop_left']
  have hw : stepWord c (rest ++ r) = (wordOf (c :: rest), r) := by
    by_cases hg : c = 'i' ∨ c = 'f' ∨ c = 'd'
    · rcases hnum hg with ho | ⟨a, w, r0, rfl, ha, h0⟩
      · exact hold (fun _ => ho)
      · exact stepWord_short c a w r0 r hrest ha h0 hr.folG
    · exact hold (fun h => absurd h hg)
  simp only [List.cons_append, step, h1, hc, hw]
  simp [h2]

theorem step_int_sep (D r : Str) (neg : Bool) (hD : D.all isDigit = true) (hne : D ≠ []) (hr : Sep r) :
    step ('i' :: (if neg then '-' :: D else D) ++ r) = some (some (.int ('i' :: (if neg then '-' :: D else D))), r) := by
  have hk := countWhile_append isDigit D r hD hr.notDigit
  have hpos : 0 < D.length := by cases D <;> simp_all
  cases neg with
  | true =>
    simp only [if_true, List.cons_append]
    have hm : matchNum 'i' ('-' :: (D ++ r)) = some (1 + D.length) := by
      simp [matchNum, hk, hpos]
    simp [step, Str.isWhite, isAlpha, stepWord, hm, countWhile, isIdc, isDigit, mkNum, List.take_left', List.drop_left',
      List.take_succ_cons, Nat.add_comm]
  | false =>
    simp only [Bool.false_eq_true, if_false]
    obtain ⟨a, D', rfl⟩ : ∃ a D', D = a :: D' := by cases D with | nil => exact absurd rfl hne | cons a D' => exact ⟨a, D', rfl⟩
    simp only [List.all_cons, Bool.and_eq_true] at hD
    have hs := digit_not_sign hD.1
    have hm : matchNum 'i' (a :: D' ++ r) = some (D'.length + 1) := by
      have : countWhile isDigit (a :: (D' ++ r)) = D'.length + 1 := by simpa using hk
      simp [matchNum, hs.1, hs.2.1, this]
    have hi := countWhile_append isIdc (a :: D') r (all_digit_idc (by simp [hD.1, hD.2])) hr.notIdc
    have hi' : countWhile isIdc (a :: (D' ++ r)) = D'.length + 1 := by simpa using hi
    simp only [List.cons_append] at hm
    simp [step, Str.isWhite, isAlpha, stepWord, hm, hi', mkNum, List.take_left', List.drop_left']

theorem step_index_sep (a : Char) (D r : Str) (ha : isDigit a = true) (hD : D.all isDigit = true) (hr : Sep r) :
    step (a :: D ++ r) = some (some (.index (a :: D)), r) := by
  have hk := countWhile_append isDigit D r hD hr.notDigit
  have hs := digit_not_sign ha
  have hw := digit_not_alpha_white ha
  have hrad : (if a = '0' then matchRadix (D ++ r) else none) = none := by
    split
    · cases D with
      | nil =>
        cases r with
        | nil => rfl
        | cons h r' =>
          obtain ⟨_, _, _, _, h5, h6, h7, _⟩ := (hr.facts h r' rfl).ne
          simp only [List.nil_append, matchRadix]
          split <;> simp_all
      | cons b D' =>
        simp only [List.all_cons, Bool.and_eq_true] at hD
        have := digit_range hD.1
        have h1 : b ≠ 'x' := toNat_ne (by simp; omega)
        have h2 : b ≠ 'o' := toNat_ne (by simp; omega)
        have h3 : b ≠ 'b' := toNat_ne (by simp; omega)
        simp only [List.cons_append, matchRadix]
        split <;> simp_all
    · rfl
  simp [step, hw.1, hw.2, ha, hs.2.2.1, stepDigit, hrad, hk, List.take_left', List.drop_left']

theorem matchFrac_body_sep (d : Dec) (ip fp r : Str) (hp : DecParts d ip fp) (hr : Sep r) :
    matchFrac ((if d.scale = 0 then ip else ip ++ '.' :: fp) ++ r) = some ((if d.scale = 0 then ip else ip ++ '.' :: fp).length) := by
  by_cases hs : d.scale = 0
  · simp only [hs, if_true]
    have hk := countWhile_append isDigit ip r hp.ipDigits hr.notDigit
    have hpos : 0 < ip.length := by cases ip with | nil => exact absurd rfl hp.ipNe | cons _ _ => simp
    simp only [matchFrac, hk, List.drop_left']
    cases r with
    | nil => simp [hpos]
    | cons c r' =>
      have := (hr.facts c r' rfl).ne.2.2.2.1
      split
      · rename_i r2 e; cases e; exact absurd rfl this
      · simp [hpos]
  · simp only [hs, if_false, List.append_assoc, List.cons_append]
    have hk := countWhile_append isDigit ip ('.' :: (fp ++ r)) hp.ipDigits (by intro c r' e; cases e; exact dot_not_digit)
    have hm := countWhile_append isDigit fp r hp.fpDigits hr.notDigit
    have hfl : 0 < fp.length := by rw [hp.fpLen]; omega
    simp only [matchFrac, hk, List.drop_left', hm, hfl, if_true, List.length_append, List.length_cons]
    simp; omega

theorem dec_step_sep (d : Dec) (r : Str) (hr : Sep r) :
    step ('d' :: showDec d ++ r) = some (some (.dec ('d' :: showDec d)), r) := by
  obtain ⟨ip, fp, hp⟩ := decParts d
  obtain ⟨a, ip', hip, ha, hm, hpl, hdot⟩ := head_digit hp.ipDigits hp.ipNe
  have hmf := matchFrac_body_sep d ip fp r hp hr
  generalize hB : (if d.scale = 0 then ip else ip ++ '.' :: fp) = B at hmf
  have hBhead : ∃ B', B = a :: B' := by
    subst hB; subst hip
    by_cases hs : d.scale = 0 <;> simp [hs]
  obtain ⟨B', hB'⟩ := hBhead
  have hidc : countWhile isIdc (B ++ r) ≤ B.length := by
    subst hB
    by_cases hs : d.scale = 0
    · simp only [hs, if_true]
      rw [countWhile_append isIdc ip r (all_digit_idc hp.ipDigits) hr.notIdc]; exact Nat.le_refl _
    · simp only [hs, if_false, List.append_assoc, List.cons_append]
      rw [countWhile_append isIdc ip ('.' :: (fp ++ r)) (all_digit_idc hp.ipDigits) (by intro c r' e; cases e; decide)]
      simp
  rw [hp.body, hB]
  cases hn : d.neg
  · simp only [Bool.false_eq_true, if_false, List.nil_append]
    have hnum : matchNum 'd' (B ++ r) = some B.length := by
      subst hB'
      simp only [List.cons_append] at hmf ⊢
      simp [matchNum, hm, hpl, hmf]
    simp [step, Str.isWhite, isAlpha, stepWord, hnum, hidc, mkNum, List.take_left', List.drop_left']
  · simp only [if_true, List.cons_append, List.nil_append]
    have hnum : matchNum 'd' ('-' :: (B ++ r)) = some (1 + B.length) := by
      simp [matchNum, hmf]
    simp [step, Str.isWhite, isAlpha, stepWord, hnum, countWhile, isIdc, isDigit, mkNum, List.take_left', List.drop_left',
      List.take_succ_cons, Nat.add_comm]

/-- single-character punctuation followed by a separator; a `/` must not be followed by the `/` of a comment -/
theorem step_punct1_sep (c : Char) (r : Str) (hc : c ∈ p1Chars) (hr : Sep r) (hslash : c = '/' → ∀ r', r ≠ '/' :: r') :
    step (c :: r) = some (some (.p [c]), r) := by
  by_cases hcs : c = '/'
  · subst hcs
    cases r with
    | nil => simp [step, stepPunct, punct1, Str.isWhite, isAlpha, isDigit]
    | cons d r' =>
      have h1 : d ≠ '/' := fun e => hslash rfl r' (by rw [e])
      have h2 := (hr.facts d r' rfl).ne.1
      simp [step, stepPunct, punct1, punct2, Str.isWhite, isAlpha, isDigit, h1, h2]
  · cases r with
    | nil => exact step_punct1 c [] hc (by intro d r' e; cases e)
    | cons d r' =>
      have h2 := (hr.facts d r' rfl).ne.1
      simp only [p1Chars, List.mem_cons, List.not_mem_nil, or_false] at hc
      rcases hc with rfl | rfl | rfl | rfl | rfl | rfl | rfl | rfl | rfl | rfl | rfl | rfl | rfl | rfl | rfl | rfl | rfl | rfl | rfl | rfl <;>
        first
        | exact absurd rfl hcs
        | simp [step, stepPunct, punct1, punct2, Str.isWhite, isAlpha, isDigit, h2]

/-! ### gaps -/

/-- one piece of layout: a White_Space character, or a `//` comment with the run of line-end characters that ends it -/
inductive Piece where
  | white (c : Char)
  | comment (body : Str) (eol : Str)

def Piece.OK : Piece → Prop
  | .white c => Str.isWhite c = true
  | .comment body eol => body.all (fun ch => !isEol ch) = true ∧ eol ≠ [] ∧ eol.all isEol = true

def Piece.text : Piece → Str
  | .white c => [c]
  | .comment body eol => '/' :: '/' :: (body ++ eol)

def gapText : List Piece → Str
  | [] => []
  | p :: ps => p.text ++ gapText ps

/-- the pieces that remain after the lexer's `\s*` has eaten leading white space -/
def dropW : List Piece → List Piece
  | .white _ :: ps => dropW ps
  | ps => ps

/-- … after a comment's `[\n\r]*` has eaten leading line ends -/
def dropE : List Piece → List Piece
  | .white c :: ps => if isEol c then dropE ps else .white c :: ps
  | ps => ps

theorem dropW_len (ps : List Piece) : (dropW ps).length ≤ ps.length := by
  induction ps with
  | nil => simp [dropW]
  | cons p ps ih => cases p <;> simp [dropW] <;> omega

theorem dropE_len (ps : List Piece) : (dropE ps).length ≤ ps.length := by
  induction ps with
  | nil => simp [dropE]
  | cons p ps ih =>
    cases p with
    | white c => simp only [dropE]; split <;> simp <;> omega
    | comment b e => simp [dropE]

theorem dropW_ok (ps : List Piece) (h : ∀ p ∈ ps, p.OK) : ∀ p ∈ dropW ps, p.OK := by
  induction ps with
  | nil => simpa [dropW] using h
  | cons p ps ih =>
    cases p with
    | white c => simp only [dropW]; exact ih (fun q hq => h q (List.mem_cons_of_mem _ hq))
    | comment b e => simpa [dropW] using h

theorem dropE_ok (ps : List Piece) (h : ∀ p ∈ ps, p.OK) : ∀ p ∈ dropE ps, p.OK := by
  induction ps with
  | nil => simpa [dropE] using h
  | cons p ps ih =>
    cases p with
    | white c =>
      simp only [dropE]
      split
      · exact ih (fun q hq => h q (List.mem_cons_of_mem _ hq))
      · exact h
    | comment b e => simpa [dropE] using h

theorem eol_white {c : Char} (h : isEol c = true) : Str.isWhite c = true := by
  simp only [isEol, Bool.or_eq_true, beq_iff_eq] at h
  rcases h with rfl | rfl <;> decide

theorem dropWhile_white_gap (ps : List Piece) (r : Str) (h : ∀ p ∈ ps, p.OK) (hr : ∀ c r', r = c :: r' → Str.isWhite c = false) :
    (gapText ps ++ r).dropWhile Str.isWhite = gapText (dropW ps) ++ r := by
  induction ps with
  | nil =>
    simp only [gapText, dropW, List.nil_append]
    cases r with
    | nil => rfl
    | cons c r' => simp [List.dropWhile, hr c r' rfl]
  | cons p ps ih =>
    have hp := h p List.mem_cons_self
    cases p with
    | white c =>
      simp only [Piece.OK] at hp
      simp only [gapText, Piece.text, dropW, List.cons_append, List.nil_append, List.dropWhile, hp]
      exact ih (fun q hq => h q (List.mem_cons_of_mem _ hq))
    | comment b e =>
      simp [gapText, Piece.text, dropW, List.dropWhile, Str.isWhite]

theorem dropWhile_eol_gap (ps : List Piece) (r : Str) (h : ∀ p ∈ ps, p.OK) (hr : ∀ c r', r = c :: r' → Str.isWhite c = false) :
    (gapText ps ++ r).dropWhile isEol = gapText (dropE ps) ++ r := by
  induction ps with
  | nil =>
    simp only [gapText, dropE, List.nil_append]
    cases r with
    | nil => rfl
    | cons c r' =>
      have : isEol c = false := by
        cases he : isEol c
        · rfl
        · have := hr c r' rfl; rw [eol_white he] at this; cases this
      simp [List.dropWhile, this]
  | cons p ps ih =>
    cases p with
    | white c =>
      simp only [gapText, Piece.text, dropE, List.cons_append, List.nil_append, List.dropWhile]
      cases he : isEol c
      · simp [gapText, Piece.text]
      · simp only [if_true]
        exact ih (fun q hq => h q (List.mem_cons_of_mem _ hq))
    | comment b e =>
      simp [gapText, Piece.text, dropE, List.dropWhile, isEol]

theorem dropWhile_all (p : Char → Bool) (w r : Str) (hw : w.all p = true) : (w ++ r).dropWhile p = r.dropWhile p := by
  induction w with
  | nil => rfl
  | cons a w ih =>
    simp only [List.all_cons, Bool.and_eq_true] at hw
    simp [List.dropWhile, hw.1, ih hw.2]

/-- a more general skip rule: one step that produces no token and consumes at least one character -/
theorem Lexes.skip_gen {s s' : Str} {T : List Tok} (hs : step s = some (none, s')) (hlen : s'.length < s.length)
    (h : Lexes s' T) : Lexes s T := by
  intro f hf
  cases s with
  | nil => simp at hlen
  | cons c cs =>
    cases f with
    | zero => simp at hf
    | succ f =>
      rw [lexAux_succ_skip f c cs s' hs]
      exact h f (by simp at hf hlen; omega)

theorem gapText_len (ps : List Piece) : (gapText (dropW ps)).length ≤ (gapText ps).length ∧ (gapText (dropE ps)).length ≤ (gapText ps).length := by
  induction ps with
  | nil => simp [dropW, dropE]
  | cons p ps ih =>
    cases p with
    | white c =>
      simp only [dropW, dropE, gapText, Piece.text, List.cons_append, List.nil_append, List.length_cons]
      constructor
      · omega
      · split
        · omega
        · simp [gapText, Piece.text]
    | comment b e => simp [dropW, dropE]

/-- **a gap is skipped whole**, whatever it consists of -/
theorem lexes_gap : ∀ (n : Nat) (ps : List Piece) (r : Str) (T : List Tok), ps.length ≤ n → (∀ p ∈ ps, p.OK) →
    (∀ c r', r = c :: r' → Str.isWhite c = false) → Lexes r T → Lexes (gapText ps ++ r) T := by
  intro n
  induction n with
  | zero =>
    intro ps r T hn _ _ hT
    have : ps = [] := List.eq_nil_of_length_eq_zero (Nat.le_zero.mp hn)
    subst this; simpa [gapText] using hT
  | succ n ih =>
    intro ps r T hn hok hr hT
    cases ps with
    | nil => simpa [gapText] using hT
    | cons p ps =>
      have hok' : ∀ q ∈ ps, q.OK := fun q hq => hok q (List.mem_cons_of_mem _ hq)
      have hp := hok p List.mem_cons_self
      cases p with
      | white c =>
        simp only [Piece.OK] at hp
        have hstep : step (c :: (gapText ps ++ r)) = some (none, gapText (dropW ps) ++ r) := by
          simp [step, hp, dropWhile_white_gap ps r hok' hr]
        have hl := (gapText_len ps).1
        refine Lexes.skip_gen (s := gapText (.white c :: ps) ++ r) (by simpa [gapText, Piece.text] using hstep)
          (by simp [gapText, Piece.text]; omega) ?_
        exact ih (dropW ps) r T (by have := dropW_len ps; simp at hn; omega) (dropW_ok ps hok') hr hT
      | comment b e =>
        obtain ⟨hb, hne, he⟩ := hp
        have hdrop1 : (b ++ (e ++ (gapText ps ++ r))).dropWhile (fun ch => !isEol ch) = e ++ (gapText ps ++ r) := by
          refine (takeWhile_append_stop (fun ch => !isEol ch) b (e ++ (gapText ps ++ r)) hb ?_).2
          intro c r' hc
          cases e with
          | nil => exact absurd rfl hne
          | cons x e' =>
            simp only [List.cons_append, List.cons.injEq] at hc
            simp only [List.all_cons, Bool.and_eq_true] at he
            rw [← hc.1]; simp [he.1]
        have hstep : step ('/' :: '/' :: (b ++ e ++ (gapText ps ++ r))) = some (none, gapText (dropE ps) ++ r) := by
          simp only [step, List.append_assoc]
          simp [Str.isWhite, hdrop1, dropWhile_all isEol e _ he, dropWhile_eol_gap ps r hok' hr]
        have hl := (gapText_len ps).2
        refine Lexes.skip_gen (s := gapText (.comment b e :: ps) ++ r) (by simpa [gapText, Piece.text, List.append_assoc] using hstep)
          (by simp [gapText, Piece.text]; omega) ?_
        exact ih (dropE ps) r T (by have := dropE_len ps; simp at hn; omega) (dropE_ok ps hok') hr hT

/-! ### tokens separated by arbitrary gaps -/

/-- a token together with its text: keywords, identifiers, INDEX numbers, integer, decimal and string literals as the
    printer writes them, punctuation and operators -/
inductive PTok : Tok → Str → Prop
  | kw (w : Str) (h : KwText w) : PTok (.kw w) w
  | ident (n : Str) (h : NameOK n) : PTok (.ident n) n
  | index (a : Char) (D : Str) (ha : isDigit a = true) (hD : D.all isDigit = true) : PTok (.index (a :: D)) (a :: D)
  | int (D : Str) (neg : Bool) (hD : D.all isDigit = true) (hne : D ≠ []) :
      PTok (.int ('i' :: (if neg then '-' :: D else D))) ('i' :: (if neg then '-' :: D else D))
  | dec (d : Dec) : PTok (.dec ('d' :: showDec d)) ('d' :: showDec d)
  | str (s : Str) : PTok (.str ('"' :: escapeStr s ++ ['"'])) ('"' :: escapeStr s ++ ['"'])
  | p1 (c : Char) (hc : c ∈ p1Chars) : PTok (.p [c]) [c]
  | p2 (c : Char) (hc : c ∈ ['=', '!', '>', '<']) : PTok (.p [c, '=']) [c, '=']

theorem ptok_step {t : Tok} {w : Str} (h : PTok t w) {r : Str} (hr : Sep r) (hslash : w = ['/'] → ∀ r', r ≠ '/' :: r') :
    step (w ++ r) = some (some t, r) := by
  cases h with
  | kw w h =>
    obtain ⟨hk, c, rest, rfl, hc, hrest, hnum, _⟩ := h
    have := step_word_sep c rest r hc hrest (NumFree.old hnum) hr
    simp only [wordOf, hk, if_true] at this
    exact this
  | ident n h =>
    obtain ⟨c, rest, rfl, hc, hrest, hnum, hkw⟩ := h
    have := step_word_sep c rest r hc hrest hnum hr
    simp only [wordOf, hkw, Bool.false_eq_true, if_false] at this
    exact this
  | index a D ha hD => exact step_index_sep a D r ha hD hr
  | int D neg hD hne => exact step_int_sep D r neg hD hne hr
  | dec d => exact dec_step_sep d r hr
  | str s => simpa [List.append_assoc] using step_string s r
  | p1 c hc => exact step_punct1_sep c r hc hr (fun e => hslash (by rw [e]))
  | p2 c hc => exact step_punct2 c r hc

theorem ptok_head {t : Tok} {w : Str} (h : PTok t w) : ∃ c w', w = c :: w' ∧ Str.isWhite c = false := by
  cases h with
  | kw w h => obtain ⟨_, c, rest, rfl, hc, _⟩ := h; exact ⟨c, rest, rfl, alpha_not_white hc⟩
  | ident n h => obtain ⟨c, rest, rfl, hc, _⟩ := h; exact ⟨c, rest, rfl, alpha_not_white hc⟩
  | index a D ha hD => exact ⟨a, D, rfl, (digit_not_alpha_white ha).2⟩
  | int D neg hD hne => exact ⟨'i', _, rfl, by decide⟩
  | dec d => exact ⟨'d', _, rfl, by decide⟩
  | str s => exact ⟨'"', _, rfl, by decide⟩
  | p1 c hc =>
    refine ⟨c, [], rfl, ?_⟩
    simp only [p1Chars, List.mem_cons, List.not_mem_nil, or_false] at hc
    rcases hc with rfl | rfl | rfl | rfl | rfl | rfl | rfl | rfl | rfl | rfl | rfl | rfl | rfl | rfl | rfl | rfl | rfl | rfl | rfl | rfl <;> decide
  | p2 c hc =>
    refine ⟨c, ['='], rfl, ?_⟩
    simp only [List.mem_cons, List.not_mem_nil, or_false] at hc
    rcases hc with rfl | rfl | rfl | rfl <;> decide

/-- a `/` token is not followed directly by a comment (`///…` is one comment: the lexer's one layout exception) -/
def SlashOK (w : Str) (g : List Piece) : Prop := w = ['/'] → ∀ b e g', g ≠ .comment b e :: g'

/-- the text: every token followed by its gap -/
def gapped : List (Tok × Str × List Piece) → Str
  | [] => []
  | (_, w, g) :: rest => w ++ (gapText g ++ gapped rest)

/-- every token is of the vocabulary, every gap consists of well-formed pieces, and every gap but the last is non-empty -/
def GappedOK : List (Tok × Str × List Piece) → Prop
  | [] => True
  | (t, w, g) :: rest => PTok t w ∧ (∀ p ∈ g, p.OK) ∧ SlashOK w g ∧ (rest ≠ [] → g ≠ []) ∧ GappedOK rest

theorem gapped_head (items : List (Tok × Str × List Piece)) (h : GappedOK items) :
    ∀ c r', gapped items = c :: r' → Str.isWhite c = false := by
  cases items with
  | nil => intro c r' e; cases e
  | cons it rest =>
    obtain ⟨t, w, g⟩ := it
    obtain ⟨c0, w', rfl, hc0⟩ := ptok_head h.1
    intro c r' e
    simp only [gapped, List.cons_append, List.cons.injEq] at e
    rw [← e.1]; exact hc0

theorem sep_gap (g : List Piece) (hg : ∀ p ∈ g, p.OK) (rest : Str) (hne : rest ≠ [] → g ≠ []) : Sep (gapText g ++ rest) := by
  cases g with
  | nil =>
    cases rest with
    | nil => trivial
    | cons c r => exact absurd rfl (hne (by simp))
  | cons p ps =>
    have hp := hg p List.mem_cons_self
    cases p with
    | white c => exact Or.inl hp
    | comment b e => exact Or.inr rfl

theorem lexes_gapped : ∀ (items : List (Tok × Str × List Piece)), GappedOK items →
    Lexes (gapped items) (items.map (·.1)) := by
  intro items
  induction items with
  | nil => intro _; exact Lexes.nil
  | cons it rest ih =>
    intro h
    obtain ⟨t, w, g⟩ := it
    obtain ⟨hp, hg, hsl, hne, hrest⟩ := h
    have ihr := ih hrest
    have hgap := lexes_gap g.length g (gapped rest) _ (Nat.le_refl _) hg (gapped_head rest hrest) ihr
    obtain ⟨c0, w', hw, _⟩ := ptok_head hp
    have hsep : Sep (gapText g ++ gapped rest) := sep_gap g hg (gapped rest) (by
      intro hr
      apply hne
      intro e; subst e; exact hr rfl)
    have hstep := ptok_step hp hsep (by
      intro e r' hr'
      cases g with
      | nil =>
        -- an empty gap: the next token would follow directly; excluded unless this is the last token
        cases rest with
        | nil => simp [gapText, gapped] at hr'
        | cons it2 rest2 => exact absurd rfl (hne (by simp))
      | cons p ps =>
        cases p with
        | white c =>
          have := hg _ List.mem_cons_self
          simp only [gapText, Piece.text, List.cons_append, List.nil_append, List.cons.injEq] at hr'
          rw [hr'.1] at this
          simp only [Piece.OK] at this
          exact absurd this (by decide)
        | comment b e2 => exact hsl e b e2 ps rfl)
    simp only [gapped, List.map_cons]
    exact Lexes.tok (by rw [hw]; simp) hstep hgap

/-- **layout is insignificant**: any leading gap, then tokens each followed by any gap (non-empty between two tokens, a
    `/` not directly followed by a comment) — the text lexes to exactly those tokens, whatever the gaps are made of -/
theorem lex_gapped (lead : List Piece) (items : List (Tok × Str × List Piece)) (hl : ∀ p ∈ lead, p.OK)
    (h : GappedOK items) : lex (gapText lead ++ gapped items) = some (items.map (·.1)) :=
  (lexes_gap lead.length lead (gapped items) _ (Nat.le_refl _) hl (gapped_head items h) (lexes_gapped items h)).lex

end Reval.LexC
