/-
  Lemmas/IntDiv.lean — truncating division composes: (a ÷ b) ÷ c = a ÷ (b·c) for positive b, c (T-division).
-/
namespace Reval

theorem Int.tdiv_tdiv_nonneg (a b c : Int) (ha : 0 ≤ a) (hb : 0 < b) : Int.tdiv (Int.tdiv a b) c = Int.tdiv a (b * c) := by
  have h1 : 0 ≤ Int.tdiv a b := by rw [Int.tdiv_eq_ediv_of_nonneg ha]; exact Int.ediv_nonneg ha (Int.le_of_lt hb)
  rw [Int.tdiv_eq_ediv_of_nonneg h1, Int.tdiv_eq_ediv_of_nonneg ha, Int.tdiv_eq_ediv_of_nonneg ha,
    Int.ediv_ediv_of_nonneg (Int.le_of_lt hb)]

theorem Int.tdiv_tdiv_pos (a b c : Int) (hb : 0 < b) (_hc : 0 < c) : Int.tdiv (Int.tdiv a b) c = Int.tdiv a (b * c) := by
  by_cases ha : 0 ≤ a
  · exact Int.tdiv_tdiv_nonneg a b c ha hb
  · obtain ⟨m, hm, rfl⟩ : ∃ m : Int, 0 ≤ m ∧ a = -m := ⟨-a, by omega, by omega⟩
    rw [Int.neg_tdiv, Int.neg_tdiv, Int.neg_tdiv, Int.tdiv_tdiv_nonneg m b c hm hb]

end Reval
