/-
  Lemmas/Sorted.lean — `insertSorted` (BTreeMap::insert on a key-sorted association list) and `lookup`.
-/
import RevalModel.Prim.Basic

namespace Reval

theorem lookup_insertSorted_self {α} (k : Str) (v : α) (m : List (Str × α)) :
    lookup (insertSorted k v m) k = some v := by
  induction m with
  | nil => simp [insertSorted, lookup]
  | cons kv rest ih =>
    obtain ⟨k', v'⟩ := kv
    simp only [insertSorted]
    split
    · simp [lookup]
    · split
      · simp [lookup]
      · rename_i hne _
        simp only [lookup]
        rw [if_neg (fun e => hne e.symm)]
        exact ih

theorem lookup_insertSorted_other {α} (k k' : Str) (v : α) (m : List (Str × α)) (h : k' ≠ k) :
    lookup (insertSorted k v m) k' = lookup m k' := by
  induction m with
  | nil => simp [insertSorted, lookup, h.symm]
  | cons kv rest ih =>
    obtain ⟨k0, v0⟩ := kv
    simp only [insertSorted]
    split
    · rename_i heq; subst heq; simp [lookup, h.symm]
    · split
      · simp [lookup, h.symm]
      · simp only [lookup]
        split
        · rfl
        · exact ih

end Reval
