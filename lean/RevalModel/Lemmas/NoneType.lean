/-
  Lemmas/NoneType.lean — consequences of the table for C03 (no coercion) and C04 (None propagation),
  and the one-step unfoldings of `eval` that the property files use.
-/
import RevalModel.Lemmas.Table

namespace Reval

theorem ty_none_iff (v : Value) : v.ty = .none ↔ v = .none := by cases v <;> simp [Value.ty]

theorem tableBin_unsupported (o : Oracle) (op : BinOp) (a b : Value)
    (ha : a ≠ .none) (hb : b ≠ .none) (h : (a.ty, b.ty) ∉ op.sig) :
    tableBin o op a b = .err .invalidType := by
  have ha' : a.ty ≠ .none := fun e => ha ((ty_none_iff a).1 e)
  have hb' : b.ty ≠ .none := fun e => hb ((ty_none_iff b).1 e)
  unfold tableBin
  rw [if_neg h]
  split <;> simp [ha', hb']

theorem tableUn_unsupported (o : Oracle) (op : UnOp) (v : Value) (hv : v ≠ .none) (h : v.ty ∉ op.sig) :
    tableUn o op v = .err .invalidType := by
  have hv' : v.ty ≠ .none := fun e => hv ((ty_none_iff v).1 e)
  unfold tableUn
  rw [if_neg h, if_neg hv']

theorem peq_diff_ty (a b : Value) (h : a.ty ≠ b.ty) : Value.peq a b = false := by
  cases a <;> cases b <;> simp_all [Value.peq, Value.ty]

theorem peq_none_right (a : Value) (h : a ≠ .none) : Value.peq a .none = false := by
  cases a <;> simp_all [Value.peq]

/-! one-step unfoldings of `eval` on literal operands (state and events untouched) -/

theorem eval_lit (env : Env) (rp : List Nat) (v : Value) (st : St) : eval env rp (.lit v) st = (.ok v, st, []) := by
  simp [eval]

theorem eval_un_lit (env : Env) (rp : List Nat) (op : UnOp) (v : Value) (st : St) :
    eval env rp (.un op (.lit v)) st = (applyUn env.oracle op v, st, []) := by
  simp [eval]

theorem eval_bin_lit (env : Env) (rp : List Nat) (op : BinOp) (a b : Value) (st : St) :
    eval env rp (.bin op (.lit a) (.lit b)) st = (applyBin env.oracle op a b, st, []) := by
  simp [eval]

end Reval
