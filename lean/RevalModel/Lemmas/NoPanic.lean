/-
  Lemmas/NoPanic.lean — no operator of the model produces a `panic` outcome, and neither does evaluation.
-/
import RevalModel.Lemmas.Table

namespace Reval

@[simp] theorem ask_err_noPanic (o : Oracle) (op : FOp) (args : List Value) (e : Err) :
    (o.ask op args (.err e)).isPanic = false := by
  unfold Oracle.ask; split <;> simp

@[simp] theorem ask_frontier_noPanic (o : Oracle) (op : FOp) (args : List Value) (p : FOp) (a : List Value) :
    (o.ask op args (.frontier p a)).isPanic = false := by
  unfold Oracle.ask; split <;> simp

theorem decOut_noPanic (o : Oracle) (op : FOp) (args : List Value) (e : Err) (x : Dec.Out) :
    (Impl.decOut o op args e x).isPanic = false := by
  cases x <;> simp [Impl.decOut]

theorem ofOpt_noPanic (r : Option Int) (e : Err) (mk : Int → Value) : (ofOpt r e mk).isPanic = false := by
  cases r <;> simp [ofOpt]

theorem mkDuration_noPanic (u : Int) (v : Value) (i : Int) : (Impl.mkDuration u v i).isPanic = false := by
  unfold Impl.mkDuration; split <;> simp

theorem cellUn_noPanic (o : Oracle) (op : UnOp) (v : Value) : (cellUn o op v).isPanic = false := by
  cases op <;> cases v <;> simp [cellUn, ofOpt_noPanic, decOut_noPanic, mkDuration_noPanic] <;>
    (repeat' split) <;> simp_all [ofOpt_noPanic]

theorem applyUn_noPanic (o : Oracle) (op : UnOp) (v : Value) : (applyUn o op v).isPanic = false := by
  rw [applyUn_eq_table]; unfold tableUn
  split
  · exact cellUn_noPanic o op v
  · split <;> simp

theorem intCell_noPanic (op : BinOp) (a b : Int) : (intCell op a b).isPanic = false := by
  cases op <;> simp [intCell, ofOpt_noPanic]

theorem floatCell_noPanic (op : BinOp) (a b : F64) : (floatCell op a b).isPanic = false := by
  cases op <;> simp [floatCell]

theorem decCell_noPanic (o : Oracle) (op : BinOp) (a b : Dec) : (decCell o op a b).isPanic = false := by
  cases op <;> simp [decCell, decOut_noPanic] <;> split <;> simp

theorem boolCell_noPanic (op : BinOp) (a b : Bool) : (boolCell op a b).isPanic = false := by
  cases op <;> simp [boolCell]

theorem cellBin_noPanic (o : Oracle) (op : BinOp) (a b : Value) : (cellBin o op a b).isPanic = false := by
  cases a <;> cases b <;>
    simp [cellBin, intCell_noPanic, floatCell_noPanic, decCell_noPanic, boolCell_noPanic] <;>
    (repeat' split) <;> simp

theorem applyBin_noPanic (o : Oracle) (op : BinOp) (a b : Value) : (applyBin o op a b).isPanic = false := by
  rw [applyBin_eq_table]; unfold tableBin
  split
  · exact cellBin_noPanic o op a b
  · split <;> split <;> simp

theorem index_noPanic (v : Value) (i : Index) : (Impl.index v i).isPanic = false := by
  unfold Impl.index; split <;> simp

theorem reference_noPanic (env : Env) (n : Str) : (reference env n).isPanic = false := by
  unfold reference; (repeat' split) <;> simp

theorem symbol_noPanic (env : Env) (n : Str) : (symbol env n).isPanic = false := by
  unfold symbol; split <;> simp

theorem invokeFn_noPanic (fm : FnModel) (f : Str) (a : Value) (st : St) : (invokeFn fm f a st).1.isPanic = false := by
  unfold invokeFn; split <;> simp

theorem callFn_noPanic (env : Env) (f : Str) (a : Value) (st : St) : (callFn env f a st).1.isPanic = false := by
  unfold callFn
  split
  · simp
  · split
    · split
      · simp
      · split <;> simp
    · exact invokeFn_noPanic _ _ _ _

end Reval

namespace Reval

theorem callFn_noPanic' {env : Env} {f : Str} {a : Value} {st : St} {r : Res Value} {st2 : St} {ev : List Event}
    (h : callFn env f a st = (r, st2, ev)) : r.isPanic = false := by
  have := callFn_noPanic env f a st; rw [h] at this; exact this

theorem eval_noPanic_all (env : Env) :
    (∀ rp e st, (eval env rp e st).1.isPanic = false) ∧
    (∀ rp i kvs st, (evalMap env rp i kvs st).1.isPanic = false) ∧
    (∀ rp i es st, (evalList env rp i es st).1.isPanic = false) := by
  apply eval.mutual_induct env
    (motive_1 := fun rp e st => (eval env rp e st).1.isPanic = false)
    (motive_2 := fun rp i kvs st => (evalMap env rp i kvs st).1.isPanic = false)
    (motive_3 := fun rp i es st => (evalList env rp i es st).1.isPanic = false)
  all_goals (intros; simp only [eval, evalList, evalMap])
  all_goals first
    | (simp_all [applyUn_noPanic, applyBin_noPanic, index_noPanic, reference_noPanic, symbol_noPanic]; done)
    | (have := callFn_noPanic' ‹callFn _ _ _ _ = _›; simp_all; done)
    | (split <;> simp_all [applyUn_noPanic, applyBin_noPanic, index_noPanic]; done)

theorem eval_noPanic (env : Env) (rp : List Nat) (e : Expr) (st : St) :
    (eval env rp e st).1.isPanic = false := (eval_noPanic_all env).1 rp e st

end Reval
