/-
  Lemmas/SortedMap.lean — the map a map literal denotes (`G.collectMap`: BTreeMap collect) is key-sorted with distinct keys,
  is a fixed point of the collection, and holds only entries that were written.
-/
import RevalModel.Spec.Grammar
namespace Reval
open Reval.G

theorem Str.lt_irrefl : ∀ a : Str, Str.lt a a = false
  | [] => rfl
  | c :: cs => by simp [Str.lt, Str.lt_irrefl cs]

theorem Str.lt_asymm : ∀ a b : Str, Str.lt a b = true → Str.lt b a = false
  | [], [] => by simp [Str.lt]
  | [], _ :: _ => by simp [Str.lt]
  | _ :: _, [] => by simp [Str.lt]
  | a :: as, b :: bs => by
    simp only [Str.lt]
    intro h
    split at h
    · rename_i hlt; rw [if_neg (by omega), if_pos hlt]
    · split at h
      · cases h
      · rename_i h1 h2
        rw [if_neg h2, if_neg h1]; exact Str.lt_asymm as bs h

theorem Str.lt_trans : ∀ a b c : Str, Str.lt a b = true → Str.lt b c = true → Str.lt a c = true
  | [], [], _ => by simp [Str.lt]
  | [], _ :: _, [] => by simp [Str.lt]
  | [], _ :: _, _ :: _ => by simp [Str.lt]
  | _ :: _, [], _ => by simp [Str.lt]
  | _ :: _, _ :: _, [] => by simp [Str.lt]
  | a :: as, b :: bs, c :: cs => by
    simp only [Str.lt]
    intro h1 h2
    split at h1
    · split at h2
      · rw [if_pos (by omega)]
      · split at h2
        · cases h2
        · rw [if_pos (by omega)]
    · split at h1
      · cases h1
      · split at h2
        · rw [if_pos (by omega)]
        · split at h2
          · cases h2
          · rw [if_neg (by omega), if_neg (by omega)]; exact Str.lt_trans as bs cs h1 h2

theorem Str.lt_total : ∀ a b : Str, a ≠ b → Str.lt a b = false → Str.lt b a = true
  | [], [] => by simp
  | [], _ :: _ => by simp [Str.lt]
  | _ :: _, [] => by simp [Str.lt]
  | a :: as, b :: bs => by
    simp only [Str.lt]
    intro hne h
    split at h
    · cases h
    · split at h
      · rename_i h2; rw [if_pos h2]
      · rename_i h1 h2
        rw [if_neg h2, if_neg h1]
        have hab : a = b := Char.ext (UInt32.toNat_inj.mp (by simp only [Char.toNat] at h1 h2; omega))
        subst hab
        exact Str.lt_total as bs (fun e => hne (by rw [e])) h

/-- keys strictly increasing (pairwise) -/
def KeysSorted {α} (m : List (Str × α)) : Prop := m.Pairwise (fun a b => Str.lt a.1 b.1 = true)

theorem mem_insertSorted {α} (k : Str) (v : α) (m : List (Str × α)) (x : Str × α) (h : x ∈ insertSorted k v m) :
    x = (k, v) ∨ x ∈ m := by
  induction m with
  | nil => simp [insertSorted] at h; exact Or.inl h
  | cons kv rest ih =>
    obtain ⟨k', v'⟩ := kv
    simp only [insertSorted] at h
    split at h
    · rcases List.mem_cons.1 h with h | h
      · exact Or.inl h
      · exact Or.inr (List.mem_cons_of_mem _ h)
    · split at h
      · rcases List.mem_cons.1 h with h | h
        · exact Or.inl h
        · exact Or.inr h
      · rcases List.mem_cons.1 h with h | h
        · exact Or.inr (h ▸ List.mem_cons_self)
        · rcases ih h with h | h
          · exact Or.inl h
          · exact Or.inr (List.mem_cons_of_mem _ h)

theorem keysSorted_insert {α} (k : Str) (v : α) (m : List (Str × α)) (h : KeysSorted m) : KeysSorted (insertSorted k v m) := by
  induction m with
  | nil => simp [insertSorted, KeysSorted]
  | cons kv rest ih =>
    obtain ⟨k', v'⟩ := kv
    unfold KeysSorted at h ih ⊢
    rw [List.pairwise_cons] at h
    simp only [insertSorted]
    split
    · rename_i heq; subst heq
      rw [List.pairwise_cons]; exact ⟨h.1, h.2⟩
    · split
      · rename_i hlt
        rw [List.pairwise_cons]
        refine ⟨?_, List.pairwise_cons.2 h⟩
        intro x hx
        rcases List.mem_cons.1 hx with rfl | hx
        · exact hlt
        · exact Str.lt_trans _ _ _ hlt (h.1 x hx)
      · rename_i hne hnlt
        rw [List.pairwise_cons]
        refine ⟨?_, ih h.2⟩
        intro x hx
        rcases mem_insertSorted k v rest x hx with rfl | hx
        · exact Str.lt_total k k' hne (by simpa using hnlt)
        · exact h.1 x hx

theorem insertSorted_append {α} (k : Str) (v : α) (acc : List (Str × α)) (h : ∀ x ∈ acc, Str.lt x.1 k = true) :
    insertSorted k v acc = acc ++ [(k, v)] := by
  induction acc with
  | nil => rfl
  | cons kv rest ih =>
    obtain ⟨k', v'⟩ := kv
    have hlt := h (k', v') List.mem_cons_self
    have hne : k ≠ k' := fun e => by subst e; rw [Str.lt_irrefl] at hlt; cases hlt
    have hn : Str.lt k k' = false := Str.lt_asymm _ _ hlt
    simp only [insertSorted, hne, if_false, hn, Bool.false_eq_true, List.cons_append]
    rw [ih (fun x hx => h x (List.mem_cons_of_mem _ hx))]

theorem foldl_insert_sorted {α} (m acc : List (Str × α)) (h : KeysSorted (acc ++ m)) :
    m.foldl (fun a kv => insertSorted kv.1 kv.2 a) acc = acc ++ m := by
  induction m generalizing acc with
  | nil => simp
  | cons kv m ih =>
    simp only [List.foldl_cons]
    have hall : ∀ x ∈ acc, Str.lt x.1 kv.1 = true := by
      intro x hx
      unfold KeysSorted at h
      rw [List.pairwise_append] at h
      exact h.2.2 x hx kv List.mem_cons_self
    rw [insertSorted_append kv.1 kv.2 acc hall]
    have : acc ++ [(kv.1, kv.2)] ++ m = acc ++ kv :: m := by simp
    rw [ih _ (by rw [this]; exact h), this]

theorem keysSorted_foldl {α} (m acc : List (Str × α)) (h : KeysSorted acc) :
    KeysSorted (m.foldl (fun a kv => insertSorted kv.1 kv.2 a) acc) := by
  induction m generalizing acc with
  | nil => exact h
  | cons kv m ih => exact ih _ (keysSorted_insert kv.1 kv.2 acc h)

theorem mem_foldl_insert {α} (m acc : List (Str × α)) (x : Str × α)
    (h : x ∈ m.foldl (fun a kv => insertSorted kv.1 kv.2 a) acc) : x ∈ acc ∨ x ∈ m := by
  induction m generalizing acc with
  | nil => exact Or.inl h
  | cons kv m ih =>
    rcases ih _ h with h | h
    · rcases mem_insertSorted _ _ _ _ h with rfl | h
      · exact Or.inr List.mem_cons_self
      · exact Or.inl h
    · exact Or.inr (List.mem_cons_of_mem _ h)

namespace G
/-- the map a map literal denotes is sorted with distinct keys … -/
theorem collectMap_sorted (kvs : List (Str × Expr)) : KeysSorted (collectMap kvs) :=
  keysSorted_foldl kvs [] List.Pairwise.nil
/-- … it is a fixed point of the collection (printing it and collecting again changes nothing) … -/
theorem collectMap_idem (kvs : List (Str × Expr)) : collectMap (collectMap kvs) = collectMap kvs := by
  have := foldl_insert_sorted (collectMap kvs) [] (by simpa using collectMap_sorted kvs)
  simpa [collectMap] using this
/-- … and each of its entries is one of the entries written -/
theorem mem_collectMap (kvs : List (Str × Expr)) (x : Str × Expr) (h : x ∈ collectMap kvs) : x ∈ kvs := by
  rcases mem_foldl_insert kvs [] x h with h | h
  · cases h
  · exact h
end G
end Reval
