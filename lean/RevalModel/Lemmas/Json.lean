/-
  Lemmas/Json.lean — whenever `ValueSerializer` succeeds on JSON-representable data, the JSON reading of the image is
  `serde_json`'s image of the same data (`json_all`, by the functional induction principle of `serialize`).
-/
import RevalModel.Spec.Json

namespace Reval.JsonSpec
open Reval Reval.Ser

theorem toJsonFields_insert (k : Str) (x : Value) : ∀ acc : List (Str × Value),
    toJsonFields (insertSorted k x acc) = insertSorted k (toJson x) (toJsonFields acc) := by
  intro acc
  induction acc with
  | nil => simp [insertSorted, toJsonFields]
  | cons kv rest ih =>
    obtain ⟨k', v'⟩ := kv
    simp only [insertSorted, toJsonFields]
    split
    · simp [toJsonFields]
    · split
      · simp [toJsonFields]
      · simp [toJsonFields, ih]

theorem toJsonList_bytes (bs : List Nat) :
    toJsonList (bs.map (fun (b : Nat) => Value.int (Int.ofNat b))) =
      bs.map (fun (b : Nat) => if in64 (Int.ofNat b) then Json.int (Int.ofNat b) else .unrep) := by
  induction bs with
  | nil => simp [toJsonList]
  | cons b bs ih => simp only [List.map_cons, toJsonList, toJson, ih]

theorem Res.map_eq_ok {α β} (f : α → β) (r : Res α) (y : β) : Res.map f r = .ok y ↔ ∃ a, r = .ok a ∧ f a = y := by
  cases r <;> simp [Res.map]

theorem json_all :
    (∀ v x, serialize v = .ok x → JsonRep v = true → jsonOf v = toJson x) ∧
    (∀ fs acc m, serializeFields fs acc = .ok m → JsonRepFields fs = true → jsonOfFields fs (toJsonFields acc) = toJsonFields m) ∧
    (∀ kvs acc m, serializeEntries kvs acc = .ok m → JsonRepEntries kvs = true → jsonOfEntries kvs (toJsonFields acc) = .obj (toJsonFields m)) ∧
    (∀ xs vs, serializeList xs = .ok vs → JsonRepList xs = true → jsonOfList xs = toJsonList vs) := by
  have key := serialize.mutual_induct
    (fun v => ∀ x, serialize v = .ok x → JsonRep v = true → jsonOf v = toJson x)
    (fun fs acc => ∀ m, serializeFields fs acc = .ok m → JsonRepFields fs = true → jsonOfFields fs (toJsonFields acc) = toJsonFields m)
    (fun kvs acc => ∀ m, serializeEntries kvs acc = .ok m → JsonRepEntries kvs = true → jsonOfEntries kvs (toJsonFields acc) = .obj (toJsonFields m))
    (fun xs => ∀ vs, serializeList xs = .ok vs → JsonRepList xs = true → jsonOfList xs = toJsonList vs)
  apply key <;> clear key
  case case32 =>
    intro k v rest acc ks hk x hx ihv ihrest m hm hrep
    cases k <;> simp [keyString] at hk
    subst hk
    simp only [JsonRepEntries, Bool.and_eq_true] at hrep
    simp only [serializeEntries, keyString, hx] at hm
    simp only [jsonOfEntries, ihv x hx hrep.1.2, ← toJsonFields_insert]
    exact ihrest m hm hrep.2
  all_goals (intros <;>
    simp_all [serialize, serializeList, serializeEntries, serializeFields, jsonOf, jsonOfList,
        jsonOfEntries, jsonOfFields, JsonRep, JsonRepList, JsonRepEntries, JsonRepFields,
        Res.map_eq_ok, keyString] <;>
    (try subst_vars) <;>
    (try simp_all [toJson, toJsonList, toJsonFields, toJsonFields_insert]))
  case case8 => exact (toJsonList_bytes _).symm
  all_goals (obtain ⟨a, h1, rfl⟩ := ‹∃ _, _›; simp_all [toJson, toJsonFields])
end Reval.JsonSpec
